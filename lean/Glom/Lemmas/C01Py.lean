import Glom.Spec.C01Reg
/-
  Helper lemmas about the extended access kernel of C01: `int()` parsing,
  namedtuple fields, and that the extension is conservative over the
  first-generation kernel.
-/
namespace Glom.C01
open Glom

/-! ### `int()` -/

theorem digitsGo_digits (ds : List Nat) (rest : List Tok) (acc n : Nat) :
    digitsGo (ds.map Tok.dig ++ rest) acc n = digitsGo rest (ofDigits ds acc) (n + ds.length) := by
  induction ds generalizing acc n with
  | nil => simp [ofDigits]
  | cons d ds ih =>
    simp only [List.map_cons, List.cons_append, digitsGo, List.length_cons]
    rw [ih]
    simp only [ofDigits, List.foldl_cons]
    congr 1; omega

theorem digitsGo_sp (post : List Tok) (hp : allSp post = true) (acc n : Nat) :
    digitsGo post acc n = (acc, n, post) := by
  cases post with
  | nil => simp [digitsGo]
  | cons t r =>
    cases t <;> simp [allSp] at hp
    simp [digitsGo]

theorem dropSp_append (pre x : List Tok) (hp : allSp pre = true) : dropSp (pre ++ x) = dropSp x := by
  induction pre with
  | nil => rfl
  | cons t r ih =>
    cases t <;> simp [allSp] at hp
    simp only [List.cons_append, dropSp]
    exact ih hp

theorem intOfToks_digits (m d : Nat) (ds : List Nat) :
    intOfToks m ((d :: ds).map Tok.dig) =
      if m != 0 && ds.length + 1 > m then none else some ((ofDigits ds d : Nat) : Int) := by
  have hg := digitsGo_digits ds [] d 1
  simp only [List.append_nil] at hg
  simp only [intOfToks, List.map_cons, dropSp, hg, digitsGo, allSp, if_true]
  rw [show 1 + ds.length = ds.length + 1 by omega]
  simp

theorem intOfToks_space_sign (m d : Nat) (ds : List Nat) (pre post : List Tok)
    (hpre : allSp pre = true) (hpost : allSp post = true) (neg : Bool) :
    intOfToks m (pre ++ Tok.sign neg :: (d :: ds).map Tok.dig ++ post) =
      (intOfToks m ((d :: ds).map Tok.dig)).map (fun i => if neg then -i else i) := by
  rw [intOfToks_digits]
  have hg := digitsGo_digits ds post d 1
  rw [digitsGo_sp post hpost] at hg
  simp only [intOfToks]
  rw [List.append_assoc, dropSp_append _ _ hpre]
  simp only [List.map_cons, List.cons_append, dropSp, hg, hpost, if_true]
  rw [show 1 + ds.length = ds.length + 1 by omega]
  split <;> simp

/-! ### namedtuple fields -/

theorem pyIndex_nat {α} (xs : List α) (i : Nat) : pyIndex xs (i : Int) = xs[i]? := by
  unfold pyIndex
  have h1 : ¬ ((i : Int) < 0) := by omega
  simp [h1]

theorem getattr_field_eq_item (k : KEnv) (h : Heap) (a : Nat) (c : String) (xs : List Val)
    (n : String) (i : Nat) (ha : h[a]? = some (.tuple c xs))
    (hnp : k.findMro c (fun ci => assocGet ci.props n) = none)
    (hf : k.findMro c (fun ci => indexOf? ci.fields n) = some i) (hi : i < xs.length) :
    pyGetattr2 k h (.ref a) (.str n) = pyGetitem2 k h (.ref a) (.int i) := by
  have hcls : Val.clsName h (.ref a) = c := by simp [Val.clsName, ha, Obj.cls]
  have hx : xs[i]? = some xs[i] := List.getElem?_eq_getElem hi
  simp only [pyGetattr2, pyGetitem2, modelled, ha, hcls, hnp, hf, tupleItems, hx, asIndex,
    pyIndex_nat, Option.isSome_some, Bool.not_true, Bool.false_eq_true, if_false]

/-! ### the extension is conservative -/

theorem infoOf_nil (k : KEnv) (hi : k.info = []) (c : String) : k.infoOf c = {} := by
  simp [KEnv.infoOf, hi]

theorem findMro_nil {α} (k : KEnv) (hi : k.info = []) (cls : String) (f : ClsInfo → Option α)
    (hf : f {} = none) : k.findMro cls f = none := by
  unfold KEnv.findMro
  rw [List.findSome?_eq_none_iff]
  intro c _
  rw [infoOf_nil k hi c]; exact hf

theorem getattr2_conservative (k : KEnv) (h : Heap) (cur : Val) (n : String)
    (hm : modelled h cur = true) (hi : k.info = [])
    (hn : k.hasClassAttr (cur.clsName h) n = false) :
    pyGetattr2 k h cur (.str n) = accOf (pyGetattr h cur (.str n)) := by
  have h1 := findMro_nil k hi (cur.clsName h) (fun ci => assocGet ci.props n) (by simp [assocGet])
  have h2 := findMro_nil k hi (cur.clsName h) (fun ci => indexOf? ci.fields n) (by simp [indexOf?])
  have h3 := findMro_nil k hi (cur.clsName h) (·.fallback) rfl
  have h4 : k.classAttr (cur.clsName h) n = none := by
    simpa [KEnv.hasClassAttr] using hn
  simp only [pyGetattr2, hm, h1, h2, h3, h4, Bool.not_true, Bool.false_eq_true, if_false]
  unfold pyGetattr instAttr
  cases cur with
  | ref a =>
    simp only
    cases ha : h[a]? with
    | none => simp [modelled, ha] at hm
    | some o =>
      cases o with
      | inst c attrs =>
        simp only [assocGet]
        cases attrs.find? (·.1 == n) with
        | none => simp [accOf]
        | some p => simp [accOf]
      | _ => simp [accOf]
  | _ => simp [accOf]

theorem getitem2_conservative (k : KEnv) (h : Heap) (cur key : Val)
    (hm : modelled h cur = true) (hi : k.info = []) (hk : scalarKey key = true) :
    pyGetitem2 k h cur key = accOf (pyGetitem h cur key) := by
  have hmk : modelled h key = true := by cases key <;> simp [scalarKey] at hk <;> simp [modelled]
  have hh : key.hashable h = true := by cases key <;> simp [scalarKey] at hk <;> simp [Val.hashable]
  have hmiss : ∀ c, k.findMro c (·.missing) = none := fun c => findMro_nil k hi c (·.missing) rfl
  simp only [pyGetitem2, hmk, Bool.not_true, Bool.false_eq_true, if_false]
  unfold pyGetitem
  cases cur with
  | ref a =>
    simp only
    cases ha : h[a]? with
    | none => simp [modelled, ha] at hm
    | some o =>
      cases o with
      | list c xs =>
        simp only
        cases asIndex key with
        | none => simp [accOf]
        | some i => simp only; cases pyIndex xs i <;> simp [accOf]
      | tuple c xs =>
        simp only
        cases asIndex key with
        | none => simp [accOf]
        | some i => simp only; cases pyIndex xs i <;> simp [accOf]
      | dict c es =>
        simp only [hh, if_true, hmiss]
        cases key <;> simp [scalarKey] at hk <;>
          (simp only; cases dictLookup es _ <;> simp [accOf])
      | set c xs => simp [accOf]
      | inst c attrs => simp [accOf]
  | str s =>
    simp only
    cases asIndex key with
    | none => simp [accOf]
    | some i => simp only; cases strIndex s i <;> simp [accOf]
  | none => simp [accOf]
  | bool b => simp [accOf]
  | int i => simp [accOf]
  | float f => simp [modelled] at hm
  | sent s => simp [modelled] at hm
  | ty s => simp [modelled] at hm
  | fn s => simp [modelled] at hm

end Glom.C01

namespace Glom.C01
open Glom

/-! ### `int()` extends the first-generation `[+-]?[0-9]+` -/

/-- what the interpreter tables must say about ASCII: the first decimal block is
    `0-9`, no block starts below it, and digits and signs are not whitespace -/
def PyRt.asciiOK (rt : PyRt) : Bool :=
  rt.zeros.head? == some 48 && rt.zeros.all (fun z => 48 ≤ z) &&
  (List.range 10).all (fun d => !rt.spaces.contains (48 + d)) &&
  !rt.spaces.contains 43 && !rt.spaces.contains 45

theorem isDigit_range (c : Char) (h : c.isDigit = true) : 48 ≤ c.toNat ∧ c.toNat < 58 := by
  simp only [Char.isDigit, Bool.and_eq_true, decide_eq_true_eq] at h
  have h1 : (48 : UInt32) ≤ c.val := h.1
  have h2 : c.val ≤ (57 : UInt32) := h.2
  have e1 : c.toNat = c.val.toNat := rfl
  rw [UInt32.le_iff_toNat_le] at h1 h2
  simp at h1 h2
  omega

theorem tok_digit (rt : PyRt) (hok : rt.asciiOK = true) (c : Char) (h : c.isDigit = true) :
    rt.tok c = .dig (c.toNat - 48) := by
  obtain ⟨h1, h2⟩ := isDigit_range c h
  simp only [PyRt.asciiOK, Bool.and_eq_true, beq_iff_eq, List.all_eq_true, Bool.not_eq_true',
    decide_eq_true_eq] at hok
  obtain ⟨⟨⟨⟨hz, _⟩, hsp⟩, _⟩, _⟩ := hok
  have hns : rt.spaces.contains c.toNat = false := by
    have := hsp (c.toNat - 48) (by simp; omega)
    rwa [show 48 + (c.toNat - 48) = c.toNat by omega] at this
  have hd : rt.digitVal c = some (c.toNat - 48) := by
    unfold PyRt.digitVal
    cases hzs : rt.zeros with
    | nil => rw [hzs] at hz; simp at hz
    | cons z zs =>
      rw [hzs] at hz
      simp only [List.head?_cons, Option.some.injEq] at hz
      subst hz
      simp [h1, h2]
  have hns' : ¬ c.toNat ∈ rt.spaces := by simpa using hns
  simp [PyRt.tok, hns', hd]

theorem tok_sign (rt : PyRt) (hok : rt.asciiOK = true) :
    rt.tok '+' = .sign false ∧ rt.tok '-' = .sign true := by
  simp only [PyRt.asciiOK, Bool.and_eq_true, beq_iff_eq, List.all_eq_true, Bool.not_eq_true',
    decide_eq_true_eq] at hok
  obtain ⟨⟨⟨⟨_, hz⟩, _⟩, hp⟩, hm⟩ := hok
  have hd : ∀ c : Char, c.toNat < 48 → rt.digitVal c = none := by
    intro c hc
    unfold PyRt.digitVal
    rw [List.findSome?_eq_none_iff]
    intro z hzm
    have := hz z hzm
    simp; omega
  have hp' : ¬ (43 : Nat) ∈ rt.spaces := by simpa using hp
  have hm' : ¬ (45 : Nat) ∈ rt.spaces := by simpa using hm
  constructor
  · simp [PyRt.tok, hp', hd '+' (by decide)]
  · simp [PyRt.tok, hm', hd '-' (by decide)]

theorem toks_digits (rt : PyRt) (hok : rt.asciiOK = true) (ds : List Char)
    (h : ds.all Char.isDigit = true) :
    ds.map rt.tok = (ds.map (fun c => c.toNat - 48)).map Tok.dig := by
  induction ds with
  | nil => rfl
  | cons c r ih =>
    simp only [List.all_cons, Bool.and_eq_true] at h
    simp only [List.map_cons, tok_digit rt hok c h.1, ih h.2]

theorem foldl_digits (ds : List Char) (acc : Nat) :
    ds.foldl (fun acc c => acc * 10 + (c.toNat - '0'.toNat)) acc =
      ofDigits (ds.map (fun c => c.toNat - 48)) acc := by
  induction ds generalizing acc with
  | nil => rfl
  | cons c r ih => simp only [List.foldl_cons, List.map_cons, ofDigits]; exact ih _

/-- on the strings the first-generation kernel reads (`[+-]?[0-9]+`) — within the
    digit limit — the extended `int()` reads the same number -/
theorem intOfStr_extends (rt : PyRt) (hok : rt.asciiOK = true) (s : String) (i : Int)
    (hlim : rt.maxDigits = 0 ∨ s.toList.length ≤ rt.maxDigits)
    (h1 : pyIntOfStr s = some i) : rt.intOfStr s = some i := by
  unfold pyIntOfStr at h1
  unfold PyRt.intOfStr
  obtain ⟨hplus, hminus⟩ := tok_sign rt hok
  -- the digits part, for any sign
  have key : ∀ (ds : List Char) (neg : Bool), ds.isEmpty = false → ds.all Char.isDigit = true →
      (rt.maxDigits = 0 ∨ ds.length ≤ rt.maxDigits) →
      intOfToks rt.maxDigits (Tok.sign neg :: ds.map rt.tok) =
        some (if neg then - ((ds.foldl (fun acc c => acc * 10 + (c.toNat - '0'.toNat)) 0 : Nat) : Int)
              else ((ds.foldl (fun acc c => acc * 10 + (c.toNat - '0'.toNat)) 0 : Nat) : Int)) ∧
      intOfToks rt.maxDigits (ds.map rt.tok) =
        some ((ds.foldl (fun acc c => acc * 10 + (c.toNat - '0'.toNat)) 0 : Nat) : Int) := by
    intro ds neg hne hall hl
    cases ds with
    | nil => simp at hne
    | cons c r =>
      rw [toks_digits rt hok _ hall, foldl_digits]
      simp only [List.map_cons]
      have hlen : ¬ (rt.maxDigits ≠ 0 ∧ (r.map (fun c => c.toNat - 48)).length + 1 > rt.maxDigits) := by
        simp only [List.length_map, List.length_cons] at hl ⊢
        omega
      have hd := intOfToks_digits rt.maxDigits (c.toNat - 48) (r.map (fun c => c.toNat - 48))
      have hs := intOfToks_space_sign rt.maxDigits (c.toNat - 48) (r.map (fun c => c.toNat - 48))
        [] [] rfl rfl neg
      simp only [List.map_cons, List.nil_append, List.append_nil] at hd hs
      have hcond : (rt.maxDigits != 0 && decide ((r.map (fun c => c.toNat - 48)).length + 1 > rt.maxDigits)) = false := by
        cases hb : (rt.maxDigits != 0 && decide ((r.map (fun c => c.toNat - 48)).length + 1 > rt.maxDigits)) with
        | false => rfl
        | true =>
          simp only [Bool.and_eq_true, bne_iff_ne, decide_eq_true_eq] at hb
          exact absurd hb hlen
      rw [hcond] at hd
      simp only [Bool.false_eq_true, if_false] at hd
      rw [hd] at hs
      simp only [ofDigits, List.foldl_cons, Nat.zero_mul, Nat.zero_add]
      refine ⟨?_, hd⟩
      rw [hs]; simp [ofDigits]
  simp only at h1
  have fin : ∀ (neg : Bool) (ds : List Char),
      (if ds.isEmpty = true then none
       else if ds.all Char.isDigit = true then
         some (if neg = true then - ((ds.foldl (fun acc c => acc * 10 + (c.toNat - '0'.toNat)) 0 : Nat) : Int)
               else ((ds.foldl (fun acc c => acc * 10 + (c.toNat - '0'.toNat)) 0 : Nat) : Int))
       else none) = some i →
      ds.isEmpty = false ∧ ds.all Char.isDigit = true ∧
        i = (if neg = true then - ((ds.foldl (fun acc c => acc * 10 + (c.toNat - '0'.toNat)) 0 : Nat) : Int)
             else ((ds.foldl (fun acc c => acc * 10 + (c.toNat - '0'.toNat)) 0 : Nat) : Int)) := by
    intro neg ds h
    split at h
    · contradiction
    · rename_i hne
      split at h
      · rename_i hall
        injection h with h
        exact ⟨by simpa using hne, hall, h.symm⟩
      · contradiction
  split at h1
  · rename_i ds hcs
    obtain ⟨hne, hall, hi⟩ := fin true ds h1
    have hl : rt.maxDigits = 0 ∨ ds.length ≤ rt.maxDigits := by
      rcases hlim with h | h
      · exact Or.inl h
      · rw [hcs] at h; simp at h; exact Or.inr (by omega)
    rw [hcs, List.map_cons, hminus, hi]
    simpa using (key ds true hne hall hl).1
  · rename_i ds hcs
    obtain ⟨hne, hall, hi⟩ := fin false ds h1
    have hl : rt.maxDigits = 0 ∨ ds.length ≤ rt.maxDigits := by
      rcases hlim with h | h
      · exact Or.inl h
      · rw [hcs] at h; simp at h; exact Or.inr (by omega)
    rw [hcs, List.map_cons, hplus, hi]
    simpa using (key ds false hne hall hl).1
  · obtain ⟨hne, hall, hi⟩ := fin false s.toList h1
    rw [hi]
    simpa using (key s.toList false hne hall hlim).2

end Glom.C01

namespace Glom.C01
open Glom

/-! ### lookup order of `getattr` -/

theorem getattr_descriptor_first (k : KEnv) (h : Heap) (cur : Val) (n : String) (b : Behav) (v : Val)
    (hm : modelled h cur = true)
    (hp : k.findMro (cur.clsName h) (fun i => assocGet i.props n) = some b)
    (hb : runBehav k h b cur (.str n) = .ok v) : pyGetattr2 k h cur (.str n) = .ok v := by
  simp only [pyGetattr2, hm, hp, hb, Bool.not_true, Bool.false_eq_true, if_false]

theorem getattr_instance_second (k : KEnv) (h : Heap) (cur : Val) (n : String) (v : Val)
    (hm : modelled h cur = true)
    (hp : k.findMro (cur.clsName h) (fun i => assocGet i.props n) = none)
    (hf : k.findMro (cur.clsName h) (fun i => indexOf? i.fields n) = none)
    (hi : instAttr h cur n = some v) : pyGetattr2 k h cur (.str n) = .ok v := by
  simp only [pyGetattr2, hm, hp, hf, hi, Bool.not_true, Bool.false_eq_true, if_false]

theorem getattr_plain_errors (k : KEnv) (h : Heap) (cur : Val) (n : String) (e : PyExc)
    (hp : k.findMro (cur.clsName h) (fun i => assocGet i.props n) = none)
    (hfb : k.findMro (cur.clsName h) (·.fallback) = none)
    (he : pyGetattr2 k h cur (.str n) = .err e) : e = exc "AttributeError" := by
  simp only [pyGetattr2, hp, hfb] at he
  split at he
  · contradiction
  · split at he
    · split at he
      · split at he <;> first | contradiction | (injection he)
      · contradiction
    · split at he
      · contradiction
      · split at he
        · contradiction
        · injection he with he; exact he.symm

end Glom.C01
