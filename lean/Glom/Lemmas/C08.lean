import Glom.Spec.C08
import Glom.Lemmas.Frames
/-
  C08 — the modes recorded at probes are the static ones: loop lemmas.
-/
set_option linter.unusedSimpArgs false
set_option linter.unusedSectionVars false
namespace Glom.Interp
open ScopeAlg

/-- `st'` extends the log of `st` by events whose probes all lie in `A` -/
def LogOK (A : List (Nat × Mode)) (st st' : St) : Prop :=
  ∃ evs, st'.log = st.log ++ evs ∧ ∀ x ∈ probesOf evs, x ∈ A

theorem LogOK.refl (A) (st : St) : LogOK A st st := ⟨[], by simp, by simp [probesOf]⟩

theorem LogOK.mono {A B st st'} (h : LogOK A st st') (hs : ∀ x ∈ A, x ∈ B) : LogOK B st st' := by
  obtain ⟨evs, h1, h2⟩ := h
  exact ⟨evs, h1, fun x hx => hs x (h2 x hx)⟩

theorem LogOK.trans {A st st' st''} (h1 : LogOK A st st') (h2 : LogOK A st' st'') : LogOK A st st'' := by
  obtain ⟨e1, a1, b1⟩ := h1
  obtain ⟨e2, a2, b2⟩ := h2
  refine ⟨e1 ++ e2, by rw [a2, a1, List.append_assoc], ?_⟩
  intro x hx
  simp only [probesOf, List.filterMap_append, List.mem_append] at hx
  rcases hx with hx | hx
  · exact b1 x hx
  · exact b2 x hx

theorem LogOK.of_eq_log {A st st'} (h : st'.log = st.log) : LogOK A st st' :=
  ⟨[], by simp [h], by simp [probesOf]⟩

theorem LogOK.call {A} (st : St) (n : String) (as : List V) :
    LogOK A st { st with log := st.log ++ [.call n as] } :=
  ⟨[.call n as], rfl, by simp [probesOf]⟩

theorem LogOK.probe {A} (st : St) (id : Nat) (m : Mode) (h : (id, m) ∈ A) :
    LogOK A st { st with log := st.log ++ [.probe id m] } :=
  ⟨[.probe id m], rfl, by simp [probesOf, h]⟩

section
variable {σ : Type} [ScopeAlg σ] [LawfulScope σ]

/-- every call `rec s t sc st` on a spec in `P`, in a scope whose mode is `m`,
    extends the log by probes in `A` only -/
def StepOK (rec : Rec σ) (m : Mode) (A : List (Nat × Mode)) (P : Spec → Prop) : Prop :=
  ∀ s t (sc : σ) st, P s → mode sc = m → LogOK A st (rec s t sc st).1

theorem nextScope_mode (cur : σ) (last : Option σ) : mode (nextScope cur last) = mode cur := by
  cases last <;> simp [nextScope, LawfulScope.mode_chain]

theorem tupleLoop_ok {rec : Rec σ} {m A P} (hrec : StepOK rec m A P) :
    ∀ (steps : List Spec) (res : V) (cur : σ) (last : Option σ) (st : St),
      mode cur = m → (∀ s ∈ steps, P s) → LogOK A st (tupleLoop rec steps res cur last st).1 := by
  intro steps
  induction steps with
  | nil => intro res cur last st _ _; simp [tupleLoop]; exact LogOK.refl _ _
  | cons s rest ih =>
    intro res cur last st hm hP
    simp only [tupleLoop]
    have hsc0 : mode (nextScope cur last) = m := by rw [nextScope_mode, hm]
    generalize nextScope cur last = sc at hsc0 ⊢
    have h1 := hrec s res sc st (hP s (by simp)) hsc0
    have hrest := fun r l st' => ih r sc l st' hsc0 (fun s' hs' => hP s' (by simp [hs']))
    rcases hr : rec s res sc st with ⟨st', r⟩
    rw [hr] at h1
    cases r with
    | error e => exact h1
    | ok p =>
      obtain ⟨nxt, c'⟩ := p
      cases nxt <;> first
        | exact h1.trans (hrest _ (some c') st')
        | exact h1

theorem listLoop_ok {rec : Rec σ} {m A P} (hrec : StepOK rec m A P) (sub : Spec) (hs : P sub)
    (sc : σ) (hm : mode sc = m) :
    ∀ (items acc : List V) (st : St), LogOK A st (listLoop rec sub sc items acc st).1 := by
  intro items
  induction items with
  | nil => intro acc st; simp [listLoop]; exact LogOK.refl _ _
  | cons it rest ih =>
    intro acc st
    simp only [listLoop]
    have h1 := hrec sub it sc st hs hm
    rcases hr : rec sub it sc st with ⟨st', r⟩
    rw [hr] at h1
    cases r with
    | error e => exact h1
    | ok p =>
      obtain ⟨v, c'⟩ := p
      cases v <;> first
        | exact h1.trans (ih _ st')
        | exact h1

theorem mapLoop_ok {rec : Rec σ} {m A P} (hrec : StepOK rec m A P) (target : V) (sc : σ) (hm : mode sc = m) :
    ∀ (specs : List Spec) (acc : List V) (st : St), (∀ s ∈ specs, P s) →
      LogOK A st (mapLoop rec target sc specs acc st).1 := by
  intro specs
  induction specs with
  | nil => intro acc st _; simp [mapLoop]; exact LogOK.refl _ _
  | cons s rest ih =>
    intro acc st hP
    simp only [mapLoop]
    have h1 := hrec s target sc st (hP s (by simp)) hm
    rcases hr : rec s target sc st with ⟨st', r⟩
    rw [hr] at h1
    cases r with
    | error e => exact h1
    | ok p => exact h1.trans (ih _ st' (fun s' hs' => hP s' (by simp [hs'])))

theorem kwLoop_ok {rec : Rec σ} {m A P} (hrec : StepOK rec m A P) (target : V) (sc : σ) (hm : mode sc = m) :
    ∀ (bs : List (String × Spec)) (acc : List (String × V)) (st : St), (∀ b ∈ bs, P b.2) →
      LogOK A st (kwLoop rec target sc bs acc st).1 := by
  intro bs
  induction bs with
  | nil => intro acc st _; simp [kwLoop]; exact LogOK.refl _ _
  | cons b rest ih =>
    obtain ⟨k, s⟩ := b
    intro acc st hP
    simp only [kwLoop]
    have h1 := hrec s target sc st (hP (k, s) (by simp)) hm
    rcases hr : rec s target sc st with ⟨st', r⟩
    rw [hr] at h1
    cases r with
    | error e => exact h1
    | ok p => exact h1.trans (ih _ st' (fun b' hb' => hP b' (by simp [hb'])))

theorem pairLoop_ok {p : Prims} {rec : Rec σ} {m A P} (hrec : StepOK rec m A P) (target : V) (sc : σ)
    (hm : mode sc = m) :
    ∀ (es : List (Spec × Spec)) (acc : List (V × V)) (st : St), (∀ e ∈ es, P e.1 ∧ P e.2) →
      LogOK A st (pairLoop p rec target sc es acc st).1 := by
  intro es
  induction es with
  | nil => intro acc st _; simp [pairLoop]; exact LogOK.refl _ _
  | cons e rest ih =>
    obtain ⟨ks, vs⟩ := e
    intro acc st hP
    simp only [pairLoop]
    have hk := hrec ks target sc st (hP (ks, vs) (by simp)).1 hm
    rcases hr : rec ks target sc st with ⟨st', r⟩
    rw [hr] at hk
    cases r with
    | error e => exact hk
    | ok pk =>
      obtain ⟨k, ck⟩ := pk
      dsimp only
      have hv := hrec vs target sc st' (hP (ks, vs) (by simp)).2 hm
      rcases hr2 : rec vs target sc st' with ⟨st'', r2⟩
      rw [hr2] at hv
      cases r2 with
      | error e => exact hk.trans hv
      | ok pv =>
        obtain ⟨v, cv⟩ := pv
        dsimp only
        split
        · exact (hk.trans hv).trans (ih _ st'' (fun e' he' => hP e' (by simp [he'])))
        · exact hk.trans hv

theorem dictLoop_ok {p : Prims} {rec : Rec σ} {m A P} (hrec : StepOK rec m A P) (target : V) (sc : σ)
    (hm : mode sc = m) :
    ∀ (es : List (Spec × Spec)) (acc : List (V × V)) (st : St), (∀ e ∈ es, P e.1 ∧ P e.2) →
      LogOK A st (dictLoop p rec target sc es acc st).1 := by
  intro es
  induction es with
  | nil => intro acc st _; simp [dictLoop]; exact LogOK.refl _ _
  | cons e rest ih =>
    obtain ⟨field, sub⟩ := e
    intro acc st hP
    have hrest := fun acc' st' => ih acc' st' (fun e' he' => hP e' (by simp [he']))
    have hv := hrec sub target sc st (hP (field, sub) (by simp)).2 hm
    have hkk := fun st' => hrec field target sc st' (hP (field, sub) (by simp)).1 hm
    unfold dictLoop
    rcases hr : rec sub target sc st with ⟨st', r⟩
    rw [hr] at hv
    cases r with
    | error e => exact hv
    | ok pv =>
      obtain ⟨val, c'⟩ := pv
      have key_case : ∀ (f : Spec), f = field →
          LogOK A st (match rec f target sc st' with
            | (st'', .error e) => ((st'', .error e) : St × Except Err (List (V × V)))
            | (st'', .ok (k, _)) =>
              if p.hashable k then dictLoop p rec target sc rest (dictSet p acc k val) st''
              else (st'', .error ⟨"TypeError"⟩)).1 := by
        intro f hf; subst hf
        have hk := hkk st'
        rcases hr2 : rec f target sc st' with ⟨st'', r2⟩
        rw [hr2] at hk
        cases r2 with
        | error e => exact hv.trans hk
        | ok pk =>
          simp only
          split
          · exact (hv.trans hk).trans (hrest _ st'')
          · exact hv.trans hk
      have lit_case : LogOK A st (match reify field with
            | some k => dictLoop p rec target sc rest (dictSet p acc k val) st'
            | Option.none => ((st', .error ⟨"Unsupported"⟩) : St × Except Err (List (V × V)))).1 := by
        split
        · exact hv.trans (hrest _ st')
        · exact hv
      cases val <;> first
        | exact hv.trans (hrest _ st')
        | (cases field <;> first | exact key_case _ rfl | exact lit_case)

theorem skipFunc_ok {A} (p : Prims) (sk : Skip) (v : V) (st : St) : LogOK A st (skipFunc p sk v st).1 := by
  cases sk with
  | never => exact LogOK.refl _ _
  | anyOf vs => exact LogOK.refl _ _
  | eq x => exact LogOK.refl _ _
  | pred n k =>
    simp only [skipFunc]
    split <;> exact LogOK.call st n [v]

theorem coalesceLoop_ok {p : Prims} {rec : Rec σ} {m A P} (hrec : StepOK rec m A P) (target : V) (sc : σ)
    (hm : mode sc = m) (sk : Skip) (skipExc : List String) :
    ∀ (subs : List Spec) (st : St), (∀ s ∈ subs, P s) →
      LogOK A st (coalesceLoop p rec target sc sk skipExc subs st).1 := by
  intro subs
  induction subs with
  | nil => intro st _; simp [coalesceLoop]; exact LogOK.refl _ _
  | cons s rest ih =>
    intro st hP
    have hrest := fun st' => ih st' (fun s' hs' => hP s' (by simp [hs']))
    simp only [coalesceLoop]
    have h1 := hrec s target sc st (hP s (by simp)) hm
    rcases hr : rec s target sc st with ⟨st', r⟩
    rw [hr] at h1
    cases r with
    | error e =>
      dsimp only
      split
      · exact h1.trans (hrest st')
      · exact h1
    | ok pv =>
      obtain ⟨ret, c⟩ := pv
      dsimp only
      have h2 : LogOK A st' (skipFunc p sk ret st').1 := skipFunc_ok p sk ret st'
      rcases hr2 : skipFunc p sk ret st' with ⟨st'', r2⟩
      rw [hr2] at h2
      cases r2 with
      | error e => exact h1.trans h2
      | ok b =>
        cases b
        · exact h1.trans h2
        · exact (h1.trans h2).trans (hrest st'')

theorem andLoop_ok {rec : Rec σ} {m A P} (hrec : StepOK rec m A P) (target : V) (sc : σ) (hm : mode sc = m) :
    ∀ (cs : List Spec) (res : V) (st : St), (∀ s ∈ cs, P s) →
      LogOK A st (andLoop rec target sc cs res st).1 := by
  intro cs
  induction cs with
  | nil => intro res st _; simp [andLoop]; exact LogOK.refl _ _
  | cons c rest ih =>
    intro res st hP
    simp only [andLoop]
    have h1 := hrec c target sc st (hP c (by simp)) hm
    rcases hr : rec c target sc st with ⟨st', r⟩
    rw [hr] at h1
    cases r with
    | error e => exact h1
    | ok pv => exact h1.trans (ih _ st' (fun s' hs' => hP s' (by simp [hs'])))

theorem orLoop_ok {p : Prims} {rec : Rec σ} {m A P} (hrec : StepOK rec m A P) (target : V) (sc : σ)
    (hm : mode sc = m) :
    ∀ (cs : List Spec) (st : St), (∀ s ∈ cs, P s) → LogOK A st (orLoop p rec target sc cs st).1 := by
  intro cs
  induction cs with
  | nil => intro st _; simp [orLoop]; exact LogOK.refl _ _
  | cons c rest ih =>
    intro st hP
    have h1 := hrec c target sc st (hP c (by simp)) hm
    cases rest with
    | nil =>
      simp only [orLoop]
      rcases hr : rec c target sc st with ⟨st', r⟩
      rw [hr] at h1
      cases r <;> exact h1
    | cons c2 rest2 =>
      simp only [orLoop]
      rcases hr : rec c target sc st with ⟨st', r⟩
      rw [hr] at h1
      cases r with
      | error e =>
        dsimp only
        split
        · exact h1.trans (ih st' (fun s' hs' => hP s' (by simp [hs'])))
        · exact h1
      | ok pv => exact h1

theorem switchLoop_ok {p : Prims} {rec : Rec σ} {m A P} (hrec : StepOK rec m A P) (target : V) (sc : σ)
    (hm : mode sc = m) :
    ∀ (cases : List (Spec × Spec)) (st : St), (∀ e ∈ cases, P e.1 ∧ P e.2) →
      LogOK A st (switchLoop p rec target sc cases st).1 := by
  intro cases
  induction cases with
  | nil => intro st _; simp [switchLoop]; exact LogOK.refl _ _
  | cons e rest ih =>
    obtain ⟨ks, vs⟩ := e
    intro st hP
    simp only [switchLoop]
    have hk := hrec ks target sc st (hP (ks, vs) (by simp)).1 hm
    rcases hr : rec ks target sc st with ⟨st', r⟩
    rw [hr] at hk
    cases r with
    | error e =>
      dsimp only
      split
      · exact hk.trans (ih st' (fun e' he' => hP e' (by simp [he'])))
      · exact hk
    | ok pk =>
      obtain ⟨k, c⟩ := pk
      dsimp only
      have hv := hrec vs target (chain sc c) st' (hP (ks, vs) (by simp)).2
        (by rw [LawfulScope.mode_chain, hm])
      rcases hr2 : rec vs target (chain sc c) st' with ⟨st'', r2⟩
      rw [hr2] at hv
      cases r2 <;> exact hk.trans hv

theorem altLoop_ok {p : Prims} {rec : Rec σ} {m A P} (hrec : StepOK rec m A P) (sc : σ) (hm : mode sc = m)
    (item : V) :
    ∀ (alts : List Spec) (last : Option Err) (st : St), (∀ s ∈ alts, P s) →
      LogOK A st (altLoop p rec sc item alts last st).1 := by
  intro alts
  induction alts with
  | nil => intro last st _; simp [altLoop]; exact LogOK.refl _ _
  | cons c rest ih =>
    intro last st hP
    simp only [altLoop]
    have h1 := hrec c item sc st (hP c (by simp)) hm
    rcases hr : rec c item sc st with ⟨st', r⟩
    rw [hr] at h1
    cases r with
    | ok pv => exact h1
    | error e =>
      dsimp only
      split
      · exact h1.trans (ih _ st' (fun s' hs' => hP s' (by simp [hs'])))
      · exact h1

theorem matchItemsLoop_ok {p : Prims} {rec : Rec σ} {m A P} (hrec : StepOK rec m A P) (sc : σ)
    (hm : mode sc = m) (alts : List Spec) (hP : ∀ s ∈ alts, P s) :
    ∀ (items acc : List V) (st : St), LogOK A st (matchItemsLoop p rec sc alts items acc st).1 := by
  intro items
  induction items with
  | nil => intro acc st; simp [matchItemsLoop]; exact LogOK.refl _ _
  | cons it rest ih =>
    intro acc st
    simp only [matchItemsLoop]
    have h1 := altLoop_ok (p := p) hrec sc hm it alts Option.none st hP
    rcases hr : altLoop p rec sc it alts Option.none st with ⟨st', r⟩
    rw [hr] at h1
    cases r with
    | error e => exact h1
    | ok v => exact h1.trans (ih _ st')

theorem zipLoop_ok {rec : Rec σ} {m A P} (hrec : StepOK rec m A P) (sc : σ) (hm : mode sc = m) :
    ∀ (ts : List V) (ss : List Spec) (acc : List V) (st : St), (∀ s ∈ ss, P s) →
      LogOK A st (zipLoop rec sc ts ss acc st).1 := by
  intro ts
  induction ts with
  | nil => intro ss acc st _; simp [zipLoop]; exact LogOK.refl _ _
  | cons t rest ih =>
    intro ss acc st hP
    cases ss with
    | nil => simp [zipLoop]; exact LogOK.refl _ _
    | cons s srest =>
      simp only [zipLoop]
      have h1 := hrec s t sc st (hP s (by simp)) hm
      rcases hr : rec s t sc st with ⟨st', r⟩
      rw [hr] at h1
      cases r with
      | error e => exact h1
      | ok pv => exact h1.trans (ih _ _ st' (fun s' hs' => hP s' (by simp [hs'])))

theorem matchKeyLoop_ok {p : Prims} {rec : Rec σ} {m A P} (hrec : StepOK rec m A P) (sc : σ)
    (hm : mode sc = m) (key val : V) :
    ∀ (spec : List (Spec × Spec)) (st : St), (∀ e ∈ spec, P e.1 ∧ P e.2) →
      LogOK A st (matchKeyLoop p rec sc key val spec st).1 := by
  intro spec
  induction spec with
  | nil => intro st _; simp [matchKeyLoop]; exact LogOK.refl _ _
  | cons e rest ih =>
    obtain ⟨ks, vs⟩ := e
    intro st hP
    simp only [matchKeyLoop]
    have hk := hrec ks key sc st (hP (ks, vs) (by simp)).1 hm
    rcases hr : rec ks key sc st with ⟨st', r⟩
    rw [hr] at hk
    cases r with
    | error e =>
      dsimp only
      split
      · exact hk.trans (ih st' (fun e' he' => hP e' (by simp [he'])))
      · exact hk
    | ok pk =>
      obtain ⟨k, c⟩ := pk
      dsimp only
      have hv := hrec vs val (chain sc c) st' (hP (ks, vs) (by simp)).2
        (by rw [LawfulScope.mode_chain, hm])
      rcases hr2 : rec vs val (chain sc c) st' with ⟨st'', r2⟩
      rw [hr2] at hv
      cases r2 <;> exact hk.trans hv

theorem matchDictLoop_ok {p : Prims} {rec : Rec σ} {m A P} (hrec : StepOK rec m A P) (sc : σ)
    (hm : mode sc = m) (spec : List (Spec × Spec)) (hP : ∀ e ∈ spec, P e.1 ∧ P e.2) :
    ∀ (tes : List (V × V)) (acc : List (V × V)) (used : List Spec) (st : St),
      LogOK A st (matchDictLoop p rec sc spec tes acc used st).1 := by
  intro tes
  induction tes with
  | nil => intro acc used st; simp [matchDictLoop]; exact LogOK.refl _ _
  | cons e rest ih =>
    obtain ⟨k, v⟩ := e
    intro acc used st
    simp only [matchDictLoop]
    have h1 := matchKeyLoop_ok (p := p) hrec sc hm k v spec st hP
    rcases hr : matchKeyLoop p rec sc k v spec st with ⟨st', r⟩
    rw [hr] at h1
    cases r with
    | error e => exact h1
    | ok o =>
      cases o with
      | none => exact h1
      | some t =>
        obtain ⟨k', v', ks⟩ := t
        exact h1.trans (ih _ _ st')

theorem groupLoop_ok {rec : Rec σ} {m A P} (hrec : StepOK rec m A P) (sub : Spec) (hs : P sub)
    (sc : σ) (hm : mode sc = m) :
    ∀ (items : List V) (ret : V) (st : St), LogOK A st (groupLoop rec sub sc items ret st).1 := by
  intro items
  induction items with
  | nil => intro ret st; simp [groupLoop]; exact LogOK.refl _ _
  | cons it rest ih =>
    intro ret st
    simp only [groupLoop]
    have h1 := hrec sub it sc st hs hm
    rcases hr : rec sub it sc st with ⟨st', r⟩
    rw [hr] at h1
    cases r with
    | error e => exact h1
    | ok p =>
      obtain ⟨v, c'⟩ := p
      cases v <;> first
        | exact h1.trans (ih _ st')
        | exact h1

theorem argVal_ok {rec : Rec σ} {m A P} (hrec : StepOK rec m A P) (target : V) (arg : Spec) (hs : P arg)
    (sc : σ) (hm : mode sc = m) (st : St) : LogOK A st (argVal rec target arg sc st).1 := by
  simp only [argVal]
  have h1 := hrec arg target (setArgMode sc true) st hs (by rw [LawfulScope.mode_setArgMode, hm])
  rcases hr : rec arg target (setArgMode sc true) st with ⟨st', r⟩
  rw [hr] at h1
  cases r <;> exact h1

theorem dfltVal_ok {rec : Rec σ} {m A P} (hrec : StepOK rec m A P) (target : V) (arg : Spec) (hs : P arg)
    (sc : σ) (hm : mode sc = m) (st : St) : LogOK A st (dfltVal rec target arg sc st).1 := by
  simp only [dfltVal]
  have h1 := argVal_ok hrec target arg hs sc hm st
  rcases hr : argVal rec target arg sc st with ⟨st', r⟩
  rw [hr] at h1
  cases r <;> exact h1

end
end Glom.Interp
