import Glom.Spec.C08
import Glom.Lemmas.Frames
import Glom.Lemmas.Hoare
/-
  C08 — the modes recorded at probes are the static ones: the Hoare relation
  `LogOK A` ("the log grew only by probes listed in `A`"), its rules for the
  primitives, and the loop lemmas.
-/
set_option linter.unusedSimpArgs false
set_option linter.unusedSectionVars false
namespace Glom.Interp
open ScopeAlg

/-- `st'` extends the log of `st` by events whose probes all lie in `A` -/
def LogOK (A : List (Nat × Mode)) (st st' : St) : Prop :=
  ∃ evs, st'.log = st.log ++ evs ∧ ∀ x ∈ probesOf evs, x ∈ A

theorem logOK_rel (A : List (Nat × Mode)) : StRel (LogOK A) where
  refl st := ⟨[], by simp, by simp [probesOf]⟩
  trans := by
    intro a b c h1 h2
    obtain ⟨e1, a1, b1⟩ := h1
    obtain ⟨e2, a2, b2⟩ := h2
    refine ⟨e1 ++ e2, by rw [a2, a1, List.append_assoc], ?_⟩
    intro x hx
    simp only [probesOf, List.filterMap_append, List.mem_append] at hx
    rcases hx with hx | hx
    · exact b1 x hx
    · exact b2 x hx

theorem LogOK.mono {A B st st'} (h : LogOK A st st') (hs : ∀ x ∈ A, x ∈ B) : LogOK B st st' := by
  obtain ⟨evs, h1, h2⟩ := h
  exact ⟨evs, h1, fun x hx => hs x (h2 x hx)⟩

theorem Hoare.mono {α} {A B} {m : M α} (h : Hoare (LogOK A) m) (hs : ∀ x ∈ A, x ∈ B) :
    Hoare (LogOK B) m := ⟨fun st => (h.run st).mono hs⟩

theorem hoare_logCall (A) (n : String) (as : List V) : Hoare (LogOK A) (M.logEv (.call n as)) :=
  ⟨fun _ => ⟨[.call n as], rfl, by simp [probesOf]⟩⟩

theorem hoare_logProbe (A) (id : Nat) (m : Mode) (h : (id, m) ∈ A) :
    Hoare (LogOK A) (M.logEv (.probe id m)) :=
  ⟨fun _ => ⟨[.probe id m], rfl, by simp [probesOf, h]⟩⟩

theorem hoare_logRead (A) (id : Nat) (r : Except Err V) : Hoare (LogOK A) (M.logEv (.read id r)) :=
  ⟨fun _ => ⟨[.read id r], rfl, by simp [probesOf]⟩⟩

theorem hoare_setGvars (A) (g) : Hoare (LogOK A) (M.setGvars g) :=
  ⟨fun _ => ⟨[], by simp [M.setGvars], by simp [probesOf]⟩⟩

/-- one rule application -/
macro "hstep" : tactic => `(tactic| first
  | exact Hoare.pure (logOK_rel _) _
  | exact Hoare.fail (logOK_rel _) _
  | exact Hoare.throw (logOK_rel _) _
  | exact Hoare.lift (logOK_rel _) _
  | exact Hoare.getGvars (logOK_rel _)
  | exact hoare_setGvars _ _
  | exact hoare_logCall _ _ _
  | exact hoare_logRead _ _ _
  | assumption
  | apply Hoare.attempt
  | apply Hoare.bind (logOK_rel _)
  | intro _
  | split)

macro "hauto" : tactic => `(tactic| repeat hstep)

theorem callFn_ok (A) (p : Prims) (n k : String) (as : List V) (kw : List (String × V)) :
    Hoare (LogOK A) (callFn p n k as kw) := by
  unfold callFn; hauto

theorem callValue_ok (A) (p : Prims) (f : V) (as : List V) (kw : List (String × V)) :
    Hoare (LogOK A) (callValue p f as kw) := by
  unfold callValue
  split
  · exact callFn_ok ..
  · split <;> hauto
  · hauto

theorem callOpt_ok (A) (p : Prims) (cb : Option (String × String)) : Hoare (LogOK A) (callOpt p cb) := by
  unfold callOpt
  split
  · apply Hoare.bind (logOK_rel _) (callFn_ok ..); hauto
  · hauto

theorem gvarGet_ok (A) (id : Nat) (name : String) : Hoare (LogOK A) (gvarGet id name) := by
  unfold gvarGet; hauto

theorem gvarSet_ok (A) (id : Nat) (name : String) (v : V) : Hoare (LogOK A) (gvarSet id name v) := by
  unfold gvarSet; hauto

theorem skipFunc_ok (A) (p : Prims) (sk : Skip) (v : V) : Hoare (LogOK A) (skipFunc p sk v) := by
  unfold skipFunc
  split
  · hauto
  · apply Hoare.bind (logOK_rel _) (callFn_ok ..); hauto
  · hauto
  · hauto

section
variable {σ : Type} [ScopeAlg σ] [LawfulScope σ]

/-- every call `rec s t sc` on a spec in `P`, in a scope whose mode is `m`,
    extends the log by probes in `A` only -/
def StepOK (rec : Rec σ) (m : Mode) (A : List (Nat × Mode)) (P : Spec → Prop) : Prop :=
  ∀ s t (sc : σ), P s → mode sc = m → Hoare (LogOK A) (rec s t sc)

theorem nextScope_mode (cur : σ) (last : Option σ) : mode (nextScope cur last) = mode cur := by
  cases last <;> simp [nextScope, LawfulScope.mode_chain]

theorem nextScope_argMode (cur : σ) (last : Option σ) : argMode (nextScope cur last) = argMode cur := by
  cases last <;> simp [nextScope, LawfulScope.argMode_chain]

/-- every step of a chain is evaluated at a scope with the owner's mode and argument flag: what the
    evaluator does at scopes with another mode cannot influence the chain -/
theorem tupleLoop_mode_congr {rec1 rec2 : Rec σ} (m : Mode) (a : Bool)
    (h : ∀ s t (c : σ), mode c = m → argMode c = a → rec1 s t c = rec2 s t c) :
    ∀ (steps : List Spec) (res : V) (cur : σ) (last : Option σ), mode cur = m → argMode cur = a →
      tupleLoop rec1 steps res cur last = tupleLoop rec2 steps res cur last := by
  intro steps
  induction steps with
  | nil => intro res cur last _ _; rfl
  | cons s rest ih =>
    intro res cur last hm ha
    have hm' : mode (nextScope cur last) = m := by rw [nextScope_mode, hm]
    have ha' : argMode (nextScope cur last) = a := by rw [nextScope_argMode, ha]
    simp only [tupleLoop, h s res _ hm' ha', ih _ _ _ hm' ha']

theorem tupleLoop_ok {rec : Rec σ} {m A P} (hrec : StepOK rec m A P) :
    ∀ (steps : List Spec) (res : V) (cur : σ) (last : Option σ),
      mode cur = m → (∀ s ∈ steps, P s) → Hoare (LogOK A) (tupleLoop rec steps res cur last) := by
  intro steps
  induction steps with
  | nil => intro res cur last _ _; simp only [tupleLoop]; hauto
  | cons s rest ih =>
    intro res cur last hm hP
    simp only [tupleLoop]
    have hsc : mode (nextScope cur last) = m := by rw [nextScope_mode, hm]
    apply Hoare.bind (logOK_rel _) (hrec s res _ (hP s (by simp)) hsc)
    intro r
    have hrest := fun r l => ih r (nextScope cur last) l hsc (fun s' hs' => hP s' (by simp [hs']))
    split <;> first | exact hrest _ _ | hauto

theorem listLoop_ok {rec : Rec σ} {m A P} (hrec : StepOK rec m A P) (sub : Spec) (hs : P sub)
    (sc : σ) (hm : mode sc = m) :
    ∀ (items acc : List V), Hoare (LogOK A) (listLoop rec sub sc items acc) := by
  intro items
  induction items with
  | nil => intro acc; simp only [listLoop]; hauto
  | cons it rest ih =>
    intro acc
    simp only [listLoop]
    apply Hoare.bind (logOK_rel _) (hrec sub it sc hs hm)
    intro r
    split <;> first | exact ih _ | hauto

theorem mapLoop_ok {rec : Rec σ} {m A P} (hrec : StepOK rec m A P) (target : V) (sc : σ) (hm : mode sc = m) :
    ∀ (specs : List Spec) (acc : List V), (∀ s ∈ specs, P s) →
      Hoare (LogOK A) (mapLoop rec target sc specs acc) := by
  intro specs
  induction specs with
  | nil => intro acc _; simp only [mapLoop]; hauto
  | cons s rest ih =>
    intro acc hP
    simp only [mapLoop]
    apply Hoare.bind (logOK_rel _) (hrec s target sc (hP s (by simp)) hm)
    intro r
    exact ih _ (fun s' hs' => hP s' (by simp [hs']))

theorem kwLoop_ok {rec : Rec σ} {m A P} (hrec : StepOK rec m A P) (target : V) (sc : σ) (hm : mode sc = m) :
    ∀ (bs : List (String × Spec)) (acc : List (String × V)), (∀ b ∈ bs, P b.2) →
      Hoare (LogOK A) (kwLoop rec target sc bs acc) := by
  intro bs
  induction bs with
  | nil => intro acc _; simp only [kwLoop]; hauto
  | cons b rest ih =>
    obtain ⟨k, s⟩ := b
    intro acc hP
    simp only [kwLoop]
    apply Hoare.bind (logOK_rel _) (hrec s target sc (hP (k, s) (by simp)) hm)
    intro r
    exact ih _ (fun b' hb' => hP b' (by simp [hb']))

theorem pairLoop_ok {p : Prims} {rec : Rec σ} {m A P} (hrec : StepOK rec m A P) (target : V) (sc : σ)
    (hm : mode sc = m) :
    ∀ (es : List (Spec × Spec)) (acc : List (V × V)), (∀ e ∈ es, P e.1 ∧ P e.2) →
      Hoare (LogOK A) (pairLoop p rec target sc es acc) := by
  intro es
  induction es with
  | nil => intro acc _; simp only [pairLoop]; hauto
  | cons e rest ih =>
    obtain ⟨ks, vs⟩ := e
    intro acc hP
    simp only [pairLoop]
    apply Hoare.bind (logOK_rel _) (hrec ks target sc (hP (ks, vs) (by simp)).1 hm)
    intro k
    apply Hoare.bind (logOK_rel _) (hrec vs target sc (hP (ks, vs) (by simp)).2 hm)
    intro v
    split
    · exact ih _ (fun e' he' => hP e' (by simp [he']))
    · hauto

theorem dictLoop_ok {p : Prims} {rec : Rec σ} {m A P} (hrec : StepOK rec m A P) (target : V) (sc : σ)
    (hm : mode sc = m) :
    ∀ (es : List (Spec × Spec)) (acc : List (V × V)), (∀ e ∈ es, P e.1 ∧ P e.2) →
      Hoare (LogOK A) (dictLoop p rec target sc es acc) := by
  intro es
  induction es with
  | nil => intro acc _; simp only [dictLoop]; hauto
  | cons e rest ih =>
    obtain ⟨field, sub⟩ := e
    intro acc hP
    have hrest := fun acc' => ih acc' (fun e' he' => hP e' (by simp [he']))
    simp only [dictLoop]
    apply Hoare.bind (logOK_rel _) (hrec sub target sc (hP (field, sub) (by simp)).2 hm)
    intro r
    split
    · exact hrest _
    · split
      · apply Hoare.bind (logOK_rel _) (hrec field target sc (hP (field, sub) (by simp)).1 hm)
        intro k
        split
        · exact hrest _
        · hauto
      · split
        · exact hrest _
        · hauto

theorem coalesceLoop_ok {p : Prims} {rec : Rec σ} {m A P} (hrec : StepOK rec m A P) (target : V) (sc : σ)
    (hm : mode sc = m) (sk : Skip) (skipExc : List String) :
    ∀ (subs : List Spec), (∀ s ∈ subs, P s) →
      Hoare (LogOK A) (coalesceLoop p rec target sc sk skipExc subs) := by
  intro subs
  induction subs with
  | nil => intro _; simp only [coalesceLoop]; hauto
  | cons s rest ih =>
    intro hP
    have hrest := ih (fun s' hs' => hP s' (by simp [hs']))
    simp only [coalesceLoop]
    apply Hoare.bind (logOK_rel _) (Hoare.attempt (hrec s target sc (hP s (by simp)) hm))
    intro r
    split
    · split
      · exact hrest
      · hauto
    · apply Hoare.bind (logOK_rel _) (Hoare.attempt (skipFunc_ok ..))
      intro b
      split
      · split
        · exact hrest
        · hauto
      · exact hrest
      · hauto

theorem andLoop_ok {rec : Rec σ} {m A P} (hrec : StepOK rec m A P) (target : V) (sc : σ) (hm : mode sc = m) :
    ∀ (cs : List Spec) (res : V), (∀ s ∈ cs, P s) → Hoare (LogOK A) (andLoop rec target sc cs res) := by
  intro cs
  induction cs with
  | nil => intro res _; simp only [andLoop]; hauto
  | cons c rest ih =>
    intro res hP
    simp only [andLoop]
    apply Hoare.bind (logOK_rel _) (hrec c target sc (hP c (by simp)) hm)
    intro r
    exact ih _ (fun s' hs' => hP s' (by simp [hs']))

theorem orLoop_ok {p : Prims} {rec : Rec σ} {m A P} (hrec : StepOK rec m A P) (target : V) (sc : σ)
    (hm : mode sc = m) :
    ∀ (cs : List Spec), (∀ s ∈ cs, P s) → Hoare (LogOK A) (orLoop p rec target sc cs) := by
  intro cs
  induction cs with
  | nil => intro _; simp only [orLoop]; hauto
  | cons c rest ih =>
    intro hP
    have h1 := hrec c target sc (hP c (by simp)) hm
    cases rest with
    | nil =>
      simp only [orLoop]
      apply Hoare.bind (logOK_rel _) h1; hauto
    | cons c2 rest2 =>
      simp only [orLoop]
      apply Hoare.bind (logOK_rel _) (Hoare.attempt h1)
      intro r
      split
      · split
        · exact ih (fun s' hs' => hP s' (by simp [hs']))
        · hauto
      · hauto

theorem switchLoop_ok {p : Prims} {rec : Rec σ} {m A P} (hrec : StepOK rec m A P) (target : V) (sc : σ)
    (hm : mode sc = m) :
    ∀ (cases : List (Spec × Spec)), (∀ e ∈ cases, P e.1 ∧ P e.2) →
      Hoare (LogOK A) (switchLoop p rec target sc cases) := by
  intro cases
  induction cases with
  | nil => intro _; simp only [switchLoop]; hauto
  | cons e rest ih =>
    obtain ⟨ks, vs⟩ := e
    intro hP
    simp only [switchLoop]
    apply Hoare.bind (logOK_rel _) (Hoare.attempt (hrec ks target sc (hP (ks, vs) (by simp)).1 hm))
    intro r
    split
    · split
      · exact ih (fun e' he' => hP e' (by simp [he']))
      · hauto
    · rename_i k
      apply Hoare.bind (logOK_rel _)
        (hrec vs target (chain sc k.2) (hP (ks, vs) (by simp)).2 (by rw [LawfulScope.mode_chain, hm]))
      hauto

theorem altLoop_ok {p : Prims} {rec : Rec σ} {m A P} (hrec : StepOK rec m A P) (sc : σ) (hm : mode sc = m)
    (item : V) :
    ∀ (alts : List Spec) (last : Option Err), (∀ s ∈ alts, P s) →
      Hoare (LogOK A) (altLoop p rec sc item alts last) := by
  intro alts
  induction alts with
  | nil => intro last _; simp only [altLoop]; hauto
  | cons c rest ih =>
    intro last hP
    simp only [altLoop]
    apply Hoare.bind (logOK_rel _) (Hoare.attempt (hrec c item sc (hP c (by simp)) hm))
    intro r
    split
    · hauto
    · split
      · exact ih _ (fun s' hs' => hP s' (by simp [hs']))
      · hauto

theorem matchItemsLoop_ok {p : Prims} {rec : Rec σ} {m A P} (hrec : StepOK rec m A P) (sc : σ)
    (hm : mode sc = m) (alts : List Spec) (hP : ∀ s ∈ alts, P s) :
    ∀ (items acc : List V), Hoare (LogOK A) (matchItemsLoop p rec sc alts items acc) := by
  intro items
  induction items with
  | nil => intro acc; simp only [matchItemsLoop]; hauto
  | cons it rest ih =>
    intro acc
    simp only [matchItemsLoop]
    apply Hoare.bind (logOK_rel _) (altLoop_ok (p := p) hrec sc hm it alts Option.none hP)
    intro v
    exact ih _

theorem zipLoop_ok {rec : Rec σ} {m A P} (hrec : StepOK rec m A P) (sc : σ) (hm : mode sc = m) :
    ∀ (ts : List V) (ss : List Spec) (acc : List V), (∀ s ∈ ss, P s) →
      Hoare (LogOK A) (zipLoop rec sc ts ss acc) := by
  intro ts
  induction ts with
  | nil => intro ss acc _; simp only [zipLoop]; hauto
  | cons t rest ih =>
    intro ss acc hP
    cases ss with
    | nil => simp only [zipLoop]; hauto
    | cons s srest =>
      simp only [zipLoop]
      apply Hoare.bind (logOK_rel _) (hrec s t sc (hP s (by simp)) hm)
      intro r
      exact ih _ _ (fun s' hs' => hP s' (by simp [hs']))

theorem matchKeyLoop_ok {p : Prims} {rec : Rec σ} {m A P} (hrec : StepOK rec m A P) (sc : σ)
    (hm : mode sc = m) (key val : V) :
    ∀ (spec : List (Spec × Spec)), (∀ e ∈ spec, P e.1 ∧ P e.2) →
      Hoare (LogOK A) (matchKeyLoop p rec sc key val spec) := by
  intro spec
  induction spec with
  | nil => intro _; simp only [matchKeyLoop]; hauto
  | cons e rest ih =>
    obtain ⟨ks, vs⟩ := e
    intro hP
    simp only [matchKeyLoop]
    apply Hoare.bind (logOK_rel _) (Hoare.attempt (hrec ks key sc (hP (ks, vs) (by simp)).1 hm))
    intro r
    split
    · split
      · exact ih (fun e' he' => hP e' (by simp [he']))
      · hauto
    · rename_i k
      apply Hoare.bind (logOK_rel _)
        (hrec vs val (chain sc k.2) (hP (ks, vs) (by simp)).2 (by rw [LawfulScope.mode_chain, hm]))
      hauto

theorem matchDictLoop_ok {p : Prims} {rec : Rec σ} {m A P} (hrec : StepOK rec m A P) (sc : σ)
    (hm : mode sc = m) (spec : List (Spec × Spec)) (hP : ∀ e ∈ spec, P e.1 ∧ P e.2) :
    ∀ (tes : List (V × V)) (acc : List (V × V)) (used : List Spec),
      Hoare (LogOK A) (matchDictLoop p rec sc spec tes acc used) := by
  intro tes
  induction tes with
  | nil => intro acc used; simp only [matchDictLoop]; hauto
  | cons e rest ih =>
    obtain ⟨k, v⟩ := e
    intro acc used
    simp only [matchDictLoop]
    apply Hoare.bind (logOK_rel _) (matchKeyLoop_ok (p := p) hrec sc hm k v spec hP)
    intro r
    split
    · hauto
    · exact ih _ _

theorem groupLoop_ok {rec : Rec σ} {m A P} (hrec : StepOK rec m A P) (sub : Spec) (hs : P sub)
    (sc : σ) (hm : mode sc = m) :
    ∀ (items : List V) (ret : V), Hoare (LogOK A) (groupLoop rec sub sc items ret) := by
  intro items
  induction items with
  | nil => intro ret; simp only [groupLoop]; hauto
  | cons it rest ih =>
    intro ret
    simp only [groupLoop]
    apply Hoare.bind (logOK_rel _) (hrec sub it sc hs hm)
    intro r
    split <;> first | exact ih _ | hauto

theorem argVal_ok {rec : Rec σ} {m A P} (hrec : StepOK rec m A P) (target : V) (arg : Spec) (hs : P arg)
    (sc : σ) (hm : mode sc = m) : Hoare (LogOK A) (argVal rec target arg sc) := by
  simp only [argVal]
  apply Hoare.bind (logOK_rel _) (hrec arg target _ hs (by rw [LawfulScope.mode_setArgMode, hm]))
  hauto

theorem invokeLoop_ok {rec : Rec σ} {m A P} (hrec : StepOK rec m A P) (target : V) (sc : σ)
    (hm : mode sc = m) :
    ∀ (blocks : List (String × List Spec × List (String × Spec))) (as : List V) (kws : List (String × V)),
      (∀ b ∈ blocks, (∀ s ∈ b.2.1, P s) ∧ (∀ kv ∈ b.2.2, P kv.2)) →
      Hoare (LogOK A) (invokeLoop rec target sc blocks as kws) := by
  intro blocks
  induction blocks with
  | nil => intro as kws _; simp only [invokeLoop]; hauto
  | cons b rest ih =>
    obtain ⟨op, pos, kw⟩ := b
    intro as kws hP
    have hb := hP (op, pos, kw) (by simp)
    have hrest := fun as' kws' => ih as' kws' (fun b' hb' => hP b' (by simp [hb']))
    simp only [invokeLoop]
    split
    · apply Hoare.bind (logOK_rel _) (mapLoop_ok hrec target sc hm pos [] hb.1)
      intro vs
      split
      · hauto
      · apply Hoare.bind (logOK_rel _)
          (mapLoop_ok hrec target sc hm (kw.map (·.2)) [] (by
            intro s hs
            obtain ⟨kv, hkv, rfl⟩ := List.mem_map.mp hs
            exact hb.2 kv hkv))
        intro kvs
        split
        · hauto
        · exact hrest _ _
    · split
      · exact hrest _ _
      · apply Hoare.bind (logOK_rel _) (mapLoop_ok hrec target sc hm pos [] hb.1)
        intro vs
        apply Hoare.bind (logOK_rel _) (kwLoop_ok hrec target sc hm _ [] (by
          intro kv hkv
          exact hb.2 kv (List.mem_filter.mp hkv).1))
        intro kvs
        exact hrest _ _

end
end Glom.Interp
