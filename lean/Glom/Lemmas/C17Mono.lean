import Glom.Lemmas.C17
import Glom.Spec.C17Args
import Glom.Spec.C17Events
/-
  C17 — what a prefix of the input determines stays determined: the trace functions are monotone,
  so the items determined by ANY prefix of a source are a prefix of what the composition of the list
  functions gives on the whole source.
-/
namespace Glom.C17

/-- `d'` extends `d`: `d` is still open and its items are a prefix of those of `d'`, or nothing changed -/
def Tr.Le (d d' : Tr) : Prop := (d.term = .more ∧ d.items <+: d'.items) ∨ d = d'

theorem Tr.Le.refl (d : Tr) : d.Le d := Or.inr rfl

theorem Tr.Le.items {d d' : Tr} (h : d.Le d') : d.items <+: d'.items := by
  rcases h with ⟨_, h⟩ | rfl
  · exact h
  · exact List.prefix_refl _

theorem Tr.Le.prepend {d d' : Tr} (o : List V) (h : d.Le d') : (d.prepend o).Le (d'.prepend o) := by
  rcases h with ⟨h1, h2⟩ | rfl
  · left
    refine ⟨h1, ?_⟩
    obtain ⟨t, ht⟩ := h2
    exact ⟨t, by simp only [Tr.prepend]; rw [← ht, List.append_assoc]⟩
  · exact Or.inr rfl

theorem Tr.Le.trans {a b c : Tr} (h1 : a.Le b) (h2 : b.Le c) : a.Le c := by
  rcases h1 with ⟨ha, hab⟩ | rfl
  · rcases h2 with ⟨_, hbc⟩ | rfl
    · exact Or.inl ⟨ha, List.IsPrefix.trans hab hbc⟩
    · exact Or.inl ⟨ha, hab⟩
  · exact h2

/-- feeding more input to a stage only extends what it had determined -/
theorem foldCore_mono : ∀ (us : List V) (c : Core) (vs : List V) (t : Term),
    (foldCore c us .more).Le (foldCore c (us ++ vs) t) := by
  intro us
  induction us with
  | nil =>
    intro c vs t
    left
    exact ⟨by simp [foldCore], by simp [foldCore]⟩
  | cons u us ih =>
    intro c vs t
    simp only [List.cons_append, foldCore]
    rcases c.push u with ⟨o, c', st⟩
    cases st with
    | go => exact (ih c' vs t).prepend o
    | stop => exact Or.inr rfl
    | fail e => exact Or.inr rfl

theorem stageTr_mono (k : Kind) {d d' : Tr} (h : d.Le d') : (stageTr k d).Le (stageTr k d') := by
  rcases h with ⟨h1, vs, h2⟩ | rfl
  · simp only [stageTr]
    by_cases hi : k.initStopped = true
    · simp only [hi, ↓reduceIte]; exact Or.inr rfl
    · simp only [hi, Bool.false_eq_true, ↓reduceIte]
      rw [h1, ← h2]
      exact foldCore_mono d.items _ vs d'.term
  · exact Or.inr rfl

theorem pipeTr_mono : ∀ (ks : List Kind) {d d' : Tr}, d.Le d' → (pipeTr ks d).Le (pipeTr ks d') := by
  intro ks
  induction ks with
  | nil => intro d d' h; exact h
  | cons k ks ih => intro d d' h; exact ih (stageTr_mono k h)

theorem pfx_mono (src : Src) {n m : Nat} (h : n ≤ m) : (src.pfx n).Le (src.pfx m) := by
  cases src with
  | fin xs tail =>
    simp only [Src.pfx]
    by_cases hn : n ≥ xs.length
    · have hm : m ≥ xs.length := by omega
      simp only [hn, hm, ↓reduceIte]; exact Or.inr rfl
    · simp only [hn, ↓reduceIte]
      left
      refine ⟨rfl, ?_⟩
      by_cases hm : m ≥ xs.length
      · simp only [hm, ↓reduceIte]; exact List.take_prefix n xs
      · simp only [hm, ↓reduceIte]
        exact ⟨(xs.take m).drop n, by
          have : xs.take n = (xs.take m).take n := by rw [List.take_take]; congr 1; omega
          rw [this, List.take_append_drop]⟩
  | inf f =>
    simp only [Src.pfx]
    left
    refine ⟨rfl, ?_⟩
    obtain ⟨d, rfl⟩ : ∃ d, m = n + d := ⟨m - n, by omega⟩
    rw [List.range_add, List.map_append]
    exact List.prefix_append _ _

/-- **what is determined stays determined**: on every source, the outputs determined by the first `n`
    items extend to those determined by the first `m ≥ n` -/
theorem det_mono (kinds : List Kind) (src : Src) {n m : Nat} (h : n ≤ m) : (det kinds src n).Le (det kinds src m) :=
  pipeTr_mono kinds (pfx_mono src h)

/-- … and all of them are prefixes of what the composition of the list functions gives, when it evaluates -/
theorem det_prefix_of_compose (kinds : List Kind) (hw : ∀ k ∈ kinds, k.wf = true) (xs ys : List V)
    (h : composeE kinds xs = .ok ys) (n : Nat) : (det kinds (.fin xs none) n).items <+: ys := by
  have hfull : det kinds (.fin xs none) (max n xs.length) = ⟨ys, .eof⟩ := by
    have : det kinds (.fin xs none) (max n xs.length) = pipeTr kinds ⟨xs, .eof⟩ := by
      simp only [det, Src.pfx]
      have : max n xs.length ≥ xs.length := Nat.le_max_right _ _
      simp [this]
    rw [this]; exact compose_ref kinds xs ys hw h
  have := (det_mono kinds (.fin xs none) (Nat.le_max_left n xs.length)).items
  rw [hfull] at this
  exact this

/-! ### the checker against the composition of the list functions -/

theorem primeErrs_nil_of_compose (xs : List V) : ∀ (ks before : List Kind) (ys : List V),
    (∀ k ∈ before ++ ks, k.wf = true) → composeE (before ++ ks) xs = .ok ys →
    primeErrs (.fin xs none) xs.length before ks = [] := by
  intro ks
  induction ks with
  | nil => intro before ys _ _; rfl
  | cons k ks ih =>
    intro before ys hw h
    obtain ⟨ws, hws⟩ := composeE_prefix before (k :: ks) xs ys h
    have hdet : det before (.fin xs none) xs.length = ⟨ws, .eof⟩ := by
      rw [det_fin_full]
      exact compose_ref before xs ws (fun k' hk' => hw k' (List.mem_append_left _ hk')) hws
    simp only [primeErrs, hdet]
    have := ih (before ++ [k]) ys (by simpa [List.append_assoc] using hw) (by simpa [List.append_assoc] using h)
    rw [this]
    split <;> rfl

/-- **`checkTake` accepts only the composition.**  Whenever the composition of the list functions
    evaluates (to `ys`), an observation the checker accepts has exactly the first `k` items of `ys`
    and ends as `ys` does — the checker's own reference (`det`, built from the stages' step
    functions) cannot accept anything the list functions do not give. -/
theorem checkTake_sound (kinds : List Kind) (hw : ∀ k ∈ kinds, k.wf = true) (xs ys : List V) (k : Nat) (o : TakeObs)
    (h : composeE kinds xs = .ok ys) (hc : checkTake kinds (.fin xs none) k o = true) :
    o.items = ys.take k ∧ o.fin = (if ys.length ≥ k then .gotK else .exhausted) := by
  have hdet : det kinds (.fin xs none) xs.length = ⟨ys, .eof⟩ := by
    rw [det_fin_full]; exact compose_ref kinds xs ys hw h
  have hpe := primeErrs_nil_of_compose xs kinds [] ys (by simpa using hw) (by simpa using h)
  simp only [checkTake, srcLen, hdet, hpe, Bool.or_eq_true, Bool.and_eq_true, beq_iff_eq] at hc
  rcases hc with ⟨⟨h1, h2⟩, _⟩ | ⟨_, h3⟩
  · refine ⟨h1, ?_⟩
    rw [h2]
    by_cases hk : ys.length ≥ k <;> simp [hk, finOfTerm]
  · revert h3
    cases o.fin <;> simp

theorem checkAll_sound (kinds : List Kind) (hw : ∀ k ∈ kinds, k.wf = true) (xs ys : List V) (o : TakeObs)
    (h : composeE kinds xs = .ok ys) (hc : checkAll kinds (.fin xs none) o = true) :
    o.items = ys ∧ o.fin = .exhausted := by
  have hdet : det kinds (.fin xs none) xs.length = ⟨ys, .eof⟩ := by
    rw [det_fin_full]; exact compose_ref kinds xs ys hw h
  have hpe := primeErrs_nil_of_compose xs kinds [] ys (by simpa using hw) (by simpa using h)
  simp only [checkAll, srcLen, hdet, hpe, finOfTerm, Bool.or_eq_true, Bool.and_eq_true, beq_iff_eq] at hc
  rcases hc with ⟨⟨h1, h2⟩, _⟩ | ⟨_, h3⟩
  · have h2' := h2
    rw [h1] at h2'
    simp only [bne_self_eq_false] at h2'
    rcases h2' with h2' | h2'
    · cases h2'
    · exact ⟨h2', h1⟩
  · revert h3
    cases o.fin <;> simp

/-! ### events: up to the first exception the event stream is the trace -/

/-- a trace as the events a consumer sees -/
def Tr.events (t : Tr) : List Evt :=
  t.items.map .item ++ (match t.term with | .err e => [.err e] | _ => [])

theorem Tr.events_prepend (o : List V) (t : Tr) : (t.prepend o).events = o.map .item ++ t.events := by
  simp [Tr.events, Tr.prepend, List.append_assoc]

/-- a stage keeps its kind -/
theorem push_kind (c : Core) (x : V) : (c.push x).2.1.kind = c.kind := by
  unfold Core.push
  split <;> (try simp only []) <;> (repeat' split) <;> (first | rfl | simp_all)

/-- a stage that does not survive an exception: on an exception-free input its events are its trace — the items, then
    the exception it ends with, then nothing (up to the first exception the event reference IS the trace reference) -/
theorem evFold_eq_trace : ∀ (us : List V) (c : Core), c.kind.survives = false →
    evFold c (us.map .item) = (foldCore c us .eof).events := by
  intro us
  induction us with
  | nil => intro c _; simp [evFold, foldCore, Tr.events]
  | cons u us ih =>
    intro c hs
    simp only [List.map_cons, evFold, foldCore]
    have hkind := push_kind c u
    rcases hp : c.push u with ⟨o, c', st⟩
    rw [hp] at hkind
    simp only at hkind
    cases st with
    | go =>
      simp only
      rw [Tr.events_prepend, ih c' (by rw [hkind]; exact hs)]
    | stop => simp [Tr.events]
    | fail e => simp [Tr.events, hs]

/-! ### a callback that raises inside `glomit` -/

theorem runTake_zero (kinds : List Kind) (src : Src) (fuel : Nat) :
    (runTake kinds src fuel 0).items = [] ∧ (runTake kinds src fuel 0).fin ≠ .exhausted := by
  unfold runTake
  cases construct src fuel kinds [] 0 <;> simp [takeK]

theorem checkTakeG_model (kinds : List Kind) (xs : List V) (tail : Option Err) (fuel k : Nat)
    (h : (runTakeG kinds (.fin xs tail) fuel k).fin ≠ .oof) :
    checkTakeG kinds (.fin xs tail) k ⟨(runTakeG kinds (.fin xs tail) fuel k).items,
      (runTakeG kinds (.fin xs tail) fuel k).fin, (runTakeG kinds (.fin xs tail) fuel k).pulls⟩ = true := by
  unfold checkTakeG runTakeG at *
  rcases hs : glomitSplit kinds with ⟨b, _ | e⟩
  · rw [hs] at h
    simp only at h ⊢
    exact checkTake_of_spec kinds xs tail k _ h (runTake_spec _ fuel kinds k h)
  · rw [hs] at h
    simp only at h ⊢
    obtain ⟨hi, hne⟩ := runTake_zero b (.fin xs tail) fuel
    have hck : (runTake b (.fin xs tail) fuel 0).fin ≠ .oof →
        checkTake b (.fin xs tail) 0 ⟨(runTake b (.fin xs tail) fuel 0).items, (runTake b (.fin xs tail) fuel 0).fin,
          (runTake b (.fin xs tail) fuel 0).pulls⟩ = true :=
      fun h0 => checkTake_of_spec b xs tail 0 _ h0 (runTake_spec _ fuel b 0 h0)
    revert h hi hne hck
    rcases runTake b (.fin xs tail) fuel 0 with ⟨items, fin, pulls⟩
    cases fin with
    | gotK =>
      intro _ hi _ hck
      simp only at hi
      subst hi
      have := hck (by simp)
      simp [this]
    | exhausted => intro _ _ hne _; exact absurd rfl hne
    | raised e' =>
      intro _ hi _ hck
      simp only at hi
      subst hi
      have := hck (by simp)
      simp [this]
    | oof => intro h; exact absurd rfl h

end Glom.C17
