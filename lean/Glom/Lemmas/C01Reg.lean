import Glom.Spec.C01Reg
import Glom.Lemmas.C01
/-
  Helper lemmas for C01 with the registry as state: the memo never changes what
  `get_handler` answers (coherence), the loop on the flat tuple is the structural
  walk under the table in force, histories.
-/
namespace Glom.C01
open Glom

/-! ### exception kinds -/

theorem any_of_subset {α} [BEq α] [LawfulBEq α] (a b : List α) (f : α → Bool)
    (hs : a.all (fun x => b.contains x) = true) (ha : a.any f = true) : b.any f = true := by
  rw [List.any_eq_true] at ha ⊢
  obtain ⟨x, hx, hf⟩ := ha
  rw [List.all_eq_true] at hs
  have := hs x hx
  rw [List.contains_iff_mem] at this
  exact ⟨x, this, hf⟩

theorem isKind_congr (env : Env) {a b : List String} (hab : kindsEq a b = true) (e : PyExc) :
    env.isKind a e = env.isKind b e := by
  simp only [kindsEq, Bool.and_eq_true] at hab
  unfold Env.isKind
  cases h1 : a.any (fun c => env.excTable.isSub e.cls c) with
  | true => exact (any_of_subset a b _ hab.1 h1).symm
  | false =>
    cases h2 : b.any (fun c => env.excTable.isSub e.cls c) with
    | false => rfl
    | true => rw [any_of_subset b a _ hab.2 h2] at h1; contradiction

theorem catches2_dispatch {env op kind} (hc : catches2 env op kind = true) :
    ∃ caught, env.dispatchOf op = some (kind, caught) ∧
      ∀ e, env.isKind caught e = env.isKind (lookupKinds op) e := by
  unfold catches2 at hc
  split at hc
  · rename_i k caught heq
    simp only [Bool.and_eq_true, beq_iff_eq] at hc
    exact ⟨caught, by rw [heq, hc.1], fun e => isKind_congr env hc.2 e⟩
  · contradiction

theorem WF2_parts {env} (h : WF2 env = true) :
    catches2 env "." "getattr" = true ∧ catches2 env "[" "getitem" = true ∧
    catches2 env "P" "handler" = true ∧ paeFlags2 env = (true, true, true, true) := by
  simp only [WF2, Bool.and_eq_true, beq_iff_eq] at h
  exact ⟨h.1.1.1, h.1.1.2, h.1.2, h.2⟩

/-! ### the memo -/

theorem alookup_mem {β} (l : List (String × β)) (c : String) (b : β)
    (h : alookup l c = some b) : (c, b) ∈ l := by
  induction l with
  | nil => simp [alookup] at h
  | cons p r ih =>
    obtain ⟨c', b'⟩ := p
    simp only [alookup] at h
    split at h
    · rename_i hc
      have hc' : c' = c := by simpa using hc
      injection h with h; subst h; subst hc'; simp
    · exact List.mem_cons_of_mem _ (ih h)

/-- with a coherent memo `get_handler` answers what the table says, and leaves a
    coherent memo over the same table -/
theorem nearest_ne_off (t : Table) (ct : ClassTable) (cls : String) :
    t.nearest ct cls ≠ some .off := by
  unfold Table.nearest
  split
  · split <;> simp_all
  · simp

theorem coherent_mem {r : Reg} {ct : ClassTable} (hc : r.coherent ct = true) {c : String} {hn : Handler}
    (hm : (c, hn) ∈ r.cache) :
    (hn = .off → r.tbl.nearest ct c = none) ∧ (hn ≠ .off → r.tbl.nearest ct c = some hn) := by
  simp only [Reg.coherent, List.all_eq_true] at hc
  have := hc _ hm
  by_cases ho : hn = .off
  · subst ho; simp at this; exact ⟨fun _ => this, fun h => absurd rfl h⟩
  · simp [ho] at this; exact ⟨fun h => absurd h ho, fun _ => this⟩

theorem coherent_cons {r : Reg} {ct : ClassTable} {c : String} {hn : Handler}
    (hne : hn ≠ .off) (hn' : r.tbl.nearest ct c = some hn) (hc : r.coherent ct = true) :
    ({ r with cache := (c, hn) :: r.cache } : Reg).coherent ct = true := by
  simp only [Reg.coherent, List.all_cons, Bool.and_eq_true] at hc ⊢
  refine ⟨?_, hc⟩
  simp [hne, hn']

theorem getHandler_coherent (r : Reg) (ct : ClassTable) (cls : String)
    (hc : r.coherent ct = true) :
    (r.getHandler ct cls).1 = r.tbl.nearest ct cls ∧
    (r.getHandler ct cls).2.tbl = r.tbl ∧
    (r.getHandler ct cls).2.coherent ct = true := by
  unfold Reg.getHandler
  cases hl : alookup r.cache cls with
  | some hn =>
    obtain ⟨h1, h2⟩ := coherent_mem hc (alookup_mem _ _ _ hl)
    cases hn with
    | off => exact ⟨by simp [h1 rfl], rfl, hc⟩
    | getattr => exact ⟨by simp [h2 (by simp)], rfl, hc⟩
    | getitem => exact ⟨by simp [h2 (by simp)], rfl, hc⟩
    | seqItem => exact ⟨by simp [h2 (by simp)], rfl, hc⟩
    | table a => exact ⟨by simp [h2 (by simp)], rfl, hc⟩
    | glomTable a => exact ⟨by simp [h2 (by simp)], rfl, hc⟩
    | raises c => exact ⟨by simp [h2 (by simp)], rfl, hc⟩
    | named n => exact ⟨by simp [h2 (by simp)], rfl, hc⟩
  | none =>
    cases hn : r.tbl.nearest ct cls with
    | none => exact ⟨rfl, rfl, hc⟩
    | some hn' =>
      have hne : hn' ≠ .off := fun h => nearest_ne_off r.tbl ct cls (h ▸ hn)
      exact ⟨rfl, rfl, coherent_cons hne hn hc⟩

theorem probe_coherent (r : Reg) (ct : ClassTable) (cls : String) (hc : r.coherent ct = true) :
    (r.probe ct cls).tbl = r.tbl ∧ (r.probe ct cls).coherent ct = true := by
  unfold Reg.probe
  cases hl : alookup r.cache cls with
  | some hn => exact ⟨rfl, hc⟩
  | none =>
    cases hn : r.tbl.nearest ct cls with
    | some hn' =>
      have hne : hn' ≠ .off := fun h => nearest_ne_off r.tbl ct cls (h ▸ hn)
      exact ⟨rfl, coherent_cons hne hn hc⟩
    | none =>
      refine ⟨rfl, ?_⟩
      simp only [Reg.coherent, List.all_cons, Bool.and_eq_true] at hc ⊢
      exact ⟨by simp [hn], hc⟩

theorem register_coherent (r : Reg) (ct : ClassTable) (c : String) (hn : Option Handler) (ex : Bool) :
    (r.register c hn ex).coherent ct = true := by
  simp [Reg.register, Reg.coherent]

/-- the registry after one step of the loop -/
def stepReg (env : Env) (h : Heap) (op : String) (cur : Val) (r : Reg) : Reg :=
  if op == "P" && modelled h cur then (r.getHandler env.k.ct (cur.clsName h)).2 else r

theorem stepReg_coherent (env : Env) (h : Heap) (op : String) (cur : Val) (r : Reg)
    (hc : r.coherent env.k.ct = true) :
    (stepReg env h op cur r).tbl = r.tbl ∧ (stepReg env h op cur r).coherent env.k.ct = true := by
  unfold stepReg
  split
  · exact (getHandler_coherent r env.k.ct _ hc).2
  · exact ⟨rfl, hc⟩

/-! ### one iteration of the loop -/

theorem tLoop2_step (env : Env) (hwf : WF2 env = true) (h : Heap) (flat : List Val) (i : Nat)
    (cur : Val) (tr : List (Nat × Val)) (r : Reg) (lg : List Nat) (hc : r.coherent env.k.ct = true)
    (op : String) (arg : Val)
    (hlt : i < flat.length) (hop : flat[i]? = some (.str op)) (harg : flat[i+1]? = some arg)
    (hw : wfSteps [(op, arg)] = true) :
    tLoop2 env h flat i cur tr r lg =
      match refStep env r.tbl h op cur arg with
      | .ok v => tLoop2 env h flat (i + 2) v (tr ++ [(i / 2, cur)]) (stepReg env h op cur r)
          (lg ++ refLog env r.tbl h op cur arg)
      | .fail e => ⟨.error (.pae (i / 2) e), tr ++ [(i / 2, cur)], stepReg env h op cur r,
          lg ++ refLog env r.tbl h op cur arg⟩
      | .escapes e => ⟨.error (.raised e), tr ++ [(i / 2, cur)], stepReg env h op cur r,
          lg ++ refLog env r.tbl h op cur arg⟩
      | .beyond => ⟨.error .beyond, tr ++ [(i / 2, cur)], stepReg env h op cur r,
          lg ++ refLog env r.tbl h op cur arg⟩
      | .noHandler => ⟨.error .unregistered, tr, stepReg env h op cur r, lg⟩
      | .notAccess => ⟨.error .badSpec, tr, stepReg env h op cur r, lg⟩ := by
  obtain ⟨h1, h2, h3, _⟩ := WF2_parts hwf
  obtain ⟨c1, hd1, hk1⟩ := catches2_dispatch h1
  obtain ⟨c2, hd2, hk2⟩ := catches2_dispatch h2
  obtain ⟨c3, hd3, hk3⟩ := catches2_dispatch h3
  rw [tLoop2]
  simp only [hlt, dite_true, hop, harg]
  simp only [wfSteps, Bool.and_true, Bool.and_eq_true, Bool.or_eq_true, beq_iff_eq] at hw
  obtain ⟨hops, _⟩ := hw
  rcases hops with (rfl | rfl) | rfl
  · -- "."
    have hp : env.prim h "getattr" cur arg r =
        .ran (pyGetattr2 env.k h cur arg) (attrLog env.k h cur arg) r := by
      simp [Env.prim]
    have hs : stepReg env h "." cur r = r := by simp [stepReg]
    simp only [hd1, hp, hs, refStep, refLog, beq_self_eq_true, if_true]
    cases pyGetattr2 env.k h cur arg with
    | ok v => simp [classify]
    | beyond => simp [classify]
    | err e =>
      simp only [classify, hk1 e]
      cases env.isKind (lookupKinds ".") e <;> simp
  · -- "["
    have hp : env.prim h "getitem" cur arg r =
        .ran (pyGetitem2 env.k h cur arg) (itemLog env.k h cur) r := by
      simp [Env.prim]
    have hs : stepReg env h "[" cur r = r := by simp [stepReg]
    have hne : ("[" == ".") = false := by decide
    simp only [hd2, hp, hs, refStep, refLog, hne, beq_self_eq_true, if_true]
    simp only [Bool.false_eq_true, if_false]
    cases pyGetitem2 env.k h cur arg with
    | ok v => simp [classify]
    | beyond => simp [classify]
    | err e =>
      simp only [classify, hk2 e]
      cases env.isKind (lookupKinds "[") e <;> simp
  · -- "P"
    have hne1 : ("P" == ".") = false := by decide
    have hne2 : ("P" == "[") = false := by decide
    have e1 : ("handler" == "getattr") = false := by decide
    have e2 : ("handler" == "getitem") = false := by decide
    cases hmod : modelled h cur with
    | false =>
      have hs : stepReg env h "P" cur r = r := by simp [stepReg, hmod]
      have hp : env.prim h "handler" cur arg r = .ran .beyond [] r := by
        simp only [Env.prim, e1, e2, hmod, beq_self_eq_true, if_true, Bool.false_eq_true, if_false,
          Bool.not_false]
      simp only [hd3, hp, hs, refStep, refLog, hne1, hne2, hmod, beq_self_eq_true, if_true,
        Bool.false_eq_true, if_false, Bool.not_false, List.append_nil]
    | true =>
      obtain ⟨hg1, _, _⟩ := getHandler_coherent r env.k.ct (cur.clsName h) hc
      have hs : stepReg env h "P" cur r = (r.getHandler env.k.ct (cur.clsName h)).2 := by
        simp [stepReg, hmod]
      simp only [hd3, hs, refStep, refLog, hne1, hne2, hmod, beq_self_eq_true, if_true,
        Bool.false_eq_true, if_false, Bool.not_true]
      rw [← hg1]
      have hp : env.prim h "handler" cur arg r =
          match r.getHandler env.k.ct (cur.clsName h) with
          | (some hn, r') => .ran (env.applyHandler h hn cur arg) (env.handlerLog h hn cur arg) r'
          | (none, r') => .unregistered r' := by
        simp only [Env.prim, e1, e2, hmod, beq_self_eq_true, if_true, Bool.false_eq_true, if_false,
          Bool.not_true]
        rcases r.getHandler env.k.ct (cur.clsName h) with ⟨ho, r'⟩
        cases ho <;> rfl
      rw [hp]
      rcases hgh : r.getHandler env.k.ct (cur.clsName h) with ⟨ho, r'⟩
      cases ho with
      | none => simp
      | some hn =>
        simp only
        cases env.applyHandler h hn cur arg with
        | ok v => simp [classify]
        | beyond => simp [classify]
        | err e =>
          simp only [classify, hk3 e]
          cases env.isKind (lookupKinds "P") e <;> simp

/-! ### the loop is the walk -/

/-- how a reference walk is reported by `_t_eval` -/
def resOfWalk : WalkRes2 → Except TErr2 Val
  | .ok v => .ok v
  | .fail k e => .error (.pae k e)
  | .escapes _ e => .error (.raised e)
  | .noHandler _ => .error .unregistered
  | .beyond _ => .error .beyond
  | .notAccess _ => .error .badSpec

/-- the registry after a walk (only the memo can differ from the one before) -/
def walkReg (env : Env) (h : Heap) : List (String × Val) → Val → Reg → Reg
  | [], _, r => r
  | (op, arg) :: rest, cur, r =>
    match refStep env r.tbl h op cur arg with
    | .ok v => walkReg env h rest v (stepReg env h op cur r)
    | _ => stepReg env h op cur r

theorem walkReg_coherent (env : Env) (h : Heap) :
    ∀ (steps : List (String × Val)) (cur : Val) (r : Reg), r.coherent env.k.ct = true →
      (walkReg env h steps cur r).tbl = r.tbl ∧ (walkReg env h steps cur r).coherent env.k.ct = true := by
  intro steps
  induction steps with
  | nil => intro cur r hc; exact ⟨rfl, hc⟩
  | cons s rest ih =>
    obtain ⟨op, arg⟩ := s
    intro cur r hc
    obtain ⟨ht, hc'⟩ := stepReg_coherent env h op cur r hc
    simp only [walkReg]
    split
    · obtain ⟨ht2, hc2⟩ := ih _ _ hc'
      exact ⟨ht2.trans ht, hc2⟩
    · exact ⟨ht, hc'⟩

theorem classify_access (env : Env) (op : String) (a : Acc) :
    classify env op a ≠ .noHandler ∧ classify env op a ≠ .notAccess := by
  cases a with
  | ok v => simp [classify]
  | beyond => simp [classify]
  | err e => simp only [classify]; split <;> simp

/-- a segment that is not applied (no handler / not an access) is not logged -/
theorem refLog_nil (env : Env) (t : Table) (h : Heap) (op : String) (cur arg : Val)
    (hr : refStep env t h op cur arg = .noHandler ∨ refStep env t h op cur arg = .notAccess) :
    refLog env t h op cur arg = [] := by
  have hca := classify_access env op
  unfold refStep at hr
  unfold refLog
  split at hr
  · rcases hr with hr | hr
    · exact absurd hr (hca _).1
    · exact absurd hr (hca _).2
  · rename_i h1
    rw [if_neg h1]
    split at hr
    · rcases hr with hr | hr
      · exact absurd hr (hca _).1
      · exact absurd hr (hca _).2
    · rename_i h2
      rw [if_neg h2]
      split at hr
      · rename_i h3
        rw [if_pos h3]
        split at hr
        · rename_i hm; rw [if_pos hm]
        · rename_i hm
          rw [if_neg hm]
          cases hn : t.nearest env.k.ct (cur.clsName h) with
          | none => rfl
          | some hn' =>
            rw [hn] at hr
            simp only at hr
            rcases hr with hr | hr
            · exact absurd hr (hca _).1
            · exact absurd hr (hca _).2
      · rename_i h3; rw [if_neg h3]

theorem tLoop2_eq_walk2 (env : Env) (hwf : WF2 env = true) (h : Heap) (root : Val)
    (rest : List (String × Val)) :
    ∀ (pre : List (String × Val)) (cur : Val) (tr : List (Nat × Val)) (r : Reg) (lg : List Nat),
    wfSteps rest = true → r.coherent env.k.ct = true →
    tLoop2 env h (root :: flatOfSteps (pre ++ rest)) (1 + 2 * pre.length) cur tr r lg =
      ⟨resOfWalk (walk2 env r.tbl h rest pre.length cur),
       tr ++ walkTouched2 env r.tbl h rest pre.length cur,
       walkReg env h rest cur r,
       lg ++ walkLog2 env r.tbl h rest cur⟩ := by
  induction rest with
  | nil =>
    intro pre cur tr r lg _ _
    rw [tLoop2]
    simp only [List.append_nil]
    have : ¬ (1 + 2 * pre.length < (root :: flatOfSteps pre).length) := by
      rw [flat_length]; simp
    simp only [this, dite_false, walk2, walkTouched2, walkLog2, resOfWalk, walkReg, List.append_nil]
  | cons s rest ih =>
    obtain ⟨op, arg⟩ := s
    intro pre cur tr r lg hw hc
    obtain ⟨hw1, hw2⟩ := wfSteps_cons hw
    have hlt : 1 + 2 * pre.length < (root :: flatOfSteps (pre ++ (op, arg) :: rest)).length := by
      rw [flat_length]; simp
    rw [tLoop2_step env hwf h _ _ cur tr r lg hc op arg hlt (flat_get_op ..) (flat_get_arg ..) hw1]
    have hdiv : (1 + 2 * pre.length) / 2 = pre.length := by omega
    rw [hdiv]
    obtain ⟨ht, hc'⟩ := stepReg_coherent env h op cur r hc
    simp only [walk2, walkTouched2, walkReg, walkLog2]
    cases hr : refStep env r.tbl h op cur arg with
    | ok v =>
      simp only
      have := ih (pre ++ [(op, arg)]) v (tr ++ [(pre.length, cur)]) (stepReg env h op cur r)
        (lg ++ refLog env r.tbl h op cur arg) hw2 hc'
      simp only [List.append_assoc, List.singleton_append, List.length_append,
        List.length_singleton] at this
      rw [show 1 + 2 * pre.length + 2 = 1 + 2 * (pre.length + 1) by omega, this, ht]
    | fail e => simp [resOfWalk]
    | escapes e => simp [resOfWalk]
    | beyond => simp [resOfWalk]
    | noHandler =>
      have hl := refLog_nil env r.tbl h op cur arg (Or.inl hr)
      simp [resOfWalk, hl]
    | notAccess =>
      have hl := refLog_nil env r.tbl h op cur arg (Or.inr hr)
      simp [resOfWalk, hl]

/-! ### characterisation of the reference walk -/

theorem walk2_ok_reaches (env : Env) (t : Table) (h : Heap) :
    ∀ (steps : List (String × Val)) (k : Nat) (u v : Val),
      walk2 env t h steps k u = .ok v → Reaches2 env t h u steps v := by
  intro steps
  induction steps with
  | nil => intro k u v hw; simp [walk2] at hw; subst hw; exact .nil u
  | cons s rest ih =>
    obtain ⟨op, arg⟩ := s
    intro k u v hw
    simp only [walk2] at hw
    split at hw
    · rename_i w hu; exact .cons hu (ih _ _ _ hw)
    all_goals contradiction

theorem reaches2_walk_ok (env : Env) (t : Table) (h : Heap) {u steps v}
    (hr : Reaches2 env t h u steps v) : ∀ k, walk2 env t h steps k u = .ok v := by
  induction hr with
  | nil u => intro k; rfl
  | cons ha _ ih => intro k; simp only [walk2, ha]; exact ih _

/-- the walk result a non-`ok` step outcome at index `k` gives -/
def stopOf (k : Nat) : Step → Option WalkRes2
  | .ok _ => none
  | .fail e => some (.fail k e)
  | .escapes e => some (.escapes k e)
  | .noHandler => some (.noHandler k)
  | .beyond => some (.beyond k)
  | .notAccess => some (.notAccess k)

/-- a walk that does not end in `ok` stops at some index `k ≥ k0`: the first
    `k - k0` segments succeed one after the other and segment `k - k0`, applied to
    the value they reach, has the outcome `s` that the result reports -/
theorem walk2_stop (env : Env) (t : Table) (h : Heap) :
    ∀ (steps : List (String × Val)) (k0 : Nat) (u : Val) (w : WalkRes2),
      walk2 env t h steps k0 u = w → (∀ v, w ≠ .ok v) →
      ∃ k s, stopOf k s = some w ∧ k0 ≤ k ∧ k - k0 < steps.length ∧
      ∃ x, Reaches2 env t h u (steps.take (k - k0)) x ∧
        ∃ st, steps[k - k0]? = some st ∧ refStep env t h st.1 x st.2 = s := by
  intro steps
  induction steps with
  | nil =>
    intro k0 u w hw hne
    simp only [walk2] at hw
    exact absurd hw.symm (hne u)
  | cons st rest ih =>
    obtain ⟨op, arg⟩ := st
    intro k0 u w hw hne
    simp only [walk2] at hw
    cases hr : refStep env t h op u arg with
    | ok v =>
      rw [hr] at hw
      simp only at hw
      obtain ⟨k, s, hs, hle, hlt, x, hreach, st, hst, hacc⟩ := ih (k0 + 1) v w hw hne
      refine ⟨k, s, hs, by omega, by simp; omega, x, ?_, st, ?_, hacc⟩
      · rw [show k - k0 = (k - (k0 + 1)) + 1 by omega, List.take_succ_cons]
        exact .cons hr hreach
      · rw [show k - k0 = (k - (k0 + 1)) + 1 by omega, List.getElem?_cons_succ]; exact hst
    | fail e =>
      rw [hr] at hw; simp only at hw
      exact ⟨k0, .fail e, by simp [stopOf, hw], Nat.le_refl _, by simp, u,
        by simpa using Reaches2.nil u, (op, arg), by simp, hr⟩
    | escapes e =>
      rw [hr] at hw; simp only at hw
      exact ⟨k0, .escapes e, by simp [stopOf, hw], Nat.le_refl _, by simp, u,
        by simpa using Reaches2.nil u, (op, arg), by simp, hr⟩
    | noHandler =>
      rw [hr] at hw; simp only at hw
      exact ⟨k0, .noHandler, by simp [stopOf, hw], Nat.le_refl _, by simp, u,
        by simpa using Reaches2.nil u, (op, arg), by simp, hr⟩
    | beyond =>
      rw [hr] at hw; simp only at hw
      exact ⟨k0, .beyond, by simp [stopOf, hw], Nat.le_refl _, by simp, u,
        by simpa using Reaches2.nil u, (op, arg), by simp, hr⟩
    | notAccess =>
      rw [hr] at hw; simp only at hw
      exact ⟨k0, .notAccess, by simp [stopOf, hw], Nat.le_refl _, by simp, u,
        by simpa using Reaches2.nil u, (op, arg), by simp, hr⟩

theorem walk2_fail_first (env : Env) (t : Table) (h : Heap) (steps : List (String × Val))
    (u : Val) (k : Nat) (e : PyExc) (hw : walk2 env t h steps 0 u = .fail k e) :
    k < steps.length ∧ ∃ x, Reaches2 env t h u (steps.take k) x ∧
      ∃ st, steps[k]? = some st ∧ refStep env t h st.1 x st.2 = .fail e := by
  obtain ⟨k', s, hs, _, hlt, x, hx, st, hst, hacc⟩ :=
    walk2_stop env t h steps 0 u _ hw (by intro v hv; cases hv)
  cases s <;> simp [stopOf] at hs
  obtain ⟨rfl, rfl⟩ := hs
  exact ⟨by simpa using hlt, x, by simpa using hx, st, by simpa using hst, hacc⟩

theorem walk2_escapes_first (env : Env) (t : Table) (h : Heap) (steps : List (String × Val))
    (u : Val) (k : Nat) (e : PyExc) (hw : walk2 env t h steps 0 u = .escapes k e) :
    k < steps.length ∧ ∃ x, Reaches2 env t h u (steps.take k) x ∧
      ∃ st, steps[k]? = some st ∧ refStep env t h st.1 x st.2 = .escapes e := by
  obtain ⟨k', s, hs, _, hlt, x, hx, st, hst, hacc⟩ :=
    walk2_stop env t h steps 0 u _ hw (by intro v hv; cases hv)
  cases s <;> simp [stopOf] at hs
  obtain ⟨rfl, rfl⟩ := hs
  exact ⟨by simpa using hlt, x, by simpa using hx, st, by simpa using hst, hacc⟩

theorem walk2_noHandler_first (env : Env) (t : Table) (h : Heap) (steps : List (String × Val))
    (u : Val) (k : Nat) (hw : walk2 env t h steps 0 u = .noHandler k) :
    k < steps.length ∧ ∃ x, Reaches2 env t h u (steps.take k) x ∧
      ∃ st, steps[k]? = some st ∧ refStep env t h st.1 x st.2 = .noHandler := by
  obtain ⟨k', s, hs, _, hlt, x, hx, st, hst, hacc⟩ :=
    walk2_stop env t h steps 0 u _ hw (by intro v hv; cases hv)
  cases s <;> simp [stopOf] at hs
  subst hs
  exact ⟨by simpa using hlt, x, by simpa using hx, st, by simpa using hst, hacc⟩

/-- the index a walk result carries -/
def WalkRes2.idx : WalkRes2 → Option Nat
  | .ok _ => none
  | .fail k _ | .escapes k _ | .noHandler k | .beyond k | .notAccess k => some k

theorem walk2_idx_ge (env : Env) (t : Table) (h : Heap) (steps : List (String × Val)) (k0 : Nat)
    (u : Val) (k : Nat) (hi : (walk2 env t h steps k0 u).idx = some k) : k0 ≤ k := by
  obtain ⟨k', s, hs, hle, _⟩ := walk2_stop env t h steps k0 u _ rfl
    (by intro v hv; rw [hv] at hi; simp [WalkRes2.idx] at hi)
  cases s <;> simp [stopOf] at hs <;> rw [← hs] at hi <;> simp [WalkRes2.idx] at hi <;> omega

/-- indices touched: `k0 … k0+n-1` on success, `k0 … k` when an access at `k` ends
    the walk, `k0 … k-1` when segment `k` is not applied at all -/
theorem walkTouched2_idx (env : Env) (t : Table) (h : Heap) :
    ∀ (steps : List (String × Val)) (k0 : Nat) (u : Val),
      (walkTouched2 env t h steps k0 u).map (·.1) =
        match walk2 env t h steps k0 u with
        | .ok _ => List.range' k0 steps.length
        | .fail k _ | .escapes k _ | .beyond k => List.range' k0 (k - k0 + 1)
        | .noHandler k | .notAccess k => List.range' k0 (k - k0) := by
  intro steps
  induction steps with
  | nil => intro k0 u; simp [walkTouched2, walk2]
  | cons s rest ih =>
    obtain ⟨op, arg⟩ := s
    intro k0 u
    simp only [walkTouched2, walk2]
    cases hr : refStep env t h op u arg with
    | ok v =>
      simp only [List.map_cons, ih (k0 + 1) v]
      have hge := walk2_idx_ge env t h rest (k0 + 1) v
      cases hw : walk2 env t h rest (k0 + 1) v with
      | ok v' => simp [List.range'_succ]
      | fail k e =>
        have := hge k (by rw [hw]; rfl)
        simp only
        rw [show k - k0 + 1 = (k - (k0 + 1) + 1) + 1 by omega]; simp [List.range'_succ]
      | escapes k e =>
        have := hge k (by rw [hw]; rfl)
        simp only
        rw [show k - k0 + 1 = (k - (k0 + 1) + 1) + 1 by omega]; simp [List.range'_succ]
      | beyond k =>
        have := hge k (by rw [hw]; rfl)
        simp only
        rw [show k - k0 + 1 = (k - (k0 + 1) + 1) + 1 by omega]; simp [List.range'_succ]
      | noHandler k =>
        have := hge k (by rw [hw]; rfl)
        simp only
        rw [show k - k0 = (k - (k0 + 1)) + 1 by omega]; simp [List.range'_succ]
      | notAccess k =>
        have := hge k (by rw [hw]; rfl)
        simp only
        rw [show k - k0 = (k - (k0 + 1)) + 1 by omega]; simp [List.range'_succ]
    | fail e => simp
    | escapes e => simp
    | beyond => simp
    | noHandler => simp
    | notAccess => simp

end Glom.C01

namespace Glom.C01
open Glom

/-! ### the walk from a reached prefix -/

theorem walk2_of_prefix (env : Env) (t : Table) (h : Heap) :
    ∀ (pre : List (String × Val)) (u x : Val) (k0 : Nat) (rest : List (String × Val)),
      Reaches2 env t h u pre x →
      walk2 env t h (pre ++ rest) k0 u = walk2 env t h rest (k0 + pre.length) x := by
  intro pre u x k0 rest hr
  induction hr generalizing k0 with
  | nil u => simp
  | cons ha _ ih =>
    simp only [List.cons_append, walk2, ha, List.length_cons]
    rw [ih]; congr 1; omega

/-- segments `0..k-1` succeed and segment `k` has the non-`ok` outcome `s`: the walk stops at `k` with `s` -/
theorem walk2_stops_at (env : Env) (t : Table) (h : Heap) (steps : List (String × Val)) (u x : Val)
    (k : Nat) (st : String × Val) (s : Step) (w : WalkRes2)
    (hr : Reaches2 env t h u (steps.take k) x) (hst : steps[k]? = some st)
    (hs : refStep env t h st.1 x st.2 = s) (hw : stopOf k s = some w) :
    walk2 env t h steps 0 u = w := by
  have hlt : k < steps.length := by
    rcases Nat.lt_or_ge k steps.length with h1 | h1
    · exact h1
    · rw [List.getElem?_eq_none h1] at hst; contradiction
  have hsplit : steps = steps.take k ++ st :: steps.drop (k + 1) := by
    have h1 : steps.drop k = st :: steps.drop (k + 1) := by
      rw [List.drop_eq_getElem_cons hlt]
      congr 1
      rw [List.getElem?_eq_getElem hlt] at hst
      injection hst
    rw [← h1, List.take_append_drop]
  rw [hsplit, walk2_of_prefix env t h _ u x 0 _ hr]
  have hlen : (steps.take k).length = k := by simp; omega
  obtain ⟨op, arg⟩ := st
  simp only [walk2, hlen, Nat.zero_add]
  simp only at hs
  rw [hs]
  cases s <;> simp [stopOf] at hw <;> simp [hw]

theorem isSubseq_refl' (l : List Nat) : isSubseq l l = true := isSubseq_refl l

end Glom.C01

namespace Glom.C01
open Glom

/-! ### the access log stops with the walk -/

/-- the segments after the one that ends the walk contribute nothing to the log -/
theorem walkLog2_take (env : Env) (t : Table) (h : Heap) :
    ∀ (steps : List (String × Val)) (k0 : Nat) (u : Val) (k : Nat),
      (walk2 env t h steps k0 u).idx = some k →
      walkLog2 env t h steps u = walkLog2 env t h (steps.take (k - k0 + 1)) u := by
  intro steps
  induction steps with
  | nil => intro k0 u k hi; simp [walk2, WalkRes2.idx] at hi
  | cons s rest ih =>
    obtain ⟨op, arg⟩ := s
    intro k0 u k hi
    simp only [walk2] at hi
    simp only [List.take_succ_cons, walkLog2]
    cases hr : refStep env t h op u arg with
    | ok v =>
      rw [hr] at hi
      simp only at hi
      have hge := walk2_idx_ge env t h rest (k0 + 1) v k hi
      have := ih (k0 + 1) v k hi
      rw [show k - k0 = (k - (k0 + 1)) + 1 by omega]
      simp only
      rw [this]
    | fail e => simp
    | escapes e => simp
    | beyond => simp
    | noHandler => simp
    | notAccess => simp

/-! ### spec → steps -/

theorem stepsOfParts2_append (a b : List Part2) :
    stepsOfParts2 (a ++ b) = stepsOfParts2 a ++ stepsOfParts2 b := by
  induction a with
  | nil => simp [stepsOfParts2]
  | cons p r ih => simp [stepsOfParts2, ih]

theorem stepsOfParts2_segs (vs : List Val) :
    stepsOfParts2 (vs.map Part2.seg) = vs.map (fun v => ("P", v)) := by
  induction vs with
  | nil => simp [stepsOfParts2]
  | cons v r ih => simp [stepsOfParts2, stepsOfPart2, ih]

end Glom.C01
