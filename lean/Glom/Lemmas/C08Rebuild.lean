import Glom.Spec.C08Graph
/-
  C08 — `rebuild` (the id()-memo rebuilding of self-referential containers in argument position):
  invariants of the mutual recursion, monotonicity in the fuel, and the termination measure.
-/
namespace Glom.Interp

/-! ### memo lookups -/

theorem lookup_cons_self (i n : Nat) (m : Memo) : ((i, n) :: m).lookup i = some n := by
  simp [List.lookup]

theorem lookup_cons_ne (i j n : Nat) (m : Memo) (h : j ≠ i) : ((i, n) :: m).lookup j = m.lookup j := by
  have : (j == i) = false := by simpa using h
  simp [List.lookup, this]

/-- an extension that keeps the invariant does not change what is already in the memo -/
theorem lookup_ext (nodes : List GNode) : ∀ (e φ : Memo), MemoInv nodes (e ++ φ) →
    ∀ j m, φ.lookup j = some m → (e ++ φ).lookup j = some m := by
  intro e
  induction e with
  | nil => intro φ _ j m h; exact h
  | cons p e ih =>
    obtain ⟨i, n⟩ := p
    intro φ hinv j m h
    simp only [List.cons_append, MemoInv] at hinv
    obtain ⟨_, hnone, _, hrest⟩ := hinv
    have := ih φ hrest j m h
    by_cases hji : j = i
    · subst hji; rw [hnone] at this; cases this
    · rw [List.cons_append, lookup_cons_ne _ _ _ _ hji]; exact this

/-! ### monotonicity of the correspondence in the memo -/

mutual
theorem corr_mono (ev : Spec → Except Err V) (nodes : List GNode) (φ ψ : Memo)
    (h : ∀ j m, φ.lookup j = some m → ψ.lookup j = some m) :
    ∀ (out : GOut) (item : GItem), Corr ev nodes φ item out → Corr ev nodes ψ item out
  | .leaf _, _, hc => by simpa [Corr] using hc
  | .ref m, item, hc => by
    simp only [Corr] at hc ⊢
    obtain ⟨j, h1, h2⟩ := hc
    exact ⟨j, h1, h _ _ h2⟩
  | .node _ m _, item, hc => by
    simp only [Corr] at hc ⊢
    obtain ⟨j, h1, h2⟩ := hc
    exact ⟨j, h1, h _ _ h2⟩
  | .tuple ys, item, hc => by
    simp only [Corr] at hc ⊢
    obtain ⟨j, nd, h1, h2, h3, h4⟩ := hc
    exact ⟨j, nd, h1, h2, h3, corrL_mono ev nodes φ ψ h ys nd.items h4⟩
theorem corrL_mono (ev : Spec → Except Err V) (nodes : List GNode) (φ ψ : Memo)
    (h : ∀ j m, φ.lookup j = some m → ψ.lookup j = some m) :
    ∀ (ys : List GOut) (xs : List GItem), CorrL ev nodes φ xs ys → CorrL ev nodes ψ xs ys
  | [], [], _ => by simp [CorrL]
  | [], _ :: _, hc => by simp [CorrL] at hc
  | _ :: _, [], hc => by simp [CorrL] at hc
  | y :: ys, x :: xs, hc => by
    simp only [CorrL] at hc ⊢
    exact ⟨corr_mono ev nodes φ ψ h y x hc.1, corrL_mono ev nodes φ ψ h ys xs hc.2⟩
end

mutual
theorem allDefs_mono (P Q : Bool → Nat → List GOut → Prop) (h : ∀ d n ys, P d n ys → Q d n ys) :
    ∀ (out : GOut), out.allDefs P → out.allDefs Q
  | .leaf _, _ => by simp [GOut.allDefs]
  | .ref _, _ => by simp [GOut.allDefs]
  | .node d n ys, hc => by
    simp only [GOut.allDefs] at hc ⊢
    exact ⟨h _ _ _ hc.1, allDefsL_mono P Q h ys hc.2⟩
  | .tuple ys, hc => by
    simp only [GOut.allDefs] at hc ⊢
    exact allDefsL_mono P Q h ys hc
theorem allDefsL_mono (P Q : Bool → Nat → List GOut → Prop) (h : ∀ d n ys, P d n ys → Q d n ys) :
    ∀ (ys : List GOut), allDefsL P ys → allDefsL Q ys
  | [], _ => by simp [allDefsL]
  | y :: ys, hc => by
    simp only [allDefsL] at hc ⊢
    exact ⟨allDefs_mono P Q h y hc.1, allDefsL_mono P Q h ys hc.2⟩
end

theorem defOK_mono (ev : Spec → Except Err V) (nodes : List GNode) (φ ψ : Memo)
    (h : ∀ j m, φ.lookup j = some m → ψ.lookup j = some m) (d : Bool) (n : Nat) (ys : List GOut) :
    DefOK ev nodes φ d n ys → DefOK ev nodes ψ d n ys := by
  intro ⟨i, nd, h1, h2, h3, h4⟩
  exact ⟨i, nd, h _ _ h1, h2, h3, corrL_mono ev nodes φ ψ h ys nd.items h4⟩

/-! ### what one call of the rebuilder establishes -/

def ItemPost (ev : Spec → Except Err V) (nodes : List GNode) (item : GItem) (memo : Memo) (out : GOut)
    (memo' : Memo) : Prop :=
  ∃ ext, memo' = ext ++ memo ∧ MemoInv nodes memo' ∧ out.defNums = List.range' memo.length ext.length ∧
    out.allDefs (DefOK ev nodes memo') ∧ Corr ev nodes memo' item out ∧
    ∀ p ∈ ext, ReachItem nodes item p.1

def ItemsPost (ev : Spec → Except Err V) (nodes : List GNode) (xs : List GItem) (memo : Memo) (ys : List GOut)
    (memo' : Memo) : Prop :=
  ∃ ext, memo' = ext ++ memo ∧ MemoInv nodes memo' ∧ defNumsL ys = List.range' memo.length ext.length ∧
    allDefsL (DefOK ev nodes memo') ys ∧ CorrL ev nodes memo' xs ys ∧
    ∀ p ∈ ext, ∃ x ∈ xs, ReachItem nodes x p.1

theorem rebuild_post (ev : Spec → Except Err V) (nodes : List GNode) : ∀ fuel,
    (∀ item memo out memo', rebuildItem ev nodes fuel item memo = some (.ok (out, memo')) →
      MemoInv nodes memo → ItemPost ev nodes item memo out memo') ∧
    (∀ xs memo ys memo', rebuildItems ev nodes fuel xs memo = some (.ok (ys, memo')) →
      MemoInv nodes memo → ItemsPost ev nodes xs memo ys memo') := by
  intro fuel
  induction fuel with
  | zero => constructor <;> (intros; simp_all [rebuildItem, rebuildItems])
  | succ fuel ih =>
    obtain ⟨ihI, ihL⟩ := ih
    constructor
    · intro item memo out memo' h hinv
      cases item with
      | leaf s =>
        simp only [rebuildItem] at h
        split at h
        · rename_i v hv
          simp only [Option.some.injEq, Except.ok.injEq, Prod.mk.injEq] at h
          obtain ⟨rfl, rfl⟩ := h
          exact ⟨[], rfl, hinv, by simp [GOut.defNums], by simp [GOut.allDefs], by simp [Corr, hv], by simp⟩
        · simp at h
      | ref i =>
        simp only [rebuildItem] at h
        split at h
        · rename_i n hn
          simp only [Option.some.injEq, Except.ok.injEq, Prod.mk.injEq] at h
          obtain ⟨rfl, rfl⟩ := h
          exact ⟨[], rfl, hinv, by simp [GOut.defNums], by simp [GOut.allDefs], by simp [Corr, hn], by simp⟩
        · rename_i hnone
          split at h
          · simp at h
          · rename_i nd hnd
            split at h
            · -- a tuple: rebuilt structurally, not memoised
              rename_i hk
              split at h
              · simp at h
              · simp at h
              · rename_i ys m' hr
                simp only [Option.some.injEq, Except.ok.injEq, Prod.mk.injEq] at h
                obtain ⟨rfl, rfl⟩ := h
                obtain ⟨ext, he, hi', hd, ha, hc, hreach⟩ := ihL _ _ _ _ hr hinv
                refine ⟨ext, he, hi', by simpa [GOut.defNums] using hd, by simpa [GOut.allDefs] using ha, ?_, ?_⟩
                · simp only [Corr]; exact ⟨i, nd, rfl, hnd, hk, hc⟩
                · intro p hp
                  obtain ⟨x, hx, hrx⟩ := hreach p hp
                  exact ReachItem.step i nd x p.1 hnd hx hrx
            · -- a list or a dict: memoised before its items are visited
              rename_i k hk
              split at h
              · simp at h
              · simp at h
              · rename_i ys m' hr
                simp only [Option.some.injEq, Except.ok.injEq, Prod.mk.injEq] at h
                obtain ⟨rfl, rfl⟩ := h
                have hmut : IsMutable nodes i := ⟨nd, hnd, by intro hc; exact hk hc⟩
                have hinv1 : MemoInv nodes ((i, memo.length) :: memo) := ⟨rfl, hnone, hmut, hinv⟩
                obtain ⟨ext, he, hi', hd, ha, hc, hreach⟩ := ihL _ _ _ _ hr hinv1
                have hlk : m'.lookup i = some memo.length := by
                  rw [he]; rw [he] at hi'
                  exact lookup_ext nodes ext _ hi' i _ (lookup_cons_self ..)
                refine ⟨ext ++ [(i, memo.length)], by simp [he], hi', ?_, ?_, ?_, ?_⟩
                · simp only [GOut.defNums, hd, List.length_cons, List.length_append, List.length_nil]
                  have : ext.length + (0 + 1) = ext.length + 1 := by omega
                  rw [this, List.range'_succ]
                · simp only [GOut.allDefs]
                  refine ⟨⟨i, nd, hlk, hnd, ?_, hc⟩, ha⟩
                  cases hkd : nd.kind <;> simp_all
                · simp only [Corr]; exact ⟨i, rfl, hlk⟩
                · intro p hp
                  rcases List.mem_append.mp hp with hp | hp
                  · obtain ⟨x, hx, hrx⟩ := hreach p hp
                    exact ReachItem.step i nd x p.1 hnd hx hrx
                  · simp only [List.mem_singleton] at hp
                    subst hp
                    exact ReachItem.here i
    · intro xs memo ys memo' h hinv
      cases xs with
      | nil =>
        simp only [rebuildItems, Option.some.injEq, Except.ok.injEq, Prod.mk.injEq] at h
        obtain ⟨rfl, rfl⟩ := h
        exact ⟨[], rfl, hinv, by simp [defNumsL], by simp [allDefsL], by simp [CorrL], by simp⟩
      | cons x xs =>
        simp only [rebuildItems] at h
        split at h
        · simp at h
        · simp at h
        · rename_i y m1 hx
          split at h
          · simp at h
          · simp at h
          · rename_i ys' m2 hxs
            simp only [Option.some.injEq, Except.ok.injEq, Prod.mk.injEq] at h
            obtain ⟨rfl, rfl⟩ := h
            obtain ⟨e1, he1, hi1, hd1, ha1, hc1, hr1⟩ := ihI _ _ _ _ hx hinv
            obtain ⟨e2, he2, hi2, hd2, ha2, hc2, hr2⟩ := ihL _ _ _ _ hxs hi1
            have hlift : ∀ j m, m1.lookup j = some m → m2.lookup j = some m := by
              intro j m hj; rw [he2]; rw [he2] at hi2; exact lookup_ext nodes e2 m1 hi2 j m hj
            refine ⟨e2 ++ e1, by rw [he2, he1, List.append_assoc], hi2, ?_, ?_, ?_, ?_⟩
            · simp only [defNumsL, hd1, hd2, he1, List.length_append]
              rw [Nat.add_comm e1.length memo.length, List.range'_append_1, Nat.add_comm e1.length e2.length]
            · simp only [allDefsL]
              exact ⟨allDefs_mono _ _ (defOK_mono ev nodes m1 m2 hlift) y ha1, ha2⟩
            · simp only [CorrL]
              exact ⟨corr_mono ev nodes m1 m2 hlift y x hc1, hc2⟩
            · intro p hp
              rcases List.mem_append.mp hp with hp | hp
              · obtain ⟨x', hx', hrx⟩ := hr2 p hp
                exact ⟨x', List.mem_cons_of_mem _ hx', hrx⟩
              · exact ⟨x, List.mem_cons_self .., hr1 p hp⟩

/-! ### from the invariant to the isomorphism -/

theorem mem_of_lookup : ∀ (φ : Memo) (i n : Nat), φ.lookup i = some n → (i, n) ∈ φ := by
  intro φ
  induction φ with
  | nil => intro i n h; simp [List.lookup] at h
  | cons p φ ih =>
    obtain ⟨j, m⟩ := p
    intro i n h
    by_cases hij : i = j
    · subst hij; rw [lookup_cons_self] at h; cases h; exact List.mem_cons_self ..
    · rw [lookup_cons_ne _ _ _ _ hij] at h; exact List.mem_cons_of_mem _ (ih i n h)

theorem memoInv_mem (nodes : List GNode) : ∀ (φ : Memo), MemoInv nodes φ → ∀ i n, (i, n) ∈ φ →
    IsMutable nodes i ∧ n < φ.length := by
  intro φ
  induction φ with
  | nil => intro _ i n h; cases h
  | cons p φ ih =>
    obtain ⟨j, m⟩ := p
    intro hinv i n h
    simp only [MemoInv] at hinv
    obtain ⟨hm, _, hmut, hrest⟩ := hinv
    rcases List.mem_cons.mp h with h | h
    · cases h; exact ⟨hmut, by simp [hm]⟩
    · have := ih hrest i n h
      exact ⟨this.1, by simp; omega⟩

/-- `φ` is injective: a number belongs to one spec node only -/
theorem memoInv_inj (nodes : List GNode) : ∀ (φ : Memo), MemoInv nodes φ → ∀ i j n,
    φ.lookup i = some n → φ.lookup j = some n → i = j := by
  intro φ
  induction φ with
  | nil => intro _ i j n h; simp [List.lookup] at h
  | cons p φ ih =>
    obtain ⟨k, m⟩ := p
    intro hinv i j n hi hj
    simp only [MemoInv] at hinv
    obtain ⟨hm, _, _, hrest⟩ := hinv
    by_cases hik : i = k <;> by_cases hjk : j = k
    · rw [hik, hjk]
    · subst hik
      rw [lookup_cons_self] at hi; cases hi
      rw [lookup_cons_ne _ _ _ _ hjk] at hj
      have := (memoInv_mem nodes φ hrest j _ (mem_of_lookup φ j _ hj)).2
      omega
    · subst hjk
      rw [lookup_cons_self] at hj; cases hj
      rw [lookup_cons_ne _ _ _ _ hik] at hi
      have := (memoInv_mem nodes φ hrest i _ (mem_of_lookup φ i _ hi)).2
      omega
    · rw [lookup_cons_ne _ _ _ _ hik] at hi
      rw [lookup_cons_ne _ _ _ _ hjk] at hj
      exact ih hrest i j n hi hj

mutual
/-- every number listed by `defNums` has its definition inside the term -/
theorem def_of_mem_defNums (P : Bool → Nat → List GOut → Prop) :
    ∀ (out : GOut), out.allDefs P → ∀ n, n ∈ out.defNums → ∃ d ys, P d n ys
  | .leaf _, _, n, hn => by simp [GOut.defNums] at hn
  | .ref _, _, n, hn => by simp [GOut.defNums] at hn
  | .node d m ys, ha, n, hn => by
    simp only [GOut.allDefs] at ha
    simp only [GOut.defNums, List.mem_cons] at hn
    rcases hn with hn | hn
    · subst hn; exact ⟨d, ys, ha.1⟩
    · exact defL_of_mem_defNums P ys ha.2 n hn
  | .tuple ys, ha, n, hn => by
    simp only [GOut.allDefs] at ha
    simp only [GOut.defNums] at hn
    exact defL_of_mem_defNums P ys ha n hn
theorem defL_of_mem_defNums (P : Bool → Nat → List GOut → Prop) :
    ∀ (ys : List GOut), allDefsL P ys → ∀ n, n ∈ defNumsL ys → ∃ d ys', P d n ys'
  | [], _, n, hn => by simp [defNumsL] at hn
  | y :: ys, ha, n, hn => by
    simp only [allDefsL] at ha
    simp only [defNumsL, List.mem_append] at hn
    rcases hn with hn | hn
    · exact def_of_mem_defNums P y ha.1 n hn
    · exact defL_of_mem_defNums P ys ha.2 n hn
end

theorem corrL_mem (ev : Spec → Except Err V) (nodes : List GNode) (φ : Memo) :
    ∀ (xs : List GItem) (ys : List GOut), CorrL ev nodes φ xs ys → ∀ x ∈ xs, ∃ y, Corr ev nodes φ x y := by
  intro xs
  induction xs with
  | nil => intro ys _ x hx; cases hx
  | cons a xs ih =>
    intro ys h x hx
    cases ys with
    | nil => simp [CorrL] at h
    | cons b ys =>
      simp only [CorrL] at h
      rcases List.mem_cons.mp hx with hx | hx
      · subst hx; exact ⟨b, h.1⟩
      · exact ih ys h.2 x hx

/-- closure: every list / dict reachable from an item that corresponds to a result term is in `φ` -/
theorem reach_in_memo (ev : Spec → Except Err V) (nodes : List GNode) (φ : Memo) (out : GOut)
    (hinv : MemoInv nodes φ) (hord : out.defNums = List.range φ.length)
    (hdefs : out.allDefs (DefOK ev nodes φ)) :
    ∀ x i, ReachItem nodes x i → ∀ y, Corr ev nodes φ x y → IsMutable nodes i → ∃ n, φ.lookup i = some n := by
  intro x i hr
  induction hr with
  | here i =>
    intro y hc hmut
    obtain ⟨nd, hnd, hk⟩ := hmut
    cases y with
    | leaf v => simp [Corr] at hc
    | ref m => simp only [Corr] at hc; obtain ⟨j, h1, h2⟩ := hc; cases h1; exact ⟨m, h2⟩
    | node d m ys => simp only [Corr] at hc; obtain ⟨j, h1, h2⟩ := hc; cases h1; exact ⟨m, h2⟩
    | tuple ys =>
      simp only [Corr] at hc
      obtain ⟨j, nd', h1, h2, h3, _⟩ := hc
      cases h1
      rw [hnd] at h2; cases h2
      exact absurd h3 hk
  | step j nd x i hnd hx _ ih =>
    intro y hc hmut
    -- the items of node `j` correspond to result terms
    have hitems : ∃ ys, CorrL ev nodes φ nd.items ys := by
      have viaMemo : ∀ m, φ.lookup j = some m → ∃ ys, CorrL ev nodes φ nd.items ys := by
        intro m hm
        have hlt := (memoInv_mem nodes φ hinv j m (mem_of_lookup φ j m hm)).2
        have hmem : m ∈ out.defNums := by rw [hord]; exact List.mem_range.mpr hlt
        obtain ⟨d, ys, i0, nd0, h1, h2, _, h4⟩ := def_of_mem_defNums _ out hdefs m hmem
        have : i0 = j := memoInv_inj nodes φ hinv i0 j m h1 hm
        subst this
        rw [hnd] at h2; cases h2
        exact ⟨ys, h4⟩
      cases y with
      | leaf v => simp [Corr] at hc
      | ref m => simp only [Corr] at hc; obtain ⟨j', h1, h2⟩ := hc; cases h1; exact viaMemo m h2
      | node d m ys => simp only [Corr] at hc; obtain ⟨j', h1, h2⟩ := hc; cases h1; exact viaMemo m h2
      | tuple ys =>
        simp only [Corr] at hc
        obtain ⟨j', nd', h1, h2, _, h4⟩ := hc
        cases h1
        rw [hnd] at h2; cases h2
        exact ⟨ys, h4⟩
    obtain ⟨ys, hys⟩ := hitems
    obtain ⟨y', hy'⟩ := corrL_mem ev nodes φ nd.items ys hys x hx
    exact ih y' hy' hmut

/-- **isomorphism**: a successful top-level run yields a term isomorphic to the reachable heap -/
theorem rebuild_iso (ev : Spec → Except Err V) (nodes : List GNode) (fuel : Nat) (root : GItem) (out : GOut)
    (φ : Memo) (h : rebuildItem ev nodes fuel root [] = some (.ok (out, φ))) :
    RebuildIso ev nodes root out φ := by
  obtain ⟨ext, he, hinv, hd, ha, hc, hreach⟩ := (rebuild_post ev nodes fuel).1 root [] out φ h trivial
  simp only [List.append_nil] at he
  subst he
  have hord : out.defNums = List.range φ.length := by
    rw [hd, List.range_eq_range']; rfl
  refine ⟨hinv, ?_, hord, ha, hc⟩
  intro i
  constructor
  · intro ⟨n, hn⟩
    have hmem := mem_of_lookup φ i n hn
    exact ⟨hreach _ hmem, (memoInv_mem nodes φ hinv i n hmem).1⟩
  · intro ⟨hr, hmut⟩
    exact reach_in_memo ev nodes φ out hinv hord ha root i hr out hc hmut

/-! ### the fuel only bounds the recursion depth: more fuel, same result -/

theorem rebuild_fuel_succ (ev : Spec → Except Err V) (nodes : List GNode) : ∀ fuel,
    (∀ item memo r, rebuildItem ev nodes fuel item memo = some r →
      rebuildItem ev nodes (fuel + 1) item memo = some r) ∧
    (∀ xs memo r, rebuildItems ev nodes fuel xs memo = some r →
      rebuildItems ev nodes (fuel + 1) xs memo = some r) := by
  intro fuel
  induction fuel with
  | zero => constructor <;> (intros; simp_all [rebuildItem, rebuildItems])
  | succ fuel ih =>
    obtain ⟨ihI, ihL⟩ := ih
    constructor
    · intro item memo r h
      cases item with
      | leaf s => simpa only [rebuildItem] using h
      | ref i =>
        cases hlk : memo.lookup i with
        | some n => simpa only [rebuildItem, hlk] using h
        | none =>
          cases hnd : nodes[i]? with
          | none => simpa only [rebuildItem, hlk, hnd] using h
          | some nd =>
            cases hk : nd.kind with
            | tuple =>
              cases hr : rebuildItems ev nodes fuel nd.items memo with
              | none => simp [rebuildItem, hlk, hnd, hk, hr] at h
              | some r' =>
                have := ihL _ _ _ hr
                simp only [rebuildItem, hlk, hnd, hk, hr] at h
                simp only [rebuildItem, hlk, hnd, hk, this]
                exact h
            | list =>
              cases hr : rebuildItems ev nodes fuel nd.items ((i, memo.length) :: memo) with
              | none => simp [rebuildItem, hlk, hnd, hk, hr] at h
              | some r' =>
                have := ihL _ _ _ hr
                simp only [rebuildItem, hlk, hnd, hk, hr] at h
                simp only [rebuildItem, hlk, hnd, hk, this]
                exact h
            | dict =>
              cases hr : rebuildItems ev nodes fuel nd.items ((i, memo.length) :: memo) with
              | none => simp [rebuildItem, hlk, hnd, hk, hr] at h
              | some r' =>
                have := ihL _ _ _ hr
                simp only [rebuildItem, hlk, hnd, hk, hr] at h
                simp only [rebuildItem, hlk, hnd, hk, this]
                exact h
    · intro xs memo r h
      cases xs with
      | nil => simpa only [rebuildItems] using h
      | cons x xs =>
        cases hx : rebuildItem ev nodes fuel x memo with
        | none => simp [rebuildItems, hx] at h
        | some rx =>
          have h1 := ihI _ _ _ hx
          cases rx with
          | error e =>
            simp only [rebuildItems, hx] at h
            simp only [rebuildItems, h1]
            exact h
          | ok ym =>
            obtain ⟨y, m1⟩ := ym
            cases hxs : rebuildItems ev nodes fuel xs m1 with
            | none => simp [rebuildItems, hx, hxs] at h
            | some rxs =>
              have h2 := ihL _ _ _ hxs
              simp only [rebuildItems, hx, hxs] at h
              simp only [rebuildItems, h1, h2]
              exact h

theorem rebuild_fuel_mono (ev : Spec → Except Err V) (nodes : List GNode) (item : GItem) (memo : Memo)
    (r : Except Err (GOut × Memo)) (f : Nat) (h : rebuildItem ev nodes f item memo = some r) :
    ∀ f', f ≤ f' → rebuildItem ev nodes f' item memo = some r := by
  intro f' hle
  induction hle with
  | refl => exact h
  | step _ ih => exact (rebuild_fuel_succ ev nodes _).1 _ _ _ ih

/-! ### termination: `fuelBound` suffices -/

/-- fuel that suffices for an item of level `l` when at most `u` lists / dicts are unvisited -/
def needFuel (N K u l : Nat) : Nat := (u * (N + 3) + l + 1) * K

theorem need_succ_l (N K u l : Nat) : needFuel N K u (l + 1) = needFuel N K u l + K := by
  unfold needFuel
  generalize u * (N + 3) = a
  rw [show a + (l + 1) + 1 = (a + l + 1) + 1 by omega, Nat.add_mul, Nat.one_mul]

theorem need_succ_u (N K u : Nat) : needFuel N K (u + 1) 0 = needFuel N K u (N + 1) + 2 * K := by
  unfold needFuel
  have : (u + 1) * (N + 3) = u * (N + 3) + (N + 3) := Nat.succ_mul u (N + 3)
  rw [this]
  generalize u * (N + 3) = a
  rw [show a + (N + 3) + 0 + 1 = (a + (N + 1) + 1) + 2 by omega, Nat.add_mul]

theorem need_mono_l (N K u : Nat) : ∀ l l', l ≤ l' → needFuel N K u l ≤ needFuel N K u l' := by
  intro l l' h
  induction h with
  | refl => exact Nat.le_refl _
  | step _ ih => rw [need_succ_l]; omega

theorem need_pos (N K u l : Nat) (hK : 0 < K) : 0 < needFuel N K u l := by
  unfold needFuel
  exact Nat.mul_pos (by omega) hK

def isMutB (nodes : List GNode) (i : Nat) : Bool :=
  match nodes[i]? with
  | some nd => nd.kind != .tuple
  | Option.none => false

/-- the lists / dicts of the heap that are not in the memo -/
def unvisited (nodes : List GNode) (memo : Memo) : Nat :=
  (List.range nodes.length).countP (fun i => isMutB nodes i && (memo.lookup i).isNone)

theorem lookup_append_none : ∀ (ext memo : Memo) (i : Nat), (ext ++ memo).lookup i = Option.none →
    memo.lookup i = Option.none := by
  intro ext
  induction ext with
  | nil => intro memo i h; exact h
  | cons p ext ih =>
    obtain ⟨j, m⟩ := p
    intro memo i h
    by_cases hij : i = j
    · subst hij; rw [List.cons_append, lookup_cons_self] at h; cases h
    · rw [List.cons_append, lookup_cons_ne _ _ _ _ hij] at h; exact ih memo i h

theorem unvisited_append (nodes : List GNode) (ext memo : Memo) :
    unvisited nodes (ext ++ memo) ≤ unvisited nodes memo := by
  unfold unvisited
  apply List.countP_mono_left
  intro i _ h
  simp only [Bool.and_eq_true, Option.isNone_iff_eq_none] at h ⊢
  exact ⟨h.1, lookup_append_none ext memo i h.2⟩

theorem countP_lt_of_witness {α} (p q : α → Bool) : ∀ (l : List α), (∀ x ∈ l, p x = true → q x = true) →
    (∃ a ∈ l, q a = true ∧ p a = false) → l.countP p < l.countP q := by
  intro l
  induction l with
  | nil => intro _ ⟨a, ha, _⟩; cases ha
  | cons x l ih =>
    intro himp ⟨a, ha, hqa, hpa⟩
    have hle : l.countP p ≤ l.countP q :=
      List.countP_mono_left (fun y hy => himp y (List.mem_cons_of_mem _ hy))
    rcases List.mem_cons.mp ha with hax | hal
    · subst hax
      simp only [List.countP_cons, hqa, hpa]
      simp; omega
    · have := ih (fun y hy => himp y (List.mem_cons_of_mem _ hy)) ⟨a, hal, hqa, hpa⟩
      simp only [List.countP_cons]
      have himpx := himp x (List.mem_cons_self ..)
      cases hp : p x <;> cases hq : q x <;> simp_all <;> omega

theorem unvisited_cons_lt (nodes : List GNode) (memo : Memo) (i n : Nat) (hi : i < nodes.length)
    (hmut : isMutB nodes i = true) (hnone : memo.lookup i = Option.none) :
    unvisited nodes ((i, n) :: memo) < unvisited nodes memo := by
  unfold unvisited
  apply countP_lt_of_witness
  · intro j _ h
    simp only [Bool.and_eq_true, Option.isNone_iff_eq_none] at h ⊢
    exact ⟨h.1, lookup_append_none [(i, n)] memo j h.2⟩
  · refine ⟨i, List.mem_range.mpr hi, ?_, ?_⟩
    · simp [hmut, hnone]
    · simp

theorem items_le_maxWidth : ∀ (nodes : List GNode) (i : Nat) (nd : GNode), nodes[i]? = some nd →
    nd.items.length ≤ maxWidth nodes := by
  intro nodes i nd h
  have hmem : nd ∈ nodes := List.mem_of_getElem? h
  unfold maxWidth
  suffices hs : ∀ (l : List GNode) (w : Nat), (w ≤ l.foldl (fun w nd => max w nd.items.length) w) ∧
      (∀ x ∈ l, x.items.length ≤ l.foldl (fun w nd => max w nd.items.length) w) from (hs nodes 0).2 nd hmem
  intro l
  induction l with
  | nil => intro w; exact ⟨Nat.le_refl _, fun x hx => by cases hx⟩
  | cons a l ih =>
    intro w
    simp only [List.foldl_cons]
    have h1 := ih (max w a.items.length)
    refine ⟨by have := h1.1; omega, ?_⟩
    intro x hx
    rcases List.mem_cons.mp hx with hx | hx
    · subst hx; have := h1.1; omega
    · exact h1.2 x hx

/-- level of an item: 0 for leaves, lists and dicts; rank + 1 for a tuple -/
def level (rk : Nat → Nat) (nodes : List GNode) : GItem → Nat
  | .leaf _ => 0
  | .ref i => match nodes[i]? with
    | some nd => if nd.kind = .tuple then rk i + 1 else 0
    | Option.none => 0

/-- the item version of the termination claim at `(u, l)` -/
def TermItem (ev : Spec → Except Err V) (nodes : List GNode) (rk : Nat → Nat) (K u l : Nat) : Prop :=
  ∀ item memo fuel, unvisited nodes memo ≤ u → level rk nodes item ≤ l →
    needFuel nodes.length K u l ≤ fuel →
    ∃ r, rebuildItem ev nodes fuel item memo = some r ∧
      ∀ out memo', r = .ok (out, memo') → ∃ ext, memo' = ext ++ memo

def TermItems (ev : Spec → Except Err V) (nodes : List GNode) (rk : Nat → Nat) (K u l : Nat) : Prop :=
  ∀ xs memo fuel, unvisited nodes memo ≤ u → (∀ x ∈ xs, level rk nodes x ≤ l) →
    needFuel nodes.length K u l + xs.length + 1 ≤ fuel →
    ∃ r, rebuildItems ev nodes fuel xs memo = some r ∧
      ∀ ys memo', r = .ok (ys, memo') → ∃ ext, memo' = ext ++ memo

theorem termItems_of_termItem (ev : Spec → Except Err V) (nodes : List GNode) (rk : Nat → Nat) (K u l : Nat)
    (hP : TermItem ev nodes rk K u l) : TermItems ev nodes rk K u l := by
  intro xs
  induction xs with
  | nil =>
    intro memo fuel _ _ hf
    obtain ⟨f, rfl⟩ : ∃ f, fuel = f + 1 := ⟨fuel - 1, by omega⟩
    exact ⟨.ok ([], memo), by simp only [rebuildItems], by intro ys memo' h; cases h; exact ⟨[], rfl⟩⟩
  | cons x xs ih =>
    intro memo fuel hu hl hf
    simp only [List.length_cons] at hf
    obtain ⟨f, rfl⟩ : ∃ f, fuel = f + 1 := ⟨fuel - 1, by omega⟩
    obtain ⟨rx, hrx, hext⟩ := hP x memo f hu (hl x (List.mem_cons_self ..)) (by omega)
    cases rx with
    | error e => exact ⟨.error e, by simp only [rebuildItems, hrx], by intro ys memo' h; cases h⟩
    | ok ym =>
      obtain ⟨y, m1⟩ := ym
      obtain ⟨e1, he1⟩ := hext y m1 rfl
      have hu1 : unvisited nodes m1 ≤ u := by
        rw [he1]; exact Nat.le_trans (unvisited_append nodes e1 memo) hu
      obtain ⟨rxs, hrxs, hext2⟩ := ih m1 f hu1 (fun x' hx' => hl x' (List.mem_cons_of_mem _ hx')) (by omega)
      cases rxs with
      | error e => exact ⟨.error e, by simp only [rebuildItems, hrx, hrxs], by intro ys memo' h; cases h⟩
      | ok ysm =>
        obtain ⟨ys, m2⟩ := ysm
        obtain ⟨e2, he2⟩ := hext2 ys m2 rfl
        refine ⟨.ok (y :: ys, m2), by simp only [rebuildItems, hrx, hrxs], ?_⟩
        intro ys' memo' h
        cases h
        exact ⟨e2 ++ e1, by rw [he2, he1, List.append_assoc]⟩

theorem level_le (rk : Nat → Nat) (nodes : List GNode) (hrk : ∀ i, rk i ≤ nodes.length) (x : GItem) :
    level rk nodes x ≤ nodes.length + 1 := by
  cases x with
  | leaf s => simp [level]
  | ref j =>
    simp only [level]
    split
    · split
      · have := hrk j; omega
      · omega
    · omega

theorem termItem_step (ev : Spec → Except Err V) (nodes : List GNode) (rk : Nat → Nat)
    (hrk : ∀ i, rk i ≤ nodes.length)
    (hacyc : ∀ i nd j nd', nodes[i]? = some nd → nd.kind = .tuple → GItem.ref j ∈ nd.items →
      nodes[j]? = some nd' → nd'.kind = .tuple → rk j < rk i)
    (u l : Nat)
    (hTup : l = 0 ∨ ∃ l', l = l' + 1 ∧ TermItems ev nodes rk (maxWidth nodes + 2) u l')
    (hMut : u = 0 ∨ ∃ u', u = u' + 1 ∧ TermItems ev nodes rk (maxWidth nodes + 2) u' (nodes.length + 1)) :
    TermItem ev nodes rk (maxWidth nodes + 2) u l := by
  intro item memo fuel hu hl hf
  have hpos := need_pos nodes.length (maxWidth nodes + 2) u l (by omega)
  obtain ⟨f, rfl⟩ : ∃ f, fuel = f + 1 := ⟨fuel - 1, by omega⟩
  cases item with
  | leaf s =>
    cases hs : ev s with
    | ok v => exact ⟨.ok (.leaf v, memo), by simp only [rebuildItem, hs], by intro o m h; cases h; exact ⟨[], rfl⟩⟩
    | error e => exact ⟨.error e, by simp only [rebuildItem, hs], by intro o m h; cases h⟩
  | ref i =>
    cases hlk : memo.lookup i with
    | some n => exact ⟨.ok (.ref n, memo), by simp only [rebuildItem, hlk], by intro o m h; cases h; exact ⟨[], rfl⟩⟩
    | none =>
      cases hnd : nodes[i]? with
      | none => exact ⟨.error ⟨"BadGraph"⟩, by simp only [rebuildItem, hlk, hnd], by intro o m h; cases h⟩
      | some nd =>
        have hw := items_le_maxWidth nodes i nd hnd
        cases hk : nd.kind with
        | tuple =>
          have hlev : level rk nodes (.ref i) = rk i + 1 := by simp [level, hnd, hk]
          rw [hlev] at hl
          rcases hTup with h0 | ⟨l', rfl, hQ⟩
          · omega
          · have hchild : ∀ x ∈ nd.items, level rk nodes x ≤ l' := by
              intro x hx
              cases x with
              | leaf s => simp [level]
              | ref j =>
                simp only [level]
                split
                · rename_i nd' hnd'
                  split
                  · rename_i hk'
                    have := hacyc i nd j nd' hnd hk hx hnd' hk'
                    omega
                  · omega
                · omega
            rw [need_succ_l] at hf
            obtain ⟨r, hr, hext⟩ := hQ nd.items memo f hu hchild (by omega)
            cases r with
            | error e => exact ⟨.error e, by simp only [rebuildItem, hlk, hnd, hk, hr], by intro o m h; cases h⟩
            | ok ysm =>
              obtain ⟨ys, m'⟩ := ysm
              refine ⟨.ok (.tuple ys, m'), by simp only [rebuildItem, hlk, hnd, hk, hr], ?_⟩
              intro o m h; cases h
              exact hext ys m' rfl
        | list =>
          have hi : i < nodes.length := (List.getElem?_eq_some_iff.mp hnd).1
          have hmut : isMutB nodes i = true := by simp [isMutB, hnd, hk]
          have hlt := unvisited_cons_lt nodes memo i memo.length hi hmut hlk
          rcases hMut with h0 | ⟨u', rfl, hQ⟩
          · omega
          · have hf0 := need_mono_l nodes.length (maxWidth nodes + 2) (u' + 1) 0 l (by omega)
            rw [need_succ_u] at hf0
            obtain ⟨r, hr, hext⟩ := hQ nd.items ((i, memo.length) :: memo) f (by omega)
              (fun x _ => level_le rk nodes hrk x) (by omega)
            cases r with
            | error e => exact ⟨.error e, by simp only [rebuildItem, hlk, hnd, hk, hr], by intro o m h; cases h⟩
            | ok ysm =>
              obtain ⟨ys, m'⟩ := ysm
              refine ⟨.ok (.node false memo.length ys, m'), by simp [rebuildItem, hlk, hnd, hk, hr], ?_⟩
              intro o m h; cases h
              obtain ⟨ext, he⟩ := hext ys m' rfl
              exact ⟨ext ++ [(i, memo.length)], by simp [he]⟩
        | dict =>
          have hi : i < nodes.length := (List.getElem?_eq_some_iff.mp hnd).1
          have hmut : isMutB nodes i = true := by simp [isMutB, hnd, hk]
          have hlt := unvisited_cons_lt nodes memo i memo.length hi hmut hlk
          rcases hMut with h0 | ⟨u', rfl, hQ⟩
          · omega
          · have hf0 := need_mono_l nodes.length (maxWidth nodes + 2) (u' + 1) 0 l (by omega)
            rw [need_succ_u] at hf0
            obtain ⟨r, hr, hext⟩ := hQ nd.items ((i, memo.length) :: memo) f (by omega)
              (fun x _ => level_le rk nodes hrk x) (by omega)
            cases r with
            | error e => exact ⟨.error e, by simp only [rebuildItem, hlk, hnd, hk, hr], by intro o m h; cases h⟩
            | ok ysm =>
              obtain ⟨ys, m'⟩ := ysm
              refine ⟨.ok (.node true memo.length ys, m'), by simp [rebuildItem, hlk, hnd, hk, hr], ?_⟩
              intro o m h; cases h
              obtain ⟨ext, he⟩ := hext ys m' rfl
              exact ⟨ext ++ [(i, memo.length)], by simp [he]⟩

theorem termItem_all (ev : Spec → Except Err V) (nodes : List GNode) (rk : Nat → Nat)
    (hrk : ∀ i, rk i ≤ nodes.length)
    (hacyc : ∀ i nd j nd', nodes[i]? = some nd → nd.kind = .tuple → GItem.ref j ∈ nd.items →
      nodes[j]? = some nd' → nd'.kind = .tuple → rk j < rk i) :
    ∀ u l, TermItem ev nodes rk (maxWidth nodes + 2) u l := by
  intro u
  induction u with
  | zero =>
    intro l
    induction l with
    | zero => exact termItem_step ev nodes rk hrk hacyc 0 0 (Or.inl rfl) (Or.inl rfl)
    | succ l ih =>
      exact termItem_step ev nodes rk hrk hacyc 0 (l + 1)
        (Or.inr ⟨l, rfl, termItems_of_termItem ev nodes rk _ 0 l ih⟩) (Or.inl rfl)
  | succ u ihu =>
    intro l
    have hQ := termItems_of_termItem ev nodes rk _ u (nodes.length + 1) (ihu (nodes.length + 1))
    induction l with
    | zero => exact termItem_step ev nodes rk hrk hacyc (u + 1) 0 (Or.inl rfl) (Or.inr ⟨u, rfl, hQ⟩)
    | succ l ih =>
      exact termItem_step ev nodes rk hrk hacyc (u + 1) (l + 1)
        (Or.inr ⟨l, rfl, termItems_of_termItem ev nodes rk _ (u + 1) l ih⟩) (Or.inr ⟨u, rfl, hQ⟩)

theorem fuelBound_eq (nodes : List GNode) :
    fuelBound nodes = needFuel nodes.length (maxWidth nodes + 2) nodes.length (nodes.length + 1) := by
  unfold fuelBound needFuel
  generalize nodes.length * (nodes.length + 3) = a
  rw [show a + nodes.length + 2 = a + (nodes.length + 1) + 1 by omega]

/-- **termination**: on a heap whose tuple-only reference paths are acyclic, `fuelBound` is enough -/
theorem rebuild_terminates (ev : Spec → Except Err V) (nodes : List GNode) (hacyc : TupleAcyclic nodes)
    (root : GItem) : ∃ r, rebuildItem ev nodes (fuelBound nodes) root [] = some r := by
  obtain ⟨rk, hrk, hdec⟩ := hacyc
  have hu : unvisited nodes [] ≤ nodes.length := by
    unfold unvisited
    exact Nat.le_trans (List.countP_le_length) (by simp)
  obtain ⟨r, hr, _⟩ := termItem_all ev nodes rk hrk hdec nodes.length (nodes.length + 1) root [] (fuelBound nodes)
    hu (level_le rk nodes hrk root) (by rw [fuelBound_eq]; exact Nat.le_refl _)
  exact ⟨r, hr⟩

/-! ### where an error comes from -/

theorem errFrom_step (ev : Spec → Except Err V) (nodes : List GNode) (j : Nat) (nd : GNode) (x : GItem) (e : Err)
    (hnd : nodes[j]? = some nd) (hx : x ∈ nd.items) (h : ErrFrom ev nodes x e) : ErrFrom ev nodes (.ref j) e := by
  rcases h with ⟨s, hs, he⟩ | ⟨he, k, hk, hn⟩
  · exact Or.inl ⟨s, ReachLeaf.step j nd x s hnd hx hs, he⟩
  · exact Or.inr ⟨he, k, ReachItem.step j nd x k hnd hx hk, hn⟩

theorem rebuild_error (ev : Spec → Except Err V) (nodes : List GNode) : ∀ fuel,
    (∀ item memo e, rebuildItem ev nodes fuel item memo = some (.error e) → ErrFrom ev nodes item e) ∧
    (∀ xs memo e, rebuildItems ev nodes fuel xs memo = some (.error e) → ∃ x ∈ xs, ErrFrom ev nodes x e) := by
  intro fuel
  induction fuel with
  | zero => constructor <;> (intros; simp_all [rebuildItem, rebuildItems])
  | succ fuel ih =>
    obtain ⟨ihI, ihL⟩ := ih
    constructor
    · intro item memo e h
      cases item with
      | leaf s =>
        simp only [rebuildItem] at h
        split at h
        · simp at h
        · rename_i e' he'
          simp only [Option.some.injEq, Except.error.injEq] at h
          subst h
          exact Or.inl ⟨s, ReachLeaf.here s, he'⟩
      | ref i =>
        simp only [rebuildItem] at h
        split at h
        · simp at h
        · split at h
          · rename_i hnone
            simp only [Option.some.injEq, Except.error.injEq] at h
            subst h
            exact Or.inr ⟨rfl, i, ReachItem.here i, hnone⟩
          · rename_i nd hnd
            split at h
            · split at h
              · simp at h
              · rename_i e' hr
                simp only [Option.some.injEq, Except.error.injEq] at h
                subst h
                obtain ⟨x, hx, hex⟩ := ihL _ _ _ hr
                exact errFrom_step ev nodes i nd x _ hnd hx hex
              · simp at h
            · split at h
              · simp at h
              · rename_i e' hr
                simp only [Option.some.injEq, Except.error.injEq] at h
                subst h
                obtain ⟨x, hx, hex⟩ := ihL _ _ _ hr
                exact errFrom_step ev nodes i nd x _ hnd hx hex
              · simp at h
    · intro xs memo e h
      cases xs with
      | nil => simp [rebuildItems] at h
      | cons x xs =>
        simp only [rebuildItems] at h
        split at h
        · simp at h
        · rename_i e' hx
          simp only [Option.some.injEq, Except.error.injEq] at h
          subst h
          exact ⟨x, List.mem_cons_self .., ihI _ _ _ hx⟩
        · split at h
          · simp at h
          · rename_i e' hxs
            simp only [Option.some.injEq, Except.error.injEq] at h
            subst h
            obtain ⟨x', hx', hex⟩ := ihL _ _ _ hxs
            exact ⟨x', List.mem_cons_of_mem _ hx', hex⟩
          · simp at h

end Glom.Interp
