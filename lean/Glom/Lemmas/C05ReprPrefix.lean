import Glom.Lemmas.C05Repr
/-
  C05 — the size limits of `bbrepr` do not show in a trace line: for limits that are large compared
  with the line, the model's text of ANY value and Python's `repr` of it are equal or share a
  prefix longer than the line (`Agree`).
-/
set_option linter.unusedSimpArgs false
namespace Glom.C05

/-- equal, or a common prefix of at least `w` characters after which both go on -/
def Agree (w : Nat) (a b : Str) : Prop :=
  a = b ∨ ∃ p a' b', a = p ++ a' ∧ b = p ++ b' ∧ w ≤ p.length ∧ a' ≠ [] ∧ b' ≠ []

theorem Agree.refl (w : Nat) (a : Str) : Agree w a a := Or.inl rfl

theorem Agree.mono {w w' : Nat} {a b : Str} (h : Agree w a b) (hw : w' ≤ w) : Agree w' a b := by
  rcases h with h | ⟨p, a', b', h1, h2, h3, h4, h5⟩
  · exact Or.inl h
  · exact Or.inr ⟨p, a', b', h1, h2, by omega, h4, h5⟩

theorem Agree.of_prefix (w : Nat) (p a' b' : Str) (hw : w ≤ p.length) (ha : a' ≠ []) (hb : b' ≠ []) :
    Agree w (p ++ a') (p ++ b') := Or.inr ⟨p, a', b', rfl, rfl, hw, ha, hb⟩

theorem Agree.prepend {w : Nat} {a b : Str} (p : Str) (h : Agree w a b) : Agree (w + p.length) (p ++ a) (p ++ b) := by
  rcases h with h | ⟨q, a', b', h1, h2, h3, h4, h5⟩
  · subst h; exact Or.inl rfl
  · subst h1 h2
    exact Or.inr ⟨p ++ q, a', b', by simp, by simp, by simp; omega, h4, h5⟩

/-- what follows may differ once the two texts have parted; while they are equal it has to agree
    for what is left of the budget -/
theorem Agree.append {w : Nat} {a b x y : Str} (h : Agree w a b) (hxy : a = b → Agree (w - a.length) x y) :
    Agree w (a ++ x) (b ++ y) := by
  rcases h with h | ⟨q, a', b', h1, h2, h3, h4, h5⟩
  · subst h
    have := (hxy rfl).prepend a
    exact this.mono (by omega)
  · subst h1 h2
    exact Or.inr ⟨q, a' ++ x, b' ++ y, by simp, by simp, h3, by simp [h4], by simp [h5]⟩

theorem Agree.append_same {w : Nat} {a b : Str} (h : Agree w a b) (x : Str) : Agree w (a ++ x) (b ++ x) :=
  h.append (fun _ => Agree.refl _ _)

/-! ### leaves -/

theorem lastChars_of_le (s : Str) (j : Nat) (h : j ≤ s.length) : lastChars s j = s.drop (s.length - j) := by
  unfold lastChars pySliceFrom
  rw [if_pos (by omega)]
  congr 1
  omega

/-- the elision of `reprlib` keeps more than `w` characters when the limit is at least `2 w + 5` -/
theorem elide_agree (w lim : Nat) (s : Str) (hl : 2 * w + 5 ≤ lim) : Agree w (elide lim s) s := by
  unfold elide
  split
  · rename_i hlen
    have hi : w ≤ (lim - 3) / 2 := by omega
    have hil : (lim - 3) / 2 < s.length := by omega
    have hs : s = s.take ((lim - 3) / 2) ++ s.drop ((lim - 3) / 2) := (List.take_append_drop _ _).symm
    rw [List.append_assoc]
    conv => rhs; rw [hs]
    apply Agree.of_prefix
    · rw [List.length_take]; omega
    · simp [fill]
    · intro h0
      have := congrArg List.length h0
      simp at this
      omega
  · exact Agree.refl _ _

theorem elide_head (lim : Nat) (s : Str) (hl : 5 ≤ lim) : (elide lim s).head? = s.head? := by
  unfold elide
  split
  · rename_i hlen
    have hi : 1 ≤ (lim - 3) / 2 := by omega
    cases s with
    | nil => simp at hlen
    | cons c r =>
      obtain ⟨k, hk⟩ : ∃ k, (lim - 3) / 2 = k + 1 := ⟨(lim - 3) / 2 - 1, by omega⟩
      rw [hk]; simp
  · rfl


/-! ### `repr_str` -/

theorem escBody_append (P : Char → Bool) (q : Char) : ∀ (a b : Str), escBody P q (a ++ b) = escBody P q a ++ escBody P q b
  | [], _ => rfl
  | c :: a, b => by simp [escBody, escBody_append P q a b]

/-- the string's quote does not change when `repr_str` cuts the middle out (always the case when
    nothing is cut, or when the string has no quote character at all) -/
def QuoteStable (lim : Nat) (x : Str) : Prop :=
  x.length ≤ (lim - 3) / 2 ∨
  quoteOf (x.take ((lim - 3) / 2) ++ lastChars x (lim - 3 - (lim - 3) / 2)) = quoteOf x

theorem lastChars_suffix (x : Str) (j : Nat) : ∃ pre, x = pre ++ lastChars x j := by
  unfold lastChars pySliceFrom
  split
  · exact ⟨x.take _, (List.take_append_drop _ _).symm⟩
  · exact ⟨x.take _, (List.take_append_drop _ _).symm⟩

theorem contains_append_suffix (x : Str) (c : Char) (tl : Str) (h : ∃ pre, x = pre ++ tl) :
    (x ++ tl).contains c = x.contains c := by
  obtain ⟨pre, hp⟩ := h
  have : ∀ y, y ∈ tl → y ∈ x := by intro y hy; rw [hp]; exact List.mem_append_right _ hy
  cases h1 : x.contains c with
  | true =>
    have := List.contains_iff_mem.mp h1
    exact List.contains_iff_mem.mpr (List.mem_append_left _ this)
  | false =>
    cases h2 : (x ++ tl).contains c with
    | false => rfl
    | true =>
      have hm := List.contains_iff_mem.mp h2
      rcases List.mem_append.mp hm with h' | h'
      · have := List.contains_iff_mem.mpr h'; rw [h1] at this; exact absurd this (by simp)
      · have := List.contains_iff_mem.mpr (this c h'); rw [h1] at this; exact absurd this (by simp)

theorem quoteOf_append_suffix (x tl : Str) (h : ∃ pre, x = pre ++ tl) : quoteOf (x ++ tl) = quoteOf x := by
  unfold quoteOf
  rw [contains_append_suffix x '\'' tl h, contains_append_suffix x '"' tl h]

/-- **`repr_str` against `str.__repr__`** -/
theorem reprStr_agree (P : Char → Bool) (w lim : Nat) (x : Str) (hl : 2 * w + 5 ≤ lim) (hq : QuoteStable lim x) :
    Agree w (reprStr P lim x) (pyStrRepr P x) := by
  unfold reprStr
  simp only []
  split
  · rename_i hlen
    -- the middle is cut out
    have hi : w ≤ (lim - 3) / 2 := by omega
    unfold QuoteStable at hq
    generalize hidef : (lim - 3) / 2 = i at hi hq ⊢
    generalize hjdef : lim - 3 - i = j at hq ⊢
    by_cases hxi : x.length ≤ i
    · -- the whole string is in the first part: same quote, the escaped string is a common prefix
      have htake : x.take i = x := List.take_of_length_le hxi
      have htl : x.take lim = x := List.take_of_length_le (by omega)
      rw [htake]
      rw [htl] at hlen
      have hqe : quoteOf (x ++ lastChars x j) = quoteOf x := quoteOf_append_suffix x _ (lastChars_suffix x j)
      have hs2 : pyStrRepr P (x ++ lastChars x j) =
          (quoteOf x :: escBody P (quoteOf x) x) ++ (escBody P (quoteOf x) (lastChars x j) ++ [quoteOf x]) := by
        unfold pyStrRepr; rw [hqe, escBody_append]; simp
      have hR : pyStrRepr P x = (quoteOf x :: escBody P (quoteOf x) x) ++ [quoteOf x] := by
        unfold pyStrRepr; simp
      have hplen : i < (quoteOf x :: escBody P (quoteOf x) x).length := by
        have : (pyStrRepr P x).length = (quoteOf x :: escBody P (quoteOf x) x).length + 1 := by rw [hR]; simp
        omega
      rw [hs2, List.take_append_of_le_length (by omega), List.append_assoc]
      have hsplit : pyStrRepr P x = (quoteOf x :: escBody P (quoteOf x) x).take i ++
          ((quoteOf x :: escBody P (quoteOf x) x).drop i ++ [quoteOf x]) := by
        conv => rhs; rw [← List.append_assoc, List.take_append_drop]
        exact hR
      conv => rhs; rw [hsplit]
      apply Agree.of_prefix
      · rw [List.length_take]; omega
      · simp [fill]
      · simp
    · -- the first part is a proper prefix of the string
      have hqs : quoteOf (x.take i ++ lastChars x j) = quoteOf x := by
        rcases hq with h | h
        · omega
        · exact h
      have hx : x = x.take i ++ x.drop i := (List.take_append_drop _ _).symm
      have hs2 : pyStrRepr P (x.take i ++ lastChars x j) =
          (quoteOf x :: escBody P (quoteOf x) (x.take i)) ++ (escBody P (quoteOf x) (lastChars x j) ++ [quoteOf x]) := by
        unfold pyStrRepr; rw [hqs, escBody_append]; simp
      have hR : pyStrRepr P x = (quoteOf x :: escBody P (quoteOf x) (x.take i)) ++
          (escBody P (quoteOf x) (x.drop i) ++ [quoteOf x]) := by
        have he : escBody P (quoteOf x) x = escBody P (quoteOf x) (x.take i) ++ escBody P (quoteOf x) (x.drop i) := by
          rw [← escBody_append, List.take_append_drop]
        unfold pyStrRepr
        rw [he]; simp
      have hplen : i < (quoteOf x :: escBody P (quoteOf x) (x.take i)).length := by
        have := escBody_length P (quoteOf x) (x.take i)
        rw [List.length_take] at this
        simp only [List.length_cons]
        omega
      rw [hs2, List.take_append_of_le_length (by omega), List.append_assoc]
      have hsplit : pyStrRepr P x = (quoteOf x :: escBody P (quoteOf x) (x.take i)).take i ++
          ((quoteOf x :: escBody P (quoteOf x) (x.take i)).drop i ++ (escBody P (quoteOf x) (x.drop i) ++ [quoteOf x])) := by
        conv => rhs; rw [← List.append_assoc, List.take_append_drop]
        exact hR
      conv => rhs; rw [hsplit]
      apply Agree.of_prefix
      · rw [List.length_take]; omega
      · simp [fill]
      · simp
  · rename_i hlen
    -- nothing is cut: the string is shorter than the limit
    have hx : x.length ≤ lim := by
      by_cases h : x.length ≤ lim
      · exact h
      · exfalso
        have h1 := pyStrRepr_length P (x.take lim)
        rw [List.length_take] at h1
        omega
    rw [List.take_of_length_le hx]
    exact Agree.refl _ _


/-! ### joined pieces -/

/-- two lists related element by element -/
inductive F2 {α β} (R : α → β → Prop) : List α → List β → Prop
  | nil : F2 R [] []
  | cons {a b l1 l2} : R a b → F2 R l1 l2 → F2 R (a :: l1) (b :: l2)

/-- every piece followed by the separator -/
def joinSepE : List Str → Str
  | [] => []
  | p :: r => p ++ ',' :: ' ' :: joinSepE r

theorem joinSep_append_cons : ∀ (ps : List Str) (x : Str) (xs : List Str),
    joinSep (ps ++ x :: xs) = joinSepE ps ++ joinSep (x :: xs)
  | [], _, _ => rfl
  | [p], x, xs => by simp [joinSep, joinSepE]
  | p :: q :: r, x, xs => by
    have ih := joinSep_append_cons (q :: r) x xs
    simp only [List.cons_append] at ih ⊢
    simp only [joinSep, joinSepE, ih, List.append_assoc, List.cons_append]

/-- pieces that agree pairwise, followed by texts that both go on -/
theorem joinSepE_agree (w : Nat) (X Y : Str) (hX : X ≠ []) (hY : Y ≠ []) : ∀ {ps qs : List Str}, F2 (Agree w) ps qs →
    Agree (min w (2 * ps.length)) (joinSepE ps ++ X) (joinSepE qs ++ Y) := by
  intro ps qs h
  induction h with
  | nil =>
    simp only [joinSepE, List.nil_append, List.length_nil, Nat.mul_zero, Nat.min_zero]
    exact Agree.of_prefix 0 [] X Y (Nat.le_refl _) hX hY
  | cons hpq _ ih =>
    rename_i p q ps qs
    simp only [joinSepE, List.append_assoc, List.cons_append]
    apply Agree.append (hpq.mono (Nat.min_le_left _ _))
    intro hpe
    have := ih.prepend [',', ' ']
    simp only [List.cons_append, List.nil_append] at this
    exact this.mono (by simp only [List.length_cons, List.length_nil]; omega)

theorem joinSep_agree (w : Nat) : ∀ {ps qs : List Str}, F2 (Agree w) ps qs → Agree w (joinSep ps) (joinSep qs) := by
  intro ps qs h
  induction h with
  | nil => exact Agree.refl _ _
  | cons hpq hrest ih =>
    rename_i p q ps qs
    cases hrest with
    | nil => simpa [joinSep] using hpq
    | cons hpq2 hrest2 =>
      simp only [joinSep]
      apply Agree.append hpq
      intro hpe
      have := ih.prepend [',', ' ']
      simp only [List.cons_append, List.nil_append] at this
      exact this.mono (by omega)

theorem F2_length {α β} {R : α → β → Prop} {l1 : List α} {l2 : List β} (h : F2 R l1 l2) : l1.length = l2.length := by
  induction h with
  | nil => rfl
  | cons _ _ ih => simp [ih]

theorem F2_take {α β} {R : α → β → Prop} {l1 : List α} {l2 : List β} (h : F2 R l1 l2) :
    ∀ n, F2 R (l1.take n) (l2.take n) := by
  induction h with
  | nil => intro n; simp; exact F2.nil
  | cons h1 _ ih =>
    intro n
    cases n with
    | zero => simp; exact F2.nil
    | succ n => simp only [List.take_succ_cons]; exact F2.cons h1 (ih n)

/-- **`_repr_iterable` against Python's joining**: the pieces that are kept agree pairwise; when the
    model cuts after `lim` pieces, the kept pieces are a common prefix longer than the budget -/
theorem wrapPieces_agree (b : Brackets) (lim w : Nat) (ps qs : List Str) (h : F2 (Agree w) ps qs)
    (hlim : w ≤ 2 * lim) (hr : b.right ≠ []) :
    Agree (w + b.left.length) (wrapPieces b lim ps)
      (b.left ++ joinSep qs ++ (if qs.length == 1 then b.trail else []) ++ b.right) := by
  have hlen := F2_length h
  unfold wrapPieces
  rw [← hlen]
  have hgoal : ∀ (A B : Str), Agree w A B →
      Agree (w + b.left.length) (b.left ++ A ++ (if ps.length == 1 then b.trail else []) ++ b.right)
        (b.left ++ B ++ (if ps.length == 1 then b.trail else []) ++ b.right) := by
    intro A B hAB
    have := (hAB.prepend b.left).append_same
      ((if ps.length == 1 then b.trail else []) ++ b.right)
    simpa [List.append_assoc] using this
  by_cases hcut : ps.length > lim
  · -- more items than the limit: `...` after the first `lim`
    rw [if_pos hcut]
    have hq : qs = qs.take lim ++ qs.drop lim := (List.take_append_drop _ _).symm
    have hdne : qs.drop lim ≠ [] := by
      intro h0
      have := congrArg List.length h0
      simp at this
      omega
    obtain ⟨y, ys, hy⟩ : ∃ y ys, qs.drop lim = y :: ys := by
      cases hd : qs.drop lim with
      | nil => exact absurd hd hdne
      | cons y ys => exact ⟨y, ys, rfl⟩
    have h1 : joinSep (ps.take lim ++ [fill]) = joinSepE (ps.take lim) ++ fill := by
      rw [joinSep_append_cons]; rfl
    have h2 : joinSep qs = joinSepE (qs.take lim) ++ joinSep (y :: ys) := by
      conv => lhs; rw [hq, hy]
      exact joinSep_append_cons _ _ _
    rw [h1, h2]
    have htl : (ps.take lim).length = lim := by rw [List.length_take]; omega
    have key := joinSepE_agree w
      (fill ++ ((if ps.length == 1 then b.trail else []) ++ b.right))
      (joinSep (y :: ys) ++ ((if ps.length == 1 then b.trail else []) ++ b.right))
      (by simp [fill]) (by simp [hr]) (F2_take h lim)
    rw [htl, Nat.min_eq_left hlim] at key
    have := key.prepend b.left
    simpa [List.append_assoc] using this
  · rw [if_neg hcut, List.take_of_length_le (by omega), List.append_nil]
    exact hgoal _ _ (joinSep_agree w h)


/-! ### sorting moves the pieces of both sides alike -/

/-- same key, pieces that agree -/
def PR (w : Nat) (p q : RV × Str) : Prop := p.1 = q.1 ∧ Agree w p.2 q.2

theorem insertBy_F2 (w : Nat) (x y : RV × Str) (hxy : PR w x y) : ∀ {l1 l2 : List (RV × Str)}, F2 (PR w) l1 l2 →
    F2 (PR w) (insertBy (fun a b => keyLe a.1 b.1) x l1) (insertBy (fun a b => keyLe a.1 b.1) y l2) := by
  intro l1 l2 h
  induction h with
  | nil => exact F2.cons hxy F2.nil
  | cons hab hrest ih =>
    rename_i a b l1 l2
    simp only [insertBy]
    have hk : keyLe y.1 b.1 = keyLe x.1 a.1 := by rw [hxy.1, hab.1]
    by_cases hc : keyLe x.1 a.1 = true
    · rw [if_pos hc, if_pos (by rw [hk]; exact hc)]
      exact F2.cons hxy (F2.cons hab hrest)
    · rw [if_neg hc, if_neg (by rw [hk]; exact hc)]
      exact F2.cons hab ih

theorem sortBy_F2 (w : Nat) : ∀ {l1 l2 : List (RV × Str)}, F2 (PR w) l1 l2 →
    F2 (PR w) (sortBy (fun a b => keyLe a.1 b.1) l1) (sortBy (fun a b => keyLe a.1 b.1) l2) := by
  intro l1 l2 h
  induction h with
  | nil => exact F2.nil
  | cons hab _ ih => exact insertBy_F2 w _ _ hab ih

theorem F2_map_fst (w : Nat) {l1 l2 : List (RV × Str)} (h : F2 (PR w) l1 l2) : l1.map (·.1) = l2.map (·.1) := by
  induction h with
  | nil => rfl
  | cons hab _ ih => simp [hab.1, ih]

theorem possiblySorted_F2 (w : Nat) {l1 l2 : List (RV × Str)} (h : F2 (PR w) l1 l2) :
    F2 (PR w) (possiblySorted l1) (possiblySorted l2) := by
  unfold possiblySorted
  rw [F2_map_fst w h]
  split
  · exact sortBy_F2 w h
  · exact h

theorem F2_map_snd (w : Nat) {l1 l2 : List (RV × Str)} (h : F2 (PR w) l1 l2) :
    F2 (Agree w) (l1.map (·.2)) (l2.map (·.2)) := by
  induction h with
  | nil => exact F2.nil
  | cons hab _ ih => exact F2.cons hab.2 ih


/-! ### the main induction -/

/-- every string leaf keeps its quote when `repr_str` cuts its middle out -/
def strOK (L : Limits) : RV → Prop
  | .str s => QuoteStable L.maxstring s
  | .seq _ items => strOK L items
  | .dict e => strOK L e
  | .cons x r => strOK L x ∧ strOK L r
  | _ => True

theorem brackets_right_ne (k : SeqKind) : k.brackets.right ≠ [] := by
  cases k with
  | list => show "]".toList ≠ []; decide
  | tuple => show ")".toList ≠ []; decide
  | set => show "}".toList ≠ []; decide
  | frozenset => show "})".toList ≠ []; decide
  | deque => show "])".toList ≠ []; decide
  | array tc => show "])".toList ≠ []; decide

theorem brackets_left_pos (k : SeqKind) : 1 ≤ k.brackets.left.length := by
  cases k with
  | list => show 1 ≤ "[".toList.length; decide
  | tuple => show 1 ≤ "(".toList.length; decide
  | set => show 1 ≤ "{".toList.length; decide
  | frozenset => show 1 ≤ "frozenset({".toList.length; decide
  | deque => show 1 ≤ "deque([".toList.length; decide
  | array tc =>
    show 1 ≤ ("array('".toList ++ tc :: "', [".toList).length
    rw [List.length_append]; simp

theorem limit_ge (L : Limits) (b : Nat) (h : L.allGe b = true) (k : SeqKind) : b ≤ k.limit L := by
  have := SeqKind.limit_le (Limits.uniform b) L (uniform_le_of_allGe L b h) k
  cases k <;> simpa [SeqKind.limit, Limits.uniform] using this

/-- **the model's text of any value and Python's `repr` of it agree for `w` characters**, when every
    limit is at least `2 W + 5`, `w ≤ W`, and there are at least `w` nesting levels left -/
theorem agree_all (L : Limits) (P : Char → Bool) (W : Nat) (hL : L.allGe (2 * W + 5) = true) : ∀ v : RV, strOK L v →
    (∀ lvl w, w ≤ lvl → w ≤ W → Agree w (repr1 L P v lvl) (refRepr P v)) ∧
    (∀ l w, w ≤ l → w ≤ W → F2 (PR w) (reprItems L P v l) (refItems P v)) ∧
    (∀ l w, w ≤ l → w ≤ W → F2 (PR w) (reprEntries L P v l) (refEntries P v)) ∧
    (∀ k l w, w ≤ l → w ≤ W → (∀ lvl w, w ≤ lvl → w ≤ W → Agree w (repr1 L P k lvl) (refRepr P k)) →
      F2 (PR w) (reprEntries L P (.cons k v) l) (refEntries P (.cons k v))) := by
  have hle := uniform_le_of_allGe L (2 * W + 5) hL
  obtain ⟨_, _, _, _, hdict, _, _, _, hstr, hlong, hoth⟩ := hle
  simp only [Limits.uniform] at hdict hstr hlong hoth
  intro v
  induction v with
  | int n =>
    intro _
    refine ⟨?_, by intros; simp only [reprItems, refItems]; exact F2.nil,
      by intros; simp only [reprEntries, refEntries]; exact F2.nil,
      by intros; simp only [reprEntries, refEntries]; exact F2.nil⟩
    intro lvl w _ hw
    simp only [repr1, refRepr]
    exact elide_agree w _ _ (by omega)
  | str s =>
    intro hs
    refine ⟨?_, by intros; simp only [reprItems, refItems]; exact F2.nil,
      by intros; simp only [reprEntries, refEntries]; exact F2.nil,
      by intros; simp only [reprEntries, refEntries]; exact F2.nil⟩
    intro lvl w _ hw
    simp only [repr1, refRepr]
    exact reprStr_agree P w _ s (by omega) hs
  | other r bn =>
    intro _
    refine ⟨?_, by intros; simp only [reprItems, refItems]; exact F2.nil,
      by intros; simp only [reprEntries, refEntries]; exact F2.nil,
      by intros; simp only [reprEntries, refEntries]; exact F2.nil⟩
    intro lvl w _ hw
    simp only [repr1, refRepr]
    rw [elide_head _ r (by omega)]
    split
    · cases bn with
      | none => exact elide_agree w _ _ (by omega)
      | some n => exact Agree.refl _ _
    · exact elide_agree w _ _ (by omega)
  | nil =>
    intro _
    exact ⟨by intros; simp only [repr1, refRepr]; exact Agree.refl _ _,
      by intros; simp only [reprItems, refItems]; exact F2.nil,
      by intros; simp only [reprEntries, refEntries]; exact F2.nil,
      by intros; simp only [reprEntries, refEntries]; exact F2.nil⟩
  | cons x rest ihx ihr =>
    intro hs
    obtain ⟨hsx, hsr⟩ := hs
    refine ⟨by intros; simp only [repr1, refRepr]; exact Agree.refl _ _, ?_, ?_, ?_⟩
    · intro l w hwl hw
      simp only [reprItems, refItems]
      exact F2.cons ⟨rfl, (ihx hsx).1 l w hwl hw⟩ ((ihr hsr).2.1 l w hwl hw)
    · intro l w hwl hw
      exact (ihr hsr).2.2.2 x l w hwl hw (ihx hsx).1
    · intro k l w hwl hw hk
      simp only [reprEntries, refEntries]
      refine F2.cons ⟨rfl, ?_⟩ ((ihr hsr).2.2.1 l w hwl hw)
      apply Agree.append (hk l w hwl hw)
      intro _
      have := ((ihx hsx).1 l w hwl hw).prepend [':', ' ']
      simp only [List.cons_append, List.nil_append] at this
      exact this.mono (by omega)
  | seq k items ih =>
    intro hs
    refine ⟨?_, by intros; simp only [reprItems, refItems]; exact F2.nil,
      by intros; simp only [reprEntries, refEntries]; exact F2.nil,
      by intros; simp only [reprEntries, refEntries]; exact F2.nil⟩
    intro lvl w hwl hw
    simp only [repr1, refRepr]
    by_cases hc : (items.count == 0) = true
    · simp only [hc, if_true]; exact Agree.refl _ _
    · simp only [hc, Bool.false_eq_true, if_false]
      cases lvl with
      | zero =>
        have hw0 : w = 0 := by omega
        subst hw0
        simp only []
        rw [List.append_assoc, List.append_assoc, List.append_assoc]
        exact Agree.of_prefix 0 k.brackets.left _ _ (Nat.zero_le _) (by simp [fill]) (by simp [brackets_right_ne k])
      | succ l =>
        simp only []
        have hB := (ih hs).2.1 l (w - 1) (by omega) (by omega)
        have hpieces : F2 (Agree (w - 1))
            ((if k.brackets.sorted = true then possiblySorted (reprItems L P items l) else reprItems L P items l).map (·.2))
            ((if k.brackets.sorted = true then possiblySorted (refItems P items) else refItems P items).map (·.2)) := by
          split
          · exact F2_map_snd _ (possiblySorted_F2 _ hB)
          · exact F2_map_snd _ hB
        have := wrapPieces_agree k.brackets (k.limit L) (w - 1) _ _ hpieces
          (by have := limit_ge L _ hL k; omega) (brackets_right_ne k)
        exact this.mono (by have := brackets_left_pos k; omega)
  | dict entries ih =>
    intro hs
    refine ⟨?_, by intros; simp only [reprItems, refItems]; exact F2.nil,
      by intros; simp only [reprEntries, refEntries]; exact F2.nil,
      by intros; simp only [reprEntries, refEntries]; exact F2.nil⟩
    intro lvl w hwl hw
    simp only [repr1, refRepr]
    by_cases hc : (entries.count == 0) = true
    · simp only [hc, if_true]; exact Agree.refl _ _
    · simp only [hc, Bool.false_eq_true, if_false]
      cases lvl with
      | zero =>
        have hw0 : w = 0 := by omega
        subst hw0
        simp only []
        exact Agree.of_prefix 0 ['{'] (fill ++ ['}']) _ (Nat.zero_le _) (by simp [fill]) (by simp)
      | succ l =>
        simp only []
        have hB := (ih hs).2.2.1 l (w - 1) (by omega) (by omega)
        have hpieces := F2_map_snd _ (possiblySorted_F2 _ hB)
        have := wrapPieces_agree { left := ['{'], right := ['}'] } L.maxdict (w - 1) _ _ hpieces (by omega) (by simp)
        have h2 := this.mono (show w ≤ w - 1 + 1 by omega)
        simpa using h2


/-! ### `.replace("\\'", "'")` and `_format_trace_value` on texts that agree -/

theorem replQ_cons_ne (c : Char) (r : Str) (h : ¬ (c = '\\' ∧ r.head? = some '\'')) : replQ (c :: r) = c :: replQ r :=
  replQ.eq_2 c r (fun r' hc hr => h ⟨hc, by rw [hr]; rfl⟩)

/-- a prefix that does not end with a backslash is replaced on its own -/
theorem replQ_append_of_last : ∀ (p x : Str), p.getLast? ≠ some '\\' → replQ (p ++ x) = replQ p ++ replQ x
  | [], x, _ => rfl
  | [c], x, h => by
    have hc : c ≠ '\\' := by simpa using h
    rw [show [c] ++ x = c :: x from rfl, replQ_cons_ne c x (fun h' => hc h'.1), replQ_cons_ne c [] (fun h' => hc h'.1)]
    simp [replQ]
  | c :: d :: r, x, h => by
    have hl : (d :: r).getLast? ≠ some '\\' := by
      rw [List.getLast?_cons_cons] at h; exact h
    have ih := replQ_append_of_last (d :: r) x hl
    by_cases hm : c = '\\' ∧ d = '\''
    · obtain ⟨rfl, rfl⟩ := hm
      show replQ ('\\' :: '\'' :: (r ++ x)) = replQ ('\\' :: '\'' :: r) ++ replQ x
      rw [replQ.eq_1, replQ.eq_1]
      cases r with
      | nil => rfl
      | cons e r' =>
        have hl' : (e :: r').getLast? ≠ some '\\' := by
          rw [List.getLast?_cons_cons] at hl; exact hl
        rw [replQ_append_of_last (e :: r') x hl']
        rfl
    · show replQ (c :: (d :: r ++ x)) = replQ (c :: d :: r) ++ replQ x
      rw [replQ_cons_ne c (d :: r ++ x) (fun h' => hm ⟨h'.1, by simpa using h'.2⟩),
        replQ_cons_ne c (d :: r) (fun h' => hm ⟨h'.1, by simpa using h'.2⟩), ih]
      rfl

theorem replQ_backslashes : ∀ (k : Nat) (y : Str), replQ (List.replicate k '\\' ++ '\\' :: y) =
    List.replicate k '\\' ++ replQ ('\\' :: y)
  | 0, _ => rfl
  | k + 1, y => by
    have hh : ¬ ('\\' = '\\' ∧ (List.replicate k '\\' ++ '\\' :: y).head? = some '\'') := by
      intro h
      cases k with
      | zero => simp at h
      | succ k' => simp [List.replicate_succ] at h
    rw [List.replicate_succ, List.cons_append, replQ_cons_ne _ _ hh, replQ_backslashes k y]
    rfl

theorem replQ_length : ∀ (s : Str), s.length ≤ 2 * (replQ s).length := by
  intro s
  fun_induction replQ s with
  | case1 r ih => simp only [List.length_cons]; omega
  | case2 c r _ ih => simp only [List.length_cons]; omega
  | case3 => simp

theorem replQ_ne_nil (s : Str) (h : s ≠ []) : replQ s ≠ [] := by
  intro h0
  have := replQ_length s
  rw [h0] at this
  simp only [List.length_nil, Nat.mul_zero, Nat.le_zero_eq] at this
  exact h (List.eq_nil_of_length_eq_zero this)

theorem split_backslashes (p : Str) : ∃ p' k, p = p' ++ List.replicate k '\\' ∧ p'.getLast? ≠ some '\\' := by
  -- by induction on the reversed string
  have key : ∀ (q : Str), ∃ p' k, q.reverse = p' ++ List.replicate k '\\' ∧ p'.getLast? ≠ some '\\' := by
    intro q
    induction q with
    | nil => exact ⟨[], 0, rfl, by simp⟩
    | cons c r ih =>
      -- q.reverse = r.reverse ++ [c]
      by_cases hc : c = '\\'
      · subst hc
        -- only when all of `r.reverse` … is handled through the run: take the run of `r.reverse` and extend it
        obtain ⟨p', k, hr, hp'⟩ := ih
        refine ⟨p', k + 1, ?_, hp'⟩
        rw [List.reverse_cons, hr, List.append_assoc, List.replicate_succ']
      · exact ⟨(c :: r).reverse, 0, by simp, by simp [hc]⟩
  obtain ⟨p', k, h1, h2⟩ := key p.reverse
  rw [List.reverse_reverse] at h1
  exact ⟨p', k, h1, h2⟩

/-- after the replacement two texts that agree for `w` characters agree for `w / 2 - 1` -/
theorem Agree.replQ {w : Nat} {a b : Str} (h : Agree w a b) : Agree (w / 2 - 1) (replQ a) (replQ b) := by
  rcases h with h | ⟨p, a', b', rfl, rfl, hw, ha, hb⟩
  · subst h; exact Agree.refl _ _
  · obtain ⟨p', k, rfl, hp'⟩ := split_backslashes p
    have hlen := replQ_length p'
    simp only [List.length_append, List.length_replicate] at hw
    cases k with
    | zero =>
      simp only [List.replicate_zero, List.append_nil]
      rw [replQ_append_of_last p' a' hp', replQ_append_of_last p' b' hp']
      exact Agree.of_prefix _ _ _ _ (by omega) (replQ_ne_nil a' ha) (replQ_ne_nil b' hb)
    | succ k =>
      rw [List.append_assoc, List.append_assoc, replQ_append_of_last p' _ hp', replQ_append_of_last p' _ hp']
      rw [List.replicate_succ', List.append_assoc, List.append_assoc]
      simp only [List.singleton_append]
      rw [replQ_backslashes k a', replQ_backslashes k b', ← List.append_assoc, ← List.append_assoc]
      exact Agree.of_prefix _ _ _ _ (by simp only [List.length_append, List.length_replicate]; omega)
        (replQ_ne_nil _ (by simp)) (replQ_ne_nil _ (by simp))

theorem formatValue_agree_suf (suf p a' b' : Str) (w : Nat) (m : Int) (hw : w ≤ p.length) (ha : a' ≠ []) (hb : b' ≠ [])
    (hm : m ≤ w) (hs : (suf.length : Int) ≤ m) :
    (if ((p ++ a').length : Int) > m then pySliceTo (p ++ a') (m - suf.length) ++ suf else p ++ a') =
    (if ((p ++ b').length : Int) > m then pySliceTo (p ++ b') (m - suf.length) ++ suf else p ++ b') := by
  have ha' : 0 < a'.length := List.length_pos_iff.mpr ha
  have hb' : 0 < b'.length := List.length_pos_iff.mpr hb
  rw [if_pos (by simp only [List.length_append]; omega), if_pos (by simp only [List.length_append]; omega)]
  unfold pySliceTo
  rw [if_pos (by omega), if_pos (by omega)]
  have hk : (m - (suf.length : Int)).toNat ≤ p.length := by omega
  rw [List.take_append_of_le_length hk, List.take_append_of_le_length hk]

/-- `_format_trace_value` of two texts that agree beyond the available width -/
theorem formatValue_agree (w : Nat) (a b : Str) (vlen : Option Nat) (m : Int) (h : Agree w a b)
    (hm : m ≤ w) (hs : ((match vlen with
      | some n => "... (len=".toList ++ natStr n ++ ")".toList
      | none => "...".toList).length : Int) ≤ m) :
    formatValue a vlen m = formatValue b vlen m := by
  rcases h with h | ⟨p, a', b', rfl, rfl, hw, ha, hb⟩
  · subst h; rfl
  · cases vlen with
    | none => exact formatValue_agree_suf "...".toList p a' b' w m hw ha hb hm hs
    | some n => exact formatValue_agree_suf ("... (len=".toList ++ natStr n ++ ")".toList) p a' b' w m hw ha hb hm hs


theorem allGe_mono (L : Limits) (b b' : Nat) (h : L.allGe b = true) (hb : b' ≤ b) : L.allGe b' = true := by
  simp only [Limits.allGe, Limits.toList, List.all_cons, List.all_nil, Bool.and_true, Bool.and_eq_true,
    decide_eq_true_eq] at h ⊢
  omega


end Glom.C05
