import Glom.Lemmas.C05Repr
/-
  C05 — the size limits of `bbrepr` do not show in a trace line: for limits that are large compared
  with the line, the model's text of ANY value and Python's `repr` of it are equal or share a
  prefix longer than the line (`Agree`).
-/
set_option linter.unusedSimpArgs false
namespace Glom.C05

/-- equal, or a common prefix of at least `w` characters after which both go on -/
def Agree (w : Nat) (a b : Str) : Prop :=
  a = b ∨ ∃ p a' b', a = p ++ a' ∧ b = p ++ b' ∧ w ≤ p.length ∧ a' ≠ [] ∧ b' ≠ []

theorem Agree.refl (w : Nat) (a : Str) : Agree w a a := Or.inl rfl

theorem Agree.mono {w w' : Nat} {a b : Str} (h : Agree w a b) (hw : w' ≤ w) : Agree w' a b := by
  rcases h with h | ⟨p, a', b', h1, h2, h3, h4, h5⟩
  · exact Or.inl h
  · exact Or.inr ⟨p, a', b', h1, h2, by omega, h4, h5⟩

theorem Agree.of_prefix (w : Nat) (p a' b' : Str) (hw : w ≤ p.length) (ha : a' ≠ []) (hb : b' ≠ []) :
    Agree w (p ++ a') (p ++ b') := Or.inr ⟨p, a', b', rfl, rfl, hw, ha, hb⟩

theorem Agree.prepend {w : Nat} {a b : Str} (p : Str) (h : Agree w a b) : Agree (w + p.length) (p ++ a) (p ++ b) := by
  rcases h with h | ⟨q, a', b', h1, h2, h3, h4, h5⟩
  · subst h; exact Or.inl rfl
  · subst h1 h2
    exact Or.inr ⟨p ++ q, a', b', by simp, by simp, by simp; omega, h4, h5⟩

/-- what follows may differ once the two texts have parted; while they are equal it has to agree
    for what is left of the budget -/
theorem Agree.append {w : Nat} {a b x y : Str} (h : Agree w a b) (hxy : a = b → Agree (w - a.length) x y) :
    Agree w (a ++ x) (b ++ y) := by
  rcases h with h | ⟨q, a', b', h1, h2, h3, h4, h5⟩
  · subst h
    have := (hxy rfl).prepend a
    exact this.mono (by omega)
  · subst h1 h2
    exact Or.inr ⟨q, a' ++ x, b' ++ y, by simp, by simp, h3, by simp [h4], by simp [h5]⟩

theorem Agree.append_same {w : Nat} {a b : Str} (h : Agree w a b) (x : Str) : Agree w (a ++ x) (b ++ x) :=
  h.append (fun _ => Agree.refl _ _)

/-! ### leaves -/

theorem lastChars_of_le (s : Str) (j : Nat) (h : j ≤ s.length) : lastChars s j = s.drop (s.length - j) := by
  unfold lastChars pySliceFrom
  rw [if_pos (by omega)]
  congr 1
  omega

/-- the elision of `reprlib` keeps more than `w` characters when the limit is at least `2 w + 5` -/
theorem elide_agree (w lim : Nat) (s : Str) (hl : 2 * w + 5 ≤ lim) : Agree w (elide lim s) s := by
  unfold elide
  split
  · rename_i hlen
    have hi : w ≤ (lim - 3) / 2 := by omega
    have hil : (lim - 3) / 2 < s.length := by omega
    have hs : s = s.take ((lim - 3) / 2) ++ s.drop ((lim - 3) / 2) := (List.take_append_drop _ _).symm
    rw [List.append_assoc]
    conv => rhs; rw [hs]
    apply Agree.of_prefix
    · rw [List.length_take]; omega
    · simp [fill]
    · intro h0
      have := congrArg List.length h0
      simp at this
      omega
  · exact Agree.refl _ _

theorem elide_head (lim : Nat) (s : Str) (hl : 5 ≤ lim) : (elide lim s).head? = s.head? := by
  unfold elide
  split
  · rename_i hlen
    have hi : 1 ≤ (lim - 3) / 2 := by omega
    cases s with
    | nil => simp at hlen
    | cons c r =>
      obtain ⟨k, hk⟩ : ∃ k, (lim - 3) / 2 = k + 1 := ⟨(lim - 3) / 2 - 1, by omega⟩
      rw [hk]; simp
  · rfl

end Glom.C05
