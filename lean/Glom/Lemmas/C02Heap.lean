import Glom.Lemmas.C02
import Glom.Model.C02Heap
/-
  Lemmas about the executable heap instance of C02 (`Glom/Model/C02Heap.lean`).
-/
namespace Glom.C02
open Glom

/-- what `arg_val` sees in a heap value that is not spec-like: the value itself, or an
    instance of a container subclass -/
theorem objOfVal_plain (s : HS) (f : Val) (hplain : isSpecLike s f = false) (m : Nat) :
    objOfVal s (m + 1) f = .lit f ∨ ∃ base items, objOfVal s (m + 1) f = .sub base f items := by
  unfold isSpecLike at hplain
  unfold objOfVal at hplain ⊢
  cases f with
  | ref a =>
    simp only at hplain ⊢
    cases hget : s.get a with
    | none => exact .inl rfl
    | some o =>
      rw [hget] at hplain
      cases o with
      | list c xs =>
        simp only at hplain ⊢
        by_cases hc : c = "list"
        · simp [hc] at hplain
        · simp only [beq_iff_eq, hc, if_false]; exact .inr ⟨_, _, rfl⟩
      | tuple c xs =>
        simp only at hplain ⊢
        by_cases hc : c = "tuple"
        · simp [hc] at hplain
        · simp only [beq_iff_eq, hc, if_false]; exact .inr ⟨_, _, rfl⟩
      | dict c es =>
        simp only at hplain ⊢
        by_cases hc : c = "dict"
        · simp [hc] at hplain
        · simp only [beq_iff_eq, hc, if_false]; exact .inr ⟨_, _, rfl⟩
      | set c xs =>
        simp only at hplain ⊢
        by_cases hc : (c == "set" || c == "frozenset") = true
        · simp [hc] at hplain
        · simp only [hc]; exact .inr ⟨_, _, rfl⟩
      | inst c as =>
        simp only at hplain ⊢
        by_cases hc : specClasses.contains c = true
        · rw [if_pos hc] at hplain ⊢
          split
          · -- a T object
            simp only at hplain
            split at hplain
            · rename_i heq; split at heq <;> cases heq
            · rename_i heq; split at heq <;> cases heq
            · cases hplain
          · simp at hplain
          · -- Val(x) denotes x: plain only when x is the object itself
            simp only [bne_eq_false_iff_eq] at hplain
            rw [hplain]; exact .inl rfl
          · rename_i h1 h2 h3
            split at hplain
            · rename_i heq
              split at heq
              · split at heq <;> cases heq
              · cases heq
              · exact absurd rfl (h3 _ rfl)
              · cases heq
            · rename_i heq
              split at heq
              · split at heq <;> cases heq
              · cases heq
              · cases heq
              · cases heq
            · cases hplain
        · rw [if_neg hc]; exact .inl rfl
  | _ => exact .inl rfl

/-- `arg_val` over a callee that is not spec-like returns it and leaves the heap as it is -/
theorem hReval_plain (F : Facts) (hF : ∀ base, F.argInst.contains base = false) (n : Nat)
    (s : HS) (target f : Val) (hplain : isSpecLike s f = false) :
    (hPrim F n).revalFunc s target f = (.ok f, s) := by
  cases n with
  | zero => simp [hPrim, hPrimBase, hplain]
  | succ n =>
    simp only [hPrim, hPrimBase, hReval, valOfRun, valOfRes]
    rw [show objFuel = 9 + 1 from rfl]
    rcases objOfVal_plain s f hplain 9 with h | ⟨base, items, h⟩
    · rw [h, argVal_lit]; rfl
    · rw [h, argVal_sub_exact F _ target base f items (hF base)]; rfl

end Glom.C02
