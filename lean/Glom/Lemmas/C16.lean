import Glom.Spec.C16
/-
  Helper lemmas for C16: Python-dict primitives on entry lists, buckets, the
  state abstraction `treeOf` (what the accumulator tree holds after a list of
  items was routed to a spec) and the step lemma.
-/
set_option linter.unusedSimpArgs false
set_option linter.unusedVariables false
set_option linter.unnecessarySimpa false

namespace Glom.C16

/-! ### structural equality is reflexive -/

mutual
theorem veq_refl : ∀ v, veq v v = true
  | .none | .skip | .stop => by simp [veq]
  | .bool a | .int a | .str a | .float a | .obj a => by simp [veq]
  | .list xs => by simp [veq, veqList_refl xs]
  | .tuple xs => by simp [veq, veqList_refl xs]
  | .dict xs => by simp [veq, veqPairs_refl xs]
theorem veqList_refl : ∀ xs, veqList xs xs = true
  | [] => by simp [veqList]
  | x :: xs => by simp [veqList, veq_refl x, veqList_refl xs]
theorem veqPairs_refl : ∀ xs, veqPairs xs xs = true
  | [] => by simp [veqPairs]
  | (a, b) :: xs => by simp [veqPairs, veq_refl a, veq_refl b, veqPairs_refl xs]
end

/-! ### key equality -/

theorem keyEq_symm (a b : V) : keyEq a b = keyEq b a := by
  cases a <;> cases b <;> simp [keyEq, Bool.beq_comm, eq_comm] <;>
    first | rfl | (rw [Bool.beq_comm]) | (rw [eq_comm]) | skip

theorem keyEq_refl {k : V} (hk : hashable k = true) : keyEq k k = true := by
  cases k <;> simp [keyEq, hashable] at hk ⊢

theorem keyEq_idKey (n : Nat) : keyEq (idKey n) (idKey n) = true := by simp [idKey, keyEq]

theorem keyEq_obj (n : Nat) : keyEq (.obj n) (.obj n) = true := by simp [keyEq]

theorem keyEq_id_obj (n m : Nat) : keyEq (idKey n) (.obj m) = false := by simp [idKey, keyEq]

/-! ### dict primitives -/

theorem dhas_eq (es : List (V × V)) (k : V) : dhas es k = (dget es k).isSome := rfl

theorem dget_dset_self (es : List (V × V)) {k : V} (hk : keyEq k k = true) (v : V) :
    dget (dset es k v) k = some v := by
  induction es with
  | nil => simp [dset, dget, hk]
  | cons e es ih =>
    obtain ⟨k', v'⟩ := e
    simp only [dset]
    by_cases h : keyEq k' k = true
    · simp [h, dget]
    · have h' : keyEq k' k = false := by simpa using h
      simp [h', dget, ih]

theorem dset_dset (es : List (V × V)) {k : V} (hk : keyEq k k = true) (v w : V) :
    dset (dset es k v) k w = dset es k w := by
  induction es with
  | nil => simp [dset, hk]
  | cons e es ih =>
    obtain ⟨k', v'⟩ := e
    simp only [dset]
    by_cases h : keyEq k' k = true
    · simp [h, dset]
    · have h' : keyEq k' k = false := by simpa using h
      simp [h', dset, ih]

/-! ### buckets -/

/-- the items of the bucket `k` falls into (first match), `[]` if there is none -/
def bucketOf : List (V × List V) → V → List V
  | [], _ => []
  | (k', its) :: bs, k => if keyEq k' k then its else bucketOf bs k

def bhas : List (V × List V) → V → Bool
  | [], _ => false
  | (k', _) :: bs, k => keyEq k' k || bhas bs k

theorem dget_map (g : List V → V) (bs : List (V × List V)) (k : V) :
    dget (bs.map (fun b => (b.1, g b.2))) k = if bhas bs k then some (g (bucketOf bs k)) else none := by
  induction bs with
  | nil => rfl
  | cons b bs ih =>
    obtain ⟨k', its⟩ := b
    simp only [List.map_cons, dget, bhas, bucketOf]
    by_cases h : keyEq k' k = true
    · simp [h]
    · have h' : keyEq k' k = false := by simpa using h
      simp [h', ih]

theorem dset_map (g : List V → V) (bs : List (V × List V)) (k x : V) :
    dset (bs.map (fun b => (b.1, g b.2))) k (g (bucketOf bs k ++ [x])) =
      (addTo bs k x).map (fun b => (b.1, g b.2)) := by
  induction bs with
  | nil => simp [dset, addTo, bucketOf]
  | cons b bs ih =>
    obtain ⟨k', its⟩ := b
    simp only [List.map_cons, dset, addTo, bucketOf]
    by_cases h : keyEq k' k = true
    · simp [h]
    · have h' : keyEq k' k = false := by simpa using h
      simp [h', ih]

theorem bucketOf_addTo (bs : List (V × List V)) {k : V} (hk : keyEq k k = true) (x : V) :
    bucketOf (addTo bs k x) k = bucketOf bs k ++ [x] := by
  induction bs with
  | nil => simp [addTo, bucketOf, hk]
  | cons b bs ih =>
    obtain ⟨k', its⟩ := b
    simp only [addTo, bucketOf]
    by_cases h : keyEq k' k = true
    · simp [h, bucketOf]
    · have h' : keyEq k' k = false := by simpa using h
      simp [h', bucketOf, ih]

/-- every bucket is non-empty and holds only items that were added -/
theorem addTo_mem {P : V → Prop} (bs : List (V × List V)) (k x : V) (hx : P x)
    (hbs : ∀ b ∈ bs, b.2 ≠ [] ∧ ∀ i ∈ b.2, P i) :
    ∀ b ∈ addTo bs k x, b.2 ≠ [] ∧ ∀ i ∈ b.2, P i := by
  induction bs with
  | nil =>
    intro b hb
    simp only [addTo, List.mem_singleton] at hb
    subst hb
    exact ⟨by simp, by intro i hi; simp at hi; subst hi; exact hx⟩
  | cons b0 bs ih =>
    obtain ⟨k', its⟩ := b0
    intro b hb
    simp only [addTo] at hb
    have h0 := hbs (k', its) List.mem_cons_self
    split at hb
    · rcases List.mem_cons.mp hb with rfl | hb
      · refine ⟨by simp, ?_⟩
        intro i hi
        rcases List.mem_append.mp hi with h | h
        · exact h0.2 i h
        · simp at h; subst h; exact hx
      · exact hbs b (List.mem_cons_of_mem _ hb)
    · rcases List.mem_cons.mp hb with rfl | hb
      · exact h0
      · exact ih (fun b' hb' => hbs b' (List.mem_cons_of_mem _ hb')) b hb

theorem bucketOf_mem {P : V → Prop} (bs : List (V × List V)) (k : V)
    (hbs : ∀ b ∈ bs, b.2 ≠ [] ∧ ∀ i ∈ b.2, P i) : ∀ i ∈ bucketOf bs k, P i := by
  induction bs with
  | nil => intro i hi; simp [bucketOf] at hi
  | cons b0 bs ih =>
    obtain ⟨k', its⟩ := b0
    simp only [bucketOf]
    split
    · exact (hbs (k', its) List.mem_cons_self).2
    · exact ih (fun b' hb' => hbs b' (List.mem_cons_of_mem _ hb'))

/-! ### the state abstraction -/

/-- the buckets a hand-written loop holds after `its` (no STOP among the keys) -/
def buckets (key : Fn) (its : List V) : List (V × List V) := its.foldl (bucketStep key) []

def valsOf (f : Fn) (its : List V) : List V :=
  its.filterMap (fun x => if isSkip (f.val x) then none else some (f.val x))

/-- `tree[self]` of an aggregator after `its` -/
def stateOf : Agg → List V → V
  | .first, _ => .stop
  | .max, its => pyMax its
  | .min, its => pyMin its
  | .avg, its => .list [.int ((its.map intOf).sum), .int its.length]
  | a, its => refAgg a its

/-- what `scope[ACC_TREE]` holds after the items `its` were routed to spec `s` -/
def treeOf : GSpec → List V → List (V × V)
  | .agg oid a, its => if its.isEmpty then [] else [(.obj oid, stateOf a its)]
  | .list id f, its => if its.isEmpty then [] else [(idKey id, .list (valsOf f its))]
  | .dict id _ key sub, its =>
    if its.isEmpty then []
    else (idKey id, .dict ((buckets key its).map (fun b => (b.1, valOf sub b.2)))) ::
      (buckets key its).map (fun b => (b.1, V.dict (treeOf sub b.2)))
  | _, _ => []

/-! ### hypotheses are inherited by sub-lists of items -/

theorem all_subset {p : V → Bool} {xs ys : List V} (h : ∀ i ∈ ys, i ∈ xs) (hx : xs.all p = true) :
    ys.all p = true := by
  rw [List.all_eq_true] at hx ⊢
  exact fun i hi => hx i (h i hi)

theorem aggOk_subset {a : Agg} {xs ys : List V} (h : ∀ i ∈ ys, i ∈ xs) (hx : aggOk a xs = true) :
    aggOk a ys = true := by
  cases a <;> simp only [aggOk, Bool.or_eq_true] at hx ⊢
  · exact hx.imp (all_subset h) (all_subset h)
  · exact hx.imp (all_subset h) (all_subset h)
  all_goals exact all_subset h hx

theorem wfRun_subset : ∀ (s : GSpec) {xs ys : List V}, (∀ i ∈ ys, i ∈ xs) → wfRun s xs = true → wfRun s ys = true
  | .agg _ a, _, _, h, hx => aggOk_subset h hx
  | .fn _, _, _, h, hx => all_subset h hx
  | .list _ _, _, _, h, hx => all_subset h hx
  | .limit _ _ sub, _, _, h, hx => wfRun_subset sub h hx
  | .nested _, _, _, h, hx => all_subset h hx
  | .dict _ _ _ sub, _, _, h, hx => by
    simp only [wfRun, Bool.and_eq_true] at hx ⊢
    exact ⟨all_subset h hx.1, wfRun_subset sub h hx.2⟩

theorem stopFree_subset : ∀ (b : Bool) (s : GSpec) {xs ys : List V}, (∀ i ∈ ys, i ∈ xs) →
    stopFree b s xs = true → stopFree b s ys = true
  | _, .agg _ a, _, _, _, hx => by cases a <;> simpa [stopFree] using hx
  | _, .fn _, _, _, h, hx => all_subset h hx
  | _, .list _ _, _, _, h, hx => all_subset h hx
  | _, .limit .., _, _, _, hx => by simp [stopFree] at hx
  | _, .nested _, _, _, h, hx => by
    simp only [stopFree, Bool.and_eq_true] at hx ⊢
    exact ⟨hx.1, all_subset h hx.2⟩
  | _, .dict _ _ _ sub, _, _, h, hx => by
    simp only [stopFree, Bool.and_eq_true] at hx ⊢
    exact ⟨all_subset h hx.1, stopFree_subset true sub h hx.2⟩

theorem keysApart_subset : ∀ (s : GSpec) {xs ys : List V}, (∀ i ∈ ys, i ∈ xs) →
    keysApart s xs = true → keysApart s ys = true
  | .agg .., _, _, _, _ => rfl
  | .fn _, _, _, _, _ => rfl
  | .list .., _, _, _, _ => rfl
  | .limit _ _ sub, _, _, h, hx => keysApart_subset sub h hx
  | .nested _, _, _, h, hx => all_subset h hx
  | .dict _ _ _ sub, _, _, h, hx => by
    simp only [keysApart, Bool.and_eq_true] at hx ⊢
    exact ⟨all_subset h hx.1, keysApart_subset sub h hx.2⟩

/-- the three hypotheses of the equality theorem, for the items routed to `s` -/
structure Hyp (b : Bool) (s : GSpec) (its : List V) : Prop where
  wf : wfRun s its = true
  sf : stopFree b s its = true
  ka : keysApart s its = true

theorem Hyp.subset {b : Bool} {s : GSpec} {xs ys : List V} (h : Hyp b s xs) (hs : ∀ i ∈ ys, i ∈ xs) :
    Hyp b s ys :=
  ⟨wfRun_subset s hs h.wf, stopFree_subset b s hs h.sf, keysApart_subset s hs h.ka⟩

theorem apply_of_ok {f : Fn} {x : V} (h : applyOk f x = true) : f.apply x = .ok (f.val x) := by
  unfold applyOk at h
  unfold Fn.val
  cases hf : f.apply x with
  | ok v => rfl
  | error e => simp [hf] at h

/-! ### aggregators: one `agg` call extends the reference by one item -/

def aggTree (oid : Nat) (a : Agg) (its : List V) : List (V × V) :=
  if its.isEmpty then [] else [(.obj oid, stateOf a its)]

theorem pyMax_snoc (y : V) (ys : List V) (x : V) :
    pyMax ((y :: ys) ++ [x]) = if pyLt (pyMax (y :: ys)) x == some true then x else pyMax (y :: ys) := by
  simp [pyMax, List.foldl_append]

theorem pyMin_snoc (y : V) (ys : List V) (x : V) :
    pyMin ((y :: ys) ++ [x]) = if pyLt x (pyMin (y :: ys)) == some true then x else pyMin (y :: ys) := by
  simp [pyMin, List.foldl_append]

theorem foldl_pick_mem (c : V → V → Bool) :
    ∀ (ys : List V) (m : V), ys.foldl (fun m z => if c m z then z else m) m ∈ m :: ys := by
  intro ys
  induction ys with
  | nil => intro m; simp
  | cons z zs ih =>
    intro m
    simp only [List.foldl_cons]
    have := ih (if c m z then z else m)
    rcases List.mem_cons.mp this with h | h
    · rw [h]; split <;> simp
    · exact List.mem_cons_of_mem _ (List.mem_cons_of_mem _ h)

theorem pyMax_mem (y : V) (ys : List V) : pyMax (y :: ys) ∈ y :: ys :=
  foldl_pick_mem (fun m z => pyLt m z == some true) ys y

theorem pyMin_mem (y : V) (ys : List V) : pyMin (y :: ys) ∈ y :: ys :=
  foldl_pick_mem (fun m z => pyLt z m == some true) ys y

theorem pyLt_some_of_int {a b : V} (ha : isIntLike a = true) (hb : isIntLike b = true) :
    ∃ r, pyLt a b = some r := by
  unfold isIntLike at ha hb
  cases ha' : asInt a with
  | none => simp [ha'] at ha
  | some x =>
    cases hb' : asInt b with
    | none => simp [hb'] at hb
    | some y => exact ⟨decide (x < y), by simp [pyLt, ha', hb']⟩

theorem pyLt_some_of_str {a b : V} (ha : isStr a = true) (hb : isStr b = true) :
    ∃ r, pyLt a b = some r := by
  cases a <;> simp [isStr] at ha
  cases b <;> simp [isStr] at hb
  rename_i s1 s2
  exact ⟨decide (s1 < s2), by simp [pyLt, asInt]⟩

theorem pyLt_some_of_ok {xs : List V} (h : (xs.all isIntLike || xs.all isStr) = true) {a b : V}
    (ha : a ∈ xs) (hb : b ∈ xs) : ∃ r, pyLt a b = some r := by
  simp only [Bool.or_eq_true, List.all_eq_true] at h
  rcases h with h | h
  · exact pyLt_some_of_int (h a ha) (h b hb)
  · exact pyLt_some_of_str (h a ha) (h b hb)

theorem dget_single (k v : V) (hk : keyEq k k = true) : dget [(k, v)] k = some v := by simp [dget, hk]
theorem dset_single (k v w : V) (hk : keyEq k k = true) : dset [(k, v)] k w = [(k, w)] := by simp [dset, hk]

theorem intOf_of_asInt {v : V} {i : Int} (h : asInt v = some i) : intOf v = i := by simp [intOf, h]

theorem asInt_of_intLike {v : V} (h : isIntLike v = true) : asInt v = some (intOf v) := by
  unfold isIntLike at h
  cases hv : asInt v with
  | none => simp [hv] at h
  | some i => simp [intOf, hv]

/-- **every aggregator but First**: one `agg(target, tree)` call on the tree the earlier
    items left returns the Python reference over all items so far, and leaves the
    tree of all items so far -/
theorem aggStep_spec (oid : Nat) (a : Agg) (ha : a ≠ .first) (its : List V) (x : V)
    (hok : aggOk a (its ++ [x]) = true) :
    aggStep (.obj oid) a x (aggTree oid a its) =
      .ok (refAgg a (its ++ [x]), aggTree oid a (its ++ [x])) := by
  have hne : (its ++ [x]).isEmpty = false := by simp
  have hko := keyEq_obj oid
  cases a with
  | first => exact absurd rfl ha
  | max =>
    cases its with
    | nil => simp [aggStep, aggTree, dget, dset, stateOf, refAgg, pyMax]
    | cons y ys =>
      have hm := pyMax_mem y ys
      obtain ⟨r, hr⟩ := pyLt_some_of_ok (xs := (y :: ys) ++ [x]) hok
        (List.mem_append_left _ hm) (List.mem_append_right _ (List.mem_singleton.mpr rfl))
      simp only [aggStep, aggTree, List.isEmpty_cons, Bool.false_eq_true, if_false, hne, stateOf,
        dget_single _ _ hko, dset_single _ _ _ hko, refAgg, pyMax_snoc, hr]
      cases r <;> simp
  | min =>
    cases its with
    | nil => simp [aggStep, aggTree, dget, dset, stateOf, refAgg, pyMin]
    | cons y ys =>
      have hm := pyMin_mem y ys
      obtain ⟨r, hr⟩ := pyLt_some_of_ok (xs := (y :: ys) ++ [x]) hok
        (List.mem_append_right _ (List.mem_singleton.mpr rfl)) (List.mem_append_left _ hm)
      simp only [aggStep, aggTree, List.isEmpty_cons, Bool.false_eq_true, if_false, hne, stateOf,
        dget_single _ _ hko, dset_single _ _ _ hko, refAgg, pyMin_snoc, hr]
      cases r <;> simp
  | avg =>
    have hx : asInt x = some (intOf x) := by
      simp only [aggOk, List.all_append, Bool.and_eq_true, List.all_cons, List.all_nil, Bool.and_true] at hok
      exact asInt_of_intLike hok.2
    cases its with
    | nil => simp [aggStep, aggTree, dget, dset, stateOf, refAgg, hx]
    | cons y ys =>
      simp [aggStep, aggTree, hne, stateOf, dget_single _ _ hko, dset_single _ _ _ hko, refAgg, hx,
        Int.toNat_natCast, List.sum_append, Int.natCast_add, Int.add_assoc]
  | count =>
    cases its with
    | nil => simp [aggStep, aggTree, dget, dset, stateOf, refAgg, asInt]
    | cons y ys =>
      simp [aggStep, aggTree, hne, stateOf, dget_single _ _ hko, dset_single _ _ _ hko, refAgg, asInt,
        Int.natCast_add]
  | sum f =>
    simp only [aggOk, List.all_append, Bool.and_eq_true, List.all_cons, List.all_nil, Bool.and_true] at hok
    have hap := apply_of_ok hok.2.1
    have hx := asInt_of_intLike hok.2.2
    have h0 : ∀ i : Int, asInt (.int i) = some i := fun _ => rfl
    cases its with
    | nil => simp [aggStep, aggTree, dget, dset, stateOf, refAgg, hap, hx, h0]
    | cons y ys =>
      simp [aggStep, aggTree, hne, stateOf, dget_single _ _ hko, dset_single _ _ _ hko, refAgg, hap, hx, h0,
        List.sum_append, Int.add_assoc]
  | flatten f =>
    simp only [aggOk, List.all_append, Bool.and_eq_true, List.all_cons, List.all_nil, Bool.and_true] at hok
    have hap := apply_of_ok hok.2.1
    obtain ⟨ys', hys⟩ := Option.isSome_iff_exists.mp hok.2.2
    cases its with
    | nil => simp [aggStep, aggTree, dget, dset, stateOf, refAgg, hap, hys]
    | cons y ys =>
      simp only [aggStep, aggTree, List.isEmpty_cons, Bool.false_eq_true, if_false, hne, stateOf,
        dget_single _ _ hko, dset_single _ _ _ hko, refAgg, hap, hys, Option.getD_some,
        List.flatMap_append, List.flatMap_cons, List.flatMap_nil, List.append_nil]
  | merge f =>
    simp only [aggOk, List.all_append, Bool.and_eq_true, List.all_cons, List.all_nil, Bool.and_true] at hok
    have hap := apply_of_ok hok.2.1
    have hd := hok.2.2
    cases hv : f.val x with
    | dict ps =>
      cases its with
      | nil => simp [aggStep, aggTree, dget, dset, stateOf, refAgg, hap, hv]
      | cons y ys =>
        simp only [aggStep, aggTree, List.isEmpty_cons, Bool.false_eq_true, if_false, hne, stateOf,
          dget_single _ _ hko, dset_single _ _ _ hko, refAgg, hap, hv, Option.getD_some,
          List.foldl_append, List.foldl_cons, List.foldl_nil]
    | _ => simp [isDictV, hv] at hd

/-! ### reference facts under the hypotheses -/

theorem cutStop_all {f : Fn} {its : List V} (h : ∀ x ∈ its, isStop (f.val x) = false) : cutStop f its = its := by
  unfold cutStop
  induction its with
  | nil => rfl
  | cons y ys ih =>
    simp only [List.takeWhile_cons, h y List.mem_cons_self, Bool.not_false, if_true]
    rw [ih (fun x hx => h x (List.mem_cons_of_mem _ hx))]

theorem treeOf_nil (s : GSpec) : treeOf s [] = [] := by cases s <;> simp [treeOf]

theorem valsOf_snoc (f : Fn) (its : List V) (x : V) :
    valsOf f (its ++ [x]) = valsOf f its ++ (if isSkip (f.val x) then [] else [f.val x]) := by
  simp only [valsOf, List.filterMap_append, List.filterMap_cons, List.filterMap_nil]
  by_cases h : isSkip (f.val x) = true <;> simp [h]

theorem valsOf_cons_snoc (f : Fn) (y : V) (ys : List V) (x : V) :
    valsOf f (y :: (ys ++ [x])) = valsOf f (y :: ys) ++ (if isSkip (f.val x) then [] else [f.val x]) := by
  rw [← List.cons_append]; exact valsOf_snoc f (y :: ys) x

theorem buckets_snoc (key : Fn) (its : List V) (x : V) :
    buckets key (its ++ [x]) = bucketStep key (buckets key its) x := by
  simp [buckets, List.foldl_append]

theorem bucketStep_eq (key : Fn) (bs : List (V × List V)) (x : V) :
    bucketStep key bs x = if isSkip (key.val x) then bs else addTo bs (key.val x) x := by
  unfold bucketStep
  cases key.val x <;> simp [isSkip]

theorem addTo_keys {Q : V → Prop} (bs : List (V × List V)) (k x : V) (hk : Q k)
    (hbs : ∀ b ∈ bs, Q b.1) : ∀ b ∈ addTo bs k x, Q b.1 := by
  induction bs with
  | nil => intro b hb; simp only [addTo, List.mem_singleton] at hb; subst hb; exact hk
  | cons b0 bs ih =>
    obtain ⟨k', its⟩ := b0
    intro b hb
    simp only [addTo] at hb
    split at hb
    · rcases List.mem_cons.mp hb with rfl | hb
      · exact hbs (k', its) List.mem_cons_self
      · exact hbs b (List.mem_cons_of_mem _ hb)
    · rcases List.mem_cons.mp hb with rfl | hb
      · exact hbs (k', its) List.mem_cons_self
      · exact ih (fun b' hb' => hbs b' (List.mem_cons_of_mem _ hb')) b hb

/-- every bucket holds (in order) a non-empty list of the items, and its key is a key some
    item produced -/
theorem foldl_buckets_inv (key : Fn) {Q : V → Prop} (all : List V) :
    ∀ (its : List V) (bs : List (V × List V)), (∀ x ∈ its, x ∈ all) →
      (∀ x ∈ its, isSkip (key.val x) = false → Q (key.val x)) →
      (∀ b ∈ bs, Q b.1 ∧ b.2 ≠ [] ∧ ∀ i ∈ b.2, i ∈ all) →
      ∀ b ∈ its.foldl (bucketStep key) bs, Q b.1 ∧ b.2 ≠ [] ∧ ∀ i ∈ b.2, i ∈ all := by
  intro its
  induction its with
  | nil => intro bs _ _ hbs; exact hbs
  | cons x xs ih =>
    intro bs hall hq hbs
    simp only [List.foldl_cons]
    apply ih _ (fun y hy => hall y (List.mem_cons_of_mem _ hy)) (fun y hy => hq y (List.mem_cons_of_mem _ hy))
    rw [bucketStep_eq]
    by_cases hs : isSkip (key.val x) = true
    · simpa only [hs, if_true] using hbs
    · have hs' : isSkip (key.val x) = false := by simpa using hs
      simp only [hs', Bool.false_eq_true, if_false]
      intro b hb
      refine ⟨?_, ?_⟩
      · exact addTo_keys (Q := Q) _ _ _ (hq x List.mem_cons_self hs') (fun b' hb' => (hbs b' hb').1) b hb
      · exact addTo_mem (P := fun i => i ∈ all) _ _ _ (hall x List.mem_cons_self)
          (fun b' hb' => (hbs b' hb').2) b hb

/-- every bucket holds a non-empty list of the items, and its key is a key some item produced -/
theorem buckets_inv (key : Fn) {Q : V → Prop} (its : List V)
    (hq : ∀ x ∈ its, isSkip (key.val x) = false → Q (key.val x)) :
    ∀ b ∈ buckets key its, Q b.1 ∧ b.2 ≠ [] ∧ ∀ i ∈ b.2, i ∈ its :=
  foldl_buckets_inv key its its [] (fun _ h => h) hq (by simp)

theorem bhas_false {bs : List (V × List V)} {k : V} (h : ∀ b ∈ bs, keyEq b.1 k = false) : bhas bs k = false := by
  induction bs with
  | nil => rfl
  | cons b bs ih =>
    obtain ⟨k', its⟩ := b
    simp only [bhas, Bool.or_eq_false_iff]
    exact ⟨h (k', its) List.mem_cons_self, ih (fun b' hb' => h b' (List.mem_cons_of_mem _ hb'))⟩

theorem bucketOf_of_not_bhas {bs : List (V × List V)} {k : V} (h : bhas bs k = false) : bucketOf bs k = [] := by
  induction bs with
  | nil => rfl
  | cons b bs ih =>
    obtain ⟨k', its⟩ := b
    simp only [bhas, Bool.or_eq_false_iff] at h
    simp [bucketOf, h.1, ih h.2]

theorem hasVal_of_stopFree : ∀ (s : GSpec) (b : Bool) {its : List V} {x : V}, stopFree b s its = true → x ∈ its →
    hasVal s x = true
  | .agg .., _, _, _, _, _ => rfl
  | .nested _, _, _, _, _, _ => rfl
  | .limit .., _, _, _, h, _ => by simp [stopFree] at h
  | .fn f, _, _, x, h, hx => by
    simp only [stopFree, List.all_eq_true, Bool.and_eq_true, Bool.not_eq_true'] at h
    simp [hasVal, (h x hx).1]
  | .list _ f, _, _, x, h, hx => by
    simp only [stopFree, List.all_eq_true, Bool.not_eq_true'] at h
    simp [hasVal, h x hx]
  | .dict _ _ key sub, _, _, x, h, hx => by
    simp only [stopFree, Bool.and_eq_true, List.all_eq_true, Bool.not_eq_true'] at h
    simp [hasVal, h.1 x hx, hasVal_of_stopFree sub true h.2 hx]

/-- under the hypotheses the reference of a dict level is the plain bucket map -/
theorem valOf_dict (id kid : Nat) (key : Fn) (sub : GSpec) (b : Bool) (its : List V)
    (h : Hyp b (.dict id kid key sub) its) :
    valOf (.dict id kid key sub) its = .dict ((buckets key its).map (fun b => (b.1, valOf sub b.2))) := by
  have hsf := h.sf
  simp only [stopFree, Bool.and_eq_true, List.all_eq_true, Bool.not_eq_true'] at hsf
  have hcut : cutStop key its = its := cutStop_all hsf.1
  have hinv := buckets_inv key (Q := fun _ => True) its (fun _ _ _ => trivial)
  have hfil : (buckets key its).filter (bucketHasVal sub) = buckets key its := by
    rw [List.filter_eq_self]
    intro bk hbk
    obtain ⟨_, hne, hmem⟩ := hinv bk hbk
    unfold bucketHasVal
    cases hb2 : bk.2 with
    | nil => exact absurd hb2 hne
    | cons y ys =>
      exact hasVal_of_stopFree sub true hsf.2 (hmem y (by simp [hb2]))
  simp only [valOf, bucketize, hcut]
  rw [show List.foldl (bucketStep key) [] its = buckets key its from rfl, hfil]

/-! ### results are never the sentinels -/

theorem refAgg_not_sentinel (a : Agg) (ha : a ≠ .first) (y : V) (ys : List V) (hok : aggOk a (y :: ys) = true) :
    isStop (refAgg a (y :: ys)) = false ∧ isSkip (refAgg a (y :: ys)) = false := by
  cases a with
  | first => exact absurd rfl ha
  | max =>
    have hm := pyMax_mem y ys
    simp only [aggOk, Bool.or_eq_true, List.all_eq_true] at hok
    rcases hok with h | h <;> (have := h _ hm; revert this; simp only [refAgg]; cases pyMax (y :: ys) <;>
      simp [isIntLike, isStr, asInt, isStop, isSkip])
  | min =>
    have hm := pyMin_mem y ys
    simp only [aggOk, Bool.or_eq_true, List.all_eq_true] at hok
    rcases hok with h | h <;> (have := h _ hm; revert this; simp only [refAgg]; cases pyMin (y :: ys) <;>
      simp [isIntLike, isStr, asInt, isStop, isSkip])
  | avg => simp [refAgg, avgDiv, isStop, isSkip]
  | sum f => simp [refAgg, isStop, isSkip]
  | count => simp [refAgg, isStop, isSkip]
  | flatten f => simp [refAgg, isStop, isSkip]
  | merge f => simp [refAgg, isStop, isSkip]

theorem emptyOf_not_sentinel (g : GSpec) : isStop (emptyOf g) = false ∧ isSkip (emptyOf g) = false := by
  cases g <;> simp [emptyOf, isStop, isSkip]

theorem getLast?_ne_nil {its : List V} (h : its ≠ []) : ∃ x, its.getLast? = some x ∧ x ∈ its := by
  cases hl : its.getLast? with
  | none => simp [List.getLast?_eq_none_iff] at hl; exact absurd hl h
  | some x => exact ⟨x, rfl, List.mem_of_getLast? hl⟩

/-- below a key level (`b = true`) a result is neither STOP nor SKIP; at the top it is not STOP -/
theorem valOf_not_sentinel : ∀ (s : GSpec) (b : Bool) (its : List V), its ≠ [] → Hyp b s its →
    isStop (valOf s its) = false ∧ (b = true → isSkip (valOf s its) = false)
  | .agg oid a, b, its, hne, h => by
    have hsf := h.sf
    have ha : a ≠ .first := by intro ha; subst ha; simp [stopFree] at hsf
    cases its with
    | nil => exact absurd rfl hne
    | cons y ys =>
      have := refAgg_not_sentinel a ha y ys h.wf
      exact ⟨this.1, fun _ => this.2⟩
  | .fn f, b, its, hne, h => by
    have hsf := h.sf
    simp only [stopFree, List.all_eq_true, Bool.and_eq_true, Bool.not_eq_true', Bool.and_eq_false_imp] at hsf
    have hcut : cutStop f its = its := cutStop_all (fun x hx => (hsf x hx).1)
    obtain ⟨x, hx, hxm⟩ := getLast?_ne_nil hne
    simp only [valOf, hcut, hx]
    refine ⟨(hsf x hxm).1, ?_⟩
    intro hb
    have := (hsf x hxm).2
    simpa [hb] using this
  | .list _ f, b, its, _, _ => by simp [valOf, isStop, isSkip]
  | .limit .., b, its, _, h => by have := h.sf; simp [stopFree] at this
  | .dict id kid key sub, b, its, _, h => by rw [valOf_dict id kid key sub b its h]; simp [isStop, isSkip]
  | .nested g, b, its, hne, h => by
    obtain ⟨x, hx, hxm⟩ := getLast?_ne_nil hne
    have hwf := h.wf
    have hsf := h.sf
    have hka := h.ka
    simp only [wfRun, List.all_eq_true, Bool.and_eq_true] at hwf
    simp only [stopFree, List.all_eq_true, Bool.and_eq_true] at hsf
    simp only [keysApart, List.all_eq_true] at hka
    have hin : Hyp false g ((iterOf x).getD []) := ⟨(hwf x hxm).2, hsf.2 x hxm, hka x hxm⟩
    simp only [valOf, hx, emptyOr]
    by_cases hemp : ((iterOf x).getD []).isEmpty = true
    · simp only [hemp, if_true]
      exact ⟨(emptyOf_not_sentinel g).1, fun _ => (emptyOf_not_sentinel g).2⟩
    · have hne' : (iterOf x).getD [] ≠ [] := by simpa using hemp
      simp only [hemp, Bool.false_eq_true, if_false]
      have ih := valOf_not_sentinel g false _ hne' hin
      refine ⟨ih.1, ?_⟩
      intro hb
      subst hb
      -- below a key level the nested spec is a dict / list / aggregator: never SKIP
      have hg := hsf.1
      cases g with
      | fn f => simp at hg
      | nested g2 => simp at hg
      | limit oid n sub => have := hin.sf; simp [stopFree] at this
      | list id f => simp [valOf, isSkip]
      | dict id kid key sub => rw [valOf_dict id kid key sub false _ hin]; simp [isSkip]
      | agg oid a =>
        have ha : a ≠ .first := by intro ha; subst ha; have := hin.sf; simp [stopFree] at this
        cases hl : (iterOf x).getD [] with
        | nil => exact absurd hl hne'
        | cons y ys =>
          have hok : aggOk a (y :: ys) = true := by have := hin.wf; rw [hl] at this; exact this
          exact (refAgg_not_sentinel a ha y ys hok).2

/-! ### the item loop -/

/-- if every step extends the reference by one item, the loop of Group.glomit computes the
    reference of all items -/
theorem loop_of_step (s : GSpec)
    (hstep : ∀ (its : List V) (x : V), Hyp false s (its ++ [x]) →
      gstep s x (treeOf s its) = .ok (valOf s (its ++ [x]), treeOf s (its ++ [x]))) :
    ∀ (xs done : List V), Hyp false s (done ++ xs) →
      loopWith (gstep s) xs (valOfTop s done) (treeOf s done) = .ok (valOfTop s (done ++ xs)) := by
  intro xs
  induction xs with
  | nil => intro done _; simp [loopWith]
  | cons x xs ih =>
    intro done h
    have hx : Hyp false s (done ++ [x]) := h.subset (fun i hi => by
      rcases List.mem_append.mp hi with h1 | h1
      · exact List.mem_append_left _ h1
      · exact List.mem_append_right _ (by simp at h1; simp [h1]))
    have hns := (valOf_not_sentinel s false (done ++ [x]) (by simp) hx).1
    simp only [loopWith, hstep done x hx, hns, Bool.false_eq_true, if_false]
    have : valOf s (done ++ [x]) = valOfTop s (done ++ [x]) := by simp [valOfTop, emptyOr]
    rw [this]
    have := ih (done ++ [x]) (by simpa using h)
    simpa using this

theorem groupEval_of_step (s : GSpec)
    (hstep : ∀ (its : List V) (x : V), Hyp false s (its ++ [x]) →
      gstep s x (treeOf s its) = .ok (valOf s (its ++ [x]), treeOf s (its ++ [x])))
    (items : List V) (h : Hyp false s items) : groupEval s items = .ok (valOfTop s items) := by
  have := loop_of_step s hstep items [] (by simpa using h)
  simpa [groupEval, groupLoop, valOfTop, emptyOr, treeOf_nil] using this

/-! ### one step of a key level -/

/-- the tree a key level holds, given its buckets -/
def levelTree (id : Nat) (sub : GSpec) (bs : List (V × List V)) : List (V × V) :=
  (idKey id, .dict (bs.map (fun b => (b.1, valOf sub b.2)))) :: bs.map (fun b => (b.1, V.dict (treeOf sub b.2)))

theorem treeOf_dict (id kid : Nat) (key : Fn) (sub : GSpec) (its : List V) :
    treeOf (.dict id kid key sub) its = if its.isEmpty then [] else levelTree id sub (buckets key its) := rfl

theorem dget_cons_ne {k' k v : V} {es : List (V × V)} (h : keyEq k' k = false) :
    dget ((k', v) :: es) k = dget es k := by simp [dget, h]

theorem dset_cons_ne {k' k v w : V} {es : List (V × V)} (h : keyEq k' k = false) :
    dset ((k', v) :: es) k w = (k', v) :: dset es k w := by simp [dset, h]

theorem dict_step (id kid : Nat) (key : Fn) (sub : GSpec) (b : Bool) (its : List V) (x : V)
    (h : Hyp b (.dict id kid key sub) (its ++ [x]))
    (hsub : ∀ its', (∀ i ∈ its', i ∈ its) →
      gstep sub x (treeOf sub its') = .ok (valOf sub (its' ++ [x]), treeOf sub (its' ++ [x]))) :
    gstep (.dict id kid key sub) x (treeOf (.dict id kid key sub) its) =
      .ok (valOf (.dict id kid key sub) (its ++ [x]), treeOf (.dict id kid key sub) (its ++ [x])) := by
  -- unpack the hypotheses
  have hwf := h.wf
  have hsf := h.sf
  have hka := h.ka
  simp only [wfRun, Bool.and_eq_true, List.all_eq_true] at hwf
  simp only [stopFree, Bool.and_eq_true, List.all_eq_true, Bool.not_eq_true'] at hsf
  simp only [keysApart, Bool.and_eq_true, List.all_eq_true, Bool.not_eq_true'] at hka
  have hxm : x ∈ its ++ [x] := by simp
  have hsubH : Hyp true sub (its ++ [x]) := ⟨hwf.2, hsf.2, hka.2⟩
  have hkap := apply_of_ok (hwf.1 x hxm).1
  have hhash := (hwf.1 x hxm).2
  have hnstop : isStop (key.val x) = false := hsf.1 x hxm
  have hslotx : keyEq (idKey id) (key.val x) = false := (hka.1 x hxm).1
  have hobjx : keyEq (.obj kid) (key.val x) = false := (hka.1 x hxm).2
  -- the buckets so far
  have hinv := buckets_inv key (Q := fun k => keyEq k (idKey id) = false ∧ keyEq k (.obj kid) = false) its
    (fun y hy _ => by
      have := hka.1 y (List.mem_append_left _ hy)
      exact ⟨by rw [keyEq_symm]; exact this.1, by rw [keyEq_symm]; exact this.2⟩)
  -- the tree after `acc = tree[id(spec)]` was ensured
  have htree1 : (if dhas (treeOf (.dict id kid key sub) its) (idKey id) then treeOf (.dict id kid key sub) its
      else dset (treeOf (.dict id kid key sub) its) (idKey id) (.dict [])) = levelTree id sub (buckets key its) := by
    rw [treeOf_dict]
    cases its with
    | nil => simp [dhas, dget, dset, levelTree, buckets]
    | cons y ys => simp [dhas, dget, levelTree, keyEq_idKey]
  have hacc : subTree (levelTree id sub (buckets key its)) (idKey id) =
      .ok ((buckets key its).map (fun b => (b.1, valOf sub b.2))) := by
    simp [subTree, levelTree, dget, keyEq_idKey]
  have hmark : dget (levelTree id sub (buckets key its)) (.obj kid) = none := by
    rw [levelTree, dget_cons_ne (keyEq_id_obj id kid), dget_map (fun its => V.dict (treeOf sub its)),
      bhas_false (fun b hb => (hinv b hb).1.2)]
    rfl
  -- the right-hand side
  have hrhsV := valOf_dict id kid key sub b (its ++ [x]) h
  have hrhsT : treeOf (.dict id kid key sub) (its ++ [x]) = levelTree id sub (buckets key (its ++ [x])) := by
    rw [treeOf_dict]; simp
  rw [hrhsV, hrhsT, buckets_snoc, bucketStep_eq]
  -- run the code
  simp only [gstep, htree1, hacc, hmark, hkap]
  by_cases hskip : isSkip (key.val x) = true
  · simp [hskip, levelTree]
  · have hskip' : isSkip (key.val x) = false := by simpa using hskip
    have hkk : keyEq (key.val x) (key.val x) = true := keyEq_refl hhash
    simp only [hskip', hnstop, hhash, Bool.false_eq_true, if_false, Bool.not_true, hslotx, Bool.false_and]
    -- `key not in acc`
    have hfresh : dhas ((buckets key its).map (fun b => (b.1, valOf sub b.2))) (key.val x) =
        bhas (buckets key its) (key.val x) := by
      rw [dhas_eq, dget_map]; cases bhas (buckets key its) (key.val x) <;> rfl
    rw [hfresh]
    -- `tree[key]` after `if key not in acc: tree[key] = {}`
    have hst : subTree (if (!bhas (buckets key its) (key.val x)) = true
          then dset (levelTree id sub (buckets key its)) (key.val x) (.dict [])
          else levelTree id sub (buckets key its)) (key.val x) =
        .ok (treeOf sub (bucketOf (buckets key its) (key.val x))) := by
      cases hb : bhas (buckets key its) (key.val x) with
      | false =>
        simp only [Bool.not_false, if_true, levelTree, dset_cons_ne hslotx, subTree, dget_cons_ne hslotx,
          dget_dset_self _ hkk, bucketOf_of_not_bhas hb, treeOf_nil]
      | true =>
        simp only [Bool.not_true, Bool.false_eq_true, if_false, levelTree, subTree, dget_cons_ne hslotx,
          dget_map (fun its => V.dict (treeOf sub its)), hb, if_true]
    rw [hst]
    have hbm : ∀ i ∈ bucketOf (buckets key its) (key.val x), i ∈ its :=
      bucketOf_mem (P := fun i => i ∈ its) _ _ (fun b hb => ⟨(hinv b hb).2.1, (hinv b hb).2.2⟩)
    have hrec := hsub _ hbm
    have hHb : Hyp true sub (bucketOf (buckets key its) (key.val x) ++ [x]) :=
      hsubH.subset (fun i hi => by
        rcases List.mem_append.mp hi with h1 | h1
        · exact List.mem_append_left _ (hbm i h1)
        · exact List.mem_append_right _ h1)
    have hns := valOf_not_sentinel sub true _ (by simp) hHb
    simp only [hrec, hns.1, hns.2 rfl, Bool.false_eq_true, if_false]
    -- the two stores: the sub-tree back into its slot, the result into `acc`
    have htail : dset (if (!bhas (buckets key its) (key.val x)) = true
          then dset (levelTree id sub (buckets key its)) (key.val x) (.dict [])
          else levelTree id sub (buckets key its)) (key.val x)
          (.dict (treeOf sub (bucketOf (buckets key its) (key.val x) ++ [x]))) =
        (idKey id, .dict ((buckets key its).map (fun b => (b.1, valOf sub b.2)))) ::
          (addTo (buckets key its) (key.val x) x).map (fun b => (b.1, V.dict (treeOf sub b.2))) := by
      have hm := dset_map (fun its => V.dict (treeOf sub its)) (buckets key its) (key.val x) x
      cases hb : bhas (buckets key its) (key.val x) with
      | false =>
        simp only [Bool.not_false, if_true, levelTree, dset_cons_ne hslotx, dset_dset _ hkk, hm]
      | true =>
        simp only [Bool.not_true, Bool.false_eq_true, if_false, levelTree, dset_cons_ne hslotx, hm]
    rw [htail]
    have hacc' := dset_map (valOf sub) (buckets key its) (key.val x) x
    simp only [hacc', dset, keyEq_idKey, if_true, levelTree]

/-! ### the step lemma for every spec -/

theorem snoc_subset {its' its : List V} {x : V} (h : ∀ i ∈ its', i ∈ its) : ∀ i ∈ its' ++ [x], i ∈ its ++ [x] := by
  intro i hi
  rcases List.mem_append.mp hi with h1 | h1
  · exact List.mem_append_left _ (h i h1)
  · exact List.mem_append_right _ h1

/-- **one item more**: evaluating the spec on item `x` with the tree the items `its` left
    returns the reference over `its ++ [x]` and leaves the tree of `its ++ [x]` -/
theorem gstep_spec : ∀ (s : GSpec) (b : Bool) (its : List V) (x : V), Hyp b s (its ++ [x]) →
    gstep s x (treeOf s its) = .ok (valOf s (its ++ [x]), treeOf s (its ++ [x]))
  | .agg oid a, b, its, x, h => by
    have hsf := h.sf
    have ha : a ≠ .first := by intro ha; subst ha; simp [stopFree] at hsf
    exact aggStep_spec oid a ha its x h.wf
  | .fn f, b, its, x, h => by
    have hwf := h.wf
    have hsf := h.sf
    simp only [wfRun, List.all_eq_true] at hwf
    simp only [stopFree, List.all_eq_true, Bool.and_eq_true, Bool.not_eq_true'] at hsf
    have hcut : cutStop f (its ++ [x]) = its ++ [x] := cutStop_all (fun y hy => (hsf y hy).1)
    simp [gstep, treeOf, apply_of_ok (hwf x (by simp)), valOf, hcut]
  | .limit .., b, its, x, h => by have := h.sf; simp [stopFree] at this
  | .list id f, b, its, x, h => by
    have hwf := h.wf
    have hsf := h.sf
    simp only [wfRun, List.all_eq_true] at hwf
    simp only [stopFree, List.all_eq_true, Bool.not_eq_true'] at hsf
    have hcut : cutStop f (its ++ [x]) = its ++ [x] := cutStop_all hsf
    have hns := hsf x (by simp)
    have hval : valOf (.list id f) (its ++ [x]) = .list (valsOf f (its ++ [x])) := by
      simp [valOf, hcut, valsOf]
    rw [hval, valsOf_snoc]
    cases its with
    | nil =>
      by_cases hs : isSkip (f.val x) = true
      · simp [gstep, treeOf, apply_of_ok (hwf x (by simp)), hns, hs, dget, dhas, dset, valsOf, keyEq_idKey]
      · have hs' : isSkip (f.val x) = false := by simpa using hs
        simp [gstep, treeOf, apply_of_ok (hwf x (by simp)), hns, hs', dget, dhas, dset, valsOf, keyEq_idKey]
    | cons y ys =>
      by_cases hs : isSkip (f.val x) = true
      · simp [gstep, treeOf, apply_of_ok (hwf x (by simp)), hns, hs, dget, dhas, dset, keyEq_idKey, valsOf_cons_snoc]
      · have hs' : isSkip (f.val x) = false := by simpa using hs
        simp [gstep, treeOf, apply_of_ok (hwf x (by simp)), hns, hs', dget, dhas, dset, keyEq_idKey, valsOf_cons_snoc]
  | .nested g, b, its, x, h => by
    have hwf := h.wf
    have hsf := h.sf
    have hka := h.ka
    simp only [wfRun, List.all_eq_true, Bool.and_eq_true] at hwf
    simp only [stopFree, List.all_eq_true, Bool.and_eq_true] at hsf
    simp only [keysApart, List.all_eq_true] at hka
    have hxm : x ∈ its ++ [x] := by simp
    have hin : Hyp false g ((iterOf x).getD []) := ⟨(hwf x hxm).2, hsf.2 x hxm, hka x hxm⟩
    have hev := groupEval_of_step g (fun its' x' h' => gstep_spec g false its' x' h') _ hin
    have hseq := (hwf x hxm).1
    have hval : valOf (.nested g) (its ++ [x]) = valOfTop g ((iterOf x).getD []) := by
      simp [valOf, valOfTop]
    rw [hval]
    simp only [groupEval, groupLoop] at hev
    cases x with
    | list xs => simp only [gstep, iterOf, Option.getD_some, treeOf] at hev ⊢; simp [hev]
    | tuple xs => simp only [gstep, iterOf, Option.getD_some, treeOf] at hev ⊢; simp [hev]
    | _ => simp [isSeqV] at hseq
  | .dict id kid key sub, b, its, x, h => by
    have hwf := h.wf
    have hsf := h.sf
    have hka := h.ka
    simp only [wfRun, Bool.and_eq_true] at hwf
    simp only [stopFree, Bool.and_eq_true] at hsf
    simp only [keysApart, Bool.and_eq_true] at hka
    have hsubH : Hyp true sub (its ++ [x]) := ⟨hwf.2, hsf.2, hka.2⟩
    exact dict_step id kid key sub b its x h
      (fun its' hs => gstep_spec sub true its' x (hsubH.subset (snoc_subset hs)))

/-- **Group = the hand-written loop** (under the hypotheses) -/
theorem groupEval_spec (s : GSpec) (items : List V) (h : Hyp false s items) :
    groupEval s items = .ok (valOfTop s items) :=
  groupEval_of_step s (fun its x hx => gstep_spec s false its x hx) items h

/-! ### top-level Limit and First -/

def limTree (oid : Nat) (sub : GSpec) (done : List V) : List (V × V) :=
  if done.isEmpty then [] else [(.obj oid, .list [.int done.length, .dict (treeOf sub done)])]

def limRet (sub : GSpec) (done : List V) : V := if done.isEmpty then .none else valOf sub done

theorem limit_unpack (oid : Nat) (sub : GSpec) (done : List V) :
    limitState (limTree oid sub done) (.obj oid) = ((done.length : Int), treeOf sub done) := by
  cases done with
  | nil => simp [limitState, limTree, dget, treeOf_nil]
  | cons y ys => simp [limitState, limTree, dget, keyEq_obj]

theorem limTree_snoc (oid : Nat) (sub : GSpec) (done : List V) (x : V) :
    dset (limTree oid sub done) (.obj oid) (.list [.int ((done.length : Int) + 1), .dict (treeOf sub (done ++ [x]))]) =
      limTree oid sub (done ++ [x]) := by
  cases done with
  | nil => simp [limTree, dset]
  | cons y ys => simp [limTree, dset, keyEq_obj]

theorem limit_step_lt (oid n : Nat) (sub : GSpec) (done : List V) (x : V) (hlt : done.length < n)
    (hx : Hyp false sub (done ++ [x])) :
    gstep (.limit oid n sub) x (limTree oid sub done) =
      .ok (valOf sub (done ++ [x]), limTree oid sub (done ++ [x])) := by
  have hcnt : ¬ ((done.length : Int) + 1 > (n : Int)) := by omega
  simp only [gstep, limit_unpack, hcnt, if_false, gstep_spec sub false done x hx, limTree_snoc]

theorem limit_step_ge (oid n : Nat) (sub : GSpec) (done : List V) (x : V) (hge : n ≤ done.length) :
    ∃ t, gstep (.limit oid n sub) x (limTree oid sub done) = .ok (.stop, t) := by
  have hcnt : ((done.length : Int) + 1 > (n : Int)) := by omega
  refine ⟨dset (limTree oid sub done) (.obj oid) (.list [.int ((done.length : Int) + 1), .dict (treeOf sub done)]), ?_⟩
  simp only [gstep, limit_unpack, hcnt, if_true]

theorem limit_loop (oid n : Nat) (sub : GSpec) :
    ∀ (xs done : List V), done.length ≤ n → Hyp false sub (done ++ xs) →
      loopWith (gstep (.limit oid n sub)) xs (limRet sub done) (limTree oid sub done) =
        .ok (valOfTop (.limit oid n sub) (done ++ xs)) := by
  intro xs
  induction xs with
  | nil =>
    intro done hlen _
    cases done with
    | nil => simp [loopWith, limRet, valOfTop, emptyOr, emptyOf]
    | cons y ys =>
      have hn : (n == 0) = false := by simp at hlen ⊢; omega
      simp [loopWith, limRet, valOfTop, emptyOr, valOf, hn, List.take_of_length_le hlen]
  | cons x xs ih =>
    intro done hlen h
    by_cases hlt : done.length < n
    · have hx : Hyp false sub (done ++ [x]) := h.subset (fun i hi => by
        rcases List.mem_append.mp hi with h1 | h1
        · exact List.mem_append_left _ h1
        · exact List.mem_append_right _ (by simp at h1; simp [h1]))
      have hns := (valOf_not_sentinel sub false (done ++ [x]) (by simp) hx).1
      have hstep := limit_step_lt oid n sub done x hlt hx
      have := ih (done ++ [x]) (by simp; omega) (by simpa using h)
      have hl : limRet sub (done ++ [x]) = valOf sub (done ++ [x]) := by simp [limRet]
      rw [hl] at this
      unfold loopWith
      rw [hstep]
      simp only [hns, Bool.false_eq_true, if_false]
      simpa using this
    · have heq : done.length = n := by omega
      obtain ⟨t, hstep⟩ := limit_step_ge oid n sub done x (by omega)
      unfold loopWith
      rw [hstep]
      simp only [isStop, if_true]
      cases done with
      | nil =>
        have hn0 : n = 0 := by simpa using heq.symm
        simp [limRet, valOfTop, emptyOr, valOf, hn0]
      | cons y ys =>
        have hn : (n == 0) = false := by simp at heq ⊢; omega
        have htake : List.take n (y :: (ys ++ x :: xs)) = y :: ys := by
          rw [← List.cons_append, ← heq]; exact List.take_left' rfl
        simp [limRet, valOfTop, emptyOr, valOf, hn, htake]

/-- **top-level Limit(n)**: `Group(Limit(n, sub))` is `sub` over the first `n` items -/
theorem limit_spec (oid n : Nat) (sub : GSpec) (items : List V) (h : Hyp false sub items) :
    groupEval (.limit oid n sub) items = .ok (valOfTop (.limit oid n sub) items) := by
  have := limit_loop oid n sub items [] (by simp) (by simpa using h)
  simpa [groupEval, groupLoop, limRet, limTree, emptyOf] using this

theorem first_spec (oid : Nat) (items : List V) (hp : ∀ x ∈ items, isStop x = false) :
    groupEval (.agg oid .first) items = .ok (valOfTop (.agg oid .first) items) := by
  cases items with
  | nil => simp [groupEval, groupLoop, loopWith, valOfTop, emptyOr, emptyOf]
  | cons x xs =>
    have hx := hp x List.mem_cons_self
    have h1 : gstep (.agg oid .first) x [] = .ok (x, [(.obj oid, .stop)]) := by
      simp [gstep, aggStep, dhas, dget, dset]
    cases xs with
    | nil =>
      simp only [groupEval, groupLoop]
      unfold loopWith
      rw [h1]
      simp [hx, loopWith, valOfTop, emptyOr, valOf, refAgg]
    | cons y ys =>
      have h2 : gstep (.agg oid .first) y [(.obj oid, .stop)] = .ok (.stop, [(.obj oid, .stop)]) := by
        simp [gstep, aggStep, dhas, dget, keyEq_obj]
      simp only [groupEval, groupLoop]
      unfold loopWith
      rw [h1]
      simp only [hx, Bool.false_eq_true, if_false]
      unfold loopWith
      rw [h2]
      simp [isStop, valOfTop, emptyOr, valOf, refAgg]

/-! ### the checker on the model's own observations -/

theorem obs_beq_refl (v : V) : ((Obs.ok v : Obs) == Obs.ok v) = true := by
  show Obs.beq _ _ = true
  simp [Obs.beq, veq_refl]

theorem covered_spec (g : GSpec) (items : List V) (hwf : wfRun g items = true) (hc : covered g items = true) :
    groupEval g items = .ok (valOfTop g items) := by
  cases g with
  | limit oid n sub =>
    simp only [covered, Bool.and_eq_true] at hc
    exact limit_spec oid n sub items ⟨hwf, hc.2, hc.1⟩
  | agg oid a =>
    cases a with
    | first =>
      simp only [covered, List.all_eq_true, Bool.not_eq_true'] at hc
      exact first_spec oid items hc
    | _ =>
      simp only [covered, Bool.and_eq_true] at hc
      exact groupEval_spec _ items ⟨hwf, hc.2, hc.1⟩
  | _ =>
    simp only [covered, Bool.and_eq_true] at hc
    exact groupEval_spec _ items ⟨hwf, hc.2, hc.1⟩

theorem check_model (g : GSpec) :
    ∀ (runs : List (List V)), (∀ r ∈ runs, wfRun g r = true → covered g r = true) →
      checkC16 g runs (runs.map (fun r => observe (groupEval g r))) = true := by
  intro runs h
  simp only [checkC16, List.length_map, beq_self_eq_true, Bool.true_and, List.all_eq_true]
  intro ro hro
  rw [List.zip_map_right] at hro
  simp only [List.mem_map] at hro
  obtain ⟨⟨r1, r2⟩, hmem, rfl⟩ := hro
  have h12 : r1 = r2 := by
    have := List.of_mem_zip hmem
    clear h
    induction runs with
    | nil => simp at hmem
    | cons a as ih =>
      simp only [List.zip_cons_cons, List.mem_cons, Prod.mk.injEq] at hmem
      rcases hmem with ⟨rfl, rfl⟩ | hm
      · rfl
      · exact ih hm (List.of_mem_zip hm)
  subst h12
  have hr : r1 ∈ runs := (List.of_mem_zip hmem).1
  by_cases hwf : wfRun g r1 = true
  · simp only [Prod.map, id, hwf, Bool.not_true, Bool.false_or]
    rw [covered_spec g r1 hwf (h r1 hr hwf)]
    exact obs_beq_refl _
  · simp [Prod.map, hwf]

end Glom.C16
