import Glom.Spec.C16
/-
  Helper lemmas for C16: Python-dict primitives on entry lists, buckets, the
  state abstraction `treeOf` (what the accumulator tree holds after a list of
  items was routed to a spec) and the step lemma.
-/
set_option linter.unusedSimpArgs false
set_option linter.unusedVariables false
set_option linter.unnecessarySimpa false

namespace Glom.C16

/-! ### structural equality is reflexive -/

mutual
theorem veq_refl : ∀ v, veq v v = true
  | .none | .skip | .stop => by simp [veq]
  | .bool a | .int a | .str a | .float a | .obj a => by simp [veq]
  | .list xs => by simp [veq, veqList_refl xs]
  | .tuple xs => by simp [veq, veqList_refl xs]
  | .dict xs => by simp [veq, veqPairs_refl xs]
theorem veqList_refl : ∀ xs, veqList xs xs = true
  | [] => by simp [veqList]
  | x :: xs => by simp [veqList, veq_refl x, veqList_refl xs]
theorem veqPairs_refl : ∀ xs, veqPairs xs xs = true
  | [] => by simp [veqPairs]
  | (a, b) :: xs => by simp [veqPairs, veq_refl a, veq_refl b, veqPairs_refl xs]
end

/-! ### key equality -/

theorem keyEq_symm (a b : V) : keyEq a b = keyEq b a := by
  cases a <;> cases b <;> simp [keyEq, Bool.beq_comm, eq_comm] <;>
    first | rfl | (rw [Bool.beq_comm]) | (rw [eq_comm]) | skip

theorem keyEq_refl {k : V} (hk : hashable k = true) : keyEq k k = true := by
  cases k <;> simp [keyEq, hashable] at hk ⊢

theorem keyEq_idKey (n : Nat) : keyEq (idKey n) (idKey n) = true := by simp [idKey, keyEq]

theorem keyEq_obj (n : Nat) : keyEq (.obj n) (.obj n) = true := by simp [keyEq]

theorem keyEq_id_obj (n m : Nat) : keyEq (idKey n) (.obj m) = false := by simp [idKey, keyEq]

/-! ### dict primitives -/

theorem dhas_eq (es : List (V × V)) (k : V) : dhas es k = (dget es k).isSome := rfl

theorem dget_dset_self (es : List (V × V)) {k : V} (hk : keyEq k k = true) (v : V) :
    dget (dset es k v) k = some v := by
  induction es with
  | nil => simp [dset, dget, hk]
  | cons e es ih =>
    obtain ⟨k', v'⟩ := e
    simp only [dset]
    by_cases h : keyEq k' k = true
    · simp [h, dget]
    · have h' : keyEq k' k = false := by simpa using h
      simp [h', dget, ih]

theorem dset_dset (es : List (V × V)) {k : V} (hk : keyEq k k = true) (v w : V) :
    dset (dset es k v) k w = dset es k w := by
  induction es with
  | nil => simp [dset, hk]
  | cons e es ih =>
    obtain ⟨k', v'⟩ := e
    simp only [dset]
    by_cases h : keyEq k' k = true
    · simp [h, dset]
    · have h' : keyEq k' k = false := by simpa using h
      simp [h', dset, ih]

/-! ### buckets -/

/-- the items of the bucket `k` falls into (first match), `[]` if there is none -/
def bucketOf : List (V × List V) → V → List V
  | [], _ => []
  | (k', its) :: bs, k => if keyEq k' k then its else bucketOf bs k

def bhas : List (V × List V) → V → Bool
  | [], _ => false
  | (k', _) :: bs, k => keyEq k' k || bhas bs k

theorem dget_map (g : List V → V) (bs : List (V × List V)) (k : V) :
    dget (bs.map (fun b => (b.1, g b.2))) k = if bhas bs k then some (g (bucketOf bs k)) else none := by
  induction bs with
  | nil => rfl
  | cons b bs ih =>
    obtain ⟨k', its⟩ := b
    simp only [List.map_cons, dget, bhas, bucketOf]
    by_cases h : keyEq k' k = true
    · simp [h]
    · have h' : keyEq k' k = false := by simpa using h
      simp [h', ih]

theorem dset_map (g : List V → V) (bs : List (V × List V)) (k x : V) :
    dset (bs.map (fun b => (b.1, g b.2))) k (g (bucketOf bs k ++ [x])) =
      (addTo bs k x).map (fun b => (b.1, g b.2)) := by
  induction bs with
  | nil => simp [dset, addTo, bucketOf]
  | cons b bs ih =>
    obtain ⟨k', its⟩ := b
    simp only [List.map_cons, dset, addTo, bucketOf]
    by_cases h : keyEq k' k = true
    · simp [h]
    · have h' : keyEq k' k = false := by simpa using h
      simp [h', ih]

theorem bucketOf_addTo (bs : List (V × List V)) {k : V} (hk : keyEq k k = true) (x : V) :
    bucketOf (addTo bs k x) k = bucketOf bs k ++ [x] := by
  induction bs with
  | nil => simp [addTo, bucketOf, hk]
  | cons b bs ih =>
    obtain ⟨k', its⟩ := b
    simp only [addTo, bucketOf]
    by_cases h : keyEq k' k = true
    · simp [h, bucketOf]
    · have h' : keyEq k' k = false := by simpa using h
      simp [h', bucketOf, ih]

/-- every bucket is non-empty and holds only items that were added -/
theorem addTo_mem {P : V → Prop} (bs : List (V × List V)) (k x : V) (hx : P x)
    (hbs : ∀ b ∈ bs, b.2 ≠ [] ∧ ∀ i ∈ b.2, P i) :
    ∀ b ∈ addTo bs k x, b.2 ≠ [] ∧ ∀ i ∈ b.2, P i := by
  induction bs with
  | nil =>
    intro b hb
    simp only [addTo, List.mem_singleton] at hb
    subst hb
    exact ⟨by simp, by intro i hi; simp at hi; subst hi; exact hx⟩
  | cons b0 bs ih =>
    obtain ⟨k', its⟩ := b0
    intro b hb
    simp only [addTo] at hb
    have h0 := hbs (k', its) List.mem_cons_self
    split at hb
    · rcases List.mem_cons.mp hb with rfl | hb
      · refine ⟨by simp, ?_⟩
        intro i hi
        rcases List.mem_append.mp hi with h | h
        · exact h0.2 i h
        · simp at h; subst h; exact hx
      · exact hbs b (List.mem_cons_of_mem _ hb)
    · rcases List.mem_cons.mp hb with rfl | hb
      · exact h0
      · exact ih (fun b' hb' => hbs b' (List.mem_cons_of_mem _ hb')) b hb

theorem bucketOf_mem {P : V → Prop} (bs : List (V × List V)) (k : V)
    (hbs : ∀ b ∈ bs, b.2 ≠ [] ∧ ∀ i ∈ b.2, P i) : ∀ i ∈ bucketOf bs k, P i := by
  induction bs with
  | nil => intro i hi; simp [bucketOf] at hi
  | cons b0 bs ih =>
    obtain ⟨k', its⟩ := b0
    simp only [bucketOf]
    split
    · exact (hbs (k', its) List.mem_cons_self).2
    · exact ih (fun b' hb' => hbs b' (List.mem_cons_of_mem _ hb'))

/-! ### the state abstraction -/

/-- the buckets a hand-written loop holds after `its` (no STOP among the keys) -/
def buckets (key : Fn) (its : List V) : List (V × List V) := its.foldl (bucketStep key) []

def valsOf (f : Fn) (its : List V) : List V :=
  its.filterMap (fun x => if isSkip (f.val x) then none else some (f.val x))

/-- `tree[self]` of an aggregator after `its` -/
def stateOf : Agg → List V → V
  | .first, _ => .stop
  | .max, its => pyMax its
  | .min, its => pyMin its
  | .avg, its => .list [.int ((its.map intOf).sum), .int its.length]
  | a, its => refAgg a its

/-- what `scope[ACC_TREE]` holds after the items `its` were routed to spec `s` -/
def treeOf : GSpec → List V → List (V × V)
  | .agg oid a, its => if its.isEmpty then [] else [(.obj oid, stateOf a its)]
  | .list id f, its => if its.isEmpty then [] else [(idKey id, .list (valsOf f its))]
  | .dict id _ key sub, its =>
    if its.isEmpty then []
    else (idKey id, .dict ((buckets key its).map (fun b => (b.1, valOf sub b.2)))) ::
      (buckets key its).map (fun b => (b.1, V.dict (treeOf sub b.2)))
  | _, _ => []

/-! ### hypotheses are inherited by sub-lists of items -/

theorem all_subset {p : V → Bool} {xs ys : List V} (h : ∀ i ∈ ys, i ∈ xs) (hx : xs.all p = true) :
    ys.all p = true := by
  rw [List.all_eq_true] at hx ⊢
  exact fun i hi => hx i (h i hi)

theorem aggOk_subset {a : Agg} {xs ys : List V} (h : ∀ i ∈ ys, i ∈ xs) (hx : aggOk a xs = true) :
    aggOk a ys = true := by
  cases a <;> simp only [aggOk, Bool.or_eq_true] at hx ⊢
  · exact hx.imp (all_subset h) (all_subset h)
  · exact hx.imp (all_subset h) (all_subset h)
  all_goals exact all_subset h hx

theorem wfRun_subset : ∀ (s : GSpec) {xs ys : List V}, (∀ i ∈ ys, i ∈ xs) → wfRun s xs = true → wfRun s ys = true
  | .agg _ a, _, _, h, hx => aggOk_subset h hx
  | .fn _, _, _, h, hx => all_subset h hx
  | .list _ _, _, _, h, hx => all_subset h hx
  | .limit _ _ sub, _, _, h, hx => wfRun_subset sub h hx
  | .nested _, _, _, h, hx => all_subset h hx
  | .dict _ _ _ sub, _, _, h, hx => by
    simp only [wfRun, Bool.and_eq_true] at hx ⊢
    exact ⟨all_subset h hx.1, wfRun_subset sub h hx.2⟩

theorem stopFree_subset : ∀ (b : Bool) (s : GSpec) {xs ys : List V}, (∀ i ∈ ys, i ∈ xs) →
    stopFree b s xs = true → stopFree b s ys = true
  | _, .agg _ a, _, _, _, hx => by cases a <;> simpa [stopFree] using hx
  | _, .fn _, _, _, h, hx => all_subset h hx
  | _, .list _ _, _, _, h, hx => all_subset h hx
  | _, .limit .., _, _, _, hx => by simp [stopFree] at hx
  | _, .nested _, _, _, h, hx => by
    simp only [stopFree, Bool.and_eq_true] at hx ⊢
    exact ⟨hx.1, all_subset h hx.2⟩
  | _, .dict _ _ _ sub, _, _, h, hx => by
    simp only [stopFree, Bool.and_eq_true] at hx ⊢
    exact ⟨all_subset h hx.1, stopFree_subset true sub h hx.2⟩

theorem keysApart_subset : ∀ (s : GSpec) {xs ys : List V}, (∀ i ∈ ys, i ∈ xs) →
    keysApart s xs = true → keysApart s ys = true
  | .agg .., _, _, _, _ => rfl
  | .fn _, _, _, _, _ => rfl
  | .list .., _, _, _, _ => rfl
  | .limit _ _ sub, _, _, h, hx => keysApart_subset sub h hx
  | .nested _, _, _, h, hx => all_subset h hx
  | .dict _ _ _ sub, _, _, h, hx => by
    simp only [keysApart, Bool.and_eq_true] at hx ⊢
    exact ⟨all_subset h hx.1, keysApart_subset sub h hx.2⟩

/-- the three hypotheses of the equality theorem, for the items routed to `s` -/
structure Hyp (b : Bool) (s : GSpec) (its : List V) : Prop where
  wf : wfRun s its = true
  sf : stopFree b s its = true
  ka : keysApart s its = true

theorem Hyp.subset {b : Bool} {s : GSpec} {xs ys : List V} (h : Hyp b s xs) (hs : ∀ i ∈ ys, i ∈ xs) :
    Hyp b s ys :=
  ⟨wfRun_subset s hs h.wf, stopFree_subset b s hs h.sf, keysApart_subset s hs h.ka⟩

theorem apply_of_ok {f : Fn} {x : V} (h : applyOk f x = true) : f.apply x = .ok (f.val x) := by
  unfold applyOk at h
  unfold Fn.val
  cases hf : f.apply x with
  | ok v => rfl
  | error e => simp [hf] at h

/-! ### aggregators: one `agg` call extends the reference by one item -/

def aggTree (oid : Nat) (a : Agg) (its : List V) : List (V × V) :=
  if its.isEmpty then [] else [(.obj oid, stateOf a its)]

theorem pyMax_snoc (y : V) (ys : List V) (x : V) :
    pyMax ((y :: ys) ++ [x]) = if pyLt (pyMax (y :: ys)) x == some true then x else pyMax (y :: ys) := by
  simp [pyMax, List.foldl_append]

theorem pyMin_snoc (y : V) (ys : List V) (x : V) :
    pyMin ((y :: ys) ++ [x]) = if pyLt x (pyMin (y :: ys)) == some true then x else pyMin (y :: ys) := by
  simp [pyMin, List.foldl_append]

theorem foldl_pick_mem (c : V → V → Bool) :
    ∀ (ys : List V) (m : V), ys.foldl (fun m z => if c m z then z else m) m ∈ m :: ys := by
  intro ys
  induction ys with
  | nil => intro m; simp
  | cons z zs ih =>
    intro m
    simp only [List.foldl_cons]
    have := ih (if c m z then z else m)
    rcases List.mem_cons.mp this with h | h
    · rw [h]; split <;> simp
    · exact List.mem_cons_of_mem _ (List.mem_cons_of_mem _ h)

theorem pyMax_mem (y : V) (ys : List V) : pyMax (y :: ys) ∈ y :: ys :=
  foldl_pick_mem (fun m z => pyLt m z == some true) ys y

theorem pyMin_mem (y : V) (ys : List V) : pyMin (y :: ys) ∈ y :: ys :=
  foldl_pick_mem (fun m z => pyLt z m == some true) ys y

theorem pyLt_some_of_int {a b : V} (ha : isIntLike a = true) (hb : isIntLike b = true) :
    ∃ r, pyLt a b = some r := by
  unfold isIntLike at ha hb
  cases ha' : asInt a with
  | none => simp [ha'] at ha
  | some x =>
    cases hb' : asInt b with
    | none => simp [hb'] at hb
    | some y => exact ⟨decide (x < y), by simp [pyLt, ha', hb']⟩

theorem pyLt_some_of_str {a b : V} (ha : isStr a = true) (hb : isStr b = true) :
    ∃ r, pyLt a b = some r := by
  cases a <;> simp [isStr] at ha
  cases b <;> simp [isStr] at hb
  rename_i s1 s2
  exact ⟨decide (s1 < s2), by simp [pyLt, asInt]⟩

theorem pyLt_some_of_ok {xs : List V} (h : (xs.all isIntLike || xs.all isStr) = true) {a b : V}
    (ha : a ∈ xs) (hb : b ∈ xs) : ∃ r, pyLt a b = some r := by
  simp only [Bool.or_eq_true, List.all_eq_true] at h
  rcases h with h | h
  · exact pyLt_some_of_int (h a ha) (h b hb)
  · exact pyLt_some_of_str (h a ha) (h b hb)

theorem dget_single (k v : V) (hk : keyEq k k = true) : dget [(k, v)] k = some v := by simp [dget, hk]
theorem dset_single (k v w : V) (hk : keyEq k k = true) : dset [(k, v)] k w = [(k, w)] := by simp [dset, hk]

theorem intOf_of_asInt {v : V} {i : Int} (h : asInt v = some i) : intOf v = i := by simp [intOf, h]

theorem asInt_of_intLike {v : V} (h : isIntLike v = true) : asInt v = some (intOf v) := by
  unfold isIntLike at h
  cases hv : asInt v with
  | none => simp [hv] at h
  | some i => simp [intOf, hv]

/-- **every aggregator but First**: one `agg(target, tree)` call on the tree the earlier
    items left returns the Python reference over all items so far, and leaves the
    tree of all items so far -/
theorem aggStep_spec (oid : Nat) (a : Agg) (ha : a ≠ .first) (its : List V) (x : V)
    (hok : aggOk a (its ++ [x]) = true) :
    aggStep (.obj oid) a x (aggTree oid a its) =
      .ok (refAgg a (its ++ [x]), aggTree oid a (its ++ [x])) := by
  have hne : (its ++ [x]).isEmpty = false := by simp
  have hko := keyEq_obj oid
  cases a with
  | first => exact absurd rfl ha
  | max =>
    cases its with
    | nil => simp [aggStep, aggTree, dget, dset, stateOf, refAgg, pyMax]
    | cons y ys =>
      have hm := pyMax_mem y ys
      obtain ⟨r, hr⟩ := pyLt_some_of_ok (xs := (y :: ys) ++ [x]) hok
        (List.mem_append_left _ hm) (List.mem_append_right _ (List.mem_singleton.mpr rfl))
      simp only [aggStep, aggTree, List.isEmpty_cons, Bool.false_eq_true, if_false, hne, stateOf,
        dget_single _ _ hko, dset_single _ _ _ hko, refAgg, pyMax_snoc, hr]
      cases r <;> simp
  | min =>
    cases its with
    | nil => simp [aggStep, aggTree, dget, dset, stateOf, refAgg, pyMin]
    | cons y ys =>
      have hm := pyMin_mem y ys
      obtain ⟨r, hr⟩ := pyLt_some_of_ok (xs := (y :: ys) ++ [x]) hok
        (List.mem_append_right _ (List.mem_singleton.mpr rfl)) (List.mem_append_left _ hm)
      simp only [aggStep, aggTree, List.isEmpty_cons, Bool.false_eq_true, if_false, hne, stateOf,
        dget_single _ _ hko, dset_single _ _ _ hko, refAgg, pyMin_snoc, hr]
      cases r <;> simp
  | avg =>
    have hx : asInt x = some (intOf x) := by
      simp only [aggOk, List.all_append, Bool.and_eq_true, List.all_cons, List.all_nil, Bool.and_true] at hok
      exact asInt_of_intLike hok.2
    cases its with
    | nil => simp [aggStep, aggTree, dget, dset, stateOf, refAgg, hx]
    | cons y ys =>
      simp [aggStep, aggTree, hne, stateOf, dget_single _ _ hko, dset_single _ _ _ hko, refAgg, hx,
        Int.toNat_natCast, List.sum_append, Int.natCast_add, Int.add_assoc]
  | count =>
    cases its with
    | nil => simp [aggStep, aggTree, dget, dset, stateOf, refAgg, asInt]
    | cons y ys =>
      simp [aggStep, aggTree, hne, stateOf, dget_single _ _ hko, dset_single _ _ _ hko, refAgg, asInt,
        Int.natCast_add]
  | sum f =>
    simp only [aggOk, List.all_append, Bool.and_eq_true, List.all_cons, List.all_nil, Bool.and_true] at hok
    have hap := apply_of_ok hok.2.1
    have hx := asInt_of_intLike hok.2.2
    have h0 : ∀ i : Int, asInt (.int i) = some i := fun _ => rfl
    cases its with
    | nil => simp [aggStep, aggTree, dget, dset, stateOf, refAgg, hap, hx, h0]
    | cons y ys =>
      simp [aggStep, aggTree, hne, stateOf, dget_single _ _ hko, dset_single _ _ _ hko, refAgg, hap, hx, h0,
        List.sum_append, Int.add_assoc]
  | flatten f =>
    simp only [aggOk, List.all_append, Bool.and_eq_true, List.all_cons, List.all_nil, Bool.and_true] at hok
    have hap := apply_of_ok hok.2.1
    obtain ⟨ys', hys⟩ := Option.isSome_iff_exists.mp hok.2.2
    cases its with
    | nil => simp [aggStep, aggTree, dget, dset, stateOf, refAgg, hap, hys]
    | cons y ys =>
      simp only [aggStep, aggTree, List.isEmpty_cons, Bool.false_eq_true, if_false, hne, stateOf,
        dget_single _ _ hko, dset_single _ _ _ hko, refAgg, hap, hys, Option.getD_some,
        List.flatMap_append, List.flatMap_cons, List.flatMap_nil, List.append_nil]
  | merge f =>
    simp only [aggOk, List.all_append, Bool.and_eq_true, List.all_cons, List.all_nil, Bool.and_true] at hok
    have hap := apply_of_ok hok.2.1
    have hd := hok.2.2
    cases hv : f.val x with
    | dict ps =>
      cases its with
      | nil => simp [aggStep, aggTree, dget, dset, stateOf, refAgg, hap, hv]
      | cons y ys =>
        simp only [aggStep, aggTree, List.isEmpty_cons, Bool.false_eq_true, if_false, hne, stateOf,
          dget_single _ _ hko, dset_single _ _ _ hko, refAgg, hap, hv, Option.getD_some,
          List.foldl_append, List.foldl_cons, List.foldl_nil]
    | _ => simp [isDictV, hv] at hd

end Glom.C16
