import Glom.Spec.C16
/-
  Helper lemmas for C16: Python-dict primitives on entry lists, buckets, the
  state abstraction `treeOf` (what the accumulator tree holds after a list of
  items was routed to a spec) and the step lemma.
-/
set_option linter.unusedSimpArgs false
set_option linter.unusedVariables false
set_option linter.unnecessarySimpa false

namespace Glom.C16

/-! ### structural equality is reflexive -/

mutual
theorem veq_refl : ∀ v, veq v v = true
  | .none | .skip | .stop => by simp [veq]
  | .bool a | .int a | .str a | .float a | .obj a => by simp [veq]
  | .list xs => by simp [veq, veqList_refl xs]
  | .tuple xs => by simp [veq, veqList_refl xs]
  | .dict xs => by simp [veq, veqPairs_refl xs]
theorem veqList_refl : ∀ xs, veqList xs xs = true
  | [] => by simp [veqList]
  | x :: xs => by simp [veqList, veq_refl x, veqList_refl xs]
theorem veqPairs_refl : ∀ xs, veqPairs xs xs = true
  | [] => by simp [veqPairs]
  | (a, b) :: xs => by simp [veqPairs, veq_refl a, veq_refl b, veqPairs_refl xs]
end

/-! ### key equality -/

theorem keyEq_symm (a b : V) : keyEq a b = keyEq b a := by
  unfold keyEq
  cases ckey a <;> cases ckey b <;> simp [eq_comm]

theorem keyEq_refl {k : V} (hk : hashable k = true) : keyEq k k = true := by
  unfold hashable at hk
  unfold keyEq
  cases h : ckey k with
  | none => simp [h] at hk
  | some x => simp

theorem keyEq_trans (a b c : V) (h1 : keyEq a b = true) (h2 : keyEq b c = true) : keyEq a c = true := by
  unfold keyEq at h1 h2 ⊢
  cases ha : ckey a <;> cases hb : ckey b <;> cases hc : ckey c <;> simp [ha, hb, hc] at h1 h2 ⊢
  exact h1.trans h2

theorem keyEq_idKey (n : Nat) : keyEq (idKey n) (idKey n) = true := by simp [idKey, keyEq, ckey, skey]

theorem keyEq_obj (n : Nat) : keyEq (.obj n) (.obj n) = true := by simp [keyEq, ckey, skey]

theorem keyEq_id_obj (n m : Nat) : keyEq (idKey n) (.obj m) = false := by simp [idKey, keyEq, ckey, skey]

/-! ### dict primitives -/

theorem dhas_eq (es : List (V × V)) (k : V) : dhas es k = (dget es k).isSome := rfl

theorem dget_dset_self (es : List (V × V)) {k : V} (hk : keyEq k k = true) (v : V) :
    dget (dset es k v) k = some v := by
  induction es with
  | nil => simp [dset, dget, hk]
  | cons e es ih =>
    obtain ⟨k', v'⟩ := e
    simp only [dset]
    by_cases h : keyEq k' k = true
    · simp [h, dget]
    · have h' : keyEq k' k = false := by simpa using h
      simp [h', dget, ih]

theorem dset_dset (es : List (V × V)) {k : V} (hk : keyEq k k = true) (v w : V) :
    dset (dset es k v) k w = dset es k w := by
  induction es with
  | nil => simp [dset, hk]
  | cons e es ih =>
    obtain ⟨k', v'⟩ := e
    simp only [dset]
    by_cases h : keyEq k' k = true
    · simp [h, dset]
    · have h' : keyEq k' k = false := by simpa using h
      simp [h', dset, ih]

/-! ### buckets -/

theorem dget_map (g : List V → V) (bs : List (V × List V)) (k : V) :
    dget (bs.map (fun b => (b.1, g b.2))) k = if bhas bs k then some (g (bucketOf bs k)) else none := by
  induction bs with
  | nil => rfl
  | cons b bs ih =>
    obtain ⟨k', its⟩ := b
    simp only [List.map_cons, dget, bhas, bucketOf]
    by_cases h : keyEq k' k = true
    · simp [h]
    · have h' : keyEq k' k = false := by simpa using h
      simp [h', ih]

theorem dset_map (g : List V → V) (bs : List (V × List V)) (k x : V) :
    dset (bs.map (fun b => (b.1, g b.2))) k (g (bucketOf bs k ++ [x])) =
      (addTo bs k x).map (fun b => (b.1, g b.2)) := by
  induction bs with
  | nil => simp [dset, addTo, bucketOf]
  | cons b bs ih =>
    obtain ⟨k', its⟩ := b
    simp only [List.map_cons, dset, addTo, bucketOf]
    by_cases h : keyEq k' k = true
    · simp [h]
    · have h' : keyEq k' k = false := by simpa using h
      simp [h', ih]

theorem bucketOf_addTo (bs : List (V × List V)) {k : V} (hk : keyEq k k = true) (x : V) :
    bucketOf (addTo bs k x) k = bucketOf bs k ++ [x] := by
  induction bs with
  | nil => simp [addTo, bucketOf, hk]
  | cons b bs ih =>
    obtain ⟨k', its⟩ := b
    simp only [addTo, bucketOf]
    by_cases h : keyEq k' k = true
    · simp [h, bucketOf]
    · have h' : keyEq k' k = false := by simpa using h
      simp [h', bucketOf, ih]

/-- every bucket is non-empty and holds only items that were added -/
theorem addTo_mem {P : V → Prop} (bs : List (V × List V)) (k x : V) (hx : P x)
    (hbs : ∀ b ∈ bs, b.2 ≠ [] ∧ ∀ i ∈ b.2, P i) :
    ∀ b ∈ addTo bs k x, b.2 ≠ [] ∧ ∀ i ∈ b.2, P i := by
  induction bs with
  | nil =>
    intro b hb
    simp only [addTo, List.mem_singleton] at hb
    subst hb
    exact ⟨by simp, by intro i hi; simp at hi; subst hi; exact hx⟩
  | cons b0 bs ih =>
    obtain ⟨k', its⟩ := b0
    intro b hb
    simp only [addTo] at hb
    have h0 := hbs (k', its) List.mem_cons_self
    split at hb
    · rcases List.mem_cons.mp hb with rfl | hb
      · refine ⟨by simp, ?_⟩
        intro i hi
        rcases List.mem_append.mp hi with h | h
        · exact h0.2 i h
        · simp at h; subst h; exact hx
      · exact hbs b (List.mem_cons_of_mem _ hb)
    · rcases List.mem_cons.mp hb with rfl | hb
      · exact h0
      · exact ih (fun b' hb' => hbs b' (List.mem_cons_of_mem _ hb')) b hb

theorem bucketOf_mem {P : V → Prop} (bs : List (V × List V)) (k : V)
    (hbs : ∀ b ∈ bs, b.2 ≠ [] ∧ ∀ i ∈ b.2, P i) : ∀ i ∈ bucketOf bs k, P i := by
  induction bs with
  | nil => intro i hi; simp [bucketOf] at hi
  | cons b0 bs ih =>
    obtain ⟨k', its⟩ := b0
    simp only [bucketOf]
    split
    · exact (hbs (k', its) List.mem_cons_self).2
    · exact ih (fun b' hb' => hbs b' (List.mem_cons_of_mem _ hb'))

/-! ### induction from the right -/

theorem snoc_induction {P : List V → Prop} (h0 : P []) (hs : ∀ its x, P its → P (its ++ [x])) : ∀ its, P its := by
  intro its
  have h : ∀ r : List V, P r.reverse := by
    intro r
    induction r with
    | nil => exact h0
    | cons x r ih => rw [List.reverse_cons]; exact hs _ _ ih
  have h2 := h its.reverse
  rwa [List.reverse_reverse] at h2

theorem snoc_subset {its' its : List V} {x : V} (h : ∀ i ∈ its', i ∈ its) : ∀ i ∈ its' ++ [x], i ∈ its ++ [x] := by
  intro i hi
  rcases List.mem_append.mp hi with h1 | h1
  · exact List.mem_append_left _ (h i h1)
  · exact List.mem_append_right _ h1

theorem isStop_eq {v : V} (h : isStop v = true) : v = .stop := by
  cases v <;> simp [isStop] at h ⊢

/-! ### the state abstraction -/

def valsOf (f : Fn) (its : List V) : List V :=
  its.filterMap (fun x => if isSkip (f.val x) then none else some (f.val x))

/-- `tree[self]` of an aggregator after `its` -/
def stateOf : Agg → List V → V
  | .first, _ => .stop
  | .max, its => pyMax its
  | .min, its => pyMin its
  | .avg, its => .list [.float (fsum its), .int its.length]
  | .sample size tbl, its => .list [.int its.length, .list (refSample size tbl its).2]
  | a, its => refAgg a its

/-- does the aggregator keep anything in the tree? (a stateless class aggregator does not) -/
def aggHasState : Agg → Bool
  | .clsLast | .unbound => false
  | _ => true

def aggTree (oid : Nat) (a : Agg) (its : List V) : List (V × V) :=
  if its.isEmpty || !(aggHasState a) then [] else [(.obj oid, stateOf a its)]

/-- the per-item results of the Group that is the subspec of a Fold leaf -/
def foldVals (g : GSpec) (its : List V) : List V :=
  its.map (fun x => emptyOr g (implOf g) (cutEvent g ((iterOf x).getD [])))

/-- what `scope[ACC_TREE]` holds after the items `its` were routed to spec `s` (no STOP event) -/
def treeOf : GSpec → List V → List (V × V)
  | .agg oid a, its => aggTree oid a its
  | .list id f, its => if its.isEmpty then [] else [(idKey id, .list (valsOf f its))]
  | .limit oid _ sub, its =>
    if its.isEmpty then [] else [(.obj oid, .list [.int its.length, .dict (treeOf sub its)])]
  | .dict id _ key sub, its =>
    if its.isEmpty then []
    else (idKey id, .dict ((buckets key its).map (fun b => (b.1, implOf sub b.2)))) ::
      (buckets key its).map (fun b => (b.1, V.dict (treeOf sub b.2)))
  | .foldG oid kind _ g, its => aggTree oid kind.agg (foldVals g its)
  | _, _ => []

theorem treeOf_nil (s : GSpec) : treeOf s [] = [] := by cases s <;> simp [treeOf, aggTree, foldVals]

/-! ### hypotheses that are inherited by sub-lists of items -/

theorem all_subset {p : V → Bool} {xs ys : List V} (h : ∀ i ∈ ys, i ∈ xs) (hx : xs.all p = true) :
    ys.all p = true := by
  rw [List.all_eq_true] at hx ⊢
  exact fun i hi => hx i (h i hi)

theorem isEmpty_subset {xs ys : List V} (h : ∀ i ∈ ys, i ∈ xs) (hx : xs.isEmpty = true) : ys.isEmpty = true := by
  cases ys with
  | nil => rfl
  | cons y ys =>
    have := h y List.mem_cons_self
    cases xs with
    | nil => simp at this
    | cons _ _ => simp at hx

theorem aggOk_subset {a : Agg} {xs ys : List V} (h : ∀ i ∈ ys, i ∈ xs) (hx : aggOk a xs = true) :
    aggOk a ys = true := by
  cases a <;> simp only [aggOk, Bool.or_eq_true] at hx ⊢
  case max => exact hx.imp (all_subset h) (all_subset h)
  case min => exact hx.imp (all_subset h) (all_subset h)
  case unbound => exact isEmpty_subset h hx
  all_goals first | exact all_subset h hx | rfl

theorem slotApart_subset : ∀ (s : GSpec) {xs ys : List V}, (∀ i ∈ ys, i ∈ xs) →
    slotApart s xs = true → slotApart s ys = true
  | .agg .., _, _, _, _ => rfl
  | .fn _, _, _, _, _ => rfl
  | .list .., _, _, _, _ => rfl
  | .limit _ _ sub, _, _, h, hx => slotApart_subset sub h hx
  | .nested .., _, _, h, hx => all_subset h hx
  | .foldG .., _, _, h, hx => all_subset h hx
  | .dict _ _ _ sub, _, _, h, hx => by
    simp only [slotApart, Bool.and_eq_true] at hx ⊢
    exact ⟨all_subset h hx.1, slotApart_subset sub h hx.2⟩

theorem noSkipBelow_subset : ∀ (b : Bool) (s : GSpec) {xs ys : List V}, (∀ i ∈ ys, i ∈ xs) →
    noSkipBelow b s xs = true → noSkipBelow b s ys = true
  | _, .agg .., _, _, _, _ => rfl
  | _, .list .., _, _, _, _ => rfl
  | b, .fn _, _, _, h, hx => by
    simp only [noSkipBelow, Bool.or_eq_true] at hx ⊢
    exact hx.imp id (all_subset h)
  | b, .limit _ _ sub, _, _, h, hx => noSkipBelow_subset b sub h hx
  | b, .nested .., _, _, h, hx => by
    simp only [noSkipBelow, Bool.and_eq_true, Bool.or_eq_true] at hx ⊢
    exact ⟨hx.1.imp (isEmpty_subset h) id, all_subset h hx.2⟩
  | _, .foldG .., _, _, h, hx => by
    simp only [noSkipBelow, Bool.and_eq_true, Bool.or_eq_true] at hx ⊢
    exact ⟨hx.1.imp (isEmpty_subset h) id, all_subset h hx.2⟩
  | _, .dict _ _ _ sub, _, _, h, hx => noSkipBelow_subset true sub h hx

/-- the hypotheses of the theorems that are inherited by every sub-list of the items
    (`b`: below a key level) -/
structure Hyp (b : Bool) (s : GSpec) (its : List V) : Prop where
  wf : wfRun s its = true
  sa : slotApart s its = true
  ns : noSkipBelow b s its = true

theorem Hyp.sub_limit {b : Bool} {oid n : Nat} {sub : GSpec} {its : List V}
    (h : Hyp b (.limit oid n sub) its) : Hyp b sub its := ⟨h.wf, h.sa, h.ns⟩

theorem apply_of_ok {f : Fn} {x : V} (h : applyOk f x = true) : f.apply x = .ok (f.val x) := by
  unfold applyOk at h
  unfold Fn.val
  cases hf : f.apply x with
  | ok v => rfl
  | error e => simp [hf] at h

/-! ### aggregators: one `agg` call extends the reference by one item -/

theorem pyMax_snoc (y : V) (ys : List V) (x : V) :
    pyMax ((y :: ys) ++ [x]) = if pyLt (pyMax (y :: ys)) x == some true then x else pyMax (y :: ys) := by
  simp [pyMax, List.foldl_append]

theorem pyMin_snoc (y : V) (ys : List V) (x : V) :
    pyMin ((y :: ys) ++ [x]) = if pyLt x (pyMin (y :: ys)) == some true then x else pyMin (y :: ys) := by
  simp [pyMin, List.foldl_append]

theorem foldl_pick_mem (c : V → V → Bool) :
    ∀ (ys : List V) (m : V), ys.foldl (fun m z => if c m z then z else m) m ∈ m :: ys := by
  intro ys
  induction ys with
  | nil => intro m; simp
  | cons z zs ih =>
    intro m
    simp only [List.foldl_cons]
    have := ih (if c m z then z else m)
    rcases List.mem_cons.mp this with h | h
    · rw [h]; split <;> simp
    · exact List.mem_cons_of_mem _ (List.mem_cons_of_mem _ h)

theorem pyMax_mem (y : V) (ys : List V) : pyMax (y :: ys) ∈ y :: ys :=
  foldl_pick_mem (fun m z => pyLt m z == some true) ys y

theorem pyMin_mem (y : V) (ys : List V) : pyMin (y :: ys) ∈ y :: ys :=
  foldl_pick_mem (fun m z => pyLt z m == some true) ys y

theorem pyLt_some_of_num {a b : V} (ha : isNum a = true) (hb : isNum b = true) :
    ∃ r, pyLt a b = some r := by
  cases a <;> cases b <;> simp [isNum, toFBits, asInt, pyLt] at ha hb ⊢

theorem pyLt_some_of_str {a b : V} (ha : isStr a = true) (hb : isStr b = true) :
    ∃ r, pyLt a b = some r := by
  cases a <;> simp [isStr] at ha
  cases b <;> simp [isStr] at hb
  rename_i s1 s2
  exact ⟨decide (s1 < s2), by simp [pyLt, asInt]⟩

theorem pyLt_some_of_ok {xs : List V} (h : (xs.all isNum || xs.all isStr) = true) {a b : V}
    (ha : a ∈ xs) (hb : b ∈ xs) : ∃ r, pyLt a b = some r := by
  simp only [Bool.or_eq_true, List.all_eq_true] at h
  rcases h with h | h
  · exact pyLt_some_of_num (h a ha) (h b hb)
  · exact pyLt_some_of_str (h a ha) (h b hb)

theorem numAdd_some {a b : V} (ha : isNum a = true) (hb : isNum b = true) :
    ∃ r, numAdd a b = some r ∧ isNum r = true := by
  cases a <;> cases b <;> simp [isNum, toFBits, asInt, numAdd] at ha hb ⊢

theorem sumFold_snoc (vs : List V) (v : V) :
    sumFold (vs ++ [v]) = (numAdd (sumFold vs) v).getD (sumFold vs) := by
  simp [sumFold, List.foldl_append]

theorem sumFold_num : ∀ vs : List V, isNum (sumFold vs) = true := by
  intro vs
  induction vs using snoc_induction with
  | h0 => rfl
  | hs vs v ih =>
    rw [sumFold_snoc]
    cases h : numAdd (sumFold vs) v with
    | none => simpa using ih
    | some r =>
      simp only [Option.getD_some]
      revert h
      generalize sumFold vs = a at ih ⊢
      cases a <;> cases v <;> simp [isNum, toFBits, asInt, numAdd] at ih ⊢ <;> (intro h; subst h; simp [toFBits, asInt])

theorem fsum_snoc (its : List V) (x : V) : fsum (its ++ [x]) = faddBits (fsum its) ((toFBits x).getD 0) := by
  simp [fsum, List.foldl_append]

theorem dget_single (k v : V) (hk : keyEq k k = true) : dget [(k, v)] k = some v := by simp [dget, hk]
theorem dset_single (k v w : V) (hk : keyEq k k = true) : dset [(k, v)] k w = [(k, w)] := by simp [dset, hk]

theorem refSample_snoc (size : Nat) (tbl : List Nat) (its : List V) (x : V) :
    refSample size tbl (its ++ [x]) = sampleStep size tbl (refSample size tbl its) x := by
  simp [refSample, List.foldl_append]

theorem sampleStep_fst (size : Nat) (tbl : List Nat) (st : Nat × List V) (x : V) :
    (sampleStep size tbl st x).1 = st.1 + 1 := by
  unfold sampleStep; split <;> rfl

theorem refSample_fst (size : Nat) (tbl : List Nat) (its : List V) : (refSample size tbl its).1 = its.length := by
  induction its using snoc_induction with
  | h0 => rfl
  | hs its x ih => rw [refSample_snoc, sampleStep_fst, ih]; simp

/-- **every aggregator**: one `agg(target, tree)` call on the tree the earlier items left
    returns the Python reference over all items so far, and leaves the tree of all items
    so far — unless the aggregator says STOP (First after its first item) -/
theorem aggStep_spec (oid : Nat) (a : Agg) (its : List V) (x : V)
    (hns : stopsAt (.agg oid a) its x = false) (hok : aggOk a (its ++ [x]) = true) :
    aggStep (.obj oid) a x (aggTree oid a its) =
      .ok (refAgg a (its ++ [x]), aggTree oid a (its ++ [x])) := by
  have hne : (its ++ [x]).isEmpty = false := by simp
  have hko := keyEq_obj oid
  cases a with
  | first =>
    have : its = [] := by
      cases its with
      | nil => rfl
      | cons y ys => simp [stopsAt] at hns
    subst this
    simp [aggStep, aggTree, aggHasState, dhas, dget, dset, stateOf, refAgg]
  | max =>
    cases its with
    | nil => simp [aggStep, aggTree, aggHasState, dget, dset, stateOf, refAgg, pyMax]
    | cons y ys =>
      have hm := pyMax_mem y ys
      obtain ⟨r, hr⟩ := pyLt_some_of_ok (xs := (y :: ys) ++ [x]) hok
        (List.mem_append_left _ hm) (List.mem_append_right _ (List.mem_singleton.mpr rfl))
      simp only [aggStep, aggTree, aggHasState, List.isEmpty_cons, Bool.false_eq_true, Bool.not_true, Bool.or_self,
        if_false, hne, stateOf, dget_single _ _ hko, dset_single _ _ _ hko, refAgg, pyMax_snoc, hr]
      cases r <;> simp
  | min =>
    cases its with
    | nil => simp [aggStep, aggTree, aggHasState, dget, dset, stateOf, refAgg, pyMin]
    | cons y ys =>
      have hm := pyMin_mem y ys
      obtain ⟨r, hr⟩ := pyLt_some_of_ok (xs := (y :: ys) ++ [x]) hok
        (List.mem_append_right _ (List.mem_singleton.mpr rfl)) (List.mem_append_left _ hm)
      simp only [aggStep, aggTree, aggHasState, List.isEmpty_cons, Bool.false_eq_true, Bool.not_true, Bool.or_self,
        if_false, hne, stateOf, dget_single _ _ hko, dset_single _ _ _ hko, refAgg, pyMin_snoc, hr]
      cases r <;> simp
  | avg =>
    simp only [aggOk, List.all_append, Bool.and_eq_true, List.all_cons, List.all_nil, Bool.and_true] at hok
    obtain ⟨bx, hx⟩ := Option.isSome_iff_exists.mp (show (toFBits x).isSome = true from hok.2)
    cases its with
    | nil => simp [aggStep, aggTree, aggHasState, dget, dset, stateOf, refAgg, hx, fsum]
    | cons y ys =>
      have hl : ((y :: ys).length : Int).toNat = (y :: ys).length := Int.toNat_natCast _
      simp only [aggStep, aggTree, aggHasState, List.isEmpty_cons, Bool.false_eq_true, Bool.not_true, Bool.or_self,
        if_false, hne, stateOf, dget_single _ _ hko, dset_single _ _ _ hko, refAgg, hx, hl, fsum_snoc,
        Option.getD_some]
      simp
  | count =>
    cases its with
    | nil => simp [aggStep, aggTree, aggHasState, dget, dset, stateOf, refAgg, asInt]
    | cons y ys =>
      simp [aggStep, aggTree, aggHasState, hne, stateOf, dget_single _ _ hko, dset_single _ _ _ hko, refAgg, asInt,
        Int.natCast_add]
  | clsCount =>
    cases its with
    | nil => simp [aggStep, aggTree, aggHasState, dget, dset, stateOf, refAgg, asInt]
    | cons y ys =>
      simp [aggStep, aggTree, aggHasState, hne, stateOf, dget_single _ _ hko, dset_single _ _ _ hko, refAgg, asInt,
        Int.natCast_add]
  | clsLast => simp [aggStep, aggTree, aggHasState, refAgg]
  | unbound => simp [aggOk] at hok
  | sample size tbl =>
    cases its with
    | nil => simp [aggStep, aggTree, aggHasState, dget, dset, stateOf, refAgg, refSample, sampleStep_fst]
    | cons y ys =>
      have hl : ((y :: ys).length : Int).toNat = (y :: ys).length := Int.toNat_natCast _
      have hfst := refSample_fst size tbl (y :: ys)
      simp only [aggStep, aggTree, aggHasState, List.isEmpty_cons, Bool.false_eq_true, Bool.not_true, Bool.or_self,
        if_false, hne, stateOf, dget_single _ _ hko, dset_single _ _ _ hko, refAgg, hl]
      rw [refSample_snoc, show refSample size tbl (y :: ys) = ((y :: ys).length, (refSample size tbl (y :: ys)).2) from
        Prod.ext hfst rfl]
      simp [sampleStep_fst]
  | sum f =>
    simp only [aggOk, List.all_append, Bool.and_eq_true, List.all_cons, List.all_nil, Bool.and_true] at hok
    have hap := apply_of_ok hok.2.1
    obtain ⟨r, hr, _⟩ := numAdd_some (sumFold_num (its.map f.val)) hok.2.2
    have hrefl : sumFold (its.map f.val ++ [f.val x]) = r := by rw [sumFold_snoc, hr]; rfl
    cases its with
    | nil =>
      have hr0 : numAdd (V.int 0) (f.val x) = some r := by simpa [sumFold] using hr
      have hrefl' : sumFold [f.val x] = r := by simpa using hrefl
      simp [aggStep, aggTree, aggHasState, dget, dset, stateOf, refAgg, hap, hr0, hrefl']
    | cons y ys =>
      have hrefl' : sumFold (f.val y :: (ys.map f.val ++ [f.val x])) = r := by simpa using hrefl
      have hr' : numAdd (sumFold (f.val y :: List.map f.val ys)) (f.val x) = some r := by simpa using hr
      simp only [aggStep, aggTree, aggHasState, List.isEmpty_cons, Bool.false_eq_true, Bool.not_true, Bool.or_self,
        if_false, hne, stateOf, dget_single _ _ hko, dset_single _ _ _ hko, refAgg, hap, Option.getD_some, hr,
        List.map_append, List.map_cons, List.map_nil, List.cons_append, hrefl', hr']
  | flatten f =>
    simp only [aggOk, List.all_append, Bool.and_eq_true, List.all_cons, List.all_nil, Bool.and_true] at hok
    have hap := apply_of_ok hok.2.1
    obtain ⟨ys', hys⟩ := Option.isSome_iff_exists.mp hok.2.2
    cases its with
    | nil => simp [aggStep, aggTree, aggHasState, dget, dset, stateOf, refAgg, hap, hys]
    | cons y ys =>
      simp only [aggStep, aggTree, aggHasState, List.isEmpty_cons, Bool.false_eq_true, Bool.not_true, Bool.or_self,
        if_false, hne, stateOf,
        dget_single _ _ hko, dset_single _ _ _ hko, refAgg, hap, hys, Option.getD_some,
        List.flatMap_append, List.flatMap_cons, List.flatMap_nil, List.append_nil]
  | merge f =>
    simp only [aggOk, List.all_append, Bool.and_eq_true, List.all_cons, List.all_nil, Bool.and_true] at hok
    have hap := apply_of_ok hok.2.1
    have hd := hok.2.2
    cases hv : f.val x with
    | dict ps =>
      cases its with
      | nil => simp [aggStep, aggTree, aggHasState, dget, dset, stateOf, refAgg, hap, hv]
      | cons y ys =>
        simp only [aggStep, aggTree, aggHasState, List.isEmpty_cons, Bool.false_eq_true, Bool.not_true, Bool.or_self,
          if_false, hne, stateOf,
          dget_single _ _ hko, dset_single _ _ _ hko, refAgg, hap, hv, Option.getD_some,
          List.foldl_append, List.foldl_cons, List.foldl_nil]
    | _ => simp [isDictV, hv] at hd

/-- First after its first item: STOP, the tree as it was -/
theorem aggStep_first_stop (oid : Nat) (its : List V) (x : V) (hne : its ≠ []) :
    aggStep (.obj oid) .first x (aggTree oid .first its) = .ok (.stop, aggTree oid .first its) := by
  cases its with
  | nil => exact absurd rfl hne
  | cons y ys => simp [aggStep, aggTree, aggHasState, stateOf, dhas, dget, keyEq_obj]

/-! ### reference facts under the hypotheses -/

theorem cutStop_all {f : Fn} {its : List V} (h : ∀ x ∈ its, isStop (f.val x) = false) : cutStop f its = its := by
  unfold cutStop
  induction its with
  | nil => rfl
  | cons y ys ih =>
    simp only [List.takeWhile_cons, h y List.mem_cons_self, Bool.not_false, if_true]
    rw [ih (fun x hx => h x (List.mem_cons_of_mem _ hx))]

theorem valsOf_snoc (f : Fn) (its : List V) (x : V) :
    valsOf f (its ++ [x]) = valsOf f its ++ (if isSkip (f.val x) then [] else [f.val x]) := by
  simp only [valsOf, List.filterMap_append, List.filterMap_cons, List.filterMap_nil]
  by_cases h : isSkip (f.val x) = true <;> simp [h]

theorem valsOf_cons_snoc (f : Fn) (y : V) (ys : List V) (x : V) :
    valsOf f (y :: (ys ++ [x])) = valsOf f (y :: ys) ++ (if isSkip (f.val x) then [] else [f.val x]) := by
  rw [← List.cons_append]; exact valsOf_snoc f (y :: ys) x

theorem buckets_snoc (key : Fn) (its : List V) (x : V) :
    buckets key (its ++ [x]) = bucketStep key (buckets key its) x := by
  simp [buckets, List.foldl_append]

theorem bucketStep_eq (key : Fn) (bs : List (V × List V)) (x : V) :
    bucketStep key bs x = if isSkip (key.val x) then bs else addTo bs (key.val x) x := by
  unfold bucketStep
  cases key.val x <;> simp [isSkip]

theorem addTo_keys {Q : V → Prop} (bs : List (V × List V)) (k x : V) (hk : Q k)
    (hbs : ∀ b ∈ bs, Q b.1) : ∀ b ∈ addTo bs k x, Q b.1 := by
  induction bs with
  | nil => intro b hb; simp only [addTo, List.mem_singleton] at hb; subst hb; exact hk
  | cons b0 bs ih =>
    obtain ⟨k', its⟩ := b0
    intro b hb
    simp only [addTo] at hb
    split at hb
    · rcases List.mem_cons.mp hb with rfl | hb
      · exact hbs (k', its) List.mem_cons_self
      · exact hbs b (List.mem_cons_of_mem _ hb)
    · rcases List.mem_cons.mp hb with rfl | hb
      · exact hbs (k', its) List.mem_cons_self
      · exact ih (fun b' hb' => hbs b' (List.mem_cons_of_mem _ hb')) b hb

/-- every bucket holds (in order) a non-empty list of the items, and its key is a key some
    item produced -/
theorem foldl_buckets_inv (key : Fn) {Q : V → Prop} (all : List V) :
    ∀ (its : List V) (bs : List (V × List V)), (∀ x ∈ its, x ∈ all) →
      (∀ x ∈ its, isSkip (key.val x) = false → Q (key.val x)) →
      (∀ b ∈ bs, Q b.1 ∧ b.2 ≠ [] ∧ ∀ i ∈ b.2, i ∈ all) →
      ∀ b ∈ its.foldl (bucketStep key) bs, Q b.1 ∧ b.2 ≠ [] ∧ ∀ i ∈ b.2, i ∈ all := by
  intro its
  induction its with
  | nil => intro bs _ _ hbs; exact hbs
  | cons x xs ih =>
    intro bs hall hq hbs
    simp only [List.foldl_cons]
    apply ih _ (fun y hy => hall y (List.mem_cons_of_mem _ hy)) (fun y hy => hq y (List.mem_cons_of_mem _ hy))
    rw [bucketStep_eq]
    by_cases hs : isSkip (key.val x) = true
    · simpa only [hs, if_true] using hbs
    · have hs' : isSkip (key.val x) = false := by simpa using hs
      simp only [hs', Bool.false_eq_true, if_false]
      intro b hb
      refine ⟨?_, ?_⟩
      · exact addTo_keys (Q := Q) _ _ _ (hq x List.mem_cons_self hs') (fun b' hb' => (hbs b' hb').1) b hb
      · exact addTo_mem (P := fun i => i ∈ all) _ _ _ (hall x List.mem_cons_self)
          (fun b' hb' => (hbs b' hb').2) b hb

/-- every bucket holds a non-empty list of the items, and its key is a key some item produced -/
theorem buckets_inv (key : Fn) {Q : V → Prop} (its : List V)
    (hq : ∀ x ∈ its, isSkip (key.val x) = false → Q (key.val x)) :
    ∀ b ∈ buckets key its, Q b.1 ∧ b.2 ≠ [] ∧ ∀ i ∈ b.2, i ∈ its :=
  foldl_buckets_inv key its its [] (fun _ h => h) hq (by simp)

theorem bhas_false {bs : List (V × List V)} {k : V} (h : ∀ b ∈ bs, keyEq b.1 k = false) : bhas bs k = false := by
  induction bs with
  | nil => rfl
  | cons b bs ih =>
    obtain ⟨k', its⟩ := b
    simp only [bhas, Bool.or_eq_false_iff]
    exact ⟨h (k', its) List.mem_cons_self, ih (fun b' hb' => h b' (List.mem_cons_of_mem _ hb'))⟩

theorem bucketOf_of_not_bhas {bs : List (V × List V)} {k : V} (h : bhas bs k = false) : bucketOf bs k = [] := by
  induction bs with
  | nil => rfl
  | cons b bs ih =>
    obtain ⟨k', its⟩ := b
    simp only [bhas, Bool.or_eq_false_iff] at h
    simp [bucketOf, h.1, ih h.2]

/-! ### well-typedness (per bucket) is inherited by prefixes of the run -/

/-- every bucket survives `addTo`, possibly extended by the new item -/
theorem addTo_extends (bs : List (V × List V)) (k x : V) :
    ∀ b ∈ bs, ∃ b' ∈ addTo bs k x, ∃ t, b'.2 = b.2 ++ t := by
  induction bs with
  | nil => intro b hb; simp at hb
  | cons b0 bs ih =>
    obtain ⟨k', its⟩ := b0
    intro b hb
    by_cases hk : keyEq k' k = true
    · simp only [addTo, hk, if_true]
      rcases List.mem_cons.mp hb with rfl | hb
      · exact ⟨(k', its ++ [x]), List.mem_cons_self, [x], rfl⟩
      · exact ⟨b, List.mem_cons_of_mem _ hb, [], by simp⟩
    · have hk' : keyEq k' k = false := by simpa using hk
      simp only [addTo, hk', Bool.false_eq_true, if_false]
      rcases List.mem_cons.mp hb with rfl | hb
      · exact ⟨(k', its), List.mem_cons_self, [], by simp⟩
      · obtain ⟨b', hb', t, ht⟩ := ih b hb
        exact ⟨b', List.mem_cons_of_mem _ hb', t, ht⟩

theorem addTo_has_new (bs : List (V × List V)) (k x : V) : ∃ b ∈ addTo bs k x, b.2 = bucketOf bs k ++ [x] := by
  induction bs with
  | nil => exact ⟨(k, [x]), by simp [addTo], by simp [bucketOf]⟩
  | cons b0 bs ih =>
    obtain ⟨k', its⟩ := b0
    by_cases hk : keyEq k' k = true
    · exact ⟨(k', its ++ [x]), by simp [addTo, hk], by simp [bucketOf, hk]⟩
    · have hk' : keyEq k' k = false := by simpa using hk
      obtain ⟨b, hb, hb2⟩ := ih
      exact ⟨b, by simp [addTo, hk', hb], by simpa [bucketOf, hk'] using hb2⟩

theorem buckets_extend (key : Fn) (xs : List V) :
    ∀ ys, ∀ b ∈ buckets key xs, ∃ b' ∈ buckets key (xs ++ ys), ∃ t, b'.2 = b.2 ++ t := by
  intro ys
  induction ys using snoc_induction with
  | h0 => intro b hb; exact ⟨b, by simpa using hb, [], by simp⟩
  | hs ys y ih =>
    intro b hb
    obtain ⟨b1, hb1, t1, ht1⟩ := ih b hb
    rw [← List.append_assoc, buckets_snoc, bucketStep_eq]
    by_cases hsk : isSkip (key.val y) = true
    · simp only [hsk, if_true]; exact ⟨b1, hb1, t1, ht1⟩
    · have hsk' : isSkip (key.val y) = false := by simpa using hsk
      simp only [hsk', Bool.false_eq_true, if_false]
      obtain ⟨b2, hb2, t2, ht2⟩ := addTo_extends _ (key.val y) y b1 hb1
      exact ⟨b2, hb2, t1 ++ t2, by rw [ht2, ht1, List.append_assoc]⟩

theorem wfRun_prefix : ∀ (s : GSpec) (xs ys : List V), wfRun s (xs ++ ys) = true → wfRun s xs = true
  | .agg _ a, xs, ys, hx => aggOk_subset (fun i hi => List.mem_append_left _ hi) hx
  | .fn _, xs, ys, hx => all_subset (fun i hi => List.mem_append_left _ hi) hx
  | .list _ _, xs, ys, hx => all_subset (fun i hi => List.mem_append_left _ hi) hx
  | .limit _ _ sub, xs, ys, hx => wfRun_prefix sub xs ys hx
  | .nested .., xs, ys, hx => all_subset (fun i hi => List.mem_append_left _ hi) hx
  | .foldG _ kind _ g, xs, ys, hx => by
    simp only [wfRun, Bool.and_eq_true] at hx ⊢
    refine ⟨all_subset (fun i hi => List.mem_append_left _ hi) hx.1, aggOk_subset (fun i hi => ?_) hx.2⟩
    simp only [List.map_append, List.mem_append]
    exact Or.inl hi
  | .dict _ _ key sub, xs, ys, hx => by
    simp only [wfRun, Bool.and_eq_true] at hx ⊢
    refine ⟨all_subset (fun i hi => List.mem_append_left _ hi) hx.1, ?_⟩
    have h2 := hx.2
    rw [List.all_eq_true] at h2 ⊢
    intro b hb
    obtain ⟨b', hb', t, ht⟩ := buckets_extend key xs ys b hb
    have := h2 b' hb'
    rw [ht] at this
    exact wfRun_prefix sub b.2 t this

theorem Hyp.init {b : Bool} {s : GSpec} {xs ys : List V} (h : Hyp b s (xs ++ ys)) : Hyp b s xs :=
  ⟨wfRun_prefix s xs ys h.wf, slotApart_subset s (fun i hi => List.mem_append_left _ hi) h.sa,
    noSkipBelow_subset b s (fun i hi => List.mem_append_left _ hi) h.ns⟩

theorem Hyp.init_snoc {b : Bool} {s : GSpec} {done : List V} {x : V} {xs : List V}
    (h : Hyp b s (done ++ x :: xs)) : Hyp b s (done ++ [x]) := by
  have : done ++ x :: xs = (done ++ [x]) ++ xs := by simp
  rw [this] at h
  exact h.init

/-! ### key equality is an equivalence; the bucket of `k` is the filter by `k` -/

theorem bucketOf_addTo_gen (bs : List (V × List V)) (kx k x : V) :
    bucketOf (addTo bs kx x) k = if keyEq kx k then bucketOf bs k ++ [x] else bucketOf bs k := by
  induction bs with
  | nil => by_cases h : keyEq kx k = true <;> simp [addTo, bucketOf, h]
  | cons b0 bs ih =>
    obtain ⟨k', its⟩ := b0
    by_cases h1 : keyEq k' kx = true
    · simp only [addTo, h1, if_true, bucketOf]
      by_cases h2 : keyEq kx k = true
      · simp [h2, keyEq_trans _ _ _ h1 h2]
      · have h3 : keyEq k' k = false := by
          cases h3 : keyEq k' k with
          | false => rfl
          | true =>
            exact absurd (keyEq_trans _ _ _ (by rw [keyEq_symm]; exact h1) h3) h2
        simp [h2, h3]
    · have h1' : keyEq k' kx = false := by simpa using h1
      simp only [addTo, h1', Bool.false_eq_true, if_false, bucketOf, ih]
      by_cases h3 : keyEq k' k = true
      · have h2 : keyEq kx k = false := by
          cases h2 : keyEq kx k with
          | false => rfl
          | true =>
            exact absurd (keyEq_trans _ _ _ h3 (by rw [keyEq_symm]; exact h2)) h1
        simp [h3, h2]
      · simp [h3]

/-- **the bucket of `k` holds exactly the items whose key equals `k`, in encounter order** -/
theorem bucketOf_buckets (key : Fn) (k : V) : ∀ its, bucketOf (buckets key its) k = routed key k its := by
  intro its
  induction its using snoc_induction with
  | h0 => rfl
  | hs its x ih =>
    rw [buckets_snoc, bucketStep_eq]
    by_cases hs : isSkip (key.val x) = true
    · simp [hs, ih, routed, List.filter_append]
    · have hs' : isSkip (key.val x) = false := by simpa using hs
      simp only [hs', Bool.false_eq_true, if_false, bucketOf_addTo_gen, ih, routed, List.filter_append,
        List.filter_cons, List.filter_nil, Bool.not_false, Bool.true_and]
      by_cases hk : keyEq (key.val x) k = true <;> simp [hk]

/-! ### STOP events -/

theorem eventFreeFrom_snoc (s : GSpec) : ∀ (rest done : List V) (x : V),
    eventFreeFrom s done (rest ++ [x]) = (eventFreeFrom s done rest && !(stopsAt s (done ++ rest) x)) := by
  intro rest
  induction rest with
  | nil => intro done x; simp [eventFreeFrom]
  | cons y ys ih =>
    intro done x
    simp only [List.cons_append, eventFreeFrom, ih, Bool.and_assoc, List.append_assoc, List.singleton_append,
      List.nil_append]

theorem eventFree_snoc (s : GSpec) (its : List V) (x : V) :
    eventFree s (its ++ [x]) = (eventFree s its && !(stopsAt s its x)) := by
  simpa [eventFree] using eventFreeFrom_snoc s its [] x

theorem eventFree_nil (s : GSpec) : eventFree s [] = true := rfl

theorem eventFree_init {s : GSpec} {its : List V} {x : V} (h : eventFree s (its ++ [x]) = true) :
    eventFree s its = true ∧ stopsAt s its x = false := by
  rw [eventFree_snoc] at h
  simpa using h

/-- every bucket is either an old bucket or the bucket of `k` with `x` appended -/
theorem addTo_mem_cases (bs : List (V × List V)) (k x : V) :
    ∀ b ∈ addTo bs k x, b ∈ bs ∨ b.2 = bucketOf bs k ++ [x] := by
  induction bs with
  | nil => intro b hb; simp only [addTo, List.mem_singleton] at hb; subst hb; right; simp [bucketOf]
  | cons b0 bs ih =>
    obtain ⟨k', its⟩ := b0
    intro b hb
    simp only [addTo] at hb
    by_cases hk : keyEq k' k = true
    · simp only [hk, if_true] at hb
      rcases List.mem_cons.mp hb with rfl | hb
      · right; simp [bucketOf, hk]
      · left; exact List.mem_cons_of_mem _ hb
    · have hk' : keyEq k' k = false := by simpa using hk
      simp only [hk', Bool.false_eq_true, if_false] at hb
      rcases List.mem_cons.mp hb with rfl | hb
      · left; exact List.mem_cons_self
      · rcases ih b hb with h | h
        · left; exact List.mem_cons_of_mem _ h
        · right; simpa [bucketOf, hk'] using h

theorem bucketOf_mem_or_nil (bs : List (V × List V)) (k : V) : bucketOf bs k = [] ∨ ∃ b ∈ bs, b.2 = bucketOf bs k := by
  induction bs with
  | nil => left; rfl
  | cons b0 bs ih =>
    obtain ⟨k', its⟩ := b0
    by_cases hk : keyEq k' k = true
    · right; exact ⟨(k', its), List.mem_cons_self, by simp [bucketOf, hk]⟩
    · have hk' : keyEq k' k = false := by simpa using hk
      rcases ih with h | ⟨b, hb, h⟩
      · left; simpa [bucketOf, hk'] using h
      · right; exact ⟨b, List.mem_cons_of_mem _ hb, by simpa [bucketOf, hk'] using h⟩

/-- a key level without STOP event: no bucket has seen one -/
theorem eventFree_buckets (id kid : Nat) (key : Fn) (sub : GSpec) :
    ∀ its, eventFree (.dict id kid key sub) its = true → ∀ b ∈ buckets key its, eventFree sub b.2 = true := by
  intro its
  induction its using snoc_induction with
  | h0 => intro _ b hb; simp [buckets] at hb
  | hs its x ih =>
    intro h b hb
    obtain ⟨h1, h2⟩ := eventFree_init h
    have ih' := ih h1
    rw [buckets_snoc, bucketStep_eq] at hb
    simp only [stopsAt, Bool.or_eq_false_iff, Bool.and_eq_false_imp, Bool.not_eq_true'] at h2
    by_cases hs : isSkip (key.val x) = true
    · simp only [hs, if_true] at hb; exact ih' b hb
    · have hs' : isSkip (key.val x) = false := by simpa using hs
      simp only [hs', Bool.false_eq_true, if_false] at hb
      rcases addTo_mem_cases _ _ _ b hb with hold | hnew
      · exact ih' b hold
      · rw [hnew, eventFree_snoc]
        have hb0 : eventFree sub (bucketOf (buckets key its) (key.val x)) = true := by
          rcases bucketOf_mem_or_nil (buckets key its) (key.val x) with h0 | ⟨b', hb', h0⟩
          · rw [h0]; rfl
          · rw [← h0]; exact ih' b' hb'
        simp [hb0, h2.2 hs']

theorem eventFree_bucketOf (id kid : Nat) (key : Fn) (sub : GSpec) (its : List V) (k : V)
    (h : eventFree (.dict id kid key sub) its = true) : eventFree sub (bucketOf (buckets key its) k) = true := by
  rcases bucketOf_mem_or_nil (buckets key its) k with h0 | ⟨b', hb', h0⟩
  · rw [h0]; rfl
  · rw [← h0]; exact eventFree_buckets id kid key sub its h b' hb'

theorem eventFree_dict_keys (id kid : Nat) (key : Fn) (sub : GSpec) :
    ∀ its, eventFree (.dict id kid key sub) its = true → ∀ x ∈ its, isStop (key.val x) = false := by
  intro its
  induction its using snoc_induction with
  | h0 => intro _ x hx; simp at hx
  | hs its y ih =>
    intro h x hx
    obtain ⟨h1, h2⟩ := eventFree_init h
    simp only [stopsAt, Bool.or_eq_false_iff] at h2
    rcases List.mem_append.mp hx with hm | hm
    · exact ih h1 x hm
    · simp at hm; subst hm; exact h2.1

theorem eventFree_limit (oid n : Nat) (sub : GSpec) :
    ∀ its, eventFree (.limit oid n sub) its = true → its.length ≤ n ∧ eventFree sub its = true := by
  intro its
  induction its using snoc_induction with
  | h0 => intro _; exact ⟨Nat.zero_le _, rfl⟩
  | hs its x ih =>
    intro h
    obtain ⟨h1, h2⟩ := eventFree_init h
    simp only [stopsAt, Bool.or_eq_false_iff, decide_eq_false_iff_not, Nat.not_le] at h2
    refine ⟨by simp; omega, ?_⟩
    rw [eventFree_snoc, (ih h1).2, h2.2]; rfl

theorem eventFree_leaf_fn (f : Fn) : ∀ its, eventFree (.fn f) its = true → ∀ x ∈ its, isStop (f.val x) = false := by
  intro its
  induction its using snoc_induction with
  | h0 => intro _ x hx; simp at hx
  | hs its y ih =>
    intro h x hx
    obtain ⟨h1, h2⟩ := eventFree_init h
    rcases List.mem_append.mp hx with hm | hm
    · exact ih h1 x hm
    · simp at hm; subst hm; simpa [stopsAt] using h2

theorem eventFree_leaf_list (id : Nat) (f : Fn) :
    ∀ its, eventFree (.list id f) its = true → ∀ x ∈ its, isStop (f.val x) = false := by
  intro its
  induction its using snoc_induction with
  | h0 => intro _ x hx; simp at hx
  | hs its y ih =>
    intro h x hx
    obtain ⟨h1, h2⟩ := eventFree_init h
    rcases List.mem_append.mp hx with hm | hm
    · exact ih h1 x hm
    · simp at hm; subst hm; simpa [stopsAt] using h2

/-! ### the cut -/

theorem cutFrom_prefix (s : GSpec) : ∀ (xs done : List V), ∃ r t, xs = r ++ t ∧ cutFrom s done xs = done ++ r := by
  intro xs
  induction xs with
  | nil => intro done; exact ⟨[], [], rfl, by simp [cutFrom]⟩
  | cons x xs ih =>
    intro done
    simp only [cutFrom]
    split
    · exact ⟨[], x :: xs, rfl, by simp⟩
    · obtain ⟨r, t, hx, hr⟩ := ih (done ++ [x])
      exact ⟨x :: r, t, by rw [hx]; rfl, by rw [hr]; simp⟩

/-- the cut is a prefix of the run -/
theorem cutEvent_sublist (s : GSpec) (its : List V) : List.Sublist (cutEvent s its) its := by
  obtain ⟨r, t, hx, hr⟩ := cutFrom_prefix s its []
  rw [cutEvent, hr, List.nil_append]
  conv => rhs; rw [hx]
  exact List.sublist_append_left r t

theorem cutEvent_subset (s : GSpec) (its : List V) : ∀ i ∈ cutEvent s its, i ∈ its :=
  fun _ hi => (cutEvent_sublist s its).subset hi

theorem Hyp.of_cut {b : Bool} {s : GSpec} {its : List V} (h : Hyp b s its) : Hyp b s (cutEvent s its) := by
  obtain ⟨r, t, hx, hr⟩ := cutFrom_prefix s its []
  have hc : cutEvent s its = r := by rw [cutEvent, hr]; simp
  rw [hc]
  rw [hx] at h
  exact h.init

theorem cutFrom_eventFree (s : GSpec) : ∀ (xs done : List V), eventFree s done = true →
    eventFree s (cutFrom s done xs) = true := by
  intro xs
  induction xs with
  | nil => intro done h; simpa [cutFrom] using h
  | cons x xs ih =>
    intro done h
    simp only [cutFrom]
    by_cases hs : stopsAt s done x = true
    · simpa [hs] using h
    · have hs' : stopsAt s done x = false := by simpa using hs
      simp only [hs', Bool.false_eq_true, if_false]
      exact ih _ (by rw [eventFree_snoc, h, hs']; rfl)

theorem cutEvent_eventFree (s : GSpec) (its : List V) : eventFree s (cutEvent s its) = true :=
  cutFrom_eventFree s its [] rfl

theorem cutFrom_of_eventFree (s : GSpec) : ∀ (xs done : List V), eventFreeFrom s done xs = true →
    cutFrom s done xs = done ++ xs := by
  intro xs
  induction xs with
  | nil => intro done _; simp [cutFrom]
  | cons x xs ih =>
    intro done h
    simp only [eventFreeFrom, Bool.and_eq_true, Bool.not_eq_true'] at h
    simp only [cutFrom, h.1, Bool.false_eq_true, if_false, ih _ h.2, List.append_assoc, List.singleton_append]

/-- no STOP event: nothing is cut -/
theorem cutEvent_of_eventFree {s : GSpec} {its : List V} (h : eventFree s its = true) : cutEvent s its = its := by
  simpa [cutEvent] using cutFrom_of_eventFree s its [] h

/-! ### the reference on runs without STOP event -/

/-- without STOP event the reference of a dict level is the plain bucket map -/
theorem implOf_dict (id kid : Nat) (key : Fn) (sub : GSpec) (its : List V)
    (h : eventFree (.dict id kid key sub) its = true) :
    implOf (.dict id kid key sub) its = .dict ((buckets key its).map (fun b => (b.1, implOf sub b.2))) := by
  have hcut : cutStop key its = its := cutStop_all (eventFree_dict_keys id kid key sub its h)
  have hinv := buckets_inv key (Q := fun _ => True) its (fun _ _ _ => trivial)
  have hfil : (buckets key its).filter (bucketHasVal sub) = buckets key its := by
    rw [List.filter_eq_self]
    intro bk hbk
    obtain ⟨_, hne, _⟩ := hinv bk hbk
    have hef := eventFree_buckets id kid key sub its h bk hbk
    unfold bucketHasVal
    cases hb2 : bk.2 with
    | nil => exact absurd hb2 hne
    | cons y ys =>
      rw [hb2] at hef
      have : eventFree sub ([] ++ [y] ++ ys) = true := by simpa using hef
      simp only [eventFree, eventFreeFrom, List.nil_append, Bool.and_eq_true, Bool.not_eq_true'] at hef
      simp [hasVal, hef.1]
  simp only [implOf, bucketize, hcut]
  rw [show List.foldl (bucketStep key) [] its = buckets key its from rfl, hfil]

theorem implOf_limit (oid n : Nat) (sub : GSpec) (its : List V) (hne : its ≠ []) (hlen : its.length ≤ n) :
    implOf (.limit oid n sub) its = implOf sub its := by
  have hn : (n == 0) = false := by
    cases its with
    | nil => exact absurd rfl hne
    | cons y ys => simp at hlen ⊢; omega
  simp [implOf, hn, List.take_of_length_le hlen]

/-! ### results are never the sentinels -/

theorem not_sentinel_of_all {its : List V} (h : its.all (fun x => !(isStop x) && !(isSkip x)) = true) {x : V}
    (hx : x ∈ its) : isStop x = false ∧ isSkip x = false := by
  rw [List.all_eq_true] at h
  have := h x hx
  simpa using this

theorem refAgg_not_sentinel (a : Agg) (y : V) (ys : List V) (hok : aggOk a (y :: ys) = true) :
    isStop (refAgg a (y :: ys)) = false ∧ isSkip (refAgg a (y :: ys)) = false := by
  cases a with
  | first => simpa [refAgg] using not_sentinel_of_all hok (x := y) List.mem_cons_self
  | clsLast =>
    have hl : (y :: ys).getLast? = some ((y :: ys).getLast (by simp)) := List.getLast?_eq_some_getLast (by simp)
    have hm : (y :: ys).getLast (by simp) ∈ y :: ys := List.getLast_mem _
    have := not_sentinel_of_all hok hm
    simp only [refAgg, hl, Option.getD_some]
    exact this
  | unbound => simp [aggOk] at hok
  | max =>
    have hm := pyMax_mem y ys
    simp only [aggOk, Bool.or_eq_true, List.all_eq_true] at hok
    rcases hok with h | h <;> (have := h _ hm; revert this; simp only [refAgg]; cases pyMax (y :: ys) <;>
      simp [isNum, toFBits, isStr, asInt, isStop, isSkip])
  | min =>
    have hm := pyMin_mem y ys
    simp only [aggOk, Bool.or_eq_true, List.all_eq_true] at hok
    rcases hok with h | h <;> (have := h _ hm; revert this; simp only [refAgg]; cases pyMin (y :: ys) <;>
      simp [isNum, toFBits, isStr, asInt, isStop, isSkip])
  | avg => simp [refAgg, avgDiv, isStop, isSkip]
  | sum f =>
    have := sumFold_num ((y :: ys).map f.val)
    revert this; simp only [refAgg]; cases sumFold ((y :: ys).map f.val) <;> simp [isNum, toFBits, asInt, isStop, isSkip]
  | count => simp [refAgg, isStop, isSkip]
  | clsCount => simp [refAgg, isStop, isSkip]
  | sample size tbl => simp [refAgg, isStop, isSkip]
  | flatten f => simp [refAgg, isStop, isSkip]
  | merge f => simp [refAgg, isStop, isSkip]

theorem emptyOf_not_sentinel (g : GSpec) : isStop (emptyOf g) = false ∧ isSkip (emptyOf g) = false := by
  cases g <;> simp [emptyOf, isStop, isSkip]

theorem getLast?_ne_nil {its : List V} (h : its ≠ []) : ∃ x, its.getLast? = some x ∧ x ∈ its := by
  cases hl : its.getLast? with
  | none => simp [List.getLast?_eq_none_iff] at hl; exact absurd hl h
  | some x => exact ⟨x, rfl, List.mem_of_getLast? hl⟩

/-- the hypotheses of a nested Group's own run (over the elements of the item) -/
theorem Hyp.inner {b : Bool} {g : GSpec} {its : List V} {gid : Nat} (h : Hyp b (.nested gid g) its) {x : V} (hx : x ∈ its) :
    isSeqV x = true ∧ Hyp false g ((iterOf x).getD []) := by
  have hwf := h.wf
  have hsa := h.sa
  have hns := h.ns
  simp only [wfRun, List.all_eq_true, Bool.and_eq_true] at hwf
  simp only [slotApart, List.all_eq_true] at hsa
  simp only [noSkipBelow, List.all_eq_true, Bool.and_eq_true] at hns
  exact ⟨(hwf x hx).1, (hwf x hx).2, hsa x hx, hns.2 x hx⟩

/-- a spec that cannot yield SKIP (no bare function at the end of a Limit / nested chain) does not -/
theorem noSkip_of_not_canSkip : ∀ (s : GSpec) (its : List V), canSkip s = false → its ≠ [] → Hyp false s its →
    eventFree s its = true → isSkip (implOf s its) = false
  | .agg oid a, its, _, hne, h, _ => by
    cases its with
    | nil => exact absurd rfl hne
    | cons y ys => exact (refAgg_not_sentinel a y ys h.wf).2
  | .fn f, _, hc, _, _, _ => by simp [canSkip] at hc
  | .foldG oid kind gid g, its, _, hne, h, _ => by
    have hwf := h.wf
    simp only [wfRun, Bool.and_eq_true] at hwf
    cases its with
    | nil => exact absurd rfl hne
    | cons y ys => exact (refAgg_not_sentinel kind.agg _ _ (by simpa using hwf.2)).2
  | .list _ f, _, _, _, _, _ => by simp [implOf, isSkip]
  | .dict id kid key sub, its, _, _, _, hef => by rw [implOf_dict id kid key sub its hef]; simp [isSkip]
  | .limit oid n sub, its, hc, hne, h, hef => by
    obtain ⟨hlen, hsub⟩ := eventFree_limit oid n sub its hef
    rw [implOf_limit oid n sub its hne hlen]
    exact noSkip_of_not_canSkip sub its (by simpa [canSkip] using hc) hne h.sub_limit hsub
  | .nested _ g, its, hc, hne, h, _ => by
    obtain ⟨x, hx, hxm⟩ := getLast?_ne_nil hne
    have hin := (h.inner hxm).2
    simp only [implOf, hx, if_true, emptyOr]
    by_cases hemp : (cutEvent g ((iterOf x).getD [])).isEmpty = true
    · simp only [hemp, if_true]; exact (emptyOf_not_sentinel g).2
    · simp only [hemp, Bool.false_eq_true, if_false]
      exact noSkip_of_not_canSkip g _ (by simpa [canSkip] using hc) (by simpa using hemp)
        (Hyp.of_cut hin) (cutEvent_eventFree g _)

/-- below a key level (`b = true`) a result is neither STOP nor SKIP; at the top it is not STOP -/
theorem valOf_not_sentinel : ∀ (s : GSpec) (b : Bool) (its : List V), its ≠ [] → Hyp b s its →
    eventFree s its = true →
    isStop (implOf s its) = false ∧ (b = true → isSkip (implOf s its) = false)
  | .agg oid a, b, its, hne, h, _ => by
    cases its with
    | nil => exact absurd rfl hne
    | cons y ys =>
      have := refAgg_not_sentinel a y ys h.wf
      exact ⟨this.1, fun _ => this.2⟩
  | .fn f, b, its, hne, h, hef => by
    have hst := eventFree_leaf_fn f its hef
    have hcut : cutStop f its = its := cutStop_all hst
    obtain ⟨x, hx, hxm⟩ := getLast?_ne_nil hne
    simp only [implOf, hcut, hx]
    refine ⟨hst x hxm, ?_⟩
    intro hb
    have hns := h.ns
    simp only [noSkipBelow, hb, Bool.not_true, Bool.false_or, List.all_eq_true, Bool.not_eq_true'] at hns
    exact hns x hxm
  | .list _ f, b, its, _, _, _ => by simp [implOf, isStop, isSkip]
  | .foldG oid kind gid g, b, its, hne, h, _ => by
    have hwf := h.wf
    simp only [wfRun, Bool.and_eq_true] at hwf
    cases its with
    | nil => exact absurd rfl hne
    | cons y ys =>
      have := refAgg_not_sentinel kind.agg _ _ (by simpa using hwf.2)
      exact ⟨this.1, fun _ => this.2⟩
  | .limit oid n sub, b, its, hne, h, hef => by
    obtain ⟨hlen, hsub⟩ := eventFree_limit oid n sub its hef
    rw [implOf_limit oid n sub its hne hlen]
    exact valOf_not_sentinel sub b its hne h.sub_limit hsub
  | .dict id kid key sub, b, its, _, _, hef => by
    rw [implOf_dict id kid key sub its hef]; simp [isStop, isSkip]
  | .nested _ g, b, its, hne, h, _ => by
    obtain ⟨x, hx, hxm⟩ := getLast?_ne_nil hne
    have hin := (h.inner hxm).2
    have hin' : Hyp false g (cutEvent g ((iterOf x).getD [])) := Hyp.of_cut hin
    have hef' := cutEvent_eventFree g ((iterOf x).getD [])
    simp only [implOf, hx, if_true, emptyOr]
    by_cases hemp : (cutEvent g ((iterOf x).getD [])).isEmpty = true
    · simp only [hemp, if_true]
      exact ⟨(emptyOf_not_sentinel g).1, fun _ => (emptyOf_not_sentinel g).2⟩
    · have hne' : cutEvent g ((iterOf x).getD []) ≠ [] := by simpa using hemp
      simp only [hemp, Bool.false_eq_true, if_false]
      refine ⟨(valOf_not_sentinel g false _ hne' hin' hef').1, ?_⟩
      intro hb
      have hns := h.ns
      have hie : its.isEmpty = false := by simpa using hne
      simp only [noSkipBelow, hb, hie, Bool.false_or, Bool.true_and, Bool.and_eq_true, Bool.not_eq_true'] at hns
      exact noSkip_of_not_canSkip g _ hns.1 hne' hin' hef'

/-! ### the item loop -/

/-- what one more item `x` does, on the tree the (event-free) items `its` left: the reference
    over `its ++ [x]` and the tree of `its ++ [x]` — or, exactly when the hand-written loop
    would be told STOP by the spec, STOP -/
def StepOK (s : GSpec) (its : List V) (x : V) : Prop :=
  (stopsAt s its x = false →
    gstep s x (treeOf s its) = .ok (implOf s (its ++ [x]), treeOf s (its ++ [x]))) ∧
  (stopsAt s its x = true → ∃ t, gstep s x (treeOf s its) = .ok (.stop, t))

/-- `ret` of Group.glomit after the items `its` -/
def valTopC (s : GSpec) (its : List V) : V := emptyOr s (implOf s) its

theorem valTopC_snoc (s : GSpec) (its : List V) (x : V) : valTopC s (its ++ [x]) = implOf s (its ++ [x]) := by
  simp [valTopC, emptyOr]

/-- if every step behaves (`StepOK`), the loop of Group.glomit computes the reference of the
    items before the first STOP event -/
theorem loop_exact (s : GSpec)
    (hstep : ∀ (its : List V) (x : V), Hyp false s (its ++ [x]) → eventFree s its = true → StepOK s its x) :
    ∀ (xs done : List V), Hyp false s (done ++ xs) → eventFree s done = true →
      loopWith (gstep s) xs (valTopC s done) (treeOf s done) = .ok (valTopC s (cutFrom s done xs)) := by
  intro xs
  induction xs with
  | nil => intro done _ _; simp [loopWith, cutFrom]
  | cons x xs ih =>
    intro done h hef
    have hx : Hyp false s (done ++ [x]) := h.init_snoc
    obtain ⟨h1, h2⟩ := hstep done x hx hef
    by_cases hs : stopsAt s done x = true
    · obtain ⟨t, ht⟩ := h2 hs
      simp [loopWith, ht, isStop, cutFrom, hs]
    · have hs' : stopsAt s done x = false := by simpa using hs
      have hef' : eventFree s (done ++ [x]) = true := by rw [eventFree_snoc, hef, hs']; rfl
      have hns := (valOf_not_sentinel s false (done ++ [x]) (by simp) hx hef').1
      simp only [loopWith, h1 hs', hns, Bool.false_eq_true, if_false, cutFrom, hs']
      rw [← valTopC_snoc]
      exact ih (done ++ [x]) (by simpa using h) hef'

theorem groupEval_of_step (s : GSpec)
    (hstep : ∀ (its : List V) (x : V), Hyp false s (its ++ [x]) → eventFree s its = true → StepOK s its x)
    (items : List V) (h : Hyp false s items) : groupEval s items = .ok (implTop s items) := by
  have := loop_exact s hstep items [] (by simpa using h) rfl
  simpa [groupEval, groupLoop, valTopC, emptyOr, treeOf_nil, implTop, cutEvent] using this

/-! ### one step of a key level -/

/-- the tree a key level holds, given its buckets -/
def levelTree (id : Nat) (sub : GSpec) (bs : List (V × List V)) : List (V × V) :=
  (idKey id, .dict (bs.map (fun b => (b.1, implOf sub b.2)))) :: bs.map (fun b => (b.1, V.dict (treeOf sub b.2)))

theorem treeOf_dict (id kid : Nat) (key : Fn) (sub : GSpec) (its : List V) :
    treeOf (.dict id kid key sub) its = if its.isEmpty then [] else levelTree id sub (buckets key its) := rfl

theorem dget_cons_ne {k' k v : V} {es : List (V × V)} (h : keyEq k' k = false) :
    dget ((k', v) :: es) k = dget es k := by simp [dget, h]

theorem dset_cons_ne {k' k v w : V} {es : List (V × V)} (h : keyEq k' k = false) :
    dset ((k', v) :: es) k w = (k', v) :: dset es k w := by simp [dset, h]

/-- a slot that holds a bucket's sub-tree (or nothing) is not a STOP mark -/
theorem isMarked_levelTree (id kid : Nat) (sub : GSpec) (bs : List (V × List V)) :
    isMarked (levelTree id sub bs) (.obj kid) = false := by
  unfold isMarked
  rw [levelTree, dget_cons_ne (keyEq_id_obj id kid), dget_map (fun its => V.dict (treeOf sub its))]
  cases bhas bs (.obj kid) <;> rfl

theorem dict_both (id kid : Nat) (key : Fn) (sub : GSpec) (b : Bool) (its : List V) (x : V)
    (h : Hyp b (.dict id kid key sub) (its ++ [x])) (hef : eventFree (.dict id kid key sub) its = true)
    (hsub : ∀ its', Hyp true sub (its' ++ [x]) → eventFree sub its' = true → StepOK sub its' x) :
    StepOK (.dict id kid key sub) its x := by
  -- unpack the hypotheses
  have hwf := h.wf
  have hsa := h.sa
  simp only [wfRun, Bool.and_eq_true, List.all_eq_true] at hwf
  simp only [slotApart, Bool.and_eq_true, List.all_eq_true, Bool.not_eq_true'] at hsa
  have hxm : x ∈ its ++ [x] := by simp
  have hsa2 : slotApart sub (its ++ [x]) = true := hsa.2
  have hns2 : noSkipBelow true sub (its ++ [x]) = true := by have := h.ns; simpa only [noSkipBelow] using this
  have hkap := apply_of_ok (hwf.1 x hxm).1
  have hhash := (hwf.1 x hxm).2
  have hslotx : keyEq (idKey id) (key.val x) = false := hsa.1 x hxm
  -- the buckets so far
  have hinv := buckets_inv key (Q := fun k => keyEq k (idKey id) = false) its
    (fun y hy _ => by rw [keyEq_symm]; exact hsa.1 y (List.mem_append_left _ hy))
  -- the tree after `acc = tree[id(spec)]` was ensured
  have htree1 : (if dhas (treeOf (.dict id kid key sub) its) (idKey id) then treeOf (.dict id kid key sub) its
      else dset (treeOf (.dict id kid key sub) its) (idKey id) (.dict [])) = levelTree id sub (buckets key its) := by
    rw [treeOf_dict]
    cases its with
    | nil => simp [dhas, dget, dset, levelTree, buckets]
    | cons y ys => simp [dhas, dget, levelTree, keyEq_idKey]
  have hacc : subTree (levelTree id sub (buckets key its)) (idKey id) =
      .ok ((buckets key its).map (fun b => (b.1, implOf sub b.2))) := by
    simp [subTree, levelTree, dget, keyEq_idKey]
  have hmark := isMarked_levelTree id kid sub (buckets key its)
  -- the bucket of `x`
  have hbm : ∀ i ∈ bucketOf (buckets key its) (key.val x), i ∈ its :=
    bucketOf_mem (P := fun i => i ∈ its) _ _ (fun b hb => ⟨(hinv b hb).2.1, (hinv b hb).2.2⟩)
  -- the items routed to the bucket of `x` (x itself included) are what `wfRun` speaks about
  have hHb : isSkip (key.val x) = false →
      Hyp true sub (bucketOf (buckets key its) (key.val x) ++ [x]) := by
    intro hsk
    have hkk : keyEq (key.val x) (key.val x) = true := keyEq_refl hhash
    have hw : wfRun sub (bucketOf (buckets key its) (key.val x) ++ [x]) = true := by
      have h2 := hwf.2
      rw [buckets_snoc, bucketStep_eq] at h2
      simp only [hsk, Bool.false_eq_true, if_false] at h2
      obtain ⟨bn, hbn, hbn2⟩ := addTo_has_new (buckets key its) (key.val x) x
      rw [← hbn2]; exact h2 bn hbn
    exact ⟨hw, slotApart_subset sub (snoc_subset hbm) hsa2, noSkipBelow_subset true sub (snoc_subset hbm) hns2⟩
  have hefb : eventFree sub (bucketOf (buckets key its) (key.val x)) = true :=
    eventFree_bucketOf id kid key sub its (key.val x) hef
  have hst : stopsAt (.dict id kid key sub) its x = (isStop (key.val x) ||
      (!(isSkip (key.val x)) && stopsAt sub (bucketOf (buckets key its) (key.val x)) x)) := rfl
  by_cases hskip : isSkip (key.val x) = true
  · -- the key function says SKIP: nothing happens
    have hnstop : isStop (key.val x) = false := by
      cases hk : key.val x <;> simp [hk, isSkip, isStop] at hskip ⊢
    refine ⟨?_, ?_⟩
    · intro hs
      have hef' : eventFree (.dict id kid key sub) (its ++ [x]) = true := by rw [eventFree_snoc, hef, hs]; rfl
      rw [implOf_dict id kid key sub (its ++ [x]) hef', treeOf_dict id kid key sub (its ++ [x])]
      rw [buckets_snoc, bucketStep_eq]
      simp only [gstep, htree1, hacc, hmark, hkap]
      simp [hskip, levelTree]
    · intro hs; rw [hst] at hs; simp [hskip, hnstop] at hs
  · have hskip' : isSkip (key.val x) = false := by simpa using hskip
    by_cases hstop : isStop (key.val x) = true
    · -- the key function says STOP
      refine ⟨fun hs => by rw [hst] at hs; simp [hstop] at hs, fun _ => ?_⟩
      simp only [gstep, htree1, hacc, hmark, hkap]
      simp [hskip', hstop]
    · have hnstop : isStop (key.val x) = false := by simpa using hstop
      have hkk : keyEq (key.val x) (key.val x) = true := keyEq_refl hhash
      have hHb' := hHb hskip'
      obtain ⟨hrec1, hrec2⟩ := hsub _ hHb' hefb
      -- `key not in acc`
      have hfresh : dhas ((buckets key its).map (fun b => (b.1, implOf sub b.2))) (key.val x) =
          bhas (buckets key its) (key.val x) := by
        rw [dhas_eq, dget_map]; cases bhas (buckets key its) (key.val x) <;> rfl
      -- `tree[key]` after `if key not in acc: tree[key] = {}`
      have hsubtree : subTree (if (!bhas (buckets key its) (key.val x)) = true
            then dset (levelTree id sub (buckets key its)) (key.val x) (.dict [])
            else levelTree id sub (buckets key its)) (key.val x) =
          .ok (treeOf sub (bucketOf (buckets key its) (key.val x))) := by
        cases hb : bhas (buckets key its) (key.val x) with
        | false =>
          simp only [Bool.not_false, if_true, levelTree, dset_cons_ne hslotx, subTree, dget_cons_ne hslotx,
            dget_dset_self _ hkk, bucketOf_of_not_bhas hb, treeOf_nil]
        | true =>
          simp only [Bool.not_true, Bool.false_eq_true, if_false, levelTree, subTree, dget_cons_ne hslotx,
            dget_map (fun its => V.dict (treeOf sub its)), hb, if_true]
      refine ⟨?_, ?_⟩
      · intro hs
        have hsb : stopsAt sub (bucketOf (buckets key its) (key.val x)) x = false := by
          rw [hst] at hs; simpa [hnstop, hskip'] using hs
        have hef' : eventFree (.dict id kid key sub) (its ++ [x]) = true := by rw [eventFree_snoc, hef, hs]; rfl
        have hefb' : eventFree sub (bucketOf (buckets key its) (key.val x) ++ [x]) = true := by
          rw [eventFree_snoc, hefb, hsb]; rfl
        rw [implOf_dict id kid key sub (its ++ [x]) hef', treeOf_dict id kid key sub (its ++ [x])]
        rw [buckets_snoc, bucketStep_eq]
        simp only [gstep, htree1, hacc, hmark, hkap]
        simp only [hskip', hnstop, hhash, Bool.false_eq_true, if_false, Bool.not_true, hslotx, Bool.false_and]
        rw [hfresh, hsubtree]
        have hns := valOf_not_sentinel sub true _ (by simp) hHb' hefb'
        simp only [hrec1 hsb, hns.1, hns.2 rfl, Bool.false_eq_true, if_false]
        -- the two stores: the sub-tree back into its slot, the result into `acc`
        have htail : dset (if (!bhas (buckets key its) (key.val x)) = true
              then dset (levelTree id sub (buckets key its)) (key.val x) (.dict [])
              else levelTree id sub (buckets key its)) (key.val x)
              (.dict (treeOf sub (bucketOf (buckets key its) (key.val x) ++ [x]))) =
            (idKey id, .dict ((buckets key its).map (fun b => (b.1, implOf sub b.2)))) ::
              (addTo (buckets key its) (key.val x) x).map (fun b => (b.1, V.dict (treeOf sub b.2))) := by
          have hm := dset_map (fun its => V.dict (treeOf sub its)) (buckets key its) (key.val x) x
          cases hb : bhas (buckets key its) (key.val x) with
          | false =>
            simp only [Bool.not_false, if_true, levelTree, dset_cons_ne hslotx, dset_dset _ hkk, hm]
          | true =>
            simp only [Bool.not_true, Bool.false_eq_true, if_false, levelTree, dset_cons_ne hslotx, hm]
        rw [htail]
        have hacc' := dset_map (implOf sub) (buckets key its) (key.val x) x
        have hne : (its ++ [x]).isEmpty = false := by simp
        simp only [hacc', dset, keyEq_idKey, if_true, levelTree, hne, Bool.false_eq_true, if_false]
      · intro hs
        have hsb : stopsAt sub (bucketOf (buckets key its) (key.val x)) x = true := by
          rw [hst] at hs; simpa [hnstop, hskip'] using hs
        obtain ⟨t, ht⟩ := hrec2 hsb
        simp only [gstep, htree1, hacc, hmark, hkap]
        simp only [hskip', hnstop, hhash, Bool.false_eq_true, if_false, Bool.not_true, hslotx, Bool.false_and]
        rw [hfresh, hsubtree]
        simp [ht, isStop]

/-! ### the step lemma for every spec -/

theorem limit_unpack (oid n : Nat) (sub : GSpec) (its : List V) :
    limitState (treeOf (.limit oid n sub) its) (.obj oid) = ((its.length : Int), treeOf sub its) := by
  cases its with
  | nil => simp [limitState, treeOf, dget, treeOf_nil]
  | cons y ys => simp [limitState, treeOf, dget, keyEq_obj]

theorem limit_store (oid n : Nat) (sub : GSpec) (its : List V) (x : V) :
    dset (treeOf (.limit oid n sub) its) (.obj oid)
        (.list [.int ((its.length : Int) + 1), .dict (treeOf sub (its ++ [x]))]) =
      treeOf (.limit oid n sub) (its ++ [x]) := by
  cases its with
  | nil => simp [treeOf, dset]
  | cons y ys => simp [treeOf, dset, keyEq_obj]

theorem getLast?_snoc (its : List V) (x : V) : (its ++ [x]).getLast? = some x := by simp

/-- **one item more**, for every spec: on the tree the event-free items `its` left, item `x`
    yields the reference over `its ++ [x]` and the tree of `its ++ [x]`, or STOP exactly when
    the hand-written loop is told STOP -/
theorem gstep_both : ∀ (s : GSpec) (b : Bool) (its : List V) (x : V), Hyp b s (its ++ [x]) →
    eventFree s its = true → StepOK s its x
  | .agg oid a, b, its, x, h, _ => by
    refine ⟨fun hs => ?_, fun hs => ?_⟩
    · simpa only [gstep, treeOf, implOf] using aggStep_spec oid a its x hs h.wf
    · have ha : a = .first := by cases a <;> simp [stopsAt] at hs ⊢
      subst ha
      have hne : its ≠ [] := by intro h0; subst h0; simp [stopsAt] at hs
      exact ⟨_, by simpa only [gstep, treeOf] using aggStep_first_stop oid its x hne⟩
  | .fn f, b, its, x, h, hef => by
    have hwf := h.wf
    simp only [wfRun, List.all_eq_true] at hwf
    have hap := apply_of_ok (hwf x (by simp))
    refine ⟨fun hs => ?_, fun hs => ?_⟩
    · have hs' : isStop (f.val x) = false := by simpa [stopsAt] using hs
      have hcut : cutStop f (its ++ [x]) = its ++ [x] := cutStop_all (fun y hy => by
        rcases List.mem_append.mp hy with hm | hm
        · exact eventFree_leaf_fn f its hef y hm
        · simp at hm; subst hm; exact hs')
      simp [gstep, treeOf, hap, implOf, hcut]
    · have hs' : isStop (f.val x) = true := by simpa [stopsAt] using hs
      exact ⟨[], by simp [gstep, treeOf, hap, isStop_eq hs']⟩
  | .list id f, b, its, x, h, hef => by
    have hwf := h.wf
    simp only [wfRun, List.all_eq_true] at hwf
    have hap := apply_of_ok (hwf x (by simp))
    refine ⟨fun hs => ?_, fun hs => ?_⟩
    · have hns : isStop (f.val x) = false := by simpa [stopsAt] using hs
      have hcut : cutStop f (its ++ [x]) = its ++ [x] := cutStop_all (fun y hy => by
        rcases List.mem_append.mp hy with hm | hm
        · exact eventFree_leaf_list id f its hef y hm
        · simp at hm; subst hm; exact hns)
      have hval : implOf (.list id f) (its ++ [x]) = .list (valsOf f (its ++ [x])) := by
        simp [implOf, hcut, valsOf]
      rw [hval, valsOf_snoc]
      cases its with
      | nil =>
        by_cases hs : isSkip (f.val x) = true
        · simp [gstep, treeOf, hap, hns, hs, dget, dhas, dset, valsOf, keyEq_idKey]
        · have hs' : isSkip (f.val x) = false := by simpa using hs
          simp [gstep, treeOf, hap, hns, hs', dget, dhas, dset, valsOf, keyEq_idKey]
      | cons y ys =>
        by_cases hs : isSkip (f.val x) = true
        · simp [gstep, treeOf, hap, hns, hs, dget, dhas, dset, keyEq_idKey, valsOf_cons_snoc]
        · have hs' : isSkip (f.val x) = false := by simpa using hs
          simp [gstep, treeOf, hap, hns, hs', dget, dhas, dset, keyEq_idKey, valsOf_cons_snoc]
    · have hs' : isStop (f.val x) = true := by simpa [stopsAt] using hs
      simp only [gstep, hap, hs', if_true]
      exact ⟨_, rfl⟩
  | .limit oid n sub, b, its, x, h, hef => by
    obtain ⟨hlen, hsubef⟩ := eventFree_limit oid n sub its hef
    obtain ⟨ih1, ih2⟩ := gstep_both sub b its x h.sub_limit hsubef
    have hst : stopsAt (.limit oid n sub) its x = (decide (n ≤ its.length) || stopsAt sub its x) := rfl
    refine ⟨fun hs => ?_, fun hs => ?_⟩
    · rw [hst] at hs
      simp only [Bool.or_eq_false_iff, decide_eq_false_iff_not, Nat.not_le] at hs
      have hcnt : ¬ ((its.length : Int) + 1 > (n : Int)) := by omega
      have hv : implOf (.limit oid n sub) (its ++ [x]) = implOf sub (its ++ [x]) :=
        implOf_limit oid n sub (its ++ [x]) (by simp) (by simp; omega)
      simp only [gstep, limit_unpack, hcnt, if_false, ih1 hs.2, limit_store, hv]
    · by_cases hge : n ≤ its.length
      · have hcnt : ((its.length : Int) + 1 > (n : Int)) := by omega
        simp only [gstep, limit_unpack, hcnt, if_true]
        exact ⟨_, rfl⟩
      · have hcnt : ¬ ((its.length : Int) + 1 > (n : Int)) := by omega
        have hsb : stopsAt sub its x = true := by rw [hst] at hs; simpa [hge] using hs
        obtain ⟨t, ht⟩ := ih2 hsb
        simp only [gstep, limit_unpack, hcnt, if_false, ht]
        exact ⟨_, rfl⟩
  | .nested gid g, b, its, x, h, _ => by
    refine ⟨fun _ => ?_, fun hs => by simp [stopsAt] at hs⟩
    obtain ⟨hseq, hin⟩ := h.inner (x := x) (by simp)
    have hloop := loop_exact g (fun its' x' h' hef' => gstep_both g false its' x' h' hef')
      ((iterOf x).getD []) [] (by simpa using hin) rfl
    have hval : implOf (.nested gid g) (its ++ [x]) = valTopC g (cutEvent g ((iterOf x).getD [])) := by
      simp [implOf, valTopC]
    rw [hval]
    simp only [valTopC, emptyOr, List.isEmpty_nil, if_true, treeOf_nil] at hloop
    cases x with
    | list xs =>
      simp only [iterOf, Option.getD_some] at hloop ⊢
      simp only [gstep, iterOf, treeOf, hloop, valTopC, emptyOr, cutEvent] <;> rfl
    | tuple xs =>
      simp only [iterOf, Option.getD_some] at hloop ⊢
      simp only [gstep, iterOf, treeOf, hloop, valTopC, emptyOr, cutEvent] <;> rfl
    | _ => simp [isSeqV] at hseq
  | .foldG oid kind gid g, b, its, x, h, _ => by
    refine ⟨fun _ => ?_, fun hs => by simp [stopsAt] at hs⟩
    have hwf := h.wf
    have hsa := h.sa
    have hns := h.ns
    simp only [wfRun, Bool.and_eq_true, List.all_eq_true] at hwf
    simp only [slotApart, List.all_eq_true] at hsa
    simp only [noSkipBelow, Bool.and_eq_true, List.all_eq_true] at hns
    have hxm : x ∈ its ++ [x] := by simp
    have hseq := (hwf.1 x hxm).1
    have hin : Hyp false g ((iterOf x).getD []) := ⟨(hwf.1 x hxm).2, hsa x hxm, hns.2 x hxm⟩
    have hloop := loop_exact g (fun its' x' h' hef' => gstep_both g false its' x' h' hef')
      ((iterOf x).getD []) [] (by simpa using hin) rfl
    simp only [valTopC, emptyOr, List.isEmpty_nil, if_true, treeOf_nil] at hloop
    have hvals : foldVals g (its ++ [x]) =
        foldVals g its ++ [emptyOr g (implOf g) (cutEvent g ((iterOf x).getD []))] := by simp [foldVals]
    have hok : aggOk kind.agg (foldVals g its ++ [emptyOr g (implOf g) (cutEvent g ((iterOf x).getD []))]) = true := by
      rw [← hvals]; exact hwf.2
    have hagg := aggStep_spec oid kind.agg (foldVals g its) _ (by cases kind <;> rfl) hok
    have himpl : implOf (.foldG oid kind gid g) (its ++ [x]) = refAgg kind.agg (foldVals g (its ++ [x])) := rfl
    rw [himpl, hvals]
    simp only [treeOf, hvals]
    cases x with
    | list xs =>
      simp only [iterOf, Option.getD_some] at hloop hagg ⊢
      simp only [gstep, iterOf, hloop, emptyOr, cutEvent] at hagg ⊢
      exact hagg
    | tuple xs =>
      simp only [iterOf, Option.getD_some] at hloop hagg ⊢
      simp only [gstep, iterOf, hloop, emptyOr, cutEvent] at hagg ⊢
      exact hagg
    | _ => simp [isSeqV] at hseq
  | .dict id kid key sub, b, its, x, h, hef =>
    dict_both id kid key sub b its x h hef (fun its' h' hef' => gstep_both sub true its' x h' hef')

/-- **what Group computes**: the hand-written loop over the items before the first STOP event -/
theorem groupEval_exact (s : GSpec) (items : List V) (h : Hyp false s items) :
    groupEval s items = .ok (implTop s items) :=
  groupEval_of_step s (fun its x hx hef => gstep_both s false its x hx hef) items h

/-! ### the checker on the model's own observations -/

theorem obs_beq_ok (a b : V) : ((Obs.ok a : Obs) == Obs.ok b) = veq a b := rfl

/-- no SKIP from a bare function / nested Group at all implies none below a key level -/
theorem noSkipBelow_weaken : ∀ (s : GSpec) (its : List V), noSkipBelow true s its = true → noSkipBelow false s its = true
  | .agg .., _, _ => rfl
  | .list .., _, _ => rfl
  | .fn _, _, _ => by simp [noSkipBelow]
  | .dict _ _ _ sub, its, h => h
  | .foldG .., its, h => h
  | .limit _ _ sub, its, h => noSkipBelow_weaken sub its h
  | .nested _ g, its, h => by
    simp only [noSkipBelow, Bool.and_eq_true] at h ⊢
    exact ⟨by simp, h.2⟩

theorem covered_spec (g : GSpec) (items : List V) (hwf : wfRun g items = true) (hc : covered g items = true) :
    (observe (groupEval g items) == Obs.ok (valOfTop g items)) = true := by
  simp only [covered, Bool.and_eq_true] at hc
  rw [groupEval_exact g items ⟨hwf, hc.1.1, noSkipBelow_weaken g items hc.1.2⟩]
  exact hc.2

theorem all_zip_map {α β : Type} (f : α → β) (p : α × β → Bool) :
    ∀ xs : List α, (xs.zip (xs.map f)).all p = xs.all (fun x => p (x, f x)) := by
  intro xs
  induction xs with
  | nil => rfl
  | cons x xs ih => simp [ih]

theorem checkEval_model (g : GSpec) (its : List V) (h : wfRun g its = true → covered g its = true) :
    checkEval g its (observeEval its (groupEval g its)) = true := by
  simp only [checkEval, observeEval, veqList_refl, Bool.and_true]
  by_cases hwf : wfRun g its = true
  · simp [hwf, covered_spec g its hwf (h hwf)]
  · simp [hwf]

/-- a history of evaluations passes the checker when each of its evaluations is covered:
    nothing an evaluation does depends on what ran before it -/
theorem check_model (specs : List GSpec) (targets : List (List V)) (evals : List (Nat × Nat))
    (hidx : ∀ e ∈ evals, e.1 < specs.length ∧ e.2 < targets.length)
    (h : ∀ e ∈ evals, ∀ g its, specs[e.1]? = some g → targets[e.2]? = some its →
      wfRun g its = true → covered g its = true) :
    checkC16 specs targets evals (observeHistory specs targets evals) = true := by
  simp only [checkC16, observeHistory, List.length_map, beq_self_eq_true, Bool.true_and]
  rw [all_zip_map, List.all_eq_true]
  intro e he
  obtain ⟨h1, h2⟩ := hidx e he
  have hg : specs[e.1]? = some specs[e.1] := List.getElem?_eq_getElem h1
  have ht : targets[e.2]? = some targets[e.2] := List.getElem?_eq_getElem h2
  simp only [hg, ht]
  exact checkEval_model _ _ (h e he _ _ hg ht)

end Glom.C16
