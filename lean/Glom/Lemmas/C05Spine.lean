import Glom.Lemmas.C05Rows
import Glom.Lemmas.C05Calls
/-
  C05 — the rows of `_unpack_stack` along the path of the root error (tree level), and the list
  surgery of `_unpack_stack` (push-down, trimming) on them.
-/
namespace Glom.C05

theorem mem_of_mem_ite {α : Type} (c : Prop) [Decidable c] (l : List α) (r : α)
    (h : r ∈ (if c then [] else l)) : r ∈ l := by
  split at h
  · simp at h
  · exact h

theorem segRes_mem_errsOf : ∀ (K : Kids) (x : Nat), segRes K = some x → x ∈ errsOf K := by
  intro K
  induction K with
  | nil => intro x h; simp [segRes] at h
  | cons ch i ks res rest _ ihrest =>
    intro x h
    simp only [segRes] at h
    simp only [errsOf, List.mem_append]
    split at h
    · exact Or.inr (ihrest x h)
    · subst h; simp

/-- every error shown in a row is the outcome of a call of the forest -/
theorem rowsAt_error_mem : ∀ (K : Kids) (n j : Nat) (r : Row), r ∈ rowsAt n K j →
    ∀ x, r.error = some x → x ∈ errsOf K := by
  intro K
  induction K with
  | nil => intro n j r h; simp [rowsAt] at h
  | cons ch i ks res rest ihks ihrest =>
    intro n j r h x hx
    simp only [errsOf, List.mem_append]
    simp only [rowsAt] at h
    split at h
    · split at h
      · rcases List.mem_cons.mp h with h | h
        · subst h
          exact Or.inr (segRes_mem_errsOf rest x hx)
        · exact Or.inr (ihrest _ _ r (mem_of_mem_ite _ _ _ h) x hx)
      · split at h
        · simp at h; subst h; simp at hx; subst hx; simp
        · rcases List.mem_cons.mp h with h | h
          · subst h; simp at hx; subst hx; simp
          · exact Or.inl (Or.inr (ihks _ _ r (mem_of_mem_ite _ _ _ (mem_of_mem_ite _ _ _ h)) x hx))
    · split at h
      · exact Or.inl (Or.inr (ihks _ _ r h x hx))
      · exact Or.inr (ihrest _ _ r h x hx)

theorem spineK_nil_of_lastRes (e : Nat) : ∀ (K : Kids) (n : Nat), lastRes K ≠ some e → spineK e n K = [] := by
  intro K
  induction K with
  | nil => intro n _; rfl
  | cons ch i ks res rest _ ihrest =>
    intro n h
    cases rest with
    | nil => simp only [lastRes] at h; simp [spineK, h]
    | cons ch2 i2 ks2 res2 rest2 =>
      rw [show spineK e n (.cons ch i ks res (.cons ch2 i2 ks2 res2 rest2)) =
        spineK e (n + 1 + ks.size) (.cons ch2 i2 ks2 res2 rest2) from rfl]
      exact ihrest _ h

theorem lastHead_none_first (n : Nat) (K : Kids) (h : lastHead none n K = none) : K = .nil := by
  cases K with
  | nil => rfl
  | cons ch i ks res rest =>
    simp only [lastHead, Option.isSome_none, Bool.and_false, Bool.false_eq_true, if_false] at h
    cases hr : lastHead (some n) (n + 1 + ks.size) rest <;> simp [hr] at h

theorem segResAt_lastHead : ∀ (K : Kids) (prev : Option Nat) (n h : Nat),
    lastHead prev n K = some h → segResAt n K h = lastRes K := by
  intro K
  induction K with
  | nil => intro prev n h hh; simp [lastHead] at hh
  | cons ch i ks res rest _ ihrest =>
    intro prev n h hh
    simp only [lastHead] at hh
    cases hr : lastHead (some n) (n + 1 + ks.size) rest with
    | some h' =>
      rw [hr] at hh
      simp at hh
      subst hh
      have hrange := lastHead_range rest _ _ _ hr
      have hne : rest ≠ .nil := by
        intro hn; subst hn; simp [lastHead] at hr
      simp only [segResAt, if_neg (by omega : ¬ h' = n), if_neg (by omega : ¬ h' < n + 1 + ks.size)]
      rw [ihrest _ _ _ hr]
      cases rest with
      | nil => exact absurd rfl hne
      | cons _ _ _ _ _ => rfl
    | none =>
      rw [hr] at hh
      simp only [Option.none_or] at hh
      split at hh
      · simp at hh
      · simp at hh
        subst hh
        simp only [segResAt, if_true]
        exact segRes_eq_lastRes_of_no_head rest ch i ks res n _ hr


theorem size_eq_zero (K : Kids) (h : (K.size == 0) = true) : K = .nil := by
  cases K with
  | nil => rfl
  | cons _ _ _ _ _ => simp [Kids.size] at h

theorem startOK_range (e : Nat) : ∀ (K : Kids) (n j : Nat), startOK e n K j = true → n ≤ j ∧ j < n + K.size := by
  intro K
  induction K with
  | nil => intro n j h; simp [startOK] at h
  | cons ch i ks res rest ihks ihrest =>
    intro n j h
    simp only [startOK] at h
    simp only [Kids.size]
    split at h
    · omega
    · split at h
      · simp only [Bool.and_eq_true] at h
        have := ihks _ _ h.2
        omega
      · have := ihrest _ _ h
        omega

/-- a sibling whose chain segment ends with the outcome `e` is a start -/
theorem startOK_of_segResAt (e : Nat) : ∀ (K : Kids) (n j : Nat), segResAt n K j = some e → startOK e n K j = true := by
  intro K
  induction K with
  | nil => intro n j h; simp [segResAt] at h
  | cons ch i ks res rest _ ihrest =>
    intro n j h
    simp only [segResAt] at h
    simp only [startOK]
    split
    · rename_i hj; simp [hj] at h; simp [h]
    · rename_i hj
      rw [if_neg hj] at h
      split
      · rename_i hj2; simp [hj2] at h
      · rename_i hj2; rw [if_neg hj2] at h; exact ihrest _ _ h

theorem spineAt_of_segResAt (e : Nat) : ∀ (K : Kids) (n j : Nat), segResAt n K j ≠ none → spineAt e n K j = spineK e n K := by
  intro K
  induction K with
  | nil => intro n j h; simp [segResAt] at h
  | cons ch i ks res rest _ ihrest =>
    intro n j h
    simp only [segResAt] at h
    simp only [spineAt]
    split
    · rfl
    · rename_i hj
      rw [if_neg hj] at h
      split
      · rename_i hj2; simp [hj2] at h
      · rename_i hj2
        rw [if_neg hj2] at h
        rw [ihrest _ _ h]
        cases rest with
        | nil => simp [segResAt] at h
        | cons _ _ _ _ _ => rfl

theorem not_mem_errsOf_of_onePath (e : Nat) : ∀ (K : Kids), onePath e K = true → lastRes K ≠ some e → ¬ e ∈ errsOf K := by
  intro K
  induction K with
  | nil => intro _ _; simp [errsOf]
  | cons ch i ks res rest _ ihrest =>
    intro h hl
    cases rest with
    | nil =>
      simp only [lastRes] at hl
      simp only [onePath, if_neg hl, Bool.not_eq_true', List.contains_eq_mem, decide_eq_false_iff_not] at h
      simp only [errsOf, List.mem_append, List.not_mem_nil, or_false, not_or]
      refine ⟨?_, h⟩
      cases res with
      | none => simp
      | some x => simp; exact fun hx => hl (by rw [hx])
    | cons ch2 i2 ks2 res2 rest2 =>
      simp only [onePath, Bool.and_eq_true, Bool.not_eq_true', List.contains_eq_mem, decide_eq_false_iff_not] at h
      rw [show lastRes (.cons ch i ks res (.cons ch2 i2 ks2 res2 rest2)) = lastRes (.cons ch2 i2 ks2 res2 rest2) from rfl] at hl
      have := ihrest h.2 hl
      rw [show errsOf (.cons ch i ks res (.cons ch2 i2 ks2 res2 rest2)) =
        res.toList ++ errsOf ks ++ errsOf (.cons ch2 i2 ks2 res2 rest2) from rfl]
      simp only [List.mem_append, not_or]
      simp only [List.mem_append, not_or] at h
      exact ⟨h.1, this⟩

theorem getLast?_append_ne (a b : List Nat) (h : b ≠ []) : (a ++ b).getLast? = b.getLast? := by
  rw [List.getLast?_append]
  cases hb : b.getLast? with
  | none => simp [List.getLast?_eq_none_iff] at hb; exact absurd hb h
  | some x => simp

/-- when the last sub-evaluation raised, the head of its chain segment is the last of CHILD_ERRORS -/
theorem failedHeads_getLast (x : Nat) : ∀ (K : Kids) (h0 : Nat) (prev : Option Nat) (n : Nat),
    lastRes K = some x →
    (failedHeads h0 prev n K).getLast? = some ((lastHead prev n K).getD h0) := by
  intro K
  induction K with
  | nil => intro h0 prev n h; simp [lastRes] at h
  | cons ch i ks res rest _ ihrest =>
    intro h0 prev n hl
    cases rest with
    | nil =>
      simp only [lastRes] at hl
      subst hl
      simp only [failedHeads, lastHead, Option.isSome_some, if_true, List.append_nil, Option.none_or]
      split <;> simp
    | cons ch2 i2 ks2 res2 rest2 =>
      rw [show lastRes (.cons ch i ks res (.cons ch2 i2 ks2 res2 rest2)) = lastRes (.cons ch2 i2 ks2 res2 rest2) from rfl] at hl
      have ih := ihrest (if ch && prev.isSome then h0 else n) (some n) (n + 1 + ks.size) hl
      rw [show failedHeads h0 prev n (.cons ch i ks res (.cons ch2 i2 ks2 res2 rest2)) =
          (if res.isSome then [if ch && prev.isSome then h0 else n] else []) ++
            failedHeads (if ch && prev.isSome then h0 else n) (some n) (n + 1 + ks.size) (.cons ch2 i2 ks2 res2 rest2) from rfl]
      rw [show lastHead prev n (.cons ch i ks res (.cons ch2 i2 ks2 res2 rest2)) =
          (lastHead (some n) (n + 1 + ks.size) (.cons ch2 i2 ks2 res2 rest2)).or
            (if ch && prev.isSome then none else some n) from rfl]
      have hne : failedHeads (if ch && prev.isSome then h0 else n) (some n) (n + 1 + ks.size)
          (.cons ch2 i2 ks2 res2 rest2) ≠ [] := by
        intro h0'; rw [h0'] at ih; simp at ih
      rw [getLast?_append_ne _ _ hne, ih]
      cases lastHead (some n) (n + 1 + ks.size) (.cons ch2 i2 ks2 res2 rest2) with
      | some y => simp
      | none =>
        simp only [Option.none_or, Option.getD_none]
        split <;> simp

/-- the statement about rows started on the path of the error `e`; `sp`: the calls with outcome
    `e` from there on; `next h l`: `h` is a frame from which the path can be followed further, and
    `l` are the calls with outcome `e` from there on -/
def SpineStmt (e : Nat) (sp : List Nat) (next : Nat → List Nat → Prop) (flag : Nat → Prop) (rows : List Row) : Prop :=
  ∃ (A B : List Row) (k : Nat), rows = A ++ B ∧ A ≠ [] ∧
    (∀ r, r ∈ A → r.error = some e) ∧ (∀ r, r ∈ B → r.error ≠ some e) ∧
    1 ≤ k ∧ k ≤ sp.length ∧
    List.Sublist (sp.take k) (A.map (·.frame)) ∧
    A.getLast?.map (·.frame) = sp[k - 1]? ∧
    (∀ r, r ∈ A → r.frame ∈ sp.take k ∨ (r.branches = [] ∧ flag r.frame)) ∧
    (B ≠ [] → ∃ last, A.getLast? = some last ∧ last.branches = []) ∧
    (k = sp.length ∨
      (B = [] ∧ ∃ last h, A.getLast? = some last ∧ last.branches.getLast? = some h ∧ next h (sp.drop k)))

theorem SpineStmt_lift (e : Nat) (sp : List Nat) (next next' : Nat → List Nat → Prop) (flag flag' : Nat → Prop)
    (rows : List Row)
    (hn : ∀ h l, next' h l → next h l) (hfl : ∀ f, flag' f → flag f)
    (h : SpineStmt e sp next' flag' rows) : SpineStmt e sp next flag rows := by
  obtain ⟨A, B, k, h1, h2, h3, h4, h5, h6, h7, h8, hx, hy, h9⟩ := h
  refine ⟨A, B, k, h1, h2, h3, h4, h5, h6, h7, h8, ?_, hy, ?_⟩
  · intro r hr
    rcases hx r hr with h | h
    · exact Or.inl h
    · exact Or.inr ⟨h.1, hfl _ h.2⟩
  · rcases h9 with h9 | ⟨hB, last, h, hl, hm, hs⟩
    · exact Or.inl h9
    · exact Or.inr ⟨hB, last, h, hl, hm, hn _ _ hs⟩

theorem getLast?_cons_ne (a : Row) (l : List Row) (h : l ≠ []) : (a :: l).getLast? = l.getLast? := by
  cases l with
  | nil => exact absurd rfl h
  | cons b r => simp [List.getLast?_cons_cons]

/-- a completed earlier step of the chain comes first -/
theorem SpineStmt_step (e : Nat) (sp : List Nat) (next : Nat → List Nat → Prop) (flag : Nat → Prop)
    (rows : List Row) (row : Row)
    (hr : row.error = some e) (hb : row.branches = []) (hf : flag row.frame) (h : SpineStmt e sp next flag rows) :
    SpineStmt e sp next flag (row :: rows) := by
  obtain ⟨A, B, k, h1, h2, h3, h4, h5, h6, h7, h8, hx, hy, h9⟩ := h
  refine ⟨row :: A, B, k, by simp [h1], by simp, ?_, h4, h5, h6, ?_, ?_, ?_, ?_, ?_⟩
  · intro r hm
    rcases List.mem_cons.mp hm with h | h
    · subst h; exact hr
    · exact h3 r h
  · simp only [List.map_cons]
    exact List.Sublist.cons _ h7
  · rw [getLast?_cons_ne _ _ h2]; exact h8
  · intro r hm
    rcases List.mem_cons.mp hm with h | h
    · subst h; exact Or.inr ⟨hb, hf⟩
    · exact hx r h
  · rw [getLast?_cons_ne _ _ h2]; exact hy
  · rw [getLast?_cons_ne _ _ h2]; exact h9

/-- a call with outcome `e` comes first -/
theorem SpineStmt_call (e : Nat) (sp : List Nat) (next : Nat → List Nat → Prop) (flag : Nat → Prop)
    (rows : List Row) (row : Row)
    (hr : row.error = some e) (h : SpineStmt e sp next flag rows) :
    SpineStmt e (row.frame :: sp) next flag (row :: rows) := by
  obtain ⟨A, B, k, h1, h2, h3, h4, h5, h6, h7, h8, hx, hy, h9⟩ := h
  refine ⟨row :: A, B, k + 1, by simp [h1], by simp, ?_, h4, by omega, by simp; omega, ?_, ?_, ?_, ?_, ?_⟩
  · intro r hm
    rcases List.mem_cons.mp hm with h | h
    · subst h; exact hr
    · exact h3 r h
  · simp only [List.take_succ_cons, List.map_cons]
    exact List.Sublist.cons_cons _ h7
  · rw [getLast?_cons_ne _ _ h2, h8]
    obtain ⟨k', rfl⟩ : ∃ k', k = k' + 1 := ⟨k - 1, by omega⟩
    simp
  · intro r hm
    simp only [List.take_succ_cons, List.mem_cons]
    rcases List.mem_cons.mp hm with h | h
    · subst h; exact Or.inl (Or.inl rfl)
    · rcases hx r h with h' | h'
      · exact Or.inl (Or.inr h')
      · exact Or.inr h'
  · rw [getLast?_cons_ne _ _ h2]; exact hy
  · rw [getLast?_cons_ne _ _ h2]
    rcases h9 with h9 | h9
    · exact Or.inl (by simp [h9])
    · exact Or.inr (by simpa using h9)

/-- the call that raised `e` (the rows below it show other errors) -/
theorem SpineStmt_raiser (e : Nat) (next : Nat → List Nat → Prop) (flag : Nat → Prop) (row : Row) (B : List Row)
    (hr : row.error = some e) (hB : ∀ r, r ∈ B → r.error ≠ some e) (hbr : B ≠ [] → row.branches = []) :
    SpineStmt e [row.frame] next flag (row :: B) :=
  ⟨[row], B, 1, rfl, by simp, by simpa using hr, hB, Nat.le_refl 1, by simp, by simp, by simp, by simp,
    fun h => ⟨row, rfl, hbr h⟩, Or.inl rfl⟩

/-- the linear descent stops at a call with outcome `e` that shows its branches -/
theorem SpineStmt_stop (e : Nat) (sp : List Nat) (next : Nat → List Nat → Prop) (flag : Nat → Prop) (row : Row) (h : Nat)
    (hr : row.error = some e) (hm : row.branches.getLast? = some h) (hn : next h sp) :
    SpineStmt e (row.frame :: sp) next flag [row] :=
  ⟨[row], [], 1, rfl, by simp, by simpa using hr, by simp, Nat.le_refl 1, by simp, by simp, by simp, by simp,
    fun h => absurd rfl h, Or.inr ⟨rfl, row, h, rfl, hm, by simpa using hn⟩⟩

/-- `next` for the sibling list `K` with first frame `n` -/
def nextOf (e n : Nat) (K : Kids) : Nat → List Nat → Prop :=
  fun h l => startOK e n K h = true ∧ spineAt e n K h = l


theorem nextOf_lift_ks (e n : Nat) (ch : Bool) (i : Info) (ks : Kids) (h : Nat) (l : List Nat)
    (hn : nextOf e (n + 1) ks h l) : nextOf e n (.cons ch i ks (some e) .nil) h l := by
  obtain ⟨h1, h2⟩ := hn
  have hr := startOK_range e ks (n + 1) h h1
  refine ⟨?_, ?_⟩
  · simp only [startOK, if_neg (by omega : ¬ h = n), if_pos hr.2]
    simp [Kids.size, h1]
  · simp only [spineAt, if_neg (by omega : ¬ h = n), if_pos hr.2]
    exact h2

theorem nextOf_lift_rest (e n : Nat) (ch : Bool) (i : Info) (ks : Kids) (res : Option Nat) (rest : Kids)
    (h : Nat) (l : List Nat)
    (hn : nextOf e (n + 1 + ks.size) rest h l) : nextOf e n (.cons ch i ks res rest) h l := by
  obtain ⟨h1, h2⟩ := hn
  have hr := startOK_range e rest _ h h1
  refine ⟨?_, ?_⟩
  · simp only [startOK, if_neg (by omega : ¬ h = n), if_neg (by omega : ¬ h < n + 1 + ks.size)]
    exact h1
  · simp only [spineAt, if_neg (by omega : ¬ h = n), if_neg (by omega : ¬ h < n + 1 + ks.size)]
    exact h2

theorem isStep_range : ∀ (K : Kids) (n j : Nat), isStep n K j = true → n ≤ j ∧ j < n + K.size := by
  intro K
  induction K with
  | nil => intro n j h; simp [isStep] at h
  | cons ch i ks res rest ihks ihrest =>
    intro n j h
    simp only [isStep] at h
    simp only [Kids.size]
    split at h
    · omega
    · split at h
      · have := ihks _ _ h; omega
      · have := ihrest _ _ h; omega

theorem isStep_lift_ks (n : Nat) (ch : Bool) (i : Info) (ks : Kids) (res : Option Nat) (rest : Kids) (f : Nat)
    (h : isStep (n + 1) ks f = true) : isStep n (.cons ch i ks res rest) f = true := by
  have hr := isStep_range ks (n + 1) f h
  simp only [isStep, if_neg (by omega : ¬ f = n), if_pos hr.2]
  exact h

theorem isStep_lift_rest (n : Nat) (ch : Bool) (i : Info) (ks : Kids) (res : Option Nat) (rest : Kids) (f : Nat)
    (h : isStep (n + 1 + ks.size) rest f = true) : isStep n (.cons ch i ks res rest) f = true := by
  have hr := isStep_range rest _ f h
  simp only [isStep, if_neg (by omega : ¬ f = n), if_neg (by omega : ¬ f < n + 1 + ks.size)]
  exact h

/-- **the rows started at a frame on the path of the error follow that path** -/
theorem rowsAt_spine (e : Nat) : ∀ (K : Kids) (n j : Nat), onePath e K = true → startOK e n K j = true →
    SpineStmt e (spineAt e n K j) (nextOf e n K) (fun f => isStep n K f = true) (rowsAt n K j) := by
  intro K
  induction K with
  | nil => intro n j _ h; simp [startOK] at h
  | cons ch i ks res rest ihks ihrest =>
    intro n j hop hst
    by_cases hjn : j = n
    · subst hjn
      simp only [startOK, if_true, beq_iff_eq] at hst
      cases hrs : rest.startsChained with
      | true =>
        -- a step of the chain: the row of the step, then the rows from the next step
        cases rest with
        | nil => simp [Kids.startsChained] at hrs
        | cons ch2 i2 ks2 res2 rest2 =>
          have hseg : segRes (.cons ch2 i2 ks2 res2 rest2) = some e := by
            simpa [segRes, hrs] using hst
          have hop' : onePath e (.cons ch2 i2 ks2 res2 rest2) = true := by
            simp only [onePath, Bool.and_eq_true] at hop
            exact hop.2
          have ih := ihrest (j + 1 + ks.size) (j + 1 + ks.size) hop' (by simp [startOK, hseg])
          have hrows : rowsAt j (.cons ch i ks res (.cons ch2 i2 ks2 res2 rest2)) j =
              ⟨j, some e, []⟩ :: rowsAt (j + 1 + ks.size) (.cons ch2 i2 ks2 res2 rest2) (j + 1 + ks.size) := by
            rw [rowsAt]
            simp only [if_true, hrs, hseg, Option.isNone_some, Bool.false_eq_true, if_false]
          have hsp : spineAt e j (.cons ch i ks res (.cons ch2 i2 ks2 res2 rest2)) j =
              spineAt e (j + 1 + ks.size) (.cons ch2 i2 ks2 res2 rest2) (j + 1 + ks.size) := by
            simp only [spineAt, if_true]
            rfl
          rw [hrows, hsp]
          apply SpineStmt_step e _ _ _ _ _ rfl rfl (by simp [isStep, hrs])
          exact SpineStmt_lift e _ _ _ _ _ _ (nextOf_lift_rest e j ch i ks res _)
            (isStep_lift_rest j ch i ks res _) ih
      | false =>
        -- the last step of its chain: a call with outcome `e`, hence the last sub-evaluation
        have hres : res = some e := by simpa [segRes, hrs] using hst
        subst hres
        have hnil : rest = .nil := by
          cases rest with
          | nil => rfl
          | cons ch2 i2 ks2 res2 rest2 =>
            simp [onePath] at hop
        subst hnil
        have hopk : onePath e ks = true := by simpa [onePath] using hop
        have hsp : spineAt e j (.cons ch i ks (some e) .nil) j = j :: spineK e (j + 1) ks := by
          simp [spineAt, spineK]
        rw [hsp]
        cases hlh : lastHead none (j + 1) ks with
        | none =>
          have hk := lastHead_none_first _ _ hlh
          subst hk
          have hrows : rowsAt j (.cons ch i .nil (some e) .nil) j = [⟨j, some e, []⟩] := by
            simp [rowsAt, Kids.startsChained, lastHead]
          rw [hrows]
          exact SpineStmt_raiser e _ _ ⟨j, some e, []⟩ [] rfl (by simp) (fun _ => rfl)
        | some h =>
          generalize hbr : (if failedHeads j none (j + 1) ks == [h] then [] else failedHeads j none (j + 1) ks) = br
          have hrows : rowsAt j (.cons ch i ks (some e) .nil) j =
              ⟨j, some e, br⟩ :: (if br.contains h then [] else if (lastRes ks).isNone then [] else rowsAt (j + 1) ks h) := by
            rw [rowsAt]
            simp only [if_true, Kids.startsChained, Bool.false_eq_true, if_false, hlh, hbr]
          rw [hrows]
          have hsegh : segResAt (j + 1) ks h = lastRes ks := segResAt_lastHead ks none (j + 1) h hlh
          by_cases hlr : lastRes ks = some e
          · -- the error came from the last sub-evaluation
            have hstart : startOK e (j + 1) ks h = true := startOK_of_segResAt e ks _ _ (by rw [hsegh, hlr])
            have hspk : spineAt e (j + 1) ks h = spineK e (j + 1) ks :=
              spineAt_of_segResAt e ks _ _ (by rw [hsegh, hlr]; simp)
            cases hc : br.contains h with
            | true =>
              simp only [if_true]
              have hbrce : br = failedHeads j none (j + 1) ks := by
                rw [← hbr]
                split
                · rw [← hbr] at hc; rename_i h1; simp [h1] at hc
                · rfl
              have hgl : br.getLast? = some h := by
                rw [hbrce, failedHeads_getLast e ks j none (j + 1) hlr, hlh]; rfl
              exact SpineStmt_stop e _ _ _ ⟨j, some e, br⟩ h rfl hgl
                (nextOf_lift_ks e j ch i ks h _ ⟨hstart, hspk⟩)
            | false =>
              simp only [Bool.false_eq_true, if_false, hlr, Option.isNone_some]
              have ih := ihks (j + 1) h hopk hstart
              rw [hspk] at ih
              exact SpineStmt_call e _ _ _ _ ⟨j, some e, br⟩ rfl
                (SpineStmt_lift e _ _ _ _ _ _ (nextOf_lift_ks e j ch i ks) (isStep_lift_ks j ch i ks _ _) ih)
          · -- the call raised `e` itself
            rw [spineK_nil_of_lastRes e ks _ hlr]
            apply SpineStmt_raiser e _ _ ⟨j, some e, br⟩ _ rfl
            · intro r hm hre
              have hm' := mem_of_mem_ite _ _ _ (mem_of_mem_ite _ _ _ hm)
              exact not_mem_errsOf_of_onePath e ks hopk hlr (rowsAt_error_mem ks _ _ r hm' e hre)
            · -- rows below the call that raised: its only failed branch, shown linearly
              intro hne
              show br = []
              cases hc : br.contains h with
              | true => rw [hc] at hne; exact (hne rfl).elim
              | false =>
                cases hlk : lastRes ks with
                | none => rw [hc, hlk] at hne; exact (hne rfl).elim
                | some x =>
                  have hgl := failedHeads_getLast x ks j none (j + 1) hlk
                  rw [hlh] at hgl
                  have hmem : h ∈ failedHeads j none (j + 1) ks := List.mem_of_getLast? hgl
                  rw [← hbr] at hc ⊢
                  split
                  · rfl
                  · rename_i hce
                    simp [hce] at hc
                    exact absurd hmem hc
    · by_cases hjk : j < n + 1 + ks.size
      · -- below the first sub-evaluation, which then is the last one and has outcome `e`
        simp only [startOK, if_neg hjn, if_pos hjk, Bool.and_eq_true, beq_iff_eq] at hst
        obtain ⟨⟨h1, h2⟩, h3⟩ := hst
        have hnil := size_eq_zero rest (by simpa using h1)
        subst hnil
        subst h2
        have hopk : onePath e ks = true := by simpa [onePath] using hop
        have ih := ihks (n + 1) j hopk h3
        simp only [rowsAt, spineAt, if_neg hjn, if_pos hjk]
        exact SpineStmt_lift e _ _ _ _ _ _ (nextOf_lift_ks e n ch i ks) (isStep_lift_ks n ch i ks _ _) ih
      · simp only [startOK, if_neg hjn, if_neg hjk] at hst
        have hop' : onePath e rest = true := by
          cases rest with
          | nil => simp [startOK] at hst
          | cons ch2 i2 ks2 res2 rest2 =>
            simp only [onePath, Bool.and_eq_true] at hop
            exact hop.2
        have ih := ihrest (n + 1 + ks.size) j hop' hst
        simp only [rowsAt, spineAt, if_neg hjn, if_neg hjk]
        exact SpineStmt_lift e _ _ _ _ _ _ (nextOf_lift_rest e n ch i ks res rest) (isStep_lift_rest n ch i ks res rest) ih


/-! ### `_unpack_stack`'s list surgery on such rows -/

/-- push-down on a run of rows with one and the same error: only the last keeps it -/
def clearErr : List Row → List Row
  | [] => []
  | [a] => [a]
  | a :: b :: r => { a with error := none } :: clearErr (b :: r)

/-- trimming: trailing rows without an error are dropped -/
def stripNone (l : List Row) : List Row := (l.reverse.dropWhile (fun r => r.error.isNone)).reverse

theorem pushDown_run (e : Nat) : ∀ (A B : List Row), A ≠ [] → (∀ r, r ∈ A → r.error = some e) →
    (∀ r, r ∈ B → r.error ≠ some e) → pushDown (A ++ B) = clearErr A ++ pushDown B := by
  intro A
  induction A with
  | nil => intro B h; exact absurd rfl h
  | cons a A' ih =>
    intro B _ hA hB
    cases A' with
    | nil =>
      cases B with
      | nil => simp [pushDown, clearErr]
      | cons b B' =>
        have ha : a.error = some e := hA a (by simp)
        have hb : b.error ≠ some e := hB b (by simp)
        have : (a.error == b.error) = false := by
          rw [ha]; simp; exact fun h => hb h.symm
        simp [pushDown, clearErr, this]
    | cons a' A'' =>
      have ha : a.error = some e := hA a (by simp)
      have ha' : a'.error = some e := hA a' (by simp)
      have : (a.error == a'.error) = true := by rw [ha, ha']; simp
      simp only [List.cons_append, pushDown, this, if_true, clearErr]
      congr 1
      exact ih B (by simp) (fun r hr => hA r (List.mem_cons_of_mem _ hr)) hB

theorem clearErr_frames : ∀ (A : List Row), (clearErr A).map (·.frame) = A.map (·.frame)
  | [] => rfl
  | [_] => rfl
  | a :: b :: r => by simp [clearErr, clearErr_frames (b :: r)]

theorem clearErr_branches : ∀ (A : List Row), (clearErr A).map (·.branches) = A.map (·.branches)
  | [] => rfl
  | [_] => rfl
  | a :: b :: r => by simp [clearErr, clearErr_branches (b :: r)]

theorem clearErr_getLast : ∀ (A : List Row), (clearErr A).getLast? = A.getLast?
  | [] => rfl
  | [_] => rfl
  | a :: b :: r => by
    have : clearErr (b :: r) ≠ [] := by
      cases r <;> simp [clearErr]
    simp only [clearErr]
    rw [getLast?_cons_ne _ _ this, clearErr_getLast (b :: r)]
    simp [List.getLast?_cons_cons]

theorem clearErr_dropLast : ∀ (A : List Row) (r : Row), r ∈ (clearErr A).dropLast → r.error = none
  | [], r, h => by simp [clearErr] at h
  | [_], r, h => by simp [clearErr] at h
  | a :: b :: l, r, h => by
    have hne : clearErr (b :: l) ≠ [] := by
      cases l <;> simp [clearErr]
    simp only [clearErr] at h
    rw [List.dropLast_cons_of_ne_nil hne] at h
    rcases List.mem_cons.mp h with h | h
    · subst h; rfl
    · exact clearErr_dropLast (b :: l) r h

theorem clearErr_ne_nil (A : List Row) (h : A ≠ []) : clearErr A ≠ [] := by
  cases A with
  | nil => exact absurd rfl h
  | cons a l => cases l <;> simp [clearErr]

theorem dropNoneKeepOne_append (a : Row) (Pr : List Row) (ha : a.error.isNone = false) :
    ∀ (Qr : List Row), dropNoneKeepOne (Qr ++ a :: Pr) = Qr.dropWhile (fun r => r.error.isNone) ++ a :: Pr := by
  intro Qr
  induction Qr with
  | nil =>
    cases Pr with
    | nil => simp [dropNoneKeepOne]
    | cons p Pr' => simp [dropNoneKeepOne, ha]
  | cons x Qr' ih =>
    have : ∃ y l, Qr' ++ a :: Pr = y :: l := by
      cases Qr' with
      | nil => exact ⟨a, Pr, rfl⟩
      | cons y l => exact ⟨y, l ++ a :: Pr, rfl⟩
    obtain ⟨y, l, hyl⟩ := this
    simp only [List.cons_append, hyl, dropNoneKeepOne, List.dropWhile_cons]
    rw [← hyl]
    split
    · exact ih
    · rfl

/-- the rows `_unpack_stack` returns when its loop produced a run `A` of rows with the error `e`
    followed by rows `B` with other errors -/
theorem trim_pushDown_run (e : Nat) (A B : List Row) (hne : A ≠ []) (hA : ∀ r, r ∈ A → r.error = some e)
    (hB : ∀ r, r ∈ B → r.error ≠ some e) :
    trimTail (pushDown (A ++ B)) = clearErr A ++ stripNone (pushDown B) := by
  rw [pushDown_run e A B hne hA hB]
  have hl : ∃ P a, clearErr A = P ++ [a] ∧ a.error = some e := by
    have h1 := clearErr_getLast A
    have hne' := clearErr_ne_nil A hne
    refine ⟨(clearErr A).dropLast, (clearErr A).getLast hne', (List.dropLast_concat_getLast hne').symm, ?_⟩
    have h2 : (clearErr A).getLast? = some ((clearErr A).getLast hne') := List.getLast?_eq_some_getLast hne'
    rw [h1] at h2
    have hmem : (clearErr A).getLast hne' ∈ A := List.mem_of_getLast? h2
    exact hA _ hmem
  obtain ⟨P, a, hP, ha⟩ := hl
  rw [hP]
  unfold trimTail stripNone
  simp only [List.reverse_append, List.reverse_cons, List.reverse_nil, List.nil_append, List.singleton_append,
    List.append_assoc, List.cons_append]
  rw [dropNoneKeepOne_append a P.reverse (by simp [ha])]
  simp


theorem pushDown_mem : ∀ (l : List Row) (r : Row), r ∈ pushDown l →
    ∃ r', r' ∈ l ∧ r.frame = r'.frame ∧ r.branches = r'.branches ∧ (r.error = none ∨ r.error = r'.error)
  | [], r, h => by simp [pushDown] at h
  | [a], r, h => by
    simp [pushDown] at h; subst h
    exact ⟨r, by simp, rfl, rfl, Or.inr rfl⟩
  | a :: b :: l, r, h => by
    simp only [pushDown] at h
    rcases List.mem_cons.mp h with h | h
    · refine ⟨a, by simp, ?_⟩
      subst h
      split
      · exact ⟨rfl, rfl, Or.inl rfl⟩
      · exact ⟨rfl, rfl, Or.inr rfl⟩
    · obtain ⟨r', hm, h1, h2, h3⟩ := pushDown_mem (b :: l) r h
      exact ⟨r', List.mem_cons_of_mem _ hm, h1, h2, h3⟩

theorem pushDown_frames : ∀ (l : List Row), (pushDown l).map (·.frame) = l.map (·.frame)
  | [] => rfl
  | [_] => rfl
  | a :: b :: l => by
    simp only [pushDown, List.map_cons, pushDown_frames (b :: l)]
    split <;> rfl

theorem stripNone_prefix (l : List Row) : stripNone l <+: l := by
  unfold stripNone
  have h := List.dropWhile_suffix (fun r : Row => r.error.isNone) (l := l.reverse)
  have := List.reverse_prefix.mpr h
  simpa using this

/-- the rows kept below the call that raised: a prefix (by frames) of the loop's rows, showing
    errors of the loop's rows or none -/
theorem below_rows (e : Nat) (B : List Row) (hB : ∀ r, r ∈ B → r.error ≠ some e) :
    (∀ r, r ∈ stripNone (pushDown B) → r.error ≠ some e) ∧
    (stripNone (pushDown B)).map (·.frame) <+: B.map (·.frame) := by
  constructor
  · intro r hr
    have hm : r ∈ pushDown B := (stripNone_prefix _).subset hr
    obtain ⟨r', hm', _, _, h3⟩ := pushDown_mem B r hm
    rcases h3 with h3 | h3
    · rw [h3]; simp
    · rw [h3]; exact hB r' hm'
  · have := (stripNone_prefix (pushDown B)).map (·.frame)
    rwa [pushDown_frames] at this


theorem head?_dropWhile_not (p : Row → Bool) : ∀ (l : List Row) (b : Row), (l.dropWhile p).head? = some b → p b = false
  | [], b, h => by simp at h
  | a :: l, b, h => by
    simp only [List.dropWhile_cons] at h
    split at h
    · exact head?_dropWhile_not p l b h
    · simp at h; subst h; simpa using ‹¬ p a = true›

/-- after trimming, the last row below the call that raised shows an error -/
theorem stripNone_getLast (l : List Row) (b : Row) (h : (stripNone l).getLast? = some b) : ∃ x, b.error = some x := by
  unfold stripNone at h
  rw [List.getLast?_reverse] at h
  have := head?_dropWhile_not _ _ b h
  cases hb : b.error with
  | none => simp [hb] at this
  | some x => exact ⟨x, rfl⟩


/-! ### branches -/

theorem unpackLoop_branches (fs : Array Frame) : ∀ (fuel cur : Nat) (acc : List Row),
    (∀ r, r ∈ acc → r.branches = branchesOf fs r.frame) →
    ∀ r, r ∈ unpackLoop fs fuel cur acc → r.branches = branchesOf fs r.frame := by
  intro fuel
  induction fuel with
  | zero => intro cur acc hacc r hr; exact hacc r (by simpa [unpackLoop] using hr)
  | succ fuel ih =>
    intro cur acc hacc r hr
    unfold unpackLoop at hr
    cases hf : fs[cur]? with
    | none => rw [hf] at hr; exact hacc r hr
    | some f =>
      rw [hf] at hr
      simp only at hr
      cases hlc : f.lastChild with
      | none =>
        rw [hlc] at hr
        simp only [List.mem_append, List.mem_singleton] at hr
        rcases hr with hr | hr
        · exact hacc r hr
        · subst hr; simp [branchesOf, hf, hlc]
      | some child =>
        rw [hlc] at hr
        simp only at hr
        generalize hbr : (if f.childErrors == [child] then [] else f.childErrors) = br at hr
        have hacc' : ∀ r, r ∈ acc ++ [⟨cur, f.curError, br⟩] → r.branches = branchesOf fs r.frame := by
          intro r hr
          simp only [List.mem_append, List.mem_singleton] at hr
          rcases hr with hr | hr
          · exact hacc r hr
          · subst hr; simp [branchesOf, hf, hlc, ← hbr]
        cases hc : br.contains child with
        | true => rw [hc] at hr; exact hacc' r hr
        | false =>
          rw [hc] at hr
          simp only [Bool.false_eq_true, if_false] at hr
          split at hr
          · exact hacc' r hr
          · exact ih child _ hacc' r hr

theorem dropNoneKeepOne_suffix : ∀ (l : List Row), dropNoneKeepOne l <:+ l
  | [] => List.suffix_refl _
  | [_] => List.suffix_refl _
  | x :: y :: r => by
    simp only [dropNoneKeepOne]
    split
    · exact (dropNoneKeepOne_suffix (y :: r)).trans (List.suffix_cons _ _)
    · exact List.suffix_refl _

theorem trimTail_prefix (l : List Row) : trimTail l <+: l := by
  unfold trimTail
  have := List.reverse_prefix.mpr (dropNoneKeepOne_suffix l.reverse)
  simpa using this

/-- every row's branches are `branchesOf` its frame -/
theorem unpack_branches (fs : Array Frame) (start : Nat) (r : Row) (hr : r ∈ unpack fs start) :
    r.branches = branchesOf fs r.frame := by
  unfold unpack at hr
  have h1 : r ∈ pushDown (unpackLoop fs fs.size start []) := (trimTail_prefix _).subset hr
  obtain ⟨r', hm, hf, hb, _⟩ := pushDown_mem _ r h1
  rw [hb, hf]
  exact unpackLoop_branches fs _ _ [] (by simp) r' hm

theorem failedHeads_unchained : ∀ (K : Kids) (h : Nat) (prev : Option Nat) (n : Nat), noChain K = true →
    failedHeads h prev n K = failedKids n K := by
  intro K
  induction K with
  | nil => intro _ _ _ _; rfl
  | cons ch i ks res rest _ ihrest =>
    intro h prev n hn
    simp only [noChain, Bool.and_eq_true, Bool.not_eq_true'] at hn
    obtain ⟨hch, hr⟩ := hn
    subst hch
    simp only [failedHeads, failedKids, Bool.false_and, Bool.false_eq_true, if_false]
    rw [ihrest n (some n) _ hr]


/-- the frames flagged NO_PYFRAME are those of the calls that were continued by a chained step -/
theorem frameAt_noPy : ∀ (K : Kids) (p : Nat) (prev : Option Nat) (n j : Nat), isStep n K j = true →
    (frameAt p prev n K j).map (·.noPy) = some true := by
  intro K
  induction K with
  | nil => intro p prev n j h; simp [isStep] at h
  | cons ch i ks res rest ihks ihrest =>
    intro p prev n j h
    simp only [isStep] at h
    simp only [frameAt]
    split
    · rename_i hj
      simp only [hj, if_true] at h
      simp [h]
    · rename_i hj
      rw [if_neg hj] at h
      split
      · rename_i hj2; rw [if_pos hj2] at h; exact ihks _ _ _ _ h
      · rename_i hj2; rw [if_neg hj2] at h; exact ihrest _ _ _ _ h


/-! ### after the repair of `_unpack_stack` (the descent stops at a last child without CUR_ERROR) -/

/-- the first row from a sibling `j` shows the outcome of the chain `j` belongs to -/
theorem rowsAt_head_error : ∀ (K : Kids) (n j x : Nat), segResAt n K j = some x →
    (rowsAt n K j).head?.map (·.error) = some (some x) := by
  intro K
  induction K with
  | nil => intro n j x h; simp [segResAt] at h
  | cons ch i ks res rest _ ihrest =>
    intro n j x h
    simp only [segResAt] at h
    rw [rowsAt]
    split
    · rename_i hj
      simp only [hj, if_true, segRes] at h
      split
      · rename_i hrs; simp [hrs] at h; simp [h]
      · rename_i hrs
        simp [hrs] at h
        split <;> simp [h]
    · rename_i hj
      rw [if_neg hj] at h
      split
      · rename_i hj2; simp [hj2] at h
      · rename_i hj2; rw [if_neg hj2] at h; exact ihrest _ _ _ h

/-- **every row of the loop after the first shows an error** -/
theorem rowsAt_tail_error : ∀ (K : Kids) (n j : Nat) (r : Row), r ∈ (rowsAt n K j).tail → r.error ≠ none := by
  intro K
  induction K with
  | nil => intro n j r h; simp [rowsAt] at h
  | cons ch i ks res rest ihks ihrest =>
    intro n j r h
    rw [rowsAt] at h
    split at h
    · split at h
      · simp only [List.tail_cons] at h
        split at h
        · simp at h
        · rename_i hsn
          cases hx : segRes rest with
          | none => simp [hx] at hsn
          | some x =>
            have hrest : rest ≠ .nil := by intro h0; subst h0; simp [segRes] at hx
            have hsa : segResAt (n + 1 + ks.size) rest (n + 1 + ks.size) = some x := by
              cases rest with
              | nil => exact absurd rfl hrest
              | cons _ _ _ _ _ => simpa [segResAt] using hx
            have hh := rowsAt_head_error rest _ _ x hsa
            cases hl : rowsAt (n + 1 + ks.size) rest (n + 1 + ks.size) with
            | nil => rw [hl] at h; simp at h
            | cons a l =>
              rw [hl] at h hh
              rcases List.mem_cons.mp h with h | h
              · subst h; simp at hh; simp [hh]
              · exact ihrest _ _ r (by rw [hl]; exact h)
      · split at h
        · simp at h
        · rename_i h' hlh
          simp only [List.tail_cons] at h
          have h2 := mem_of_mem_ite _ _ _ h
          split at h2
          · simp at h2
          · rename_i hln
            cases hx : lastRes ks with
            | none => simp [hx] at hln
            | some x =>
              have hsa : segResAt (n + 1) ks h' = some x := by rw [segResAt_lastHead ks none (n + 1) h' hlh, hx]
              have hh := rowsAt_head_error ks _ _ x hsa
              cases hl : rowsAt (n + 1) ks h' with
              | nil => rw [hl] at h2; simp at h2
              | cons a l =>
                rw [hl] at h2 hh
                rcases List.mem_cons.mp h2 with h3 | h3
                · subst h3; simp at hh; simp [hh]
                · exact ihks _ _ r (by rw [hl]; exact h3)
    · split at h
      · exact ihks _ _ r h
      · exact ihrest _ _ r h

theorem getLast?_cons_eq (a : Row) (l : List Row) : (a :: l).getLast? = if l = [] then some a else l.getLast? := by
  cases l with
  | nil => rfl
  | cons b r => simp [List.getLast?_cons_cons]

theorem getLast?_cons_cases (a : Row) (L : List Row) (r : Row) (h : (a :: L).getLast? = some r) :
    (L = [] ∧ r = a) ∨ (L ≠ [] ∧ L.getLast? = some r) := by
  cases L with
  | nil => simp at h; exact Or.inl ⟨rfl, h.symm⟩
  | cons b l => rw [List.getLast?_cons_cons] at h; exact Or.inr ⟨by simp, h⟩

theorem rowsAt_first_ne_nil (n : Nat) (ch : Bool) (i : Info) (ks : Kids) (res : Option Nat) (rest : Kids) :
    rowsAt n (.cons ch i ks res rest) n ≠ [] := by
  rw [rowsAt]
  simp only [if_true]
  split
  · simp
  · split <;> simp

theorem ite_ite_eq_of_ne_nil (c1 c2 : Prop) [Decidable c1] [Decidable c2] (l : List Row)
    (hl : (if c1 then [] else if c2 then [] else l) ≠ []) : (if c1 then [] else if c2 then [] else l) = l := by
  by_cases h1 : c1
  · rw [if_pos h1] at hl; exact absurd rfl hl
  · by_cases h2 : c2
    · rw [if_neg h1, if_pos h2] at hl; exact absurd rfl hl
    · rw [if_neg h1, if_neg h2]

/-- **the last row of the loop, if it shows an error, is a call with that outcome** (not a
    completed chain step: the loop goes on from a step of a chain that raised) -/
theorem rowsAt_last : ∀ (K : Kids) (o : Option Nat) (n j : Nat) (r : Row),
    (rowsAt n K j).getLast? = some r → r.error ≠ none →
    ∃ c, c ∈ callsK o n K ∧ c.idx = r.frame ∧ c.result = r.error := by
  intro K
  induction K with
  | nil => intro o n j r h; simp [rowsAt] at h
  | cons ch i ks res rest ihks ihrest =>
    intro o n j r h hne
    rw [rowsAt] at h
    simp only [callsK, List.mem_cons, List.mem_append]
    by_cases hjn : j = n
    · rw [if_pos hjn] at h
      cases hrs : rest.startsChained with
      | true =>
        rw [hrs] at h
        simp only [if_true] at h
        by_cases hsn : (segRes rest).isNone = true
        · rw [if_pos hsn] at h
          simp at h; subst h
          simp at hne hsn
          exact absurd hsn hne
        · rw [if_neg hsn] at h
          cases rest with
          | nil => simp [Kids.startsChained] at hrs
          | cons c2 i2 k2 r2 rest2 =>
            rw [getLast?_cons_ne _ _ (rowsAt_first_ne_nil _ c2 i2 k2 r2 rest2)] at h
            obtain ⟨c, hc, h1, h2⟩ := ihrest o _ _ r h hne
            exact ⟨c, Or.inr (Or.inr hc), h1, h2⟩
      | false =>
        rw [hrs] at h
        simp only [Bool.false_eq_true, if_false] at h
        cases hlh : lastHead none (n + 1) ks with
        | none =>
          rw [hlh] at h
          simp at h; subst h
          exact ⟨_, Or.inl rfl, rfl, rfl⟩
        | some h' =>
          rw [hlh] at h
          simp only at h
          rcases getLast?_cons_cases _ _ _ h with ⟨_, hr⟩ | ⟨hl, hr⟩
          · subst hr
            exact ⟨_, Or.inl rfl, rfl, rfl⟩
          · rw [ite_ite_eq_of_ne_nil _ _ _ hl] at hr
            obtain ⟨c, hc, h1, h2⟩ := ihks (some n) _ _ r hr hne
            exact ⟨c, Or.inr (Or.inl hc), h1, h2⟩
    · rw [if_neg hjn] at h
      by_cases hjk : j < n + 1 + ks.size
      · rw [if_pos hjk] at h
        obtain ⟨c, hc, h1, h2⟩ := ihks (some n) _ _ r h hne
        exact ⟨c, Or.inr (Or.inl hc), h1, h2⟩
      · rw [if_neg hjk] at h
        obtain ⟨c, hc, h1, h2⟩ := ihrest o _ _ r h hne
        exact ⟨c, Or.inr (Or.inr hc), h1, h2⟩

theorem pushDown_getLast : ∀ (l : List Row), (pushDown l).getLast? = l.getLast?
  | [] => rfl
  | [_] => rfl
  | a :: b :: l => by
    have hne : pushDown (b :: l) ≠ [] := by
      cases l <;> simp [pushDown]
    simp only [pushDown]
    rw [getLast?_cons_ne _ _ hne, pushDown_getLast (b :: l)]
    simp [List.getLast?_cons_cons]

/-- nothing is trimmed when the last row shows an error -/
theorem trimTail_of_last (l : List Row) (r : Row) (h : l.getLast? = some r) (hr : r.error ≠ none) : trimTail l = l := by
  unfold trimTail
  have hrev : l.reverse.head? = some r := by rw [List.head?_reverse]; exact h
  cases hl : l.reverse with
  | nil => rw [hl] at hrev; simp at hrev
  | cons a rest =>
    rw [hl] at hrev
    simp at hrev
    subst hrev
    have : dropNoneKeepOne (a :: rest) = a :: rest := by
      cases rest with
      | nil => rfl
      | cons b rest' =>
        simp only [dropNoneKeepOne]
        have : a.error.isNone = false := by
          cases he : a.error with
          | none => exact absurd he hr
          | some _ => rfl
        simp [this]
    rw [this, ← hl]
    simp

end Glom.C05
