import Glom.Spec.C20Err
/-
  C20 — lemmas about the error object: the caches of the model are always valid for the
  cache-free reference object (simulation), so every render returns the reference message.
-/
namespace Glom.C20.ErrM

/-- the model object `o` stands for the reference object `r`: same data, and what the caches hold
    (as far as `__str__` reads them) is what a render would compute now -/
structure SimObj (cfg : Cfg) (r : RObj) (o : EObj) : Prop where
  args : o.args = r.args
  wrapped : o.wrapped = r.wrapped
  scope : o.scope = r.fin.map (·.1)
  tb : o.tbLines = r.fin
  memo : cfg.strReturnsMemo = true → ∀ t, o.finalizedStr = some t → t = refText r
  trace : cfg.strReusesTrace = true → ∀ tr, o.traceMemo = some tr → ∃ l t, r.fin = some (l, t) ∧ tr = (l, r.wrapped)

def Sim (cfg : Cfg) (h : Heap) (rh : RHeap) : Prop := ∀ a, SimObj cfg (rh a) (h a)

theorem sim_init (cfg : Cfg) : Sim cfg Heap.init RHeap.init := by
  intro a
  exact ⟨rfl, rfl, rfl, rfl, fun _ t h => by simp [Heap.init] at h, fun _ tr h => by simp [Heap.init] at h⟩

@[simp] theorem Heap.set_same (h : Heap) (a : Nat) (o : EObj) : (h.set a o) a = o := by simp [Heap.set]
theorem Heap.set_other (h : Heap) (a b : Nat) (o : EObj) (hb : b ≠ a) : (h.set a o) b = h b := by simp [Heap.set, hb]
@[simp] theorem RHeap.set_same (h : RHeap) (a : Nat) (o : RObj) : (h.set a o) a = o := by simp [RHeap.set]
theorem RHeap.set_other (h : RHeap) (a b : Nat) (o : RObj) (hb : b ≠ a) : (h.set a o) b = h b := by simp [RHeap.set, hb]

/-- `__str__` on an object whose caches are valid: the reference message; the caches stay valid -/
theorem strObj_sim (cfg : Cfg) (o : EObj) (r : RObj) (hs : SimObj cfg r o) :
    (strObj cfg o).1 = refText r ∧ SimObj cfg r (strObj cfg o).2 := by
  unfold strObj
  split
  · next t hm =>
    have hg : cfg.strReturnsMemo = true := by
      cases hc : cfg.strReturnsMemo with
      | true => rfl
      | false => simp [memoOf, hc] at hm
    simp only [memoOf, hg, if_true] at hm
    exact ⟨hs.memo hg t hm, hs⟩
  · split
    · next hsc =>
      have hf : r.fin = none := by
        have := hs.scope; rw [hsc] at this
        cases hfin : r.fin with
        | none => rfl
        | some x => rw [hfin] at this; simp at this
      exact ⟨by simp [refText, hf, hs.args], hs⟩
    · next s hsc =>
      obtain ⟨l, t', hf⟩ : ∃ l t', r.fin = some (l, t') := by
        have := hs.scope; rw [hsc] at this
        cases hfin : r.fin with
        | none => rw [hfin] at this; simp at this
        | some x => exact ⟨x.1, x.2, rfl⟩
      have hsl : s = l := by
        have := hs.scope; rw [hsc, hf] at this; simpa using this
      have htb : o.tbLines = some (l, t') := by rw [hs.tb, hf]
      -- the trace: reused or computed, it is the trace of the scope of the last finalization
      have htr : traceOf cfg o s = (l, r.wrapped) := by
        unfold traceOf
        split
        · next tr hq =>
          have hg : cfg.strReusesTrace = true := by
            cases hc : cfg.strReusesTrace with
            | true => rfl
            | false => simp [hc] at hq
          simp only [hg, if_true] at hq
          obtain ⟨l2, t2, hf2, htr⟩ := hs.trace hg tr hq
          rw [hf] at hf2
          have : l = l2 := by injection hf2 with h1; exact (Prod.mk.inj h1).1
          rw [htr, this]
        · rw [hsl, hs.wrapped]
      have htext : textOf o (traceOf cfg o s) = refText r := by
        rw [htr]; simp [textOf, htb, refText, hf]
      refine ⟨htext, hs.args, hs.wrapped, hs.scope, hs.tb, ?_, ?_⟩
      · intro hg t ht
        simp only at ht
        cases hst : cfg.strStoresMemo with
        | true => simp only [hst, if_true] at ht; injection ht with ht; rw [← ht]; exact htext
        | false => simp only [hst] at ht; exact hs.memo hg t ht
      · intro _ tr htr'
        simp only at htr'
        injection htr' with htr'
        exact ⟨l, t', hf, by rw [← htr', htr]⟩

theorem render_sim (cfg : Cfg) (h : Heap) (e : Nat) (r : RObj) (hs : SimObj cfg r (h e)) :
    (render cfg h e).1 = refText r ∧ SimObj cfg r ((render cfg h e).2 e) ∧
    ∀ a, a ≠ e → (render cfg h e).2 a = h a := by
  have := strObj_sim cfg (h e) r hs
  simp only [render, Heap.set_same]
  exact ⟨this.1, this.2, fun a ha => Heap.set_other _ _ _ _ ha⟩

/-- `_finalize`: valid caches for the exception being handled, the structural part for the error
    that is finalized (its caches may be stale: they are reset) -/
theorem finalize_sim (cfg : Cfg) (hwf : cfg.WF = true) (h : Heap) (rh : RHeap) (lvl e err : Nat)
    (hs : ∀ a, a ≠ err ∨ a = e → SimObj cfg (rh a) (h a))
    (hargs : (h err).args = (rh err).args) (hwr : (h err).wrapped = (rh err).wrapped) :
    Sim cfg (finalize cfg h lvl e err) (rh.set err { rh err with fin := some (lvl, refRender rh e) }) := by
  have hr := render_sim cfg h e (rh e) (hs e (Or.inr rfl))
  intro a
  unfold finalize
  by_cases ha : a = err
  · subst ha
    simp only [Heap.set_same, RHeap.set_same]
    have hargs' : ((render cfg h e).2 a).args = (rh a).args := by
      by_cases hae : a = e
      · subst hae; exact hr.2.1.args
      · rw [hr.2.2 a hae]; exact hargs
    have hwr' : ((render cfg h e).2 a).wrapped = (rh a).wrapped := by
      by_cases hae : a = e
      · subst hae; exact hr.2.1.wrapped
      · rw [hr.2.2 a hae]; exact hwr
    simp only [Cfg.WF, Bool.and_eq_true, Bool.or_eq_true, Bool.not_eq_true'] at hwf
    refine ⟨hargs', hwr', rfl, by rw [hr.1]; rfl, ?_, ?_⟩
    · intro hg t ht
      have : cfg.finalizeResetsMemo = true := by
        rcases hwf.1 with h1 | h1
        · rw [hg] at h1; cases h1
        · exact h1
      simp [this] at ht
    · intro hg tr ht
      have : cfg.finalizeResetsTrace = true := by
        rcases hwf.2 with h1 | h1
        · rw [hg] at h1; cases h1
        · exact h1
      simp [this] at ht
  · rw [Heap.set_other _ _ _ _ ha, RHeap.set_other _ _ _ _ ha]
    by_cases hae : a = e
    · subst hae; exact hr.2.1
    · rw [hr.2.2 a hae]; exact hs a (Or.inl ha)

theorem copy_sim (cfg : Cfg) (h : Heap) (rh : RHeap) (src dst : Nat) (k : CopyKind) (hs : Sim cfg h rh) :
    Sim cfg (copyObj h src dst k) (refCopy rh src dst k) := by
  intro a
  cases k with
  | carry =>
    simp only [copyObj, refCopy]
    by_cases ha : a = dst
    · subst ha; simp only [Heap.set_same, RHeap.set_same]; exact hs src
    · rw [Heap.set_other _ _ _ _ ha, RHeap.set_other _ _ _ _ ha]; exact hs a
  | fresh =>
    simp only [copyObj, refCopy]
    by_cases ha : a = dst
    · subst ha
      simp only [Heap.set_same, RHeap.set_same]
      exact ⟨(hs src).args, rfl, rfl, rfl, fun _ t h => by simp at h, fun _ tr h => by simp at h⟩
    · rw [Heap.set_other _ _ _ _ ha, RHeap.set_other _ _ _ _ ha]; exact hs a

/-- what `opOK` says about an exit -/
def ExitHyp (rh : RHeap) (e out : Nat) : ExitKind → Prop
  | .same => (rh e).fin = none ∨ (rh e).wrapped = some e
  | .copy _ => out ≠ e

/-- the handler of `glom()` -/
theorem exit_sim (cfg : Cfg) (hwf : cfg.WF = true) (h : Heap) (rh : RHeap) (lvl e out : Nat) (k : ExitKind)
    (hs : Sim cfg h rh) (hok : ExitHyp rh e out k) :
    Sim cfg (exit cfg h lvl e out k) (refExit rh lvl e out k) := by
  cases k with
  | same =>
    simp only [exit, refExit]
    apply finalize_sim cfg hwf
    · intro a _
      by_cases ha : a = e
      · subst ha
        simp only [Heap.set_same, RHeap.set_same]
        have s := hs a
        rcases hok with hf | hw
        · refine ⟨s.args, rfl, s.scope, s.tb, ?_, ?_⟩
          · intro hg t ht
            rw [s.memo hg t ht]; simp [refText, hf]
          · intro hg tr ht
            obtain ⟨l, t, hf2, _⟩ := s.trace hg tr ht
            rw [hf] at hf2; cases hf2
        · have h1 : ({ h a with wrapped := some a } : EObj) = h a := by
            have := s.wrapped; rw [hw] at this
            cases hh : h a; rw [hh] at this; simp at this; simp [this]
          have h2 : ({ rh a with wrapped := some a } : RObj) = rh a := by
            cases hh : rh a; rw [hh] at hw; simp at hw; simp [hw]
          rw [h1, h2]; exact s
      · rw [Heap.set_other _ _ _ _ ha, RHeap.set_other _ _ _ _ ha]; exact hs a
    · simp only [Heap.set_same, RHeap.set_same]; exact (hs e).args
    · simp only [Heap.set_same, RHeap.set_same]
  | copy ck =>
    simp only [exit, refExit]
    have hc := copy_sim cfg h rh e out ck hs
    apply finalize_sim cfg hwf
    · intro a ha
      have hao : a ≠ out := by
        rcases ha with ha | ha
        · exact ha
        · rw [ha]; exact fun h => hok h.symm
      rw [Heap.set_other _ _ _ _ hao, RHeap.set_other _ _ _ _ hao]; exact hc a
    · simp only [Heap.set_same, RHeap.set_same]; exact (hc out).args
    · simp only [Heap.set_same, RHeap.set_same]

theorem opOK_exit_hyp (s : RSt) (seen : List Nat) (lvl e out : Nat) (k : ExitKind)
    (h : opOK s seen (.exit lvl e out k) = true) :
    ExitHyp s.heap e out k ∧ lvl ∉ seen := by
  cases k with
  | same =>
    simp only [opOK, Bool.and_eq_true, Bool.or_eq_true, Bool.not_eq_true', beq_iff_eq] at h
    refine ⟨?_, by simpa using h.2⟩
    rcases h.1 with h1 | h1
    · left; cases hf : (s.heap e).fin with
      | none => rfl
      | some x => rw [hf] at h1; simp at h1
    · right; exact h1
  | copy ck =>
    simp only [opOK, Bool.and_eq_true, Bool.not_eq_true', bne_iff_ne] at h
    exact ⟨h.1, by simpa using h.2⟩

/-- one operation: same text (if it is a render), simulation preserved -/
theorem step_sim (cfg : Cfg) (hwf : cfg.WF = true) (s : St) (rs : RSt) (seen : List Nat) (op : Op)
    (hs : Sim cfg s.heap rs.heap) (ht : s.texts = rs.texts) (hok : opOK rs seen op = true) :
    Sim cfg (step cfg s op).heap (refStep rs op).heap ∧ (step cfg s op).texts = (refStep rs op).texts := by
  cases op with
  | render e =>
    have hr := render_sim cfg s.heap e (rs.heap e) (hs e)
    refine ⟨?_, by simp only [step, refStep, refRender]; rw [hr.1, ht]⟩
    intro a
    simp only [step, refStep]
    by_cases ha : a = e
    · subst ha; exact hr.2.1
    · rw [hr.2.2 a ha]; exact hs a
  | ucopy src dst k => exact ⟨copy_sim cfg _ _ src dst k hs, ht⟩
  | exit lvl e out k => exact ⟨exit_sim cfg hwf _ _ lvl e out k hs (opOK_exit_hyp rs seen lvl e out k hok).1, ht⟩

theorem run_sim (cfg : Cfg) (hwf : cfg.WF = true) (ops : List Op) (s : St) (rs : RSt) (seen : List Nat)
    (hs : Sim cfg s.heap rs.heap) (ht : s.texts = rs.texts) (hok : opsOK ops rs seen = true) :
    Sim cfg (run cfg ops s).heap (refRun ops rs).heap ∧ (run cfg ops s).texts = (refRun ops rs).texts := by
  induction ops generalizing s rs seen with
  | nil => exact ⟨hs, ht⟩
  | cons op r ih =>
    simp only [opsOK, Bool.and_eq_true] at hok
    obtain ⟨h1, h2⟩ := step_sim cfg hwf s rs seen op hs ht hok.1
    exact ih _ _ _ h1 h2 hok.2

/-! ### the reference: rendering changes nothing; the table of calls -/

def isRender : Op → Bool
  | .render _ => true
  | _ => false

theorem refStep_render_heap (s : RSt) (e : Nat) : (refStep s (.render e)).heap = s.heap ∧ (refStep s (.render e)).table = s.table :=
  ⟨rfl, rfl⟩

/-- erasing the renders of a history changes neither the objects nor the table of the reference -/
theorem refRun_erase (ops : List Op) (s s' : RSt) (hh : s.heap = s'.heap) (htab : s.table = s'.table) :
    (refRun (ops.filter (fun op => !isRender op)) s').heap = (refRun ops s).heap ∧
    (refRun (ops.filter (fun op => !isRender op)) s').table = (refRun ops s).table := by
  induction ops generalizing s s' with
  | nil => exact ⟨hh.symm, htab.symm⟩
  | cons op r ih =>
    cases op with
    | render e => simp only [List.filter, isRender, Bool.not_true, refRun]; exact ih _ _ hh htab
    | ucopy src dst k =>
      simp only [List.filter, isRender, Bool.not_false, refRun]
      exact ih _ _ (by simp only [refStep]; rw [hh]) (by simp only [refStep]; exact htab)
    | exit lvl e out k =>
      simp only [List.filter, isRender, Bool.not_false, refRun]
      exact ih _ _ (by simp only [refStep]; rw [hh]) (by simp only [refStep]; rw [hh, htab])

theorem opsOK_erase (ops : List Op) (s s' : RSt) (seen : List Nat) (hh : s.heap = s'.heap)
    (hok : opsOK ops s seen = true) : opsOK (ops.filter (fun op => !isRender op)) s' seen = true := by
  induction ops generalizing s s' seen with
  | nil => rfl
  | cons op r ih =>
    simp only [opsOK, Bool.and_eq_true] at hok
    cases op with
    | render e => simp only [List.filter, isRender, Bool.not_true]; exact ih (refStep s (.render e)) s' seen hh hok.2
    | ucopy src dst k =>
      simp only [List.filter, isRender, Bool.not_false, opsOK, Bool.and_eq_true]
      exact ⟨rfl, ih _ _ _ (by simp only [refStep]; rw [hh]) hok.2⟩
    | exit lvl e out k =>
      simp only [List.filter, isRender, Bool.not_false, opsOK, Bool.and_eq_true]
      refine ⟨?_, ih _ _ _ (by simp only [refStep]; rw [hh]) hok.2⟩
      have := hok.1
      cases k with
      | same => simp only [opOK] at this ⊢; rw [← hh]; exact this
      | copy ck => exact this

theorem opsOK_renders (ops : List Op) (h2 : ∀ op ∈ ops, isRender op = true) (s : RSt) (seen : List Nat) :
    opsOK ops s seen = true := by
  induction ops generalizing s seen with
  | nil => rfl
  | cons op r ih =>
    have := h2 op (List.mem_cons_self ..)
    cases op with
    | render e =>
      simp only [opsOK, opOK, Bool.true_and]
      exact ih (fun o ho => h2 o (List.mem_cons_of_mem _ ho)) _ _
    | ucopy _ _ _ => simp [isRender] at this
    | exit _ _ _ _ => simp [isRender] at this

theorem opsOK_append (ops ops' : List Op) (s : RSt) (seen : List Nat)
    (h1 : opsOK ops s seen = true) (h2 : ∀ op ∈ ops', isRender op = true) : opsOK (ops ++ ops') s seen = true := by
  induction ops generalizing s seen with
  | nil => exact opsOK_renders ops' h2 s seen
  | cons op r ih =>
    simp only [List.cons_append, opsOK, Bool.and_eq_true] at h1 ⊢
    exact ⟨h1.1, ih _ _ h1.2⟩

theorem run_append (cfg : Cfg) (ops ops' : List Op) (s : St) : run cfg (ops ++ ops') s = run cfg ops' (run cfg ops s) := by
  induction ops generalizing s with
  | nil => rfl
  | cons op r ih => exact ih _

theorem refRun_append (ops ops' : List Op) (s : RSt) : refRun (ops ++ ops') s = refRun ops' (refRun ops s) := by
  induction ops generalizing s with
  | nil => rfl
  | cons op r ih => exact ih _

/-! ### the table: every finalized object shows the message recorded for its call -/

theorem lookupLvl_append {τ : Type} (l : Nat) (tab more : List (Nat × τ)) (x : τ) (h : lookupLvl l tab = some x) :
    lookupLvl l (tab ++ more) = some x := by
  induction tab with
  | nil => simp [lookupLvl] at h
  | cons p r ih =>
    obtain ⟨k, v⟩ := p
    simp only [List.cons_append, lookupLvl] at h ⊢
    split
    · next hk => simp only [hk, if_true] at h; exact h
    · next hk => simp only [hk, if_false] at h; exact ih h

theorem lookupLvl_new {τ : Type} (l : Nat) (tab : List (Nat × τ)) (x : τ) (h : ∀ p ∈ tab, p.1 ≠ l) :
    lookupLvl l (tab ++ [(l, x)]) = some x := by
  induction tab with
  | nil => simp [lookupLvl]
  | cons p r ih =>
    obtain ⟨k, v⟩ := p
    simp only [List.cons_append, lookupLvl]
    have : k ≠ l := h (k, v) (List.mem_cons_self ..)
    simp only [this, if_false]
    exact ih (fun q hq => h q (List.mem_cons_of_mem _ hq))

theorem lookupLvl_map {τ σ : Type} (f : τ → σ) (l : Nat) (tab : List (Nat × τ)) :
    lookupLvl l (tab.map fun p => (p.1, f p.2)) = (lookupLvl l tab).map f := by
  induction tab with
  | nil => rfl
  | cons p r ih =>
    obtain ⟨k, v⟩ := p
    simp only [List.map, lookupLvl]
    split <;> simp [ih]

/-- every finalized object shows what the table holds for the call that finalized it; the calls in
    the table have all been seen -/
structure TInv (s : RSt) (seen : List Nat) : Prop where
  objs : ∀ a l t, (s.heap a).fin = some (l, t) → lookupLvl l s.table = some (refText (s.heap a))
  keys : ∀ p ∈ s.table, p.1 ∈ seen

theorem tinv_init : TInv ⟨RHeap.init, [], []⟩ [] :=
  ⟨fun a l t h => by simp [RHeap.init] at h, fun p hp => by simp at hp⟩

theorem refText_wrapped_irrelevant (r : RObj) (w : Option Nat) (h : r.fin = none) :
    refText { r with wrapped := w } = refText r := by simp [refText, h]

theorem tinv_step (s : RSt) (seen : List Nat) (op : Op) (hi : TInv s seen) (hok : opOK s seen op = true) :
    TInv (refStep s op) (seenAfter seen op) := by
  cases op with
  | render e => exact ⟨hi.objs, hi.keys⟩
  | ucopy src dst k =>
    refine ⟨?_, hi.keys⟩
    intro a l t hf
    simp only [refStep] at hf ⊢
    cases k with
    | carry =>
      simp only [refCopy] at hf ⊢
      by_cases ha : a = dst
      · subst ha; rw [RHeap.set_same] at hf ⊢; exact hi.objs src l t hf
      · rw [RHeap.set_other _ _ _ _ ha] at hf ⊢; exact hi.objs a l t hf
    | fresh =>
      simp only [refCopy] at hf ⊢
      by_cases ha : a = dst
      · subst ha; rw [RHeap.set_same] at hf; simp at hf
      · rw [RHeap.set_other _ _ _ _ ha] at hf ⊢; exact hi.objs a l t hf
  | exit lvl e out k =>
    obtain ⟨hk, hnew⟩ := opOK_exit_hyp s seen lvl e out k hok
    have hfresh : ∀ p ∈ s.table, p.1 ≠ lvl := fun p hp h => hnew (h ▸ hi.keys p hp)
    refine ⟨?_, ?_⟩
    · intro a l t hf
      simp only [refStep] at hf ⊢
      cases k with
      | same =>
        simp only [refExit, exitTarget] at hf ⊢
        by_cases ha : a = e
        · subst ha
          rw [RHeap.set_same] at hf ⊢
          simp only at hf
          have : l = lvl := by injection hf with h1; exact ((Prod.mk.inj h1).1).symm
          subst this
          simp only [refRender, RHeap.set_same]
          exact lookupLvl_new _ _ _ hfresh
        · rw [RHeap.set_other _ _ _ _ ha, RHeap.set_other _ _ _ _ ha] at hf ⊢
          exact lookupLvl_append _ _ _ _ (hi.objs a l t hf)
      | copy ck =>
        simp only [refExit, exitTarget] at hf ⊢
        by_cases ha : a = out
        · subst ha
          rw [RHeap.set_same] at hf ⊢
          simp only at hf
          have : l = lvl := by injection hf with h1; exact ((Prod.mk.inj h1).1).symm
          subst this
          simp only [refRender, RHeap.set_same]
          exact lookupLvl_new _ _ _ hfresh
        · rw [RHeap.set_other _ _ _ _ ha, RHeap.set_other _ _ _ _ ha] at hf ⊢
          have hobj : ∀ b l t, ((refCopy s.heap e out ck) b).fin = some (l, t) →
              lookupLvl l s.table = some (refText ((refCopy s.heap e out ck) b)) := by
            intro b l t hb
            cases ck with
            | carry =>
              simp only [refCopy] at hb ⊢
              by_cases hbo : b = out
              · subst hbo; rw [RHeap.set_same] at hb ⊢; exact hi.objs e l t hb
              · rw [RHeap.set_other _ _ _ _ hbo] at hb ⊢; exact hi.objs b l t hb
            | fresh =>
              simp only [refCopy] at hb ⊢
              by_cases hbo : b = out
              · subst hbo; rw [RHeap.set_same] at hb; simp at hb
              · rw [RHeap.set_other _ _ _ _ hbo] at hb ⊢; exact hi.objs b l t hb
          exact lookupLvl_append _ _ _ _ (hobj a l t hf)
    · intro p hp
      simp only [refStep, List.mem_append, List.mem_singleton] at hp
      simp only [seenAfter]
      rcases hp with hp | hp
      · exact List.mem_cons_of_mem _ (hi.keys p hp)
      · rw [hp]; exact List.mem_cons_self ..

theorem refRun_table_mono (ops : List Op) (s : RSt) : ∃ more, (refRun ops s).table = s.table ++ more := by
  induction ops generalizing s with
  | nil => exact ⟨[], by simp [refRun]⟩
  | cons op r ih =>
    obtain ⟨more, hm⟩ := ih (refStep s op)
    cases op with
    | render e => exact ⟨more, by simpa [refRun, refStep] using hm⟩
    | ucopy _ _ _ => exact ⟨more, by simpa [refRun, refStep] using hm⟩
    | exit lvl e out k =>
      refine ⟨(lvl, refRender (refExit s.heap lvl e out k) (exitTarget e out k)) :: more, ?_⟩
      simp only [refRun]; rw [hm]
      simp only [refStep, List.append_assoc, List.singleton_append]

/-- the renders of the reference run, their levels, and the final table -/
theorem refRun_levels (ops : List Op) (s : RSt) (seen : List Nat) (hi : TInv s seen) (hok : opsOK ops s seen = true) :
    ∃ new, (refRun ops s).texts = s.texts ++ new ∧ new.length = (renderLevels ops s).length ∧
      ∀ p ∈ (renderLevels ops s).zip new, ∀ l, p.1 = some l → lookupLvl l (refRun ops s).table = some p.2 := by
  induction ops generalizing s seen with
  | nil => exact ⟨[], by simp [refRun], rfl, fun p hp => by simp [renderLevels] at hp⟩
  | cons op r ih =>
    simp only [opsOK, Bool.and_eq_true] at hok
    obtain ⟨new, h1, h2, h3⟩ := ih (refStep s op) (seenAfter seen op) (tinv_step s seen op hi hok.1) hok.2
    cases op with
    | render e =>
      refine ⟨refRender s.heap e :: new, ?_, ?_, ?_⟩
      · simp only [refRun]; rw [h1]; simp [refStep]
      · simp only [renderLevels, List.singleton_append, List.length_cons, h2]
      · intro p hp l hl
        simp only [renderLevels, List.singleton_append, List.zip_cons_cons, List.mem_cons] at hp
        rcases hp with hp | hp
        · subst hp
          simp only [Option.map_eq_some_iff] at hl
          obtain ⟨x, hx, hxl⟩ := hl
          obtain ⟨more, hm⟩ := refRun_table_mono r (refStep s (.render e))
          simp only [refRun]
          rw [hm]
          apply lookupLvl_append
          have := hi.objs e x.1 x.2 (by rw [hx])
          rw [hxl] at this
          exact this
        · exact h3 p hp l hl
    | ucopy src dst k =>
      exact ⟨new, by simp only [refRun]; rw [h1]; simp [refStep], by simpa [renderLevels] using h2,
        fun p hp l hl => h3 p (by simpa [renderLevels] using hp) l hl⟩
    | exit lvl e out k =>
      exact ⟨new, by simp only [refRun]; rw [h1]; simp [refStep], by simpa [renderLevels] using h2,
        fun p hp l hl => h3 p (by simpa [renderLevels] using hp) l hl⟩

/-! ### histories put together from pieces; `n` calls inside one another -/

def seenRun : List Nat → List Op → List Nat
  | seen, [] => seen
  | seen, op :: r => seenRun (seenAfter seen op) r

theorem opsOK_append_iff (a b : List Op) (s : RSt) (seen : List Nat) :
    opsOK (a ++ b) s seen = (opsOK a s seen && opsOK b (refRun a s) (seenRun seen a)) := by
  induction a generalizing s seen with
  | nil => simp [opsOK, refRun, seenRun]
  | cons op r ih => simp only [List.cons_append, opsOK, refRun, seenRun, ih, Bool.and_assoc]

theorem seenRun_append (a b : List Op) (seen : List Nat) : seenRun seen (a ++ b) = seenRun (seenRun seen a) b := by
  induction a generalizing seen with
  | nil => rfl
  | cons op r ih => exact ih _

theorem seenRun_renders (rs : List Op) (h : ∀ op ∈ rs, isRender op = true) (seen : List Nat) : seenRun seen rs = seen := by
  induction rs generalizing seen with
  | nil => rfl
  | cons op r ih =>
    have := h op (List.mem_cons_self ..)
    cases op with
    | render e => exact ih (fun o ho => h o (List.mem_cons_of_mem _ ho)) _
    | ucopy _ _ _ => simp [isRender] at this
    | exit _ _ _ _ => simp [isRender] at this

/-- `n` glom() calls inside one another, innermost first: call `i+1` handles the error call `i`
    ended with (object `i`; object 0 is the exception a step raised) and ends with the copy `i+1`,
    which the callable that made call `i+1` renders `k` times before letting it go on -/
def chain (k : Nat) : Nat → List Op
  | 0 => []
  | n + 1 => chain k n ++ (Op.exit (n + 1) n (n + 1) (.copy .carry) :: List.replicate k (Op.render (n + 1)))

theorem seenRun_chain (k n : Nat) : ∀ l ∈ seenRun [] (chain k n), l ≤ n := by
  induction n with
  | zero => intro l hl; simp [chain, seenRun] at hl
  | succ n ih =>
    intro l hl
    simp only [chain, seenRun_append, seenRun] at hl
    rw [seenRun_renders _ (by intro op hop; rw [List.eq_of_mem_replicate hop]; rfl)] at hl
    simp only [seenAfter, List.mem_cons] at hl
    rcases hl with h | h
    · omega
    · have := ih l h; omega

theorem opsOK_chain (k n : Nat) : opsOK (chain k n) ⟨RHeap.init, [], []⟩ [] = true := by
  induction n with
  | zero => rfl
  | succ n ih =>
    simp only [chain]
    rw [opsOK_append_iff, ih, Bool.true_and]
    simp only [opsOK, opOK, Bool.and_eq_true, bne_iff_ne, ne_eq, Bool.not_eq_true', List.contains_eq_mem,
      decide_eq_false_iff_not]
    refine ⟨⟨by omega, ?_⟩, opsOK_renders _ (by intro op hop; rw [List.eq_of_mem_replicate hop]; rfl) _ _⟩
    intro hm
    have := seenRun_chain k n _ hm
    omega

theorem opsOK_chain_exit (k n : Nat) :
    opsOK (chain k n ++ [Op.exit (n + 1) n (n + 1) (.copy .carry)]) ⟨RHeap.init, [], []⟩ [] = true := by
  have := opsOK_chain k (n + 1)
  simp only [chain] at this
  rw [opsOK_append_iff] at this ⊢
  simp only [Bool.and_eq_true] at this ⊢
  refine ⟨this.1, ?_⟩
  have h2 := this.2
  simp only [opsOK, Bool.and_eq_true] at h2 ⊢
  exact ⟨h2.1, trivial⟩

end Glom.C20.ErrM
