import Glom.Spec.C01
/-
  Helper lemmas for C01: which exceptions each primitive can raise, index
  arithmetic on the flat ops tuple, and the loop-vs-walk refinement.
-/
namespace Glom.C01
open Glom

/-! ### exceptions the primitives can raise -/

theorem pyGetattr_str_exc {h cur n e} (hh : pyGetattr h cur (.str n) = .error e) :
    e = exc "AttributeError" := by
  unfold pyGetattr at hh
  split at hh
  · rename_i heq; injection heq with heq; subst heq
    repeat (first | (split at hh) | (injection hh with hh; exact hh.symm) | contradiction)
  · rename_i hne; exact absurd rfl (hne n)

theorem pyGetitem_exc {h cur k e} (hh : pyGetitem h cur k = .error e) :
    e = exc "KeyError" ∨ e = exc "IndexError" ∨ e = exc "TypeError" := by
  unfold pyGetitem at hh
  repeat (first
    | (split at hh)
    | (injection hh with hh; subst hh; simp)
    | contradiction)

theorem pyInt_exc {h v e} (hh : pyInt h v = .error e) :
    e = exc "ValueError" ∨ e = exc "TypeError" := by
  unfold pyInt at hh
  repeat (first
    | (split at hh)
    | (injection hh with hh; subst hh; simp)
    | contradiction)

theorem pySeqGet_exc {h cur k e} (hh : pySeqGet h cur k = .error e) :
    e = exc "KeyError" ∨ e = exc "IndexError" ∨ e = exc "TypeError" ∨ e = exc "ValueError" := by
  unfold pySeqGet at hh
  split at hh
  · rcases pyGetitem_exc hh with h1 | h1 | h1 <;> simp [h1]
  · rename_i e' he
    injection hh with hh; subst hh
    rcases pyInt_exc he with h1 | h1 <;> simp [h1]

theorem applyHandler_exc {h hn cur k e} (hh : applyHandler h hn cur k = .error e) :
    e.cls ∈ handlerExcs := by
  unfold applyHandler at hh
  split at hh
  · rcases pyGetitem_exc hh with h1 | h1 | h1 <;> simp [h1, handlerExcs, exc]
  · split at hh
    · rcases pySeqGet_exc hh with h1 | h1 | h1 | h1 <;> simp [h1, handlerExcs, exc]
    · split at hh
      · unfold pyGetattr at hh
        repeat (first
          | (split at hh)
          | (injection hh with hh; subst hh; simp [handlerExcs, exc])
          | contradiction)
      · injection hh with hh; subst hh; simp [handlerExcs, exc]

/-! ### the flat tuple -/

theorem flatOfSteps_length (steps : List (String × Val)) :
    (flatOfSteps steps).length = 2 * steps.length := by
  induction steps with
  | nil => rfl
  | cons s r ih => simp [flatOfSteps, List.flatMap_cons] at *; omega

theorem flatOfSteps_append (a b : List (String × Val)) :
    flatOfSteps (a ++ b) = flatOfSteps a ++ flatOfSteps b := by
  simp [flatOfSteps]

theorem flat_get_op (root : Val) (pre : List (String × Val)) (op : String) (arg : Val)
    (rest : List (String × Val)) :
    (root :: flatOfSteps (pre ++ (op, arg) :: rest))[1 + 2 * pre.length]? = some (.str op) := by
  rw [flatOfSteps_append]
  have hl := flatOfSteps_length pre
  rw [show 1 + 2 * pre.length = (2 * pre.length) + 1 by omega]
  rw [List.getElem?_cons_succ, List.getElem?_append_right (by omega), hl]
  simp [flatOfSteps, List.flatMap_cons]

theorem flat_get_arg (root : Val) (pre : List (String × Val)) (op : String) (arg : Val)
    (rest : List (String × Val)) :
    (root :: flatOfSteps (pre ++ (op, arg) :: rest))[1 + 2 * pre.length + 1]? = some arg := by
  rw [flatOfSteps_append]
  have hl := flatOfSteps_length pre
  rw [show 1 + 2 * pre.length + 1 = (2 * pre.length + 1) + 1 by omega]
  rw [List.getElem?_cons_succ, List.getElem?_append_right (by omega), hl]
  simp [flatOfSteps, List.flatMap_cons]

theorem flat_length (root : Val) (steps : List (String × Val)) :
    (root :: flatOfSteps steps).length = 1 + 2 * steps.length := by
  simp [flatOfSteps_length]; omega

end Glom.C01

namespace Glom.C01
open Glom

/-- how a reference walk is reported by `_t_eval` -/
def outOfWalk (w : WalkRes) (t : List (Nat × Val)) : TOut :=
  match w with
  | .ok v => ⟨.ok v, t⟩
  | .fail k e => ⟨.error (.pae k e), t⟩
  | .unsupported => ⟨.error .unregistered, t⟩

theorem catches_dispatch {env op kind needed} (hc : catches env op kind needed = true) :
    ∃ caught, dispatchOf env op = some (kind, caught) ∧
      ∀ n ∈ needed, caughtBy env caught ⟨n⟩ = true := by
  unfold catches at hc
  split at hc
  · rename_i k caught heq
    simp only [Bool.and_eq_true, beq_iff_eq, List.all_eq_true] at hc
    exact ⟨caught, by rw [heq, hc.1], hc.2⟩
  · contradiction

theorem WF_parts {env} (h : WF env = true) :
    catches env "." "getattr" ["AttributeError"] = true ∧
    catches env "[" "getitem" ["KeyError", "IndexError", "TypeError"] = true ∧
    catches env "P" "handler" handlerExcs = true ∧
    paeFlags env = (true, true, true, true) := by
  simp only [WF, Bool.and_eq_true, beq_iff_eq] at h
  exact ⟨h.1.1.1, h.1.1.2, h.1.2, h.2⟩

end Glom.C01

namespace Glom.C01
open Glom

theorem tLoop_step (env : TEnv) (hwf : WF env = true) (h : Heap) (flat : List Val) (i : Nat)
    (cur : Val) (tr : List (Nat × Val)) (op : String) (arg : Val)
    (hlt : i < flat.length) (hop : flat[i]? = some (.str op)) (harg : flat[i+1]? = some arg)
    (hw : wfSteps [(op, arg)] = true) :
    tLoop env h flat i cur tr =
      match refAccess env h op cur arg with
      | some (.ok v) => tLoop env h flat (i + 2) v (tr ++ [(i / 2, cur)])
      | some (.error e) => ⟨.error (.pae (i / 2) e), tr ++ [(i / 2, cur)]⟩
      | none => ⟨.error .unregistered, tr⟩ := by
  obtain ⟨h1, h2, h3, _⟩ := WF_parts hwf
  obtain ⟨c1, hd1, hc1⟩ := catches_dispatch h1
  obtain ⟨c2, hd2, hc2⟩ := catches_dispatch h2
  obtain ⟨c3, hd3, hc3⟩ := catches_dispatch h3
  rw [tLoop]
  simp only [hlt, dite_true, hop, harg]
  simp only [wfSteps, Bool.and_true, Bool.and_eq_true, Bool.or_eq_true, beq_iff_eq] at hw
  obtain ⟨hops, hargstr⟩ := hw
  rcases hops with (rfl | rfl) | rfl
  · -- "."
    simp only [accessOp, hd1, refAccess, beq_self_eq_true, if_true]
    simp at hargstr
    split at hargstr
    · rename_i n
      cases hg : pyGetattr h cur (.str n) with
      | ok v => simp
      | error e =>
        have := pyGetattr_str_exc hg
        subst this
        simp [hc1 "AttributeError" (by simp), exc]
    · contradiction
  · simp only [accessOp, hd2, refAccess]
    simp
    cases hg : pyGetitem h cur arg with
    | ok v => simp
    | error e =>
      rcases pyGetitem_exc hg with rfl | rfl | rfl <;> simp [exc, hc2]
  · simp only [accessOp, hd3, refAccess]
    simp
    cases hh : getHandler env h cur with
    | none => simp
    | some hn =>
      simp
      cases hg : applyHandler h hn cur arg with
      | ok v => simp
      | error e =>
        have := applyHandler_exc hg
        simp [hc3 e.cls this]

theorem wfSteps_cons {op arg rest} (h : wfSteps ((op, arg) :: rest) = true) :
    wfSteps [(op, arg)] = true ∧ wfSteps rest = true := by
  simp only [wfSteps, Bool.and_eq_true, Bool.and_true] at *
  exact ⟨⟨h.1.1, h.1.2⟩, h.2⟩

/-- the loop on the flat tuple, started at the op slot of step `pre.length`,
    is the structural walk over the remaining steps -/
theorem tLoop_eq_walk (env : TEnv) (hwf : WF env = true) (h : Heap) (root : Val)
    (rest : List (String × Val)) :
    ∀ (pre : List (String × Val)) (cur : Val) (tr : List (Nat × Val)), wfSteps rest = true →
    tLoop env h (root :: flatOfSteps (pre ++ rest)) (1 + 2 * pre.length) cur tr =
      outOfWalk (walk env h rest pre.length cur) (tr ++ walkTouched env h rest pre.length cur) := by
  induction rest with
  | nil =>
    intro pre cur tr _
    rw [tLoop]
    simp only [List.append_nil]
    have : ¬ (1 + 2 * pre.length < (root :: flatOfSteps pre).length) := by
      rw [flat_length]; simp
    simp only [this, dite_false, walk, walkTouched, outOfWalk, List.append_nil]
  | cons s rest ih =>
    obtain ⟨op, arg⟩ := s
    intro pre cur tr hw
    obtain ⟨hw1, hw2⟩ := wfSteps_cons hw
    have hlt : 1 + 2 * pre.length < (root :: flatOfSteps (pre ++ (op, arg) :: rest)).length := by
      rw [flat_length]; simp
    rw [tLoop_step env hwf h _ _ cur tr op arg hlt (flat_get_op ..) (flat_get_arg ..) hw1]
    have hdiv : (1 + 2 * pre.length) / 2 = pre.length := by omega
    rw [hdiv]
    simp only [walk, walkTouched]
    cases hr : refAccess env h op cur arg with
    | none => simp [outOfWalk]
    | some r =>
      cases r with
      | error e => simp [outOfWalk]
      | ok v =>
        simp only
        have := ih (pre ++ [(op, arg)]) v (tr ++ [(pre.length, cur)]) hw2
        simp only [List.append_assoc, List.singleton_append, List.length_append,
          List.length_singleton] at this
        rw [show 1 + 2 * pre.length + 2 = 1 + 2 * (pre.length + 1) by omega, this]
end Glom.C01

namespace Glom.C01
open Glom

/-! ### characterisation of the reference walk -/

theorem walk_ok_reaches (env : TEnv) (h : Heap) :
    ∀ (steps : List (String × Val)) (k : Nat) (t v : Val),
      walk env h steps k t = .ok v → Reaches env h t steps v := by
  intro steps
  induction steps with
  | nil => intro k t v hw; simp [walk] at hw; subst hw; exact .nil t
  | cons s rest ih =>
    obtain ⟨op, arg⟩ := s
    intro k t v hw
    simp only [walk] at hw
    split at hw
    · rename_i u hu; exact .cons hu (ih _ _ _ hw)
    · contradiction
    · contradiction

theorem reaches_walk_ok (env : TEnv) (h : Heap) {t steps v} (hr : Reaches env h t steps v) :
    ∀ k, walk env h steps k t = .ok v := by
  induction hr with
  | nil t => intro k; rfl
  | cons ha _ ih => intro k; simp only [walk, ha]; exact ih _

theorem reaches_append {env h t a u b v} (h1 : Reaches env h t a u) (h2 : Reaches env h u b v) :
    Reaches env h t (a ++ b) v := by
  induction h1 with
  | nil t => simpa using h2
  | cons ha _ ih => exact .cons ha (ih h2)

/-- failing at `k` (counted from `k0`): the first `k - k0` steps succeed one after
    the other and step `k - k0` is the first that cannot be accessed -/
theorem walk_fail_first (env : TEnv) (h : Heap) :
    ∀ (steps : List (String × Val)) (k0 : Nat) (t : Val) (k : Nat) (e : PyExc),
      walk env h steps k0 t = .fail k e →
      k0 ≤ k ∧ k - k0 < steps.length ∧
      ∃ u, Reaches env h t (steps.take (k - k0)) u ∧
        ∃ s, steps[k - k0]? = some s ∧ refAccess env h s.1 u s.2 = some (.error e) := by
  intro steps
  induction steps with
  | nil => intro k0 t k e hw; simp [walk] at hw
  | cons s rest ih =>
    obtain ⟨op, arg⟩ := s
    intro k0 t k e hw
    simp only [walk] at hw
    split at hw
    · rename_i u hu
      obtain ⟨hle, hlt, w, hreach, s, hs, hacc⟩ := ih _ _ _ _ hw
      refine ⟨by omega, by simp; omega, w, ?_, s, ?_, hacc⟩
      · rw [show k - k0 = (k - (k0 + 1)) + 1 by omega, List.take_succ_cons]
        exact .cons hu hreach
      · rw [show k - k0 = (k - (k0 + 1)) + 1 by omega, List.getElem?_cons_succ]; exact hs
    · rename_i e' he
      injection hw with hk he'; subst hk; subst he'
      exact ⟨Nat.le_refl _, by simp, t, by simpa using Reaches.nil t, (op, arg), by simp, he⟩
    · contradiction

theorem walkTouched_ok (env : TEnv) (h : Heap) :
    ∀ (steps : List (String × Val)) (k0 : Nat) (t v : Val),
      walk env h steps k0 t = .ok v → (walkTouched env h steps k0 t).map (·.1) = List.range' k0 steps.length := by
  intro steps
  induction steps with
  | nil => intro k0 t v _; rfl
  | cons s rest ih =>
    obtain ⟨op, arg⟩ := s
    intro k0 t v hw
    simp only [walk] at hw
    simp only [walkTouched]
    split at hw
    · simp only [List.length_cons, List.range'_succ, List.map_cons]; rw [ih _ _ _ hw]
    · contradiction
    · contradiction

theorem walkTouched_fail (env : TEnv) (h : Heap) :
    ∀ (steps : List (String × Val)) (k0 : Nat) (t : Val) (k : Nat) (e : PyExc),
      walk env h steps k0 t = .fail k e → (walkTouched env h steps k0 t).map (·.1) = List.range' k0 (k - k0 + 1) := by
  intro steps
  induction steps with
  | nil => intro k0 t k e hw; simp [walk] at hw
  | cons s rest ih =>
    obtain ⟨op, arg⟩ := s
    intro k0 t k e hw
    simp only [walk] at hw
    simp only [walkTouched]
    split at hw
    · rename_i u hu
      have hle := (walk_fail_first env h _ _ _ _ _ hw).1
      rw [List.map_cons, ih _ _ _ _ hw]
      rw [show k - k0 + 1 = (k - (k0 + 1) + 1) + 1 by omega]
      simp [List.range'_succ]
    · rename_i e' he
      injection hw with hk _; subst hk
      simp
    · contradiction

theorem isSubseq_refl (l : List Nat) : isSubseq l l = true := by
  induction l with
  | nil => rfl
  | cons a r ih => simp [isSubseq, ih]

/-! ### text paths -/

def intercalateDot : List (List Char) → List Char
  | [] => []
  | [s] => s
  | s :: r => s ++ '.' :: intercalateDot r

theorem splitDot_ne_nil (cs : List Char) : splitDot cs ≠ [] := by
  induction cs with
  | nil => simp [splitDot]
  | cons c cs ih =>
    simp only [splitDot]
    split
    · simp
    · split <;> simp

theorem splitDot_nodot (s : List Char) (hs : '.' ∉ s) : splitDot s = [s] := by
  induction s with
  | nil => rfl
  | cons c cs ih =>
    simp only [List.mem_cons, not_or] at hs
    simp only [splitDot]
    rw [if_neg (fun hc => hs.1 hc.symm), ih hs.2]

theorem splitDot_seg_dot (s rest : List Char) (hs : '.' ∉ s) :
    splitDot (s ++ '.' :: rest) = s :: splitDot rest := by
  induction s with
  | nil => simp [splitDot]
  | cons c cs ih =>
    simp only [List.mem_cons, not_or] at hs
    simp only [List.cons_append, splitDot]
    rw [if_neg (fun hc => hs.1 hc.symm), ih hs.2]

/-- `'.'.join(segs).split('.') == segs` when no segment contains a dot -/
theorem splitDot_intercalate (segs : List (List Char)) (hne : segs ≠ [])
    (hnd : ∀ s ∈ segs, '.' ∉ s) : splitDot (intercalateDot segs) = segs := by
  induction segs with
  | nil => contradiction
  | cons s r ih =>
    cases r with
    | nil => simpa [intercalateDot] using splitDot_nodot s (hnd s (by simp))
    | cons s' r' =>
      simp only [intercalateDot]
      rw [splitDot_seg_dot s _ (hnd s (by simp)), ih (by simp) (fun x hx => hnd x (by simp [hx]))]

end Glom.C01
