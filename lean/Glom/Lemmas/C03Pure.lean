import Glom.Lemmas.C07
import Glom.Lemmas.C03
import Glom.Lemmas.C03Compose
import Glom.Model.Frames
/-
  C03 — definitions the property theorems are stated with (pure and log-pure evaluators, the pure
  references `listRef` / `dictRef` / `chainRef`, specs assembled from log-pure leaves `Comp`, the
  model's leaf observations) and helper lemmas, among them the unfolding lemmas of one loop step
  (`tupleLoop_step`, `pipe_unfold`, `val_spec_callable_unfold`: true by definition of the model).
-/
set_option linter.unusedSectionVars false
namespace Glom.Interp
open ScopeAlg

variable {σ : Type} [ScopeAlg σ]

/-- the evaluator is a pure function `f` of the target on sub-spec `s` (whatever the scope/state) -/
def PureOn (rec : Rec σ) (s : Spec) (f : V → V) : Prop :=
  ∀ t (sc : σ) st, ∃ c, rec s t sc st = (st, .ok (f t, c))

/-- reference: map `f` over the items in order, STOP ends the list, SKIP omits the item -/
def listRef (f : V → V) : List V → List V
  | [] => []
  | x :: xs => match f x with
    | .stop => []
    | .skip => listRef f xs
    | v => v :: listRef f xs

theorem listLoop_eq_ref (rec : Rec σ) (sub : Spec) (f : V → V) (h : PureOn rec sub f) (sc : σ) :
    ∀ (items acc : List V) (st : St), listLoop rec sub sc items acc st = (st, .ok (acc ++ listRef f items)) := by
  intro items
  induction items with
  | nil => intro acc st; simp [listLoop, listRef, M.pure_apply]
  | cons x xs ih =>
    intro acc st
    obtain ⟨c, hc⟩ := h x sc st
    simp only [listLoop, M.bind_apply, hc, listRef]
    cases hf : f x <;> simp [ih, M.pure_apply]

/-- reference for a dict spec with literal keys: the same keys in the same order holding the
    sub-results, entries whose sub-result is SKIP omitted (a repeated key keeps its first position) -/
def dictRef (p : Prims) (t : V) : List (V × (V → V)) → List (V × V) → List (V × V)
  | [], acc => acc
  | (k, f) :: rest, acc => match f t with
    | .skip => dictRef p t rest acc
    | v => dictRef p t rest (dictSet p acc k v)

/-- **A tuple feeds each step's result to the next**: one step of `_handle_tuple`. -/
theorem tupleLoop_step (rec : Rec σ) (a : Spec) (rest : List Spec) (t : V) (cur : σ) (last : Option σ) :
    tupleLoop rec (a :: rest) t cur last =
      (do let r ← rec a t (nextScope cur last)
          match r.1 with
          | .skip => tupleLoop rec rest t (nextScope cur last) (some r.2)
          | .stop => pure t
          | nxt => tupleLoop rec rest nxt (nextScope cur last) (some r.2)) := rfl

/-- **Pipe(a, b, …) is the tuple (a, b, …)**: both run `_handle_tuple` on their own scope. -/
theorem pipe_unfold (p : Prims) (rec : Rec σ) (xs : List Spec) (t : V) (sc : σ) :
    glomit p rec (.pipe xs) t sc = (do let v ← autoFn p rec (.tuple xs) t sc; pure (v, sc)) := rfl

/-- **Val, Spec, callables**: `Val(v)` is `v`; `Spec(s)` is `s`; a callable receives the current
    target (and is logged once). -/
theorem val_spec_callable_unfold (p : Prims) (rec : Rec σ) (t v : V) (sc : σ) (s : Spec) (n k : String) :
    glomit p rec (.val v) t sc = pure (v, sc) ∧
    glomit p rec (.specW s []) t sc = (do let r ← rec s t sc; pure (r.1, sc)) ∧
    autoFn p rec (.fn n k) t sc = callFn p n k [t] [] := ⟨rfl, rfl, rfl⟩

/-- reference for a chain of pure steps: each result feeds the next step, SKIP omits the step,
    STOP ends the chain with the value reached so far -/
def chainRef : List (V → V) → V → V
  | [], t => t
  | f :: fs, t => match f t with
    | .skip => chainRef fs t
    | .stop => t
    | v => chainRef fs v

def isSentinel : V → Bool
  | .skip | .stop => true
  | _ => false

/-- the result of a chain is never a sentinel (unless its input was one): STOP and SKIP are
    consumed by the chain they occur in -/
theorem chainRef_not_sentinel : ∀ (fs : List (V → V)) (t : V), isSentinel t = false →
    isSentinel (chainRef fs t) = false := by
  intro fs
  induction fs with
  | nil => intro t h; simpa [chainRef] using h
  | cons f fs ih =>
    intro t h
    simp only [chainRef]
    cases hf : f t <;> simp only <;> first | exact h | exact ih _ h | exact ih _ (by simp [isSentinel])

/-- a pure evaluator is a special case (in every mode) -/
theorem pureOn_evalOn (rec : Rec σ) (s : Spec) (f : V → V) (h : PureOn rec s f) (m : Mode) (a : Bool) :
    EvalOn rec m a s (fun t => pure (f t)) := by
  intro t sc _ _
  apply M.ext; intro st
  obtain ⟨c, hc⟩ := h t sc st
  rw [M.bind_apply, hc]

/-- at scope `sc` the evaluator logs `L t` and yields `f t` on sub-spec `s` (e.g. an instrumented callable) -/
def LoggedOn (rec : Rec σ) (s : Spec) (f : V → V) (L : V → List Ev) (sc : σ) : Prop :=
  ∀ t st, ∃ c, rec s t sc st = ({ st with log := st.log ++ L t }, .ok (f t, c))

def LogPure (p : Prims) (n : Nat) (s : Spec) (f : V → Outcome) : Prop :=
  ∀ (τ : Type) [ScopeAlg τ] [LawfulScope τ] (fuel : Nat), n ≤ fuel → StepPure (σ := τ) (interp p fuel) s f

/-- a spec of height `≤ h` assembled from log-pure leaves, with its outcome function -/
inductive Comp (p : Prims) (N : Nat) : Nat → Spec → (V → Outcome) → Prop
  | leaf (s : Spec) (f : V → Outcome) : s.isAutoContainer = false → LogPure p N s f → Comp p N 0 s f
  | up (h : Nat) (s : Spec) (f : V → Outcome) : Comp p N h s f → Comp p N (h + 1) s f
  | tuple (h : Nat) (xfs : List (Spec × (V → Outcome))) : (∀ xf ∈ xfs, Comp p N h xf.1 xf.2) →
      Comp p N (h + 1) (.tuple (xfs.map (·.1))) (chainF (xfs.map (·.2)))
  | pipe (h : Nat) (xfs : List (Spec × (V → Outcome))) : (∀ xf ∈ xfs, Comp p N h xf.1 xf.2) →
      Comp p N (h + 1) (.pipe (xfs.map (·.1))) (chainF (xfs.map (·.2)))
  | list (h : Nat) (sub : Spec) (rest : List Spec) (f : V → Outcome) : Comp p N h sub f →
      Comp p N (h + 1) (.list (sub :: rest)) (listOut p f)
  | dict (h : Nat) (o : Bool) (eds : List ((Spec × Spec) × (V × Option (V → Outcome) × (V → Outcome)))) :
      (∀ ed ∈ eds, Comp p N h ed.1.2 ed.2.2.2) →
      (∀ ed ∈ eds, ∀ g, ed.2.2.1 = some g → Comp p N h ed.1.1 g) →
      (∀ ed ∈ eds, ∀ g, ed.2.2.1 = some g → ed.1.1.isComputedKey = true) →
      (∀ ed ∈ eds, ed.2.2.1 = Option.none → ed.1.1.isComputedKey = false ∧ reify ed.1.1 = some ed.2.1) →
      Comp p N (h + 1) (.dict o (eds.map (·.1))) (fun t => dictF p o t (eds.map (·.2)) [])
  | val (v : V) : Comp p N 1 (.val v) (fun _ => (.ok v, []))
  | specW (h : Nat) (s : Spec) (f : V → Outcome) : Comp p N h s f → Comp p N (h + 1) (.specW s []) f
  | auto (h : Nat) (s : Spec) (f : V → Outcome) : Comp p N h s f → Comp p N (h + 1) (.auto s) f

theorem logPure_mono (p : Prims) (n m : Nat) (s : Spec) (f : V → Outcome) (h : LogPure p n s f) (hnm : n ≤ m) :
    LogPure p m s f := fun τ _ _ fuel hf => h τ fuel (Nat.le_trans hnm hf)

/-- the model's observation of one top-level call: outcome and log -/
def observeTop (p : Prims) (fuel : Nat) (s : Spec) (t : V) : Outcome :=
  let o := glomTop p fuel s t [] {}
  (o.2, o.1.log)

/-- the leaf observations the harness makes, under the model: separate top-level calls -/
def modelLeaf (p : Prims) (fuel : Nat) : LeafFn := fun _ s t => some (observeTop p fuel s t)

/-- a top-level call of a log-pure spec observes its outcome function -/
theorem observeTop_of_logPure (p : Prims) (n fuel : Nat) (s : Spec) (f : V → Outcome) (h : LogPure p n s f)
    (hf : n ≤ fuel) (t : V) : observeTop p fuel s t = f t := by
  obtain ⟨c, hc⟩ := h Frames fuel hf t (rootScope {} []).1 (rootScope {} []).2 rfl rfl
  simp only [observeTop, glomTop, hc, topResult]
  cases hr : (f t).1 with
  | error e => simp [Except.map, addLog, rootScope, hr.symm]
  | ok v => simp [Except.map, addLog, rootScope, hr.symm]

/-- the checker's recomputation from separately observed leaves yields the same outcome function -/
theorem composeRef_of_comp (p : Prims) (N F : Nat) (hF : N ≤ F) (h : Nat) (s : Spec) (f : V → Outcome)
    (hc : Comp p N h s f) :
    ∀ cf, h + 1 ≤ cf → ∀ pos t, composeRef p (modelLeaf p F) cf pos s t = some (f t) := by
  induction hc with
  | leaf s f hs hl =>
    intro cf hcf pos t
    obtain ⟨cf', rfl⟩ : ∃ k, cf = k + 1 := ⟨cf - 1, by omega⟩
    have hleaf : modelLeaf p F pos s t = some (f t) := by
      simp only [modelLeaf, observeTop_of_logPure p N F s f hl hF t]
    cases s with
    | list xs =>
      cases xs with
      | nil => simp only [composeRef]; exact hleaf
      | cons a b => simp [Spec.isAutoContainer] at hs
    | specW s0 sc0 =>
      cases sc0 with
      | nil => simp [Spec.isAutoContainer] at hs
      | cons a b => simp only [composeRef]; exact hleaf
    | tuple _ => simp [Spec.isAutoContainer] at hs
    | pipe _ => simp [Spec.isAutoContainer] at hs
    | dict _ _ => simp [Spec.isAutoContainer] at hs
    | val _ => simp [Spec.isAutoContainer] at hs
    | auto _ => simp [Spec.isAutoContainer] at hs
    | coalesce _ _ _ _ _ => simp [Spec.isAutoContainer] at hs
    | _ => simp only [composeRef]; exact hleaf
  | up h s f _ ih => intro cf hcf pos t; exact ih cf (by omega) pos t
  | tuple h xfs _ ih =>
    intro cf hcf pos t
    obtain ⟨cf', rfl⟩ : ∃ k, cf = k + 1 := ⟨cf - 1, by omega⟩
    simp only [composeRef]
    refine chainC_eq _ pos _ _ 0 (by simp) ?_ t
    intro k hk hj t'
    simp only [List.length_map] at hk
    simp only [List.getElem_map]
    exact ih _ (List.getElem_mem hk) cf' (by omega) _ t'
  | pipe h xfs _ ih =>
    intro cf hcf pos t
    obtain ⟨cf', rfl⟩ : ∃ k, cf = k + 1 := ⟨cf - 1, by omega⟩
    simp only [composeRef]
    refine chainC_eq _ pos _ _ 0 (by simp) ?_ t
    intro k hk hj t'
    simp only [List.length_map] at hk
    simp only [List.getElem_map]
    exact ih _ (List.getElem_mem hk) cf' (by omega) _ t'
  | list h sub rest f _ ih =>
    intro cf hcf pos t
    obtain ⟨cf', rfl⟩ : ∃ k, cf = k + 1 := ⟨cf - 1, by omega⟩
    simp only [composeRef, listOut]
    cases p.iterate t with
    | error e => rfl
    | ok items => exact listC_eq _ pos sub f (fun t' => ih cf' (by omega) _ t') items []
  | dict h o eds _ _ hck hlit ihv ihk =>
    intro cf hcf pos t
    obtain ⟨cf', rfl⟩ : ∃ k, cf = k + 1 := ⟨cf - 1, by omega⟩
    simp only [composeRef]
    refine dictC_eq p _ pos o t _ _ 0 (by simp) ?_ []
    intro k hk hj
    simp only [List.length_map] at hk
    simp only [List.getElem_map, EntryC, Nat.zero_add]
    have hmem := List.getElem_mem hk
    refine ⟨fun t' => ihv _ hmem cf' (by omega) _ t', ?_⟩
    cases hkf : eds[k].2.2.1 with
    | none => exact hlit _ hmem hkf
    | some g => exact ⟨hck _ hmem g hkf, fun t' => ihk _ hmem g hkf cf' (by omega) _ t'⟩
  | val v => intro cf hcf pos t; obtain ⟨cf', rfl⟩ : ∃ k, cf = k + 1 := ⟨cf - 1, by omega⟩; rfl
  | specW h s f _ ih =>
    intro cf hcf pos t
    obtain ⟨cf', rfl⟩ : ∃ k, cf = k + 1 := ⟨cf - 1, by omega⟩
    simp only [composeRef]
    exact ih cf' (by omega) _ t
  | auto h s f _ ih =>
    intro cf hcf pos t
    obtain ⟨cf', rfl⟩ : ∃ k, cf = k + 1 := ⟨cf - 1, by omega⟩
    simp only [composeRef]
    exact ih cf' (by omega) _ t


end Glom.Interp
