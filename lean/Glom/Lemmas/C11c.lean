import Glom.Lemmas.C11b
/-
  Helper lemmas for C11, part 3: the main refinement — for a wildcard-free
  destination the model of `Assign` computes exactly the property's prescription.
-/
namespace Glom.C11
open Glom Glom.Mut

theorem mem_of_mem_dropLast {α} {l : List α} {a : α} (h : a ∈ l.dropLast) : a ∈ l := by
  rw [List.dropLast_eq_take] at h
  exact List.mem_of_mem_take h

def ValWF (h : Heap) : ValSpec → Prop
  | .path s => C01.wfSteps s = true
  | .lit v => rebuilds h v = false
  | .val _ => True

theorem evalVal_spec {env : MEnv} (hwf : WF env = true) (hc : classesOK env = true) (st : St)
    (target : Val) (vs : ValSpec) (hvs : ValWF st.heap vs) :
    match refVal env st.heap target vs with
    | some v => evalVal env st target vs = (st, .ok v)
    | none => ∃ e, evalVal env st target vs = (st, .error e) := by
  cases vs with
  | lit v => simp only [ValWF] at hvs; simp [refVal, evalVal, hvs]
  | val v => simp [refVal, evalVal]
  | path s =>
    simp only [ValWF] at hvs
    have hspec := fetch_spec hwf hc st.heap s (wfSteps_wfStar hvs) (.inl (wfSteps_noStar hvs)) 0 target
    simp only [refVal, evalVal]
    cases hm : matchesOf env st.heap s 0 target with
    | ok ds =>
      rw [hm] at hspec
      obtain ⟨nest, hf, hu, hl⟩ := hspec
      rw [stars_zero (wfSteps_noStar hvs)] at hu
      obtain ⟨v, rfl⟩ := uniform0_leaf hu
      simp only [Nest.leaves] at hl
      subst hl
      simp [hf]
    | fail k e stop => rw [hm] at hspec; simp [hspec]
    | unreg => rw [hm] at hspec; exact hspec.elim
    | unsupported => rw [hm] at hspec; exact hspec.elim

theorem getLast?_mem {α} {l : List α} {a : α} (h : l.getLast? = some a) : a ∈ l :=
  List.mem_of_getLast? h

theorem dropLast_append_getLast? {α} {l : List α} {a : α} (h : l.getLast? = some a) :
    l = l.dropLast ++ [a] := by
  have hne : l ≠ [] := by intro e; subst e; simp at h
  have := List.dropLast_concat_getLast hne
  rw [List.getLast?_eq_some_getLast hne] at h
  injection h with h
  rw [← h]; exact this.symm

end Glom.C11

namespace Glom.C11
open Glom Glom.Mut

/-- the heap events of a run: everything but (at most) the last event concerns cells created
    during the call; the last one may be the write that attaches the result to a pre-existing cell -/
def AttachLast (h : Heap) (log : List Ev) : Prop :=
  ∃ evs tail, log = evs ++ tail ∧ (∀ ev ∈ evs, evNew h.length ev) ∧ (tail = [] ∨ ∃ a, tail = [.write a])

/-- what the refinement says about one run of the model -/
def Refines (h : Heap) (target : Val) (out : St × Except MErr Val) : RefRes → Prop
  | .ok h' hid n => out.2 = .ok target ∧ out.1.heap = h' ∧ out.1.calls = n ∧ out.1.hidden = hid ∧
      AttachLast h out.1.log
  | .fail _ => (∃ e, out.2 = .error e) ∧ Pres h out.1.heap ∧ h.length ≤ out.1.heap.length
  | .unsupported => False

/-- **Main refinement**: for a wildcard-free destination the model of `Assign` does exactly what
    the property prescribes — the plain-Python nested assignment on success (same object
    returned, same heap, one factory call per absent segment), an error with every pre-existing
    cell preserved otherwise. -/
theorem assign_spec {env : MEnv} (hwf : WF env = true) (hc : classesOK env = true)
    (sroot : Bool) (sref : Val) (missing : Missing) (h : Heap) (target : Val) (orig : List Step)
    (vs : ValSpec) (hs : C01.wfSteps orig = true)
    (hvs : valWf vs = true) (hvu : valUnsupported h vs = false)
    (hm : missingOK env orig missing = true) :
    Refines h target (assign env sroot sref missing h target orig vs)
      (refAssign env h target (if sroot then sref else target) orig vs missing) := by
  obtain ⟨hwf1, _, _, _, _, _⟩ := WF_parts hwf
  unfold assign refAssign
  cases hl : orig.getLast? with
  | none =>
    have : orig = [] := by simpa using hl
    subst this
    simp only [assignAux_nil, Refines]
    exact ⟨⟨_, rfl⟩, Pres.refl _, Nat.le_refl _⟩
  | some last =>
    obtain ⟨op, arg⟩ := last
    have hlastw : C01.wfSteps [(op, arg)] = true := (wfSteps_iff orig).1 hs _ (getLast?_mem hl)
    have hfin : finalOk op = true := finalOk_of_wfSteps hlastw
    simp only [hfin, Bool.not_true, Bool.false_eq_true, if_false]
    -- the value
    have hreb : ¬ valUnsupported h vs = true := by simp [hvu]
    · simp only [hvu, Bool.false_eq_true, if_false]
      have hvs' : ValWF ({ heap := h } : St).heap vs := by
        cases vs with
        | path s => exact hvs
        | lit v => simpa [valUnsupported, ValWF] using hreb
        | val v => trivial
      have hev := evalVal_spec hwf hc { heap := h } target vs hvs'
      simp only at hev
      cases hrv : refVal env h target vs with
      | none =>
        rw [hrv] at hev
        obtain ⟨e, he⟩ := hev
        rw [assignAux_val_err hl hfin he]
        exact ⟨⟨_, rfl⟩, Pres.refl _, Nat.le_refl _⟩
      | some v =>
        rw [hrv] at hev
        simp only
        -- the parent
        have horig := dropLast_append_getLast? hl
        have hpw : C01.wfSteps orig.dropLast = true :=
          wfSteps_sub hs (fun s hs' => mem_of_mem_dropLast hs')
        have hpns := wfSteps_noStar hpw
        have hons : hasStar orig = false := wfSteps_noStar hs
        have hspec := fetch_spec hwf hc h orig.dropLast (wfSteps_wfStar hpw) (.inl hpns) 0
          (if sroot then sref else target)
        cases hmo : matchesOf env h orig.dropLast 0 (if sroot then sref else target) with
        | unreg => rw [hmo] at hspec; exact hspec.elim
        | unsupported => rw [hmo] at hspec; exact hspec.elim
        | ok ds =>
          rw [hmo] at hspec
          obtain ⟨nest, hf, hu, hlv⟩ := hspec
          rw [stars_zero hpns] at hu
          obtain ⟨d, rfl⟩ := uniform0_leaf hu
          simp only [Nest.leaves] at hlv
          subst hlv
          rw [assignAux_fetch_ok hl hfin hev hf]
          simp only [stars_zero hpns, applyForEach, beq_self_eq_true, if_true, seqAssign]
          rw [assignOp_eq hwf hfin]
          cases hr : refAssignOp env h op d arg v with
          | none => exact ⟨⟨_, rfl⟩, Pres.refl _, Nat.le_refl _⟩
          | some r =>
            cases r with
            | error e => exact ⟨⟨_, rfl⟩, Pres.refl _, Nat.le_refl _⟩
            | ok w =>
              refine ⟨rfl, rfl, rfl, by simp [St.wrote], [], _, (List.nil_append _).symm, by simp, ?_⟩
              cases hcw : w.cell with
              | none => left; simp [St.wrote, hcw]
              | some a => right; exact ⟨a, by simp [St.wrote, hcw]⟩
        | fail k e stop =>
          rw [hmo] at hspec
          simp only at hspec
          cases missing with
          | none =>
            rw [assignAux_fetch_pae_none hl hfin hev hspec]
            exact ⟨⟨_, rfl⟩, Pres.refl _, Nat.le_refl _⟩
          | factory kind =>
            simp only [missingOK, Bool.and_eq_true] at hm
            obtain ⟨has, hfs⟩ := hm
            · obtain ⟨_, hklt, hpre, s, hsk, hacc⟩ := matchesOf_fail_split orig.dropLast hpns 0
                (if sroot then sref else target) k e stop hmo
              simp only [Nat.sub_zero] at hklt hpre hsk
              have hklt' : k < orig.length := by
                have : orig.dropLast.length ≤ orig.length := by simp
                omega
              have hok : orig[k]? = some s := by
                rw [horig, List.getElem?_append_left hklt]; exact hsk
              have htake : orig.take k = orig.dropLast.take k := by
                rw [horig, List.take_append_of_le_length (by omega)]
                simp
              have hsmem : s ∈ orig := List.mem_of_getElem? hok
              have hsw : C01.wfSteps [s] = true := (wfSteps_iff orig).1 hs s hsmem
              rw [assignAux_fetch_pae_tail hl hfin hev hspec]
              -- the tail
              have hremw : wfStar (orig.drop (k + 1)) = true :=
                wfSteps_wfStar (wfSteps_sub hs (fun t ht => List.mem_of_mem_drop ht))
              have hremne : orig.drop (k + 1) ≠ [] := by
                intro e0
                have := congrArg List.length e0
                simp at this
                have hdl : orig.dropLast.length = orig.length - 1 := by simp
                omega
              have hremlast : ∀ t, (orig.drop (k + 1)).getLast? = some t → finalOk t.1 = true := by
                intro t ht
                exact finalOk_of_wfSteps ((wfSteps_iff orig).1 hs t
                  (List.mem_of_mem_drop (getLast?_mem ht)))
              have hts := tail_spec hwf hc hfs sref kind v (orig.drop (k + 1)) hremw
                hremlast hremne orig.length (by simp) { heap := h }
              simp only [hok]
              obtain ⟨sop, sarg⟩ := s
              cases hbt : buildTail env kind v (orig.drop (k + 1)) h with
              | none =>
                rw [hbt] at hts
                obtain ⟨st2, e', hrun, hp2, hl2, _⟩ := hts
                simp only [hrun]
                exact ⟨⟨_, rfl⟩, hp2, hl2⟩
              | some res =>
                obtain ⟨h1, c, hid, n⟩ := res
                rw [hbt] at hts
                obtain ⟨st2, hrun, hh2, hc2, hhid2, hp2, hl2, hlg2⟩ := hts
                simp only [hrun]
                -- re-fetch of the existing prefix in the extended heap
                have hpre' : matchesOf env st2.heap (orig.take k) 0 (if sroot then sref else target) =
                    .ok [stop] := by
                  rw [htake, hh2]
                  have htw : C01.wfSteps (orig.dropLast.take k) = true :=
                    wfSteps_sub hpw (fun t ht => List.mem_of_mem_take ht)
                  exact matchesOf_pres hp2 _ (wfSteps_noStar htw)
                    (argsScalar_of (fun t ht => argsScalar_sub has t
                      (mem_of_mem_dropLast (List.mem_of_mem_take ht)))) 0 _ _ hpre
                have htw : C01.wfSteps (orig.take k) = true :=
                  wfSteps_sub hs (fun t ht => List.mem_of_mem_take ht)
                have hspec2 := fetch_spec hwf hc st2.heap (orig.take k) (wfSteps_wfStar htw)
                  (.inl (wfSteps_noStar htw)) 0 (if sroot then sref else target)
                rw [hpre'] at hspec2
                obtain ⟨nest2, hf2, hu2, hlv2⟩ := hspec2
                rw [stars_zero (wfSteps_noStar htw)] at hu2
                obtain ⟨d2, rfl⟩ := uniform0_leaf hu2
                simp only [Nest.leaves] at hlv2
                injection hlv2 with hlv2 _
                subst hlv2
                simp only [hf2, stars_zero (wfSteps_noStar htw), applyForEach, beq_self_eq_true, if_true]
                rw [assignOp_eq hwf (finalOk_of_wfSteps hsw), hh2]
                cases hra : refAssignOp env h1 sop d2 sarg c with
                | none => exact ⟨⟨_, rfl⟩, by rw [hh2]; exact hp2, by rw [hh2]; exact hl2⟩
                | some ra =>
                  cases ra with
                  | error e' => exact ⟨⟨_, rfl⟩, by rw [hh2]; exact hp2, by rw [hh2]; exact hl2⟩
                  | ok w =>
                    refine ⟨rfl, rfl, ?_, ?_, ?_⟩
                    · simp [St.wrote, hc2]
                    · simp [St.wrote, hhid2]
                    · obtain ⟨evs, hev, hnew⟩ := hlg2
                      simp only [List.nil_append] at hev
                      cases hcw : w.cell with
                      | none => exact ⟨evs, [], by simp [St.wrote, hcw, hev], hnew, .inl rfl⟩
                      | some a => exact ⟨evs, [.write a], by simp [St.wrote, hcw, hev], hnew, .inr ⟨a, rfl⟩⟩

end Glom.C11

namespace Glom.C11
open Glom Glom.Mut

/-! ### the returned object -/

/-- whatever `Assign.glomit` returns is the target it was given -/
theorem assignAux_same (env : MEnv) (sroot : Bool) (sref : Val) (missing : Missing) :
    ∀ (fuel : Nat) (st : St) (target : Val) (orig : List Step) (vs : ValSpec) (x : Val),
    (assignAux env sroot sref missing fuel st target orig vs).2 = .ok x → x = target := by
  intro fuel
  cases fuel with
  | zero => intro st target orig vs x h; simp [assignAux] at h
  | succ f =>
    intro st target orig vs x h
    simp only [assignAux] at h
    repeat' split at h
    all_goals first
      | (simp at h; done)
      | (simp at h; exact h.symm)

end Glom.C11

namespace Glom.C11
open Glom Glom.Mut

/-! ### properties of the reference tail construction -/

/-- `buildTail` only appends cells and writes to the cells it appended; for a wildcard-free tail it
    makes one factory call per segment -/
theorem buildTail_spec (env : MEnv) (kind : String) (v : Val) :
    ∀ (rem : List Step) (h h' : Heap) (c : Val) (hid : Bool) (n : Nat),
    buildTail env kind v rem h = some (h', c, hid, n) →
    Pres h h' ∧ h.length ≤ h'.length ∧ n ≤ rem.length ∧
      (hasStar rem = false → n = rem.length) := by
  intro rem
  induction rem with
  | nil => intro h h' c hid n hb; simp [buildTail] at hb
  | cons s rest ih =>
    intro h h' c hid n hb
    cases rest with
    | nil =>
      simp only [buildTail] at hb
      split at hb
      · contradiction
      · rename_i o _
        split at hb
        · rename_i w hr
          injection hb with hb
          injection hb with h1 hb; injection hb with h2 hb; injection hb with h3 h4
          subst h1; subst h2; subst h3; subst h4
          have hfr := refAssignOp_frame hr
          refine ⟨frameAt_pres hfr (Nat.le_refl _) (Pres.append _ _), ?_, by simp, fun _ => by simp⟩
          rw [hfr.1]; simp
        · contradiction
    | cons s' rest' =>
      simp only [buildTail] at hb
      split at hb
      · -- a factory that returns a scalar: only a wildcard goes through
        split at hb
        · split at hb
          · rename_i hx
            injection hb with hb
            injection hb with h1 hb; injection hb with h2 hb; injection hb with h3 h4
            subst h1; subst h2; subst h3; subst h4
            refine ⟨Pres.refl _, Nat.le_refl _, by simp, ?_⟩
            intro hns
            have := (hasStar_cons hns).1
            simp at hx
            exact absurd hx this
          · contradiction
        · contradiction
      · rename_i o _
        split at hb
        · rename_i hx
          injection hb with hb
          injection hb with h1 hb; injection hb with h2 hb; injection hb with h3 h4
          subst h1; subst h2; subst h3; subst h4
          refine ⟨Pres.append _ _, by simp, by simp, ?_⟩
          intro hns
          have := (hasStar_cons hns).1
          simp at hx
          exact absurd hx this
        · split at hb
          · split at hb
            · contradiction
            · rename_i h1 inner hid' n' hbt
              obtain ⟨hp1, hl1, hn1, hn1'⟩ := ih _ _ _ _ _ hbt
              split at hb
              · rename_i w hr
                injection hb with hb
                injection hb with e1 hb; injection hb with e2 hb; injection hb with e3 e4
                subst e1; subst e2; subst e3; subst e4
                have hfr := refAssignOp_frame hr
                have hp01 : Pres h h1 := Pres.trans (Pres.append h [o]) hp1 (by simp)
                refine ⟨frameAt_pres hfr (Nat.le_refl _) hp01, ?_, ?_, ?_⟩
                · rw [hfr.1]; simp at hl1; omega
                · simp at hn1 ⊢; omega
                · intro hns
                  have := hn1' (hasStar_cons hns).2.2
                  simp at this ⊢; omega
              · contradiction
          · contradiction

theorem pres_take {h h' : Heap} (hp : Pres h h') (hl : h.length ≤ h'.length) : h'.take h.length = h := by
  apply List.ext_getElem?
  intro i
  by_cases hi : i < h.length
  · rw [List.getElem?_take_of_lt hi]; exact hp i hi
  · have h1 : (List.take h.length h')[i]? = none := by
      rw [List.getElem?_eq_none_iff]; simp; omega
    have h2 : h[i]? = none := by rw [List.getElem?_eq_none_iff]; omega
    rw [h1, h2]

/-! ### wildcards: one assignment per addressed object, in order -/

theorem seqM_assign {env : MEnv} (hwf : WF env = true) {op : String} (hop : finalOk op = true)
    (arg v : Val) : ∀ (ds : List Val) (st : St),
    match seqAssign env op arg v st.heap st.hidden ds with
    | some (h', hid) =>
      ∃ st', seqM (assignOp env op arg v) st ds = (st', .ok ()) ∧ st'.heap = h' ∧ st'.hidden = hid ∧
        st'.calls = st.calls
    | none => ∃ st' e, seqM (assignOp env op arg v) st ds = (st', .error e) := by
  intro ds
  induction ds with
  | nil => intro st; exact ⟨st, rfl, rfl, rfl, rfl⟩
  | cons d ds ih =>
    intro st
    simp only [seqAssign, seqM]
    rw [assignOp_eq hwf hop]
    cases hr : refAssignOp env st.heap op d arg v with
    | none => exact ⟨_, _, rfl⟩
    | some r =>
      cases r with
      | error e => exact ⟨_, _, rfl⟩
      | ok w =>
        have := ih (st.wrote w)
        simpa [St.wrote] using this

end Glom.C11

namespace Glom.C11
open Glom Glom.Mut

/-- reading a successful prescription back: either the parent exists and the assignments were
    made at its matches, or the walk stopped at `stop`, the tail was built by `buildTail` and
    attached at `stop` -/
theorem refAssign_ok_cases {env : MEnv} {h : Heap} {target root : Val} {orig : List Step}
    {vs : ValSpec} {missing : Missing} {h' : Heap} {hid : Bool} {n : Nat}
    (href : refAssign env h target root orig vs missing = .ok h' hid n) :
    ∃ op arg v, orig.getLast? = some (op, arg) ∧ refVal env h target vs = some v ∧
      ((∃ ds, matchesOf env h orig.dropLast 0 root = .ok ds ∧
          seqAssign env op arg v h false ds = some (h', hid) ∧ n = 0) ∨
       (∃ k e stop kind op' arg' h1 c hid' w, missing = .factory kind ∧
          matchesOf env h orig.dropLast 0 root = .fail k e stop ∧ orig[k]? = some (op', arg') ∧
          buildTail env kind v (orig.drop (k + 1)) h = some (h1, c, hid', n) ∧
          refAssignOp env h1 op' stop arg' c = some (.ok w) ∧ h' = w.heap)) := by
  unfold refAssign at href
  cases hl : orig.getLast? with
  | none => simp [hl] at href
  | some last =>
    obtain ⟨op, arg⟩ := last
    simp only [hl] at href
    split at href
    · cases href
    · split at href
      · cases href
      · cases hv : refVal env h target vs with
        | none => simp [hv] at href
        | some v =>
          simp only [hv] at href
          refine ⟨op, arg, v, rfl, rfl, ?_⟩
          cases hm : matchesOf env h orig.dropLast 0 root with
          | ok ds =>
            simp only [hm] at href
            cases hs : seqAssign env op arg v h false ds with
            | none => simp [hs] at href
            | some res =>
              obtain ⟨h2, hid2⟩ := res
              simp only [hs] at href
              injection href with e1 e2 e3
              subst e1; subst e2; subst e3
              exact .inl ⟨ds, rfl, hs, rfl⟩
          | fail k e stop =>
            simp only [hm] at href
            cases missing with
            | none => simp at href
            | factory kind =>
              simp only at href
              cases hk : orig[k]? with
              | none => simp [hk] at href
              | some s =>
                obtain ⟨op', arg'⟩ := s
                simp only [hk] at href
                cases hbt : buildTail env kind v (orig.drop (k + 1)) h with
                | none => simp [hbt] at href
                | some res =>
                  obtain ⟨h1, c, hid', n'⟩ := res
                  simp only [hbt] at href
                  cases hr : refAssignOp env h1 op' stop arg' c with
                  | none => simp [hr] at href
                  | some r =>
                    cases r with
                    | error e' => simp [hr] at href
                    | ok w =>
                      simp only [hr] at href
                      injection href with e1 e2 e3
                      subst e1; subst e3
                      exact .inr ⟨k, e, stop, kind, op', arg', h1, c, hid', w, rfl, rfl, hk, hbt, hr, rfl⟩
          | unreg => simp [hm] at href
          | unsupported => simp [hm] at href

theorem covered_parts {env : MEnv} {h : Heap} {target : Val} {sroot : Bool} {orig : List Step}
    {vs : ValSpec} {missing : Missing} (hc : covered env h target sroot orig vs missing = true) :
    WF env = true ∧ classesOK env = true ∧ C01.wfSteps orig = true ∧ valWf vs = true ∧
      valUnsupported h vs = false ∧ missingOK env orig missing = true := by
  simp only [covered, Bool.and_eq_true, Bool.not_eq_true'] at hc
  obtain ⟨hc, _⟩ := hc
  exact ⟨hc.1.1.1.1.1, hc.1.1.1.1.2, hc.1.1.1.2, hc.1.1.2, hc.1.2, hc.2⟩

/-- the domain of the model's `int()` (a hypothesis about the model, not needed by the proofs) -/
theorem covered_intSafe {env : MEnv} {h : Heap} {target : Val} {sroot : Bool} {orig : List Step}
    {vs : ValSpec} {missing : Missing} (hc : covered env h target sroot orig vs missing = true) :
    intSafe orig = true := by
  simp only [covered, Bool.and_eq_true] at hc
  exact hc.2.1

end Glom.C11
