import Glom.Lemmas.C17
import Glom.Model.C17Boltons
/-
  C17 — boltons' helpers as written (`Model/C17Boltons.lean`) denote the traces of the
  transducers (`foldCore`), on every finite upstream, ending normally or by raising.
-/
namespace Glom.C17.Boltons
open Glom.C17

def termOf : Option Err → Term
  | none => .eof
  | some e => .err e

def resOf : Term → Res
  | .eof => .eof
  | .err e => .err e
  | .more => .oof

/-! ### the upstream iterator over a finite source -/

theorem next_fin_cons (xs : List V) (tail : Option Err) (pos : Nat) (v : V) (rest : List V)
    (h : xs.drop pos = v :: rest) :
    (Src.fin xs tail).next pos = (.item v, pos + 1) ∧ xs.drop (pos + 1) = rest ∧ pos < xs.length := by
  have hlt : pos < xs.length := by
    rcases Nat.lt_or_ge pos xs.length with h' | h'
    · exact h'
    · rw [List.drop_eq_nil_of_le h'] at h; cases h
  have hv : xs[pos]? = some v := by
    have := List.getElem?_drop (xs := xs) (i := pos) (j := 0)
    rw [h] at this
    simpa using this.symm
  refine ⟨by simp [Src.next, hv], ?_, hlt⟩
  have : xs.drop (pos + 1) = (xs.drop pos).drop 1 := by rw [List.drop_drop]
  rw [this, h]; rfl

theorem next_fin_nil (xs : List V) (tail : Option Err) (pos : Nat) (h : xs.drop pos = []) :
    (Src.fin xs tail).next pos = (resOf (termOf tail), pos) := by
  have hge : xs.length ≤ pos := by
    rcases Nat.lt_or_ge pos xs.length with h' | h'
    · have : (xs.drop pos).length = xs.length - pos := List.length_drop
      rw [h] at this; simp at this; omega
    · exact h'
  have hv : xs[pos]? = none := List.getElem?_eq_none hge
  cases tail <;> simp [Src.next, hv, resOf, termOf]

/-! ### `unique_iter` -/

def uniqueCore (key : Fn) (seen : List V) : Core := { kind := .unique key, buf := seen }

/-- what one run of the loop does, against the transducer's trace of the remaining items -/
def UniqueStep (xs : List V) (tail : Option Err) (key : Fn) (g : UniqueGen) (r : Res × UniqueGen) : Prop :=
  match r with
  | (.item v, g') =>
    foldCore (uniqueCore key g.seen) (xs.drop g.pos) (termOf tail) =
      (foldCore (uniqueCore key g'.seen) (xs.drop g'.pos) (termOf tail)).cons v ∧
    g'.finished = g.finished ∧ xs.length - g'.pos < xs.length - g.pos
  | (.eof, _) => foldCore (uniqueCore key g.seen) (xs.drop g.pos) (termOf tail) = ⟨[], .eof⟩
  | (.err e, _) => foldCore (uniqueCore key g.seen) (xs.drop g.pos) (termOf tail) = ⟨[], .err e⟩
  | (.oof, _) => False

theorem uniqueLoop_fin (xs : List V) (tail : Option Err) (key : Fn) : ∀ (rest : List V) (fuel : Nat) (g : UniqueGen),
    xs.drop g.pos = rest → rest.length < fuel → UniqueStep xs tail key g (uniqueLoop (.fin xs tail) key fuel g) := by
  intro rest
  induction rest with
  | nil =>
    intro fuel g hr hf
    obtain ⟨f, rfl⟩ : ∃ f, fuel = f + 1 := ⟨fuel - 1, by omega⟩
    simp only [uniqueLoop, next_fin_nil xs tail g.pos hr]
    cases tail with
    | none => simp [UniqueStep, resOf, termOf, hr, foldCore, uniqueCore, Core.flush]
    | some e => simp [UniqueStep, resOf, termOf, hr, foldCore]
  | cons v rest ih =>
    intro fuel g hr hf
    obtain ⟨f, rfl⟩ : ∃ f, fuel = f + 1 := ⟨fuel - 1, by omega⟩
    obtain ⟨hn, hd, hlt⟩ := next_fin_cons xs tail g.pos v rest hr
    simp only [uniqueLoop, hn]
    cases hk : key v with
    | error e => simp [UniqueStep, hr, foldCore, Core.push, uniqueCore, hk]
    | ok k =>
      by_cases hh : k.hashable = true
      · by_cases hs : k.key ∈ g.seen
        · -- a duplicate: the loop goes on
          have hcont : g.seen.contains k.key = true := by simpa using hs
          simp only [hh, Bool.not_true, Bool.false_eq_true, ↓reduceIte, hcont]
          have h := ih f { g with pos := g.pos + 1 } hd (by simp at hf; omega)
          have hfold : foldCore (uniqueCore key g.seen) (v :: rest) (termOf tail) =
              foldCore (uniqueCore key g.seen) rest (termOf tail) := by
            simp [foldCore, Core.push, uniqueCore, hk, hh, hs, Tr.prepend]
          revert h
          rcases uniqueLoop (.fin xs tail) key f { g with pos := g.pos + 1 } with ⟨r, g'⟩
          cases r with
          | item w =>
            intro h
            simp only [UniqueStep] at h ⊢
            rw [hr, hfold, ← hd]
            exact ⟨h.1, h.2.1, by have := h.2.2; omega⟩
          | eof => intro h; simp only [UniqueStep] at h ⊢; rw [hr, hfold, ← hd]; exact h
          | err e => intro h; simp only [UniqueStep] at h ⊢; rw [hr, hfold, ← hd]; exact h
          | oof => intro h; exact h
        · -- a new key: yield
          have hcont : g.seen.contains k.key = false := by simpa using hs
          simp only [hh, Bool.not_true, Bool.false_eq_true, ↓reduceIte, hcont]
          simp only [UniqueStep]
          refine ⟨?_, trivial, by omega⟩
          rw [hr, hd]
          simp [foldCore, Core.push, uniqueCore, hk, hh, hs, Tr.prepend, Tr.cons]
      · simp [UniqueStep, hr, foldCore, Core.push, uniqueCore, hk, hh]

/-- **`unique_iter` as written yields the trace of the `unique` transducer.** -/
theorem unique_collect (xs : List V) (tail : Option Err) (key : Fn) (fuel : Nat) (hfuel : xs.length < fuel) :
    ∀ (n : Nat) (g : UniqueGen) (acc : List V), g.finished = false → xs.length - g.pos < n →
      collect (uniqueNext (.fin xs tail) key fuel) n g acc =
        (acc ++ (foldCore (uniqueCore key g.seen) (xs.drop g.pos) (termOf tail)).items,
         resOf (foldCore (uniqueCore key g.seen) (xs.drop g.pos) (termOf tail)).term) := by
  intro n
  induction n with
  | zero => intro g acc _ h; omega
  | succ n ih =>
    intro g acc hfin hn
    have hstep := uniqueLoop_fin xs tail key (xs.drop g.pos) fuel g rfl (by rw [List.length_drop]; omega)
    simp only [collect, uniqueNext, hfin, Bool.false_eq_true, ↓reduceIte]
    revert hstep
    rcases uniqueLoop (.fin xs tail) key fuel g with ⟨r, g'⟩
    cases r with
    | item v =>
      intro h
      simp only [UniqueStep] at h
      obtain ⟨h1, h2, h3⟩ := h
      simp only
      rw [ih g' (acc ++ [v]) (by rw [h2]; exact hfin) (by omega), h1]
      simp [Tr.cons]
    | eof => intro h; simp only [UniqueStep] at h; rw [h]; simp [resOf]
    | err e => intro h; simp only [UniqueStep] at h; rw [h]; simp [resOf]
    | oof => intro h; exact absurd h id

/-! ### `chunked_iter` -/

theorem isliceList_fin (xs : List V) (tail : Option Err) : ∀ (n pos : Nat) (acc rest : List V), xs.drop pos = rest →
    isliceList (.fin xs tail) n pos acc =
      if n ≤ rest.length then (.ok (acc ++ rest.take n), pos + n)
      else match tail with
        | none => (.ok (acc ++ rest), pos + rest.length)
        | some e => (.error e, pos + rest.length) := by
  intro n
  induction n with
  | zero => intro pos acc rest _; simp [isliceList]
  | succ n ih =>
    intro pos acc rest hr
    cases rest with
    | nil =>
      simp only [isliceList, next_fin_nil xs tail pos hr]
      cases tail <;> simp [resOf, termOf]
    | cons v r =>
      obtain ⟨hn, hd, _⟩ := next_fin_cons xs tail pos v r hr
      simp only [isliceList, hn]
      rw [ih (pos + 1) (acc ++ [v]) r hd]
      by_cases hle : n ≤ r.length
      · simp [hle, Nat.add_assoc, Nat.add_comm 1 n]
      · have : ¬ (n + 1 ≤ r.length + 1) := by omega
        cases tail <;> simp [hle, this, Nat.add_assoc, Nat.add_comm 1 r.length]

def chunkCore (size : Nat) (fill : Option V) (buf : List V) : Core := { kind := .chunked size fill, buf := buf }

/-- items that do not fill the chunk are kept in the open chunk -/
theorem fold_chunk_partial (size : Nat) (fill : Option V) (rest : List V) (t : Term) : ∀ (chunk buf : List V),
    buf.length + chunk.length < size →
    foldCore (chunkCore size fill buf) (chunk ++ rest) t = foldCore (chunkCore size fill (buf ++ chunk)) rest t := by
  intro chunk
  induction chunk with
  | nil => intro buf _; simp
  | cons x cs ih =>
    intro buf h
    simp only [List.length_cons] at h
    have hnf : ¬ (size ≤ buf.length + 1) := by omega
    have := ih (buf ++ [x]) (by simp; omega)
    simp only [List.append_assoc, List.singleton_append] at this
    rw [← this]
    simp [foldCore, Core.push, chunkCore, hnf, Tr.prepend]

/-- the item that fills the chunk makes the stage yield it -/
theorem fold_chunk_full (size : Nat) (fill : Option V) (rest : List V) (t : Term) : ∀ (chunk buf : List V),
    chunk ≠ [] → buf.length + chunk.length = size →
    foldCore (chunkCore size fill buf) (chunk ++ rest) t =
      (foldCore (chunkCore size fill []) rest t).cons (.list (buf ++ chunk)) := by
  intro chunk
  induction chunk with
  | nil => intro buf h; exact absurd rfl h
  | cons x cs ih =>
    intro buf _ h
    simp only [List.length_cons] at h
    cases cs with
    | nil =>
      have hf : size ≤ buf.length + 1 := by simp at h; omega
      simp [foldCore, Core.push, chunkCore, hf, Tr.prepend, Tr.cons]
    | cons y cs' =>
      have hnf : ¬ (size ≤ buf.length + 1) := by simp at h; omega
      have := ih (buf ++ [x]) (by simp) (by simp at h ⊢; omega)
      simp only [List.append_assoc, List.singleton_append] at this
      rw [← this]
      simp [foldCore, Core.push, chunkCore, hnf, Tr.prepend]

def ChunkedStep (xs : List V) (tail : Option Err) (size : Nat) (fill : Option V) (g : ChunkedGen) (r : Res × ChunkedGen) : Prop :=
  match r with
  | (.item v, g') =>
    foldCore (chunkCore size fill []) (xs.drop g.pos) (termOf tail) =
      (foldCore (chunkCore size fill []) (xs.drop g'.pos) (termOf tail)).cons v ∧
    g'.finished = false ∧ xs.length - g'.pos < xs.length - g.pos ∧ g'.pos ≤ g.pos + size
  | (.eof, _) => foldCore (chunkCore size fill []) (xs.drop g.pos) (termOf tail) = ⟨[], .eof⟩
  | (.err e, _) => foldCore (chunkCore size fill []) (xs.drop g.pos) (termOf tail) = ⟨[], .err e⟩
  | (.oof, _) => False

theorem chunkedNext_fin (xs : List V) (tail : Option Err) (size : Nat) (fill : Option V) (hsize : 1 ≤ size)
    (g : ChunkedGen) (hfin : g.finished = false) :
    ChunkedStep xs tail size fill g (chunkedNext (.fin xs tail) size fill g) := by
  have hlen : (xs.drop g.pos).length = xs.length - g.pos := List.length_drop
  simp only [chunkedNext, hfin, Bool.false_eq_true, ↓reduceIte]
  rw [isliceList_fin xs tail size g.pos [] (xs.drop g.pos) rfl]
  by_cases hle : size ≤ (xs.drop g.pos).length
  · -- a full chunk
    simp only [hle, ↓reduceIte, List.nil_append]
    have hne : (xs.drop g.pos).take size ≠ [] := by
      intro h
      have := congrArg List.length h
      simp only [List.length_take, List.length_nil] at this
      omega
    have hfold := fold_chunk_full size fill ((xs.drop g.pos).drop size) (termOf tail) ((xs.drop g.pos).take size) []
      hne (by simp only [List.length_nil, List.length_take]; omega)
    rw [List.take_append_drop, List.nil_append] at hfold
    have hpad : padTo size fill ((xs.drop g.pos).take size) = (xs.drop g.pos).take size := by
      cases fill with
      | none => rfl
      | some f => simp only [padTo, List.length_take]; rw [Nat.min_eq_left hle]; simp
    cases hch : (xs.drop g.pos).take size with
    | nil => exact absurd hch hne
    | cons c cs =>
      simp only [ChunkedStep]
      rw [hch] at hfold hpad
      refine ⟨?_, trivial, by omega, by omega⟩
      rw [hfold, hpad, List.drop_drop]
  · simp only [hle, ↓reduceIte, List.nil_append]
    have hpart := fold_chunk_partial size fill [] (termOf tail) (xs.drop g.pos) [] (by simp; omega)
    simp only [List.append_nil, List.nil_append] at hpart
    cases tail with
    | some e =>
      simp only [ChunkedStep]
      rw [hpart]; simp [foldCore, termOf]
    | none =>
      simp only
      rcases hch : xs.drop g.pos with _ | ⟨c, cs⟩
      · simp only [ChunkedStep]
        rw [hpart, hch]
        simp [foldCore, termOf, chunkCore, Core.flush]
      · rw [hch] at hlen
        simp only [List.length_cons] at hlen
        have hend : xs.drop (g.pos + (cs.length + 1)) = [] := List.drop_eq_nil_of_le (by omega)
        have hlt : cs.length + 1 < size := by rw [hch] at hle; simp only [List.length_cons] at hle; omega
        simp only [ChunkedStep, List.length_cons]
        refine ⟨?_, trivial, by omega, by omega⟩
        rw [hpart, hch, hend]
        simp [foldCore, termOf, chunkCore, Core.flush, Tr.cons]

/-- **`chunked_iter` as written yields the trace of the `chunked` transducer.** -/
theorem chunked_collect (xs : List V) (tail : Option Err) (size : Nat) (fill : Option V) (hsize : 1 ≤ size) :
    ∀ (n : Nat) (g : ChunkedGen) (acc : List V), g.finished = false → xs.length - g.pos < n →
      collect (chunkedNext (.fin xs tail) size fill) n g acc =
        (acc ++ (foldCore (chunkCore size fill []) (xs.drop g.pos) (termOf tail)).items,
         resOf (foldCore (chunkCore size fill []) (xs.drop g.pos) (termOf tail)).term) := by
  intro n
  induction n with
  | zero => intro g acc _ h; omega
  | succ n ih =>
    intro g acc hfin hn
    have hstep := chunkedNext_fin xs tail size fill hsize g hfin
    simp only [collect]
    revert hstep
    rcases chunkedNext (.fin xs tail) size fill g with ⟨r, g'⟩
    cases r with
    | item v =>
      intro h
      simp only [ChunkedStep] at h
      obtain ⟨h1, h2, h3, _⟩ := h
      simp only
      rw [ih g' (acc ++ [v]) h2 (by omega), h1]
      simp [Tr.cons]
    | eof => intro h; simp only [ChunkedStep] at h; rw [h]; simp [resOf]
    | err e => intro h; simp only [ChunkedStep] at h; rw [h]; simp [resOf]
    | oof => intro h; exact absurd h id

/-! ### `split_iter` -/

def splitCore (sep : Sep) (m : Option Nat) (buf : List V) (cnt : Nat) : Core :=
  { kind := .split sep m, buf := buf, cnt := cnt }

def SplitStep (xs : List V) (tail : Option Err) (sep : Sep) (m : Option Nat) (g : SplitGen) (r : Res × SplitGen) : Prop :=
  match r with
  | (.item v, g') =>
    (g'.finished = false ∧
      foldCore (splitCore sep m g.curGroup g.splitCount) (xs.drop g.pos) (termOf tail) =
        (foldCore (splitCore sep m g'.curGroup g'.splitCount) (xs.drop g'.pos) (termOf tail)).cons v ∧
      xs.length - g'.pos < xs.length - g.pos) ∨
    (g'.finished = true ∧
      foldCore (splitCore sep m g.curGroup g.splitCount) (xs.drop g.pos) (termOf tail) = ⟨[v], .eof⟩)
  | (.eof, _) => foldCore (splitCore sep m g.curGroup g.splitCount) (xs.drop g.pos) (termOf tail) = ⟨[], .eof⟩
  | (.err e, _) => foldCore (splitCore sep m g.curGroup g.splitCount) (xs.drop g.pos) (termOf tail) = ⟨[], .err e⟩
  | (.oof, _) => False

theorem splitStep_of_eq {xs : List V} {tail : Option Err} {sep : Sep} {m : Option Nat} {g g1 : SplitGen} {r : Res × SplitGen}
    (h : SplitStep xs tail sep m g1 r)
    (hfold : foldCore (splitCore sep m g.curGroup g.splitCount) (xs.drop g.pos) (termOf tail) =
      foldCore (splitCore sep m g1.curGroup g1.splitCount) (xs.drop g1.pos) (termOf tail))
    (hpos : g.pos ≤ g1.pos) : SplitStep xs tail sep m g r := by
  rcases r with ⟨r, g'⟩
  cases r with
  | item v =>
    simp only [SplitStep] at h ⊢
    rcases h with ⟨h1, h2, h3⟩ | ⟨h1, h2⟩
    · left; exact ⟨h1, by rw [hfold]; exact h2, by omega⟩
    · right; exact ⟨h1, by rw [hfold]; exact h2⟩
  | eof => simp only [SplitStep] at h ⊢; rw [hfold]; exact h
  | err e => simp only [SplitStep] at h ⊢; rw [hfold]; exact h
  | oof => exact h

theorem splitLoop_fin (xs : List V) (tail : Option Err) (sep : Sep) (m : Option Nat) :
    ∀ (rest : List V) (fuel : Nat) (g : SplitGen), g.finished = false →
    xs.drop g.pos = rest → rest.length < fuel → SplitStep xs tail sep m g (splitLoop (.fin xs tail) sep m fuel g) := by
  intro rest
  induction rest with
  | nil =>
    intro fuel g hfin hr hf
    obtain ⟨f, rfl⟩ : ∃ f, fuel = f + 1 := ⟨fuel - 1, by omega⟩
    simp only [splitLoop, next_fin_nil xs tail g.pos hr]
    cases tail with
    | some e => simp [SplitStep, resOf, termOf, hr, foldCore]
    | none =>
      simp only [resOf, termOf]
      cases sep with
      | none =>
        by_cases he : g.curGroup.isEmpty = true
        · simp [SplitStep, hr, foldCore, Core.flush, splitCore, termOf, he, sepIsNone]
        · simp [SplitStep, hr, foldCore, Core.flush, splitCore, termOf, he, sepIsNone]
      | scalar s => simp [SplitStep, hr, foldCore, Core.flush, splitCore, termOf, sepIsNone]
      | set vs => simp [SplitStep, hr, foldCore, Core.flush, splitCore, termOf, sepIsNone]
      | fn fs => simp [SplitStep, hr, foldCore, Core.flush, splitCore, termOf, sepIsNone]
  | cons v rest ih =>
    intro fuel g hfin hr hf
    obtain ⟨f, rfl⟩ : ∃ f, fuel = f + 1 := ⟨fuel - 1, by omega⟩
    obtain ⟨hn, hd, hlt⟩ := next_fin_cons xs tail g.pos v rest hr
    have hf' : rest.length < f := by simp at hf; omega
    have hpush := push_split (splitCore sep m g.curGroup g.splitCount) sep m rfl v
    have hact : splitDone m g.splitCount = !splitActive m g.splitCount := by
      cases m with
      | none => rfl
      | some m' => simp only [splitActive, splitDone]; by_cases h : g.splitCount < m' <;> simp [h] <;> omega
    simp only [splitLoop, hn, hact]
    -- the item is appended to the open group
    have happend : SplitStep xs tail sep m { g with pos := g.pos + 1, curGroup := g.curGroup ++ [v] }
        (splitLoop (.fin xs tail) sep m f { g with pos := g.pos + 1, curGroup := g.curGroup ++ [v] }) :=
      ih f _ hfin hd hf'
    by_cases hactive : splitActive m g.splitCount = true
    · simp only [hactive, Bool.not_true, Bool.false_eq_true, ↓reduceIte]
      simp only [splitCore, hactive, ↓reduceIte] at hpush
      cases hs : isSepE sep v with
      | error e =>
        simp only [SplitStep]
        rw [hr]
        simp [foldCore, splitCore, hpush, hs]
      | ok b =>
        cases b with
        | true =>
          by_cases hg : (sepIsNone sep && g.curGroup.isEmpty) = true
          · -- a separator while the group is empty, grouping mode: `continue`
            simp only [hg, ↓reduceIte]
            refine splitStep_of_eq (ih f { g with pos := g.pos + 1 } hfin hd hf') ?_ (by simp)
            rw [hr, hd]
            have hg' : (grouping sep && g.curGroup.isEmpty) = true := by
              cases sep <;> simp [grouping, sepIsNone] at hg ⊢ <;> exact hg
            simp [foldCore, splitCore, hpush, hs, hg', Tr.prepend]
          · simp only [hg, Bool.false_eq_true, ↓reduceIte, SplitStep]
            left
            refine ⟨hfin, ?_, by omega⟩
            rw [hr, hd]
            have hg' : (grouping sep && g.curGroup.isEmpty) = false := by
              cases sep <;> simp [grouping, sepIsNone] at hg ⊢ <;> exact hg
            simp [foldCore, splitCore, hpush, hs, hg', Tr.prepend, Tr.cons]
        | false =>
          refine splitStep_of_eq happend ?_ (by simp)
          rw [hr, hd]
          simp [foldCore, splitCore, hpush, hs, Tr.prepend]
    · simp only [hactive, Bool.not_false, ↓reduceIte]
      simp only [splitCore, hactive, Bool.false_eq_true, ↓reduceIte] at hpush
      refine splitStep_of_eq happend ?_ (by simp)
      rw [hr, hd]
      simp [foldCore, splitCore, hpush, Tr.prepend]

/-- **`split_iter` as written yields the trace of the `split` transducer.** -/
theorem split_collect (xs : List V) (tail : Option Err) (sep : Sep) (m : Option Nat) (fuel : Nat) (hfuel : xs.length < fuel) :
    ∀ (n : Nat) (g : SplitGen) (acc : List V), g.finished = false → xs.length - g.pos + 1 < n →
      collect (splitNext (.fin xs tail) sep m fuel) n g acc =
        (acc ++ (foldCore (splitCore sep m g.curGroup g.splitCount) (xs.drop g.pos) (termOf tail)).items,
         resOf (foldCore (splitCore sep m g.curGroup g.splitCount) (xs.drop g.pos) (termOf tail)).term) := by
  intro n
  induction n with
  | zero => intro g acc _ h; omega
  | succ n ih =>
    intro g acc hfin hn
    have hstep := splitLoop_fin xs tail sep m (xs.drop g.pos) fuel g hfin rfl (by rw [List.length_drop]; omega)
    simp only [collect, splitNext, hfin, Bool.false_eq_true, ↓reduceIte]
    revert hstep
    rcases splitLoop (.fin xs tail) sep m fuel g with ⟨r, g'⟩
    cases r with
    | item v =>
      intro h
      simp only [SplitStep] at h
      rcases h with ⟨h1, h2, h3⟩ | ⟨h1, h2⟩
      · simp only
        rw [ih g' (acc ++ [v]) h1 (by omega), h2]
        simp [Tr.cons]
      · -- the group yielded after the loop: the generator returns at the next call
        simp only
        rw [h2]
        cases n with
        | zero => omega
        | succ n => simp [collect, splitNext, h1, resOf]
    | eof => intro h; simp only [SplitStep] at h; rw [h]; simp [resOf]
    | err e => intro h; simp only [SplitStep] at h; rw [h]; simp [resOf]
    | oof => intro h; exact absurd h id

/-! ### `windowed_iter`: tees and zip -/

theorem teeNext_buffered (src : Src) (t : Tees) (i a : Nat) (v : V) (hi : t.idx[i]? = some a) (hb : t.buf[a]? = some v) :
    teeNext src t i = (.item v, { t with idx := t.idx.set i (a + 1) }) := by
  simp [teeNext, List.getD_eq_getElem?_getD, hi, hb]

theorem teeNext_pull (src : Src) (t : Tees) (i a : Nat) (hi : t.idx[i]? = some a) (hb : t.buf[a]? = none) :
    teeNext src t i =
      match src.next t.pos with
      | (.item v, pos') => (.item v, { pos := pos', buf := t.buf ++ [v], idx := t.idx.set i (a + 1) })
      | (r, pos') => (r, { t with pos := pos' }) := by
  simp only [teeNext, List.getD_eq_getElem?_getD, hi, Option.getD_some, hb]
  rcases src.next t.pos with ⟨r, p⟩
  cases r <;> rfl

/-- the tees after `j` windows: tee `i` is `i` items ahead of tee `0`, which has read `j` items;
    `size - 1` more than that were pulled from the source -/
structure TeesOK (xs : List V) (size j : Nat) (t : Tees) : Prop where
  len : t.idx.length = size
  idx : ∀ i, i < size → t.idx[i]? = some (j + i)
  buf : t.buf = xs.take (j + size - 1)
  blen : j + size - 1 ≤ xs.length
  pos : t.pos = j + size - 1

theorem getElem?_set' (l : List Nat) (i i' a : Nat) (hi : i < l.length) :
    (l.set i a)[i']? = if i' = i then some a else l[i']? := by
  by_cases h : i' = i
  · subst h; simp [hi]
  · simp [h, List.getElem?_set_ne (Ne.symm h)]

/-- one `zip.__next__`: tees `0 … size-2` hand out items that were pulled before, the last tee pulls one -/
theorem zipLoop_fin (xs : List V) (tail : Option Err) (size j : Nat) : ∀ (m i : Nat) (t : Tees) (acc : List V),
    m + i = size → 1 ≤ m → t.idx.length = size →
    (∀ i', i' < i → t.idx[i']? = some (j + i' + 1)) → (∀ i', i ≤ i' → i' < size → t.idx[i']? = some (j + i')) →
    t.buf = xs.take (j + size - 1) → j + size - 1 ≤ xs.length → t.pos = j + size - 1 →
    acc = (t.buf.drop j).take i →
    match xs.drop (j + size - 1) with
    | v :: _ => ∃ t', zipLoop (.fin xs tail) m i t acc = (.item (.tup (t.buf.drop j ++ [v])), t') ∧ TeesOK xs size (j + 1) t'
    | [] => ∃ t', zipLoop (.fin xs tail) m i t acc = (resOf (termOf tail), t') ∧ t'.pos = t.pos := by
  intro m
  induction m with
  | zero => intro i t acc _ h; omega
  | succ m ih =>
    intro i t acc hmi hm hlen hlo hhi hbuf hblen hpos hacc
    have hbl : t.buf.length = j + size - 1 := by rw [hbuf, List.length_take]; omega
    have hii : t.idx[i]? = some (j + i) := hhi i (Nat.le_refl _) (by omega)
    by_cases hlast : m = 0
    · -- the last tee: it has to pull
      subst hlast
      have hi : i = size - 1 := by omega
      have hnone : t.buf[j + i]? = none := List.getElem?_eq_none (by omega)
      have hacc' : acc = t.buf.drop j := by
        rw [hacc, List.take_of_length_le]; rw [List.length_drop]; omega
      simp only [zipLoop, teeNext_pull _ t i (j + i) hii hnone, hpos]
      rcases hd : xs.drop (j + size - 1) with _ | ⟨v, r⟩
      · simp only [next_fin_nil xs tail _ hd]
        cases tail <;> exact ⟨_, rfl, by simp⟩
      · obtain ⟨hn, hd', hlt⟩ := next_fin_cons xs tail _ v r hd
        simp only [hn]
        refine ⟨_, by rw [hacc'], ?_⟩
        refine ⟨by simp [hlen], ?_, ?_, by omega, by simp; omega⟩
        · intro i' hi'
          simp only
          rw [getElem?_set' _ _ _ _ (by omega)]
          by_cases h : i' = i
          · simp [h]; omega
          · simp only [h, ↓reduceIte]; rw [hlo i' (by omega)]; simp; omega
        · simp only
          rw [hbuf]
          have h1 : j + 1 + size - 1 = (j + size - 1) + 1 := by omega
          rw [h1, List.take_add_one]
          congr 1
          have : xs[j + size - 1]? = some v := by
            have := List.getElem?_drop (xs := xs) (i := j + size - 1) (j := 0)
            rw [hd] at this; simpa using this.symm
          simp [this]
    · -- a tee that reads what was pulled before
      have hw : j + i < t.buf.length := by omega
      obtain ⟨w, hwv⟩ : ∃ w, t.buf[j + i]? = some w := ⟨t.buf[j + i], List.getElem?_eq_getElem hw⟩
      simp only [zipLoop, teeNext_buffered _ t i (j + i) w hii hwv]
      have := ih (i + 1) { t with idx := t.idx.set i (j + i + 1) } (acc ++ [w]) (by omega) (by omega) (by simp [hlen])
        (by
          intro i' hi'
          simp only
          rw [getElem?_set' _ _ _ _ (by omega)]
          by_cases h : i' = i
          · simp [h]
          · simp only [h, ↓reduceIte]; exact hlo i' (by omega))
        (by
          intro i' h1 h2
          simp only
          rw [getElem?_set' _ _ _ _ (by omega)]
          have : i' ≠ i := by omega
          simp only [this, ↓reduceIte]; exact hhi i' (by omega) h2)
        hbuf hblen hpos
        (by
          simp only
          rw [hacc, List.take_add_one]
          congr 1
          rw [List.getElem?_drop, hwv]; rfl)
      exact this

/-- `for _ in range(n): next(t)` on tee `i` while the tees are being staggered: tee `i` re-reads what the
    tees before it pulled and then pulls one item itself -/
theorem teeAdvance_fin (xs : List V) (tail : Option Err) (size i : Nat) : ∀ (n : Nat) (t : Tees) (a : Nat),
    a + n = i → 1 ≤ n → t.idx.length = size → i < size → t.idx[i]? = some a →
    t.buf = xs.take (i - 1) → i - 1 ≤ xs.length → t.pos = i - 1 →
    match xs.drop (i - 1) with
    | _ :: _ => ∃ t', teeAdvance (.fin xs tail) n t i = (.item .none, t') ∧ t'.idx = t.idx.set i i ∧
        t'.buf = xs.take i ∧ t'.pos = i
    | [] => ∃ t', teeAdvance (.fin xs tail) n t i = (resOf (termOf tail), t') ∧ t'.pos = t.pos := by
  intro n
  induction n with
  | zero => intro t a _ h; omega
  | succ n ih =>
    intro t a han hn hlen hi hidx hbuf hblen hpos
    have hbl : t.buf.length = i - 1 := by rw [hbuf, List.length_take]; omega
    by_cases hlast : n = 0
    · subst hlast
      have ha : a = i - 1 := by omega
      have hnone : t.buf[a]? = none := List.getElem?_eq_none (by omega)
      simp only [teeAdvance, teeNext_pull _ t i a hidx hnone, hpos]
      rcases hd : xs.drop (i - 1) with _ | ⟨v, r⟩
      · simp only [next_fin_nil xs tail _ hd]
        cases tail <;> exact ⟨_, rfl, by simp⟩
      · obtain ⟨hnx, _, hlt⟩ := next_fin_cons xs tail _ v r hd
        simp only [hnx]
        refine ⟨_, rfl, by simp only; rw [ha]; congr 1; omega, ?_, by simp only; omega⟩
        simp only
        rw [hbuf]
        have h1 : i = (i - 1) + 1 := by omega
        have hv : xs[i - 1]? = some v := by
          have := List.getElem?_drop (xs := xs) (i := i - 1) (j := 0)
          rw [hd] at this; simpa using this.symm
        conv => rhs; rw [h1, List.take_add_one]
        simp [hv]
    · have hw : a < t.buf.length := by omega
      obtain ⟨w, hwv⟩ : ∃ w, t.buf[a]? = some w := ⟨t.buf[a], List.getElem?_eq_getElem hw⟩
      simp only [teeAdvance, teeNext_buffered _ t i a w hidx hwv]
      have := ih { t with idx := t.idx.set i (a + 1) } (a + 1) (by omega) (by omega) (by simp [hlen]) hi
        (by simp only; rw [getElem?_set' _ _ _ _ (by omega)]; simp) hbuf hblen hpos
      revert this
      rcases xs.drop (i - 1) with _ | ⟨v, r⟩
      · intro h; exact h
      · intro ⟨t', h1, h2, h3, h4⟩
        exact ⟨t', h1, by rw [h2]; simp, h3, h4⟩

/-- tees `0 … i-1` are staggered, the others untouched; `i - 1` items were pulled -/
structure PrimeOK (xs : List V) (size i : Nat) (t : Tees) : Prop where
  len : t.idx.length = size
  lo : ∀ i', i' < i → t.idx[i']? = some i'
  hi : ∀ i', i ≤ i' → i' < size → t.idx[i']? = some 0
  buf : t.buf = xs.take (i - 1)
  blen : i - 1 ≤ xs.length
  pos : t.pos = i - 1

theorem primeTees_fin (xs : List V) (tail : Option Err) (size : Nat) : ∀ (m i : Nat) (t : Tees), m + i = size →
    PrimeOK xs size i t →
    if size - 1 ≤ xs.length then ∃ t', primeTees (.fin xs tail) m i t = (.item .none, t') ∧ TeesOK xs size 0 t'
    else ∃ t', primeTees (.fin xs tail) m i t = (resOf (termOf tail), t') ∧ t'.pos = xs.length := by
  intro m
  induction m with
  | zero =>
    intro i t hmi hp
    have hi : i = size := by omega
    subst hi
    have := hp.blen
    simp only [this, ↓reduceIte, primeTees]
    exact ⟨t, rfl, hp.len, fun i' hi' => by rw [hp.lo i' hi']; simp, by rw [hp.buf]; simp, by omega, by rw [hp.pos]; simp⟩
  | succ m ih =>
    intro i t hmi hp
    simp only [primeTees]
    by_cases hi0 : i = 0
    · subst hi0
      simp only [teeAdvance]
      exact ih 1 t (by omega) ⟨hp.len, fun i' hi' => by
        have : i' = 0 := by omega
        subst this; exact hp.hi 0 (Nat.le_refl _) (by omega), fun i' h1 h2 => hp.hi i' (by omega) h2,
        by rw [hp.buf], by simp, by rw [hp.pos]⟩
    · have hadv := teeAdvance_fin xs tail size i i t 0 (by omega) (by omega) hp.len (by omega)
        (hp.hi i (Nat.le_refl _) (by omega)) hp.buf hp.blen hp.pos
      revert hadv
      rcases hd : xs.drop (i - 1) with _ | ⟨v, r⟩
      · intro ⟨t', h1, h2⟩
        have hle : xs.length ≤ i - 1 := by
          have : (xs.drop (i - 1)).length = xs.length - (i - 1) := List.length_drop
          rw [hd] at this; simp at this; omega
        have hnot : ¬ (size - 1 ≤ xs.length) := by omega
        simp only [hnot, ↓reduceIte, h1]
        cases tail <;> exact ⟨t', rfl, by rw [h2, hp.pos]; have := hp.blen; omega⟩
      · intro ⟨t', h1, h2, h3, h4⟩
        have hlt : i - 1 < xs.length := by
          have : (xs.drop (i - 1)).length = xs.length - (i - 1) := List.length_drop
          rw [hd] at this; simp at this; omega
        simp only [h1]
        exact ih (i + 1) t' (by omega) ⟨by rw [h2]; simp [hp.len],
          fun i' hi' => by
            rw [h2, getElem?_set' _ _ _ _ (by rw [hp.len]; omega)]
            by_cases h : i' = i
            · simp [h]
            · simp only [h, ↓reduceIte]; exact hp.lo i' (by omega),
          fun i' h1' h2' => by
            rw [h2, getElem?_set' _ _ _ _ (by rw [hp.len]; omega)]
            have : i' ≠ i := by omega
            simp only [this, ↓reduceIte]; exact hp.hi i' (by omega) h2',
          by rw [h3]; simp, by simp; omega, by rw [h4]; simp⟩

def winCore (size : Nat) (buf : List V) : Core := { kind := .windowed size, buf := buf }

/-- items that do not complete a window are kept -/
theorem fold_window_partial (size : Nat) (rest : List V) (t : Term) : ∀ (chunk buf : List V),
    buf.length + chunk.length < size →
    foldCore (winCore size buf) (chunk ++ rest) t = foldCore (winCore size (buf ++ chunk)) rest t := by
  intro chunk
  induction chunk with
  | nil => intro buf _; simp
  | cons x cs ih =>
    intro buf h
    simp only [List.length_cons] at h
    have hnf : ¬ (size ≤ buf.length + 1) := by omega
    have := ih (buf ++ [x]) (by simp; omega)
    simp only [List.append_assoc, List.singleton_append] at this
    rw [← this]
    simp [foldCore, Core.push, winCore, hnf, Tr.prepend]

/-- the trace the `windowed` transducer still owes once the tees are `j` windows on -/
def winTrace (xs : List V) (tail : Option Err) (size j : Nat) : Tr :=
  foldCore (winCore size ((xs.take (j + size - 1)).drop j)) (xs.drop (j + size - 1)) (termOf tail)

theorem winTrace_step (xs : List V) (tail : Option Err) (size j : Nat) (hsize : 1 ≤ size) (v : V) (r : List V)
    (hd : xs.drop (j + size - 1) = v :: r) :
    winTrace xs tail size j = (winTrace xs tail size (j + 1)).cons (.tup ((xs.take (j + size - 1)).drop j ++ [v])) := by
  obtain ⟨_, hd', hlt⟩ := next_fin_cons xs tail _ v r hd
  have hv : xs[j + size - 1]? = some v := by
    have := List.getElem?_drop (xs := xs) (i := j + size - 1) (j := 0)
    rw [hd] at this; simpa using this.symm
  have hlen : ((xs.take (j + size - 1)).drop j).length = size - 1 := by
    rw [List.length_drop, List.length_take]; omega
  have hfull : size ≤ ((xs.take (j + size - 1)).drop j).length + 1 := by omega
  have h1 : j + 1 + size - 1 = (j + size - 1) + 1 := by omega
  have htail : ((xs.take (j + size - 1)).drop j ++ [v]).tail = (xs.take (j + 1 + size - 1)).drop (j + 1) := by
    rw [h1, List.take_add_one, hv]
    simp only [Option.toList_some]
    have hj : j ≤ (xs.take (j + size - 1)).length := by rw [List.length_take]; omega
    rw [← List.drop_append_of_le_length hj, ← List.drop_one, List.drop_drop]
  unfold winTrace
  rw [hd, h1, hd', ← h1, ← htail]
  have hfull' : size ≤ min (j + size - 1) xs.length - j + 1 := by omega
  simp [foldCore, Core.push, winCore, hfull', Tr.prepend, Tr.cons]

theorem winTrace_end (xs : List V) (tail : Option Err) (size j : Nat) (hd : xs.drop (j + size - 1) = []) :
    winTrace xs tail size j = ⟨[], termOf tail⟩ := by
  unfold winTrace
  rw [hd]
  cases tail <;> simp [foldCore, termOf, winCore, Core.flush]

/-- **`zip(*tees)` as written yields the trace of the `windowed` transducer** (after the staggering) -/
theorem windowed_collect_zip (xs : List V) (tail : Option Err) (size : Nat) (hsize : 1 ≤ size) :
    ∀ (n j : Nat) (t : Tees) (acc : List V), TeesOK xs size j t → xs.length - (j + size - 1) < n →
      collect (windowedNext (.fin xs tail)) n (.zip t size) acc =
        (acc ++ (winTrace xs tail size j).items, resOf (winTrace xs tail size j).term) := by
  intro n
  induction n with
  | zero => intro j t acc _ h; omega
  | succ n ih =>
    intro j t acc hok hn
    have hz := zipLoop_fin xs tail size j size 0 t [] (by omega) hsize hok.len (fun i' h => by omega)
      (fun i' _ h2 => hok.idx i' h2) hok.buf hok.blen hok.pos (by simp)
    simp only [collect, windowedNext]
    revert hz
    rcases hd : xs.drop (j + size - 1) with _ | ⟨v, r⟩
    · intro ⟨t', h1, _⟩
      rw [h1, winTrace_end xs tail size j hd]
      cases tail <;> simp [resOf, termOf]
    · intro ⟨t', h1, h2⟩
      have hlt : j + size - 1 < xs.length := (next_fin_cons xs tail _ v r hd).2.2
      rw [h1]
      simp only
      rw [ih (j + 1) t' _ h2 (by omega), winTrace_step xs tail size j hsize v r hd, hok.buf]
      simp [Tr.cons]

/-- **`windowed_iter` as written** — the staggering of the tees when it is called, then `zip(*tees)` —
    **yields the trace of the `windowed` transducer**; the call itself pulls `size - 1` items (all
    there are, when there are fewer), and raises what the source raises while it does so. -/
theorem windowed_collect (xs : List V) (tail : Option Err) (size : Nat) (hsize : 1 ≤ size) :
    match windowedInit (.fin xs tail) 0 size with
    | .ok g =>
      g.pos = min (size - 1) xs.length ∧
      ∀ n, xs.length < n → collect (windowedNext (.fin xs tail)) n g [] =
        ((foldCore (winCore size []) xs (termOf tail)).items, resOf (foldCore (winCore size []) xs (termOf tail)).term)
    | .error (e, p) => p = xs.length ∧ foldCore (winCore size []) xs (termOf tail) = ⟨[], .err e⟩ := by
  have hp := primeTees_fin xs tail size size 0 (Tees.init 0 size) (by omega)
    ⟨by simp [Tees.init], fun i' h => by omega, fun i' _ h => by simp [Tees.init, h], by simp [Tees.init], by simp,
     by simp [Tees.init]⟩
  unfold windowedInit
  by_cases hle : size - 1 ≤ xs.length
  · simp only [hle, ↓reduceIte] at hp
    obtain ⟨t', h1, h2⟩ := hp
    rw [h1]
    simp only [WindowedGen.pos]
    refine ⟨by rw [h2.pos]; omega, fun n hn => ?_⟩
    rw [windowed_collect_zip xs tail size hsize n 0 t' [] h2 (by omega)]
    have hpart := fold_window_partial size (xs.drop (size - 1)) (termOf tail) (xs.take (size - 1)) []
      (by simp [List.length_take]; omega)
    rw [List.take_append_drop] at hpart
    simp only [winTrace, Nat.zero_add, List.drop_zero, List.nil_append] at hpart ⊢
    rw [hpart]
  · simp only [hle, ↓reduceIte] at hp
    obtain ⟨t', h1, h2⟩ := hp
    have hpart := fold_window_partial size [] (termOf tail) xs [] (by simp; omega)
    simp only [List.append_nil, List.nil_append] at hpart
    rw [h1]
    cases tail with
    | none =>
      simp only [resOf, termOf, WindowedGen.pos] at hpart ⊢
      refine ⟨by rw [h2]; omega, fun n hn => ?_⟩
      obtain ⟨n', rfl⟩ : ∃ n', n = n' + 1 := ⟨n - 1, by omega⟩
      rw [hpart]
      simp [collect, windowedNext, foldCore, termOf, winCore, Core.flush, resOf]
    | some e =>
      simp only [resOf, termOf] at hpart ⊢
      exact ⟨h2, by rw [hpart]; simp [foldCore]⟩

end Glom.C17.Boltons
