import Glom.Spec.C20
/-
  C20 — helper lemmas: dict lemmas, the order "entries are only added", the relation
  `Agrees` (a residual program ends with outcome `a` whatever the other threads do),
  preservation by micro-steps, compilation of evaluations, threads, a call run alone,
  scope frames.
-/
namespace Glom.C20

/-! ### dict lemmas -/

theorem dlookup_mem {α β : Type} [DecidableEq α] {k : α} {v : β} : ∀ {l : List (α × β)},
    dlookup k l = some v → (k, v) ∈ l := by
  intro l
  induction l with
  | nil => intro h; simp [dlookup] at h
  | cons e r ih =>
    obtain ⟨k', v'⟩ := e
    intro h
    simp only [dlookup] at h
    split at h
    · next heq => simp only [Option.some.injEq] at h; subst h; subst heq; exact List.mem_cons_self ..
    · exact List.mem_cons_of_mem _ (ih h)

theorem mem_dstore {α β : Type} [DecidableEq α] {k : α} {v : β} {e : α × β} : ∀ {l : List (α × β)},
    e ∈ dstore k v l → e = (k, v) ∨ e ∈ l := by
  intro l
  induction l with
  | nil => intro h; simp [dstore] at h; exact Or.inl h
  | cons e' r ih =>
    obtain ⟨k', v'⟩ := e'
    intro h
    simp only [dstore] at h
    split at h
    · rcases List.mem_cons.mp h with h | h
      · exact Or.inl h
      · exact Or.inr (List.mem_cons_of_mem _ h)
    · rcases List.mem_cons.mp h with h | h
      · exact Or.inr (by rw [h]; exact List.mem_cons_self ..)
      · rcases ih h with h | h
        · exact Or.inl h
        · exact Or.inr (List.mem_cons_of_mem _ h)

theorem dlookup_dstore_same {α β : Type} [DecidableEq α] (k : α) (v : β) : ∀ (l : List (α × β)),
    dlookup k (dstore k v l) = some v := by
  intro l
  induction l with
  | nil => simp [dstore, dlookup]
  | cons e r ih =>
    obtain ⟨k', v'⟩ := e
    simp only [dstore]
    split
    · simp [dlookup]
    · next hne => simp [dlookup, hne, ih]

theorem dlookup_dstore_other {α β : Type} [DecidableEq α] (k k' : α) (v : β) (hne : k' ≠ k) :
    ∀ (l : List (α × β)), dlookup k' (dstore k v l) = dlookup k' l := by
  intro l
  induction l with
  | nil => simp [dstore, dlookup, Ne.symm hne]
  | cons e r ih =>
    obtain ⟨k'', v''⟩ := e
    simp only [dstore]
    split
    · next heq => subst heq; simp [dlookup, Ne.symm hne]
    · simp only [dlookup]; split <;> simp [ih]

/-! ### the order on shared states: entries are only ever added -/

def Sh.le (a b : Sh) : Prop :=
  (∀ t p, dlookup t a.pathCache = some p → dlookup t b.pathCache = some p) ∧
  (∀ k h, dlookup k a.typeCache = some h → dlookup k b.typeCache = some h)

theorem Sh.le_refl (a : Sh) : a.le a := ⟨fun _ _ h => h, fun _ _ h => h⟩

theorem Sh.le_trans {a b c : Sh} (h1 : a.le b) (h2 : b.le c) : a.le c :=
  ⟨fun t p h => h2.1 t p (h1.1 t p h), fun k h' h => h2.2 k h' (h1.2 k h' h)⟩

theorem inv_pcStore {reg : Reg} {sh : Sh} (hi : Inv reg sh) (t : String) :
    Inv reg { sh with pathCache := dstore t (create t) sh.pathCache } ∧
    sh.le { sh with pathCache := dstore t (create t) sh.pathCache } := by
  refine ⟨⟨?_, hi.2⟩, ⟨?_, fun _ _ h => h⟩⟩
  · intro e he
    rcases mem_dstore he with h | h
    · rw [h]
    · exact hi.1 e h
  · intro t' p h
    by_cases heq : t' = t
    · subst heq
      have := hi.1 _ (dlookup_mem h)
      simp only at this
      rw [dlookup_dstore_same, this]
    · rw [dlookup_dstore_other _ _ _ heq]; exact h

theorem inv_tcStore {reg : Reg} {sh : Sh} (hi : Inv reg sh) (key : TKey) (h : String) (hr : reg key = some h) :
    Inv reg { sh with typeCache := dstore key h sh.typeCache } ∧
    sh.le { sh with typeCache := dstore key h sh.typeCache } := by
  refine ⟨⟨hi.1, ?_⟩, ⟨fun _ _ h => h, ?_⟩⟩
  · intro e he
    rcases mem_dstore he with h' | h'
    · rw [h']; exact hr
    · exact hi.2 e h'
  · intro k' h' hl
    by_cases heq : k' = key
    · subst heq
      have := hi.2 _ (dlookup_mem hl)
      simp only at this
      rw [hr] at this
      rw [dlookup_dstore_same]; exact this.symm ▸ rfl
    · rw [dlookup_dstore_other _ _ _ heq]; exact hl

/-! ### a residual program that, whatever the others do, ends with outcome `a` -/

def Agrees (reg : Reg) : Prog → Out → Sh → Prop
  | .done o, a, _ => o = a
  | .pcHas t k, a, sh => ∀ sh', sh.le sh' → Inv reg sh' → Agrees reg (k (dlookup t sh'.pathCache).isSome) a sh'
  | .pcLen k, a, sh => ∀ sh', sh.le sh' → Inv reg sh' → Agrees reg (k sh'.pathCache.length) a sh'
  | .pcStore t p k, a, sh => p = create t ∧
      ∀ sh', sh.le sh' → Inv reg sh' → Agrees reg k a { sh' with pathCache := dstore t p sh'.pathCache }
  | .pcGet t k, a, sh => ∀ sh', sh.le sh' → Inv reg sh' → Agrees reg (k (dlookup t sh'.pathCache)) a sh'
  | .tcHas key k, a, sh => ∀ sh', sh.le sh' → Inv reg sh' → Agrees reg (k (dlookup key sh'.typeCache).isSome) a sh'
  | .tcStore key h k, a, sh => reg key = some h ∧
      ∀ sh', sh.le sh' → Inv reg sh' → Agrees reg k a { sh' with typeCache := dstore key h sh'.typeCache }
  | .tcGet key k, a, sh => ∀ sh', sh.le sh' → Inv reg sh' → Agrees reg (k (dlookup key sh'.typeCache)) a sh'
  | .tcReset _, _, _ => False
  | .user _ k, a, sh => ∀ sh', sh.le sh' → Inv reg sh' → Agrees reg k a sh'

theorem Agrees.mono {reg : Reg} {p : Prog} {a : Out} {sh sh2 : Sh} (h : Agrees reg p a sh) (hle : sh.le sh2) :
    Agrees reg p a sh2 := by
  cases p with
  | done o => exact h
  | pcHas t k => exact fun sh' h1 h2 => h sh' (Sh.le_trans hle h1) h2
  | pcLen k => exact fun sh' h1 h2 => h sh' (Sh.le_trans hle h1) h2
  | pcStore t p k => exact ⟨h.1, fun sh' h1 h2 => h.2 sh' (Sh.le_trans hle h1) h2⟩
  | pcGet t k => exact fun sh' h1 h2 => h sh' (Sh.le_trans hle h1) h2
  | tcHas key k => exact fun sh' h1 h2 => h sh' (Sh.le_trans hle h1) h2
  | tcStore key hh k => exact ⟨h.1, fun sh' h1 h2 => h.2 sh' (Sh.le_trans hle h1) h2⟩
  | tcGet key k => exact fun sh' h1 h2 => h sh' (Sh.le_trans hle h1) h2
  | tcReset k => exact h
  | user f k => exact fun sh' h1 h2 => h sh' (Sh.le_trans hle h1) h2

/-- one micro-step of a thread keeps the invariant, only adds entries, and the thread still
    ends with `a` -/
theorem agrees_step {reg : Reg} {p : Prog} {a : Out} {sh : Sh} (hi : Inv reg sh) (h : Agrees reg p a sh) :
    Inv reg (p.step sh).2 ∧ sh.le (p.step sh).2 ∧ Agrees reg (p.step sh).1 a (p.step sh).2 := by
  cases p with
  | done o => exact ⟨hi, Sh.le_refl _, h⟩
  | pcHas t k => exact ⟨hi, Sh.le_refl _, h sh (Sh.le_refl _) hi⟩
  | pcLen k => exact ⟨hi, Sh.le_refl _, h sh (Sh.le_refl _) hi⟩
  | pcStore t p k =>
    obtain ⟨hp, hk⟩ := h
    subst hp
    exact ⟨(inv_pcStore hi t).1, (inv_pcStore hi t).2, hk sh (Sh.le_refl _) hi⟩
  | pcGet t k => exact ⟨hi, Sh.le_refl _, h sh (Sh.le_refl _) hi⟩
  | tcHas key k => exact ⟨hi, Sh.le_refl _, h sh (Sh.le_refl _) hi⟩
  | tcStore key hh k =>
    obtain ⟨hr, hk⟩ := h
    exact ⟨(inv_tcStore hi key hh hr).1, (inv_tcStore hi key hh hr).2, hk sh (Sh.le_refl _) hi⟩
  | tcGet key k => exact ⟨hi, Sh.le_refl _, h sh (Sh.le_refl _) hi⟩
  | tcReset k => exact absurd h id
  | user f k => exact ⟨hi, Sh.le_refl _, h sh (Sh.le_refl _) hi⟩

/-! ### evaluations compile to programs that end with their denotation -/

theorem agrees_bind {reg : Reg} : ∀ (p : Prog) (f : Out → Prog) (o a : Out) (sh : Sh), Inv reg sh →
    Agrees reg p o sh → (∀ sh', sh.le sh' → Inv reg sh' → Agrees reg (f o) a sh') →
    Agrees reg (p.bind f) a sh := by
  intro p
  induction p with
  | done o' =>
    intro f o a sh hi h hf
    simp only [Agrees] at h
    subst h
    simpa [Prog.bind] using hf sh (Sh.le_refl _) hi
  | pcHas t k ih =>
    intro f o a sh _ h hf
    simp only [Prog.bind, Agrees] at h ⊢
    exact fun sh' h1 h2 => ih _ f o a sh' h2 (h sh' h1 h2) (fun s h3 h4 => hf s (Sh.le_trans h1 h3) h4)
  | pcLen k ih =>
    intro f o a sh _ h hf
    simp only [Prog.bind, Agrees] at h ⊢
    exact fun sh' h1 h2 => ih _ f o a sh' h2 (h sh' h1 h2) (fun s h3 h4 => hf s (Sh.le_trans h1 h3) h4)
  | pcStore t v k ih =>
    intro f o a sh _ h hf
    simp only [Prog.bind, Agrees] at h ⊢
    obtain ⟨hv, hk⟩ := h
    subst hv
    refine ⟨rfl, fun sh' h1 h2 => ?_⟩
    exact ih f o a _ (inv_pcStore h2 t).1 (hk sh' h1 h2)
      (fun s h3 h4 => hf s (Sh.le_trans h1 (Sh.le_trans (inv_pcStore h2 t).2 h3)) h4)
  | pcGet t k ih =>
    intro f o a sh _ h hf
    simp only [Prog.bind, Agrees] at h ⊢
    exact fun sh' h1 h2 => ih _ f o a sh' h2 (h sh' h1 h2) (fun s h3 h4 => hf s (Sh.le_trans h1 h3) h4)
  | tcHas key k ih =>
    intro f o a sh _ h hf
    simp only [Prog.bind, Agrees] at h ⊢
    exact fun sh' h1 h2 => ih _ f o a sh' h2 (h sh' h1 h2) (fun s h3 h4 => hf s (Sh.le_trans h1 h3) h4)
  | tcStore key hh k ih =>
    intro f o a sh _ h hf
    simp only [Prog.bind, Agrees] at h ⊢
    obtain ⟨hr, hk⟩ := h
    refine ⟨hr, fun sh' h1 h2 => ?_⟩
    exact ih f o a _ (inv_tcStore h2 key hh hr).1 (hk sh' h1 h2)
      (fun s h3 h4 => hf s (Sh.le_trans h1 (Sh.le_trans (inv_tcStore h2 key hh hr).2 h3)) h4)
  | tcGet key k ih =>
    intro f o a sh _ h hf
    simp only [Prog.bind, Agrees] at h ⊢
    exact fun sh' h1 h2 => ih _ f o a sh' h2 (h sh' h1 h2) (fun s h3 h4 => hf s (Sh.le_trans h1 h3) h4)
  | tcReset k _ =>
    intro f o a sh _ h _
    simp only [Agrees] at h
  | user g k ih =>
    intro f o a sh _ h hf
    simp only [Prog.bind, Agrees] at h ⊢
    exact fun sh' h1 h2 => ih f o a sh' h2 (h sh' h1 h2) (fun s h3 h4 => hf s (Sh.le_trans h1 h3) h4)

theorem inv_lookup_path {reg : Reg} {sh : Sh} (hi : Inv reg sh) {t : String} {p : PathV}
    (h : dlookup t sh.pathCache = some p) : p = create t := hi.1 _ (dlookup_mem h)

theorem inv_lookup_type {reg : Reg} {sh : Sh} (hi : Inv reg sh) {key : TKey} {h : String}
    (hl : dlookup key sh.typeCache = some h) : reg key = some h := hi.2 _ (dlookup_mem hl)

/-- `Path.from_text` under arbitrary interference: whatever the interleaving, the
    continuation receives `create text` -/
theorem agrees_fromText {reg : Reg} (max : Nat) (t : String) (k : Except Err PathV → Prog) (a : Out) (sh : Sh)
    (hk : ∀ sh', sh.le sh' → Inv reg sh' → Agrees reg (k (.ok (create t))) a sh') :
    Agrees reg (fromTextP max t k) a sh := by
  simp only [fromTextP, Agrees]
  intro sh1 h1 i1
  cases hl : dlookup t sh1.pathCache with
  | some p =>
    simp only [Option.isSome_some, ↓reduceIte, Agrees]
    intro sh2 h2 i2
    rw [h2.1 t p hl]
    simp only
    rw [inv_lookup_path i1 hl]
    exact hk sh2 (Sh.le_trans h1 h2) i2
  | none =>
    simp only [Option.isSome_none, Bool.false_eq_true, ↓reduceIte, Agrees]
    intro sh2 h2 i2
    split
    · exact hk sh2 (Sh.le_trans h1 h2) i2
    · simp only [Agrees, true_and]
      intro sh3 h3 i3 sh4 h4 i4
      have : dlookup t sh4.pathCache = some (create t) := h4.1 t _ (dlookup_dstore_same t (create t) _)
      rw [this]
      exact hk sh4 (Sh.le_trans h1 (Sh.le_trans h2 (Sh.le_trans h3
        (Sh.le_trans (inv_pcStore i3 t).2 h4)))) i4

theorem agrees_getHandler {reg : Reg} (key : TKey) (k : Except Err HRes → Prog) (a : Out) (sh : Sh)
    (hk : ∀ sh', sh.le sh' → Inv reg sh' →
      Agrees reg (k (.ok (match reg key with | some h => .found h | none => .unregistered))) a sh') :
    Agrees reg (getHandlerP reg key k) a sh := by
  simp only [getHandlerP, Agrees]
  intro sh1 h1 i1
  cases hl : dlookup key sh1.typeCache with
  | some h =>
    simp only [Option.isSome_some, ↓reduceIte, Agrees]
    intro sh2 h2 i2
    rw [h2.2 key h hl]
    simp only
    have hr := inv_lookup_type i1 hl
    have := hk sh2 (Sh.le_trans h1 h2) i2
    rw [hr] at this
    exact this
  | none =>
    simp only [Option.isSome_none, Bool.false_eq_true, ↓reduceIte]
    cases hr : reg key with
    | none =>
      simp only
      have := hk sh1 h1 i1
      rw [hr] at this
      exact this
    | some h =>
      simp only [Agrees]
      refine ⟨hr, ?_⟩
      intro sh3 h3 i3 sh4 h4 i4
      have : dlookup key sh4.typeCache = some h := h4.2 key _ (dlookup_dstore_same key h _)
      rw [this]
      have := hk sh4 (Sh.le_trans h1 (Sh.le_trans h3 (Sh.le_trans (inv_tcStore i3 key h hr).2 h4))) i4
      rw [hr] at this
      exact this

theorem compile_agrees (max : Nat) (reg : Reg) : ∀ (ev : Ev) (sh : Sh), Inv reg sh →
    Agrees reg (compile max reg ev) (denote reg ev) sh := by
  intro ev
  induction ev with
  | ret o => intro sh _; simp [compile, denote, Agrees]
  | parse t k ih =>
    intro sh _
    simp only [compile, denote]
    exact agrees_fromText max t _ _ sh (fun sh' _ hi' => ih _ sh' hi')
  | handler key k ih =>
    intro sh _
    simp only [compile, denote]
    exact agrees_getHandler key _ _ sh (fun sh' _ hi' => ih _ sh' hi')
  | user f k ih =>
    intro sh _
    simp only [compile, denote, Agrees]
    exact fun sh' _ hi' => ih sh' hi'
  | nested inner k ihi ihk =>
    intro sh hi
    simp only [compile, denote]
    exact agrees_bind _ _ _ _ sh hi (ihi sh hi) (fun sh' _ hi' => ihk _ sh' hi')

/-! ### threads -/

/-- every thread's residual program still ends with its expected outcome -/
def SysOK (reg : Reg) (s : Sys) (as : List Out) : Prop :=
  Inv reg s.sh ∧ s.threads.length = as.length ∧
  ∀ (i : Nat) (p : Prog) (a : Out), s.threads[i]? = some p → as[i]? = some a → Agrees reg p a s.sh

theorem sysOK_step {reg : Reg} {s : Sys} {as : List Out} (h : SysOK reg s as) (i : Nat) :
    SysOK reg (s.step i) as ∧ s.sh.le (s.step i).sh := by
  obtain ⟨hi, hlen, hth⟩ := h
  unfold Sys.step
  cases hp : s.threads[i]? with
  | none => exact ⟨⟨hi, hlen, hth⟩, Sh.le_refl _⟩
  | some p =>
    simp only
    have hilt : i < s.threads.length := by
      rcases Nat.lt_or_ge i s.threads.length with h | h
      · exact h
      · rw [List.getElem?_eq_none h] at hp; cases hp
    obtain ⟨a, ha⟩ : ∃ a, as[i]? = some a := ⟨as[i]'(hlen ▸ hilt), List.getElem?_eq_getElem _⟩
    obtain ⟨hi', hle, hag⟩ := agrees_step hi (hth i p a hp ha)
    refine ⟨⟨hi', by simpa using hlen, ?_⟩, hle⟩
    intro j q b hq hb
    by_cases hji : j = i
    · subst hji
      simp only [List.getElem?_set_self hilt, Option.some.injEq] at hq
      subst hq
      rw [ha] at hb; cases hb
      exact hag
    · rw [List.getElem?_set_ne (Ne.symm hji)] at hq
      exact (hth j q b hq hb).mono hle

theorem sysOK_run {reg : Reg} {as : List Out} : ∀ (sched : List Nat) (s : Sys), SysOK reg s as →
    SysOK reg (s.run sched) as ∧ s.sh.le (s.run sched).sh := by
  intro sched
  induction sched with
  | nil => intro s h; exact ⟨h, Sh.le_refl _⟩
  | cons i r ih =>
    intro s h
    obtain ⟨h1, l1⟩ := sysOK_step h i
    obtain ⟨h2, l2⟩ := ih _ h1
    exact ⟨h2, Sh.le_trans l1 l2⟩

theorem sysOK_runToYield {reg : Reg} {as : List Out} (i : Nat) : ∀ (fuel : Nat) (s : Sys), SysOK reg s as →
    SysOK reg (s.runToYield i fuel) as := by
  intro fuel
  induction fuel with
  | zero => intro s h; exact h
  | succ fuel ih =>
    intro s h
    simp only [Sys.runToYield]
    split
    · exact h
    · exact h
    · exact (sysOK_step h i).1
    · exact ih _ (sysOK_step h i).1

theorem sysOK_runSegments {reg : Reg} {as : List Out} (fuel : Nat) : ∀ (sched : List Nat) (s : Sys),
    SysOK reg s as → SysOK reg (s.runSegments fuel sched) as := by
  intro sched
  induction sched with
  | nil => intro s h; exact h
  | cons i r ih => intro s h; exact ih _ (sysOK_runToYield i fuel s h)

theorem sysOK_init (max : Nat) (reg : Reg) (evs : List Ev) (sh : Sh) (hi : Inv reg sh) :
    SysOK reg ⟨sh, evs.map (compile max reg)⟩ (evs.map (denote reg)) := by
  refine ⟨hi, by simp, ?_⟩
  intro i p a hp ha
  simp only [List.getElem?_map] at hp ha
  cases he : evs[i]? with
  | none => simp [he] at hp
  | some ev =>
    simp only [he, Option.map_some, Option.some.injEq] at hp ha
    rw [← hp, ← ha]
    exact compile_agrees max reg ev sh hi

theorem sysOK_done {reg : Reg} {s : Sys} {as : List Out} (h : SysOK reg s as) (i : Nat) (o a : Out)
    (hp : s.threads[i]? = some (.done o)) (ha : as[i]? = some a) : o = a := by
  have := h.2.2 i _ a hp ha
  simpa [Agrees] using this

/-! ### a call run alone -/

theorem runAlone_agrees {reg : Reg} {a : Out} : ∀ (n : Nat) (p : Prog) (sh : Sh), Inv reg sh → Agrees reg p a sh →
    Inv reg (runAlone p sh n).2 ∧ Agrees reg (runAlone p sh n).1 a (runAlone p sh n).2 := by
  intro n
  induction n with
  | zero => intro p sh hi h; exact ⟨hi, h⟩
  | succ n ih =>
    intro p sh hi h
    obtain ⟨hi', _, hag⟩ := agrees_step hi h
    exact ih _ _ hi' hag

/-- every program is a finite tree: run alone it reaches `done` -/
theorem runAlone_terminates : ∀ (p : Prog) (sh : Sh), ∃ n o, (runAlone p sh n).1 = .done o := by
  intro p
  induction p with
  | done o => intro sh; exact ⟨0, o, rfl⟩
  | pcHas t k ih => intro sh; obtain ⟨n, o, h⟩ := ih _ sh; exact ⟨n + 1, o, h⟩
  | pcLen k ih => intro sh; obtain ⟨n, o, h⟩ := ih _ sh; exact ⟨n + 1, o, h⟩
  | pcStore t v k ih => intro sh; obtain ⟨n, o, h⟩ := ih _; exact ⟨n + 1, o, h⟩
  | pcGet t k ih => intro sh; obtain ⟨n, o, h⟩ := ih _ sh; exact ⟨n + 1, o, h⟩
  | tcHas key k ih => intro sh; obtain ⟨n, o, h⟩ := ih _ sh; exact ⟨n + 1, o, h⟩
  | tcStore key hh k ih => intro sh; obtain ⟨n, o, h⟩ := ih _; exact ⟨n + 1, o, h⟩
  | tcGet key k ih => intro sh; obtain ⟨n, o, h⟩ := ih _ sh; exact ⟨n + 1, o, h⟩
  | tcReset k ih => intro sh; obtain ⟨n, o, h⟩ := ih _; exact ⟨n + 1, o, h⟩
  | user f k ih => intro sh; obtain ⟨n, o, h⟩ := ih sh; exact ⟨n + 1, o, h⟩

/-- a call run alone (any sound initial cache contents) ends with its denotation -/
theorem alone_outcome (max : Nat) (reg : Reg) (ev : Ev) (sh : Sh) (hi : Inv reg sh) :
    ∃ n, (runAlone (compile max reg ev) sh n).1 = .done (denote reg ev) := by
  obtain ⟨n, o, h⟩ := runAlone_terminates (compile max reg ev) sh
  have := (runAlone_agrees n _ sh hi (compile_agrees max reg ev sh hi)).2
  rw [h] at this
  simp only [Agrees] at this
  exact ⟨n, by rw [h, this]⟩

/-! ### scope frames -/

theorem writeFrame_length (h : SHeap) (a : Nat) (k v : String) : (writeFrame h a k v).length = h.length := by
  unfold writeFrame; split <;> simp

theorem writeFrame_other (h : SHeap) (a b : Nat) (k v : String) (hne : b ≠ a) :
    (writeFrame h a k v)[b]? = h[b]? := by
  unfold writeFrame
  split
  · rw [List.getElem?_set_ne (Ne.symm hne)]
  · rfl

/-- what a run of scope operations preserves, given that every writable frame of the current
    chain (all but the default scope at its end) was allocated at or after `base` -/
structure Framed (base : Nat) (h : SHeap) (chain : List Nat) (h' : SHeap) (chain' : List Nat) : Prop where
  old : ∀ a, a < base → h'[a]? = h[a]?
  grows : h.length ≤ h'.length
  fresh : ∀ a ∈ chain'.dropLast, base ≤ a

mutual
theorem execOp_framed (base : Nat) : ∀ (op : SOp) (h : SHeap) (chain : List Nat), base ≤ h.length →
    (∀ a ∈ chain.dropLast, base ≤ a) → Framed base h chain (execOp h chain op).1 (execOp h chain op).2
  | .child init, h, chain, hb, hc => by
    simp only [execOp]
    split
    · next p q r =>
      refine ⟨?_, by simp [writeFrame_length], ?_⟩
      · intro a ha
        have hp : base ≤ p := hc p (by simp [List.dropLast])
        rw [writeFrame_other _ _ _ _ _ (by omega), List.getElem?_append_left (by omega)]
      · intro a ha
        simp only [List.dropLast_cons_cons, List.mem_cons] at ha
        rcases ha with rfl | ha
        · exact hb
        · exact hc a (by simpa [List.dropLast] using ha)
    · next hneg =>
      refine ⟨fun a ha => by rw [List.getElem?_append_left (by omega)], by simp, ?_⟩
      intro a ha
      cases chain with
      | nil => simp at ha
      | cons x xs =>
        cases xs with
        | nil => simp [List.dropLast] at ha; omega
        | cons y ys => exact absurd rfl (hneg x y ys)
  | .set depth k v, h, chain, hb, hc => by
    simp only [execOp]
    split
    · next hd =>
      cases hg : chain[depth]? with
      | none => exact ⟨fun _ _ => rfl, Nat.le_refl _, hc⟩
      | some a =>
        simp only
        refine ⟨?_, by simp [writeFrame_length], hc⟩
        intro b hb'
        have : a ∈ chain.dropLast := by
          rw [List.mem_iff_getElem?]
          refine ⟨depth, ?_⟩
          rw [List.getElem?_dropLast]
          simp [show depth < chain.length - 1 by omega, hg]
        have := hc a this
        rw [writeFrame_other _ _ _ _ _ (by omega)]
    · exact ⟨fun _ _ => rfl, Nat.le_refl _, hc⟩
  | .pop, h, chain, hb, hc => by
    simp only [execOp]
    split
    · next x y z rest =>
      refine ⟨fun _ _ => rfl, Nat.le_refl _, ?_⟩
      intro a ha
      exact hc a (by simp only [List.dropLast_cons_cons, List.mem_cons]; right; simpa [List.dropLast] using ha)
    · exact ⟨fun _ _ => rfl, Nat.le_refl _, hc⟩
  | .call body, h, chain, hb, hc => by
    simp only [execOp]
    have := execOps_framed h.length body (h ++ [⟨rootInit⟩]) [h.length, 0] (by simp)
      (by simp [List.dropLast])
    refine ⟨?_, ?_, hc⟩
    · intro a ha
      rw [this.old a (by omega), List.getElem?_append_left (by omega)]
    · have := this.grows; simp at this; omega
theorem execOps_framed (base : Nat) : ∀ (ops : List SOp) (h : SHeap) (chain : List Nat), base ≤ h.length →
    (∀ a ∈ chain.dropLast, base ≤ a) → Framed base h chain (execOps h chain ops).1 (execOps h chain ops).2
  | [], h, chain, _, hc => ⟨fun _ _ => rfl, Nat.le_refl _, hc⟩
  | op :: r, h, chain, hb, hc => by
    simp only [execOps]
    have h1 := execOp_framed base op h chain hb hc
    have h2 := execOps_framed base r (execOp h chain op).1 (execOp h chain op).2
      (Nat.le_trans hb h1.grows) h1.fresh
    exact ⟨fun a ha => by rw [h2.old a ha, h1.old a ha], Nat.le_trans h1.grows h2.grows, h2.fresh⟩
end

end Glom.C20
