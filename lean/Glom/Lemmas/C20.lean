import Glom.Spec.C20
/-
  C20 — helper lemmas: dict lemmas, the order "entries are only added", the relation
  `Agrees` (a residual program ends with outcome `a` whatever the other threads do),
  preservation by micro-steps, compilation of evaluations, threads, a call run alone,
  scope frames; and (namespace `Glom.C20.Re`) the error bookkeeping as heap state: the
  region an evaluation owns (`Own`), what stays untouched below it (`Same`), every
  primitive of `_glom` / its exception handler / `chain_child` as a `Step` inside the
  region, and the induction over specs (`eval_owned`).
-/
namespace Glom.C20

/-! ### dict lemmas -/

theorem dlookup_mem {α β : Type} [DecidableEq α] {k : α} {v : β} : ∀ {l : List (α × β)},
    dlookup k l = some v → (k, v) ∈ l := by
  intro l
  induction l with
  | nil => intro h; simp [dlookup] at h
  | cons e r ih =>
    obtain ⟨k', v'⟩ := e
    intro h
    simp only [dlookup] at h
    split at h
    · next heq => simp only [Option.some.injEq] at h; subst h; subst heq; exact List.mem_cons_self ..
    · exact List.mem_cons_of_mem _ (ih h)

theorem mem_dstore {α β : Type} [DecidableEq α] {k : α} {v : β} {e : α × β} : ∀ {l : List (α × β)},
    e ∈ dstore k v l → e = (k, v) ∨ e ∈ l := by
  intro l
  induction l with
  | nil => intro h; simp [dstore] at h; exact Or.inl h
  | cons e' r ih =>
    obtain ⟨k', v'⟩ := e'
    intro h
    simp only [dstore] at h
    split at h
    · rcases List.mem_cons.mp h with h | h
      · exact Or.inl h
      · exact Or.inr (List.mem_cons_of_mem _ h)
    · rcases List.mem_cons.mp h with h | h
      · exact Or.inr (by rw [h]; exact List.mem_cons_self ..)
      · rcases ih h with h | h
        · exact Or.inl h
        · exact Or.inr (List.mem_cons_of_mem _ h)

theorem dlookup_dstore_same {α β : Type} [DecidableEq α] (k : α) (v : β) : ∀ (l : List (α × β)),
    dlookup k (dstore k v l) = some v := by
  intro l
  induction l with
  | nil => simp [dstore, dlookup]
  | cons e r ih =>
    obtain ⟨k', v'⟩ := e
    simp only [dstore]
    split
    · simp [dlookup]
    · next hne => simp [dlookup, hne, ih]

theorem dlookup_dstore_other {α β : Type} [DecidableEq α] (k k' : α) (v : β) (hne : k' ≠ k) :
    ∀ (l : List (α × β)), dlookup k' (dstore k v l) = dlookup k' l := by
  intro l
  induction l with
  | nil => simp [dstore, dlookup, Ne.symm hne]
  | cons e r ih =>
    obtain ⟨k'', v''⟩ := e
    simp only [dstore]
    split
    · next heq => subst heq; simp [dlookup, Ne.symm hne]
    · simp only [dlookup]; split <;> simp [ih]

/-! ### the order on shared states: entries are only ever added -/

def Sh.le (a b : Sh) : Prop :=
  (∀ t p, dlookup t a.pathCache = some p → dlookup t b.pathCache = some p) ∧
  (∀ k h, dlookup k a.typeCache = some h → dlookup k b.typeCache = some h)

theorem Sh.le_refl (a : Sh) : a.le a := ⟨fun _ _ h => h, fun _ _ h => h⟩

theorem Sh.le_trans {a b c : Sh} (h1 : a.le b) (h2 : b.le c) : a.le c :=
  ⟨fun t p h => h2.1 t p (h1.1 t p h), fun k h' h => h2.2 k h' (h1.2 k h' h)⟩

theorem inv_pcStore {reg : Reg} {sh : Sh} (hi : Inv reg sh) (t : String) :
    Inv reg { sh with pathCache := dstore t (create t) sh.pathCache } ∧
    sh.le { sh with pathCache := dstore t (create t) sh.pathCache } := by
  refine ⟨⟨?_, hi.2⟩, ⟨?_, fun _ _ h => h⟩⟩
  · intro e he
    rcases mem_dstore he with h | h
    · rw [h]
    · exact hi.1 e h
  · intro t' p h
    by_cases heq : t' = t
    · subst heq
      have := hi.1 _ (dlookup_mem h)
      simp only at this
      rw [dlookup_dstore_same, this]
    · rw [dlookup_dstore_other _ _ _ heq]; exact h

theorem inv_tcStore {reg : Reg} {sh : Sh} (hi : Inv reg sh) (key : TKey) (h : Option String) (hr : reg key = h) :
    Inv reg { sh with typeCache := dstore key h sh.typeCache } ∧
    sh.le { sh with typeCache := dstore key h sh.typeCache } := by
  refine ⟨⟨hi.1, ?_⟩, ⟨fun _ _ h => h, ?_⟩⟩
  · intro e he
    rcases mem_dstore he with h' | h'
    · rw [h']; exact hr
    · exact hi.2 e h'
  · intro k' h' hl
    by_cases heq : k' = key
    · subst heq
      have := hi.2 _ (dlookup_mem hl)
      simp only at this
      rw [hr] at this
      rw [dlookup_dstore_same, this]
    · rw [dlookup_dstore_other _ _ _ heq]; exact hl

/-! ### a residual program that, whatever the others do, ends with outcome `a` -/

def Agrees (reg : Reg) : Prog → Out → Sh → Prop
  | .done o, a, _ => o = a
  | .pcHas t k, a, sh => ∀ sh', sh.le sh' → Inv reg sh' → Agrees reg (k (dlookup t sh'.pathCache).isSome) a sh'
  | .pcLen k, a, sh => ∀ sh', sh.le sh' → Inv reg sh' → Agrees reg (k sh'.pathCache.length) a sh'
  | .pcStore t p k, a, sh => p = create t ∧
      ∀ sh', sh.le sh' → Inv reg sh' → Agrees reg k a { sh' with pathCache := dstore t p sh'.pathCache }
  | .pcGet t k, a, sh => ∀ sh', sh.le sh' → Inv reg sh' → Agrees reg (k (dlookup t sh'.pathCache)) a sh'
  | .tcHas key k, a, sh => ∀ sh', sh.le sh' → Inv reg sh' → Agrees reg (k (dlookup key sh'.typeCache).isSome) a sh'
  | .tcStore key h k, a, sh => reg key = h ∧
      ∀ sh', sh.le sh' → Inv reg sh' → Agrees reg k a { sh' with typeCache := dstore key h sh'.typeCache }
  | .tcGet key k, a, sh => ∀ sh', sh.le sh' → Inv reg sh' → Agrees reg (k (dlookup key sh'.typeCache)) a sh'
  | .tcReset _, _, _ => False
  | .user _ k, a, sh => ∀ sh', sh.le sh' → Inv reg sh' → Agrees reg k a sh'

theorem Agrees.mono {reg : Reg} {p : Prog} {a : Out} {sh sh2 : Sh} (h : Agrees reg p a sh) (hle : sh.le sh2) :
    Agrees reg p a sh2 := by
  cases p with
  | done o => exact h
  | pcHas t k => exact fun sh' h1 h2 => h sh' (Sh.le_trans hle h1) h2
  | pcLen k => exact fun sh' h1 h2 => h sh' (Sh.le_trans hle h1) h2
  | pcStore t p k => exact ⟨h.1, fun sh' h1 h2 => h.2 sh' (Sh.le_trans hle h1) h2⟩
  | pcGet t k => exact fun sh' h1 h2 => h sh' (Sh.le_trans hle h1) h2
  | tcHas key k => exact fun sh' h1 h2 => h sh' (Sh.le_trans hle h1) h2
  | tcStore key hh k => exact ⟨h.1, fun sh' h1 h2 => h.2 sh' (Sh.le_trans hle h1) h2⟩
  | tcGet key k => exact fun sh' h1 h2 => h sh' (Sh.le_trans hle h1) h2
  | tcReset k => exact h
  | user f k => exact fun sh' h1 h2 => h sh' (Sh.le_trans hle h1) h2

/-- one micro-step of a thread keeps the invariant, only adds entries, and the thread still
    ends with `a` -/
theorem agrees_step {reg : Reg} {p : Prog} {a : Out} {sh : Sh} (hi : Inv reg sh) (h : Agrees reg p a sh) :
    Inv reg (p.step sh).2 ∧ sh.le (p.step sh).2 ∧ Agrees reg (p.step sh).1 a (p.step sh).2 := by
  cases p with
  | done o => exact ⟨hi, Sh.le_refl _, h⟩
  | pcHas t k => exact ⟨hi, Sh.le_refl _, h sh (Sh.le_refl _) hi⟩
  | pcLen k => exact ⟨hi, Sh.le_refl _, h sh (Sh.le_refl _) hi⟩
  | pcStore t p k =>
    obtain ⟨hp, hk⟩ := h
    subst hp
    exact ⟨(inv_pcStore hi t).1, (inv_pcStore hi t).2, hk sh (Sh.le_refl _) hi⟩
  | pcGet t k => exact ⟨hi, Sh.le_refl _, h sh (Sh.le_refl _) hi⟩
  | tcHas key k => exact ⟨hi, Sh.le_refl _, h sh (Sh.le_refl _) hi⟩
  | tcStore key hh k =>
    obtain ⟨hr, hk⟩ := h
    exact ⟨(inv_tcStore hi key hh hr).1, (inv_tcStore hi key hh hr).2, hk sh (Sh.le_refl _) hi⟩
  | tcGet key k => exact ⟨hi, Sh.le_refl _, h sh (Sh.le_refl _) hi⟩
  | tcReset k => exact absurd h id
  | user f k => exact ⟨hi, Sh.le_refl _, h sh (Sh.le_refl _) hi⟩

/-! ### evaluations compile to programs that end with their denotation -/

theorem agrees_bind {reg : Reg} : ∀ (p : Prog) (f : Out → Prog) (o a : Out) (sh : Sh), Inv reg sh →
    Agrees reg p o sh → (∀ sh', sh.le sh' → Inv reg sh' → Agrees reg (f o) a sh') →
    Agrees reg (p.bind f) a sh := by
  intro p
  induction p with
  | done o' =>
    intro f o a sh hi h hf
    simp only [Agrees] at h
    subst h
    simpa [Prog.bind] using hf sh (Sh.le_refl _) hi
  | pcHas t k ih =>
    intro f o a sh _ h hf
    simp only [Prog.bind, Agrees] at h ⊢
    exact fun sh' h1 h2 => ih _ f o a sh' h2 (h sh' h1 h2) (fun s h3 h4 => hf s (Sh.le_trans h1 h3) h4)
  | pcLen k ih =>
    intro f o a sh _ h hf
    simp only [Prog.bind, Agrees] at h ⊢
    exact fun sh' h1 h2 => ih _ f o a sh' h2 (h sh' h1 h2) (fun s h3 h4 => hf s (Sh.le_trans h1 h3) h4)
  | pcStore t v k ih =>
    intro f o a sh _ h hf
    simp only [Prog.bind, Agrees] at h ⊢
    obtain ⟨hv, hk⟩ := h
    subst hv
    refine ⟨rfl, fun sh' h1 h2 => ?_⟩
    exact ih f o a _ (inv_pcStore h2 t).1 (hk sh' h1 h2)
      (fun s h3 h4 => hf s (Sh.le_trans h1 (Sh.le_trans (inv_pcStore h2 t).2 h3)) h4)
  | pcGet t k ih =>
    intro f o a sh _ h hf
    simp only [Prog.bind, Agrees] at h ⊢
    exact fun sh' h1 h2 => ih _ f o a sh' h2 (h sh' h1 h2) (fun s h3 h4 => hf s (Sh.le_trans h1 h3) h4)
  | tcHas key k ih =>
    intro f o a sh _ h hf
    simp only [Prog.bind, Agrees] at h ⊢
    exact fun sh' h1 h2 => ih _ f o a sh' h2 (h sh' h1 h2) (fun s h3 h4 => hf s (Sh.le_trans h1 h3) h4)
  | tcStore key hh k ih =>
    intro f o a sh _ h hf
    simp only [Prog.bind, Agrees] at h ⊢
    obtain ⟨hr, hk⟩ := h
    refine ⟨hr, fun sh' h1 h2 => ?_⟩
    exact ih f o a _ (inv_tcStore h2 key hh hr).1 (hk sh' h1 h2)
      (fun s h3 h4 => hf s (Sh.le_trans h1 (Sh.le_trans (inv_tcStore h2 key hh hr).2 h3)) h4)
  | tcGet key k ih =>
    intro f o a sh _ h hf
    simp only [Prog.bind, Agrees] at h ⊢
    exact fun sh' h1 h2 => ih _ f o a sh' h2 (h sh' h1 h2) (fun s h3 h4 => hf s (Sh.le_trans h1 h3) h4)
  | tcReset k _ =>
    intro f o a sh _ h _
    simp only [Agrees] at h
  | user g k ih =>
    intro f o a sh _ h hf
    simp only [Prog.bind, Agrees] at h ⊢
    exact fun sh' h1 h2 => ih f o a sh' h2 (h sh' h1 h2) (fun s h3 h4 => hf s (Sh.le_trans h1 h3) h4)

theorem inv_lookup_path {reg : Reg} {sh : Sh} (hi : Inv reg sh) {t : String} {p : PathV}
    (h : dlookup t sh.pathCache = some p) : p = create t := hi.1 _ (dlookup_mem h)

theorem inv_lookup_type {reg : Reg} {sh : Sh} (hi : Inv reg sh) {key : TKey} {h : Option String}
    (hl : dlookup key sh.typeCache = some h) : reg key = h := hi.2 _ (dlookup_mem hl)

/-- reading a memo entry that agrees with the tables gives what a lookup alone gives -/
theorem hitResult_inv (reg : Reg) (key : TKey) (raiseExc : Bool) (h : Option String) (hr : reg key = h) :
    hitResult raiseExc (some h) = .ok (lookupAlone reg key raiseExc) := by
  cases h with
  | none => simp [hitResult, lookupAlone, hr]
  | some x => simp [hitResult, lookupAlone, hr]

/-- `Path.from_text` under arbitrary interference: whatever the interleaving, the
    continuation receives `create text` -/
theorem agrees_fromText {reg : Reg} (max : Nat) (t : String) (k : Except Err PathV → Prog) (a : Out) (sh : Sh)
    (hk : ∀ sh', sh.le sh' → Inv reg sh' → Agrees reg (k (.ok (create t))) a sh') :
    Agrees reg (fromTextP max t k) a sh := by
  simp only [fromTextP, Agrees]
  intro sh1 h1 i1
  cases hl : dlookup t sh1.pathCache with
  | some p =>
    simp only [Option.isSome_some, ↓reduceIte, Agrees]
    intro sh2 h2 i2
    rw [h2.1 t p hl]
    simp only
    rw [inv_lookup_path i1 hl]
    exact hk sh2 (Sh.le_trans h1 h2) i2
  | none =>
    simp only [Option.isSome_none, Bool.false_eq_true, ↓reduceIte, Agrees]
    intro sh2 h2 i2
    split
    · exact hk sh2 (Sh.le_trans h1 h2) i2
    · simp only [Agrees, true_and]
      intro sh3 h3 i3 sh4 h4 i4
      have : dlookup t sh4.pathCache = some (create t) := h4.1 t _ (dlookup_dstore_same t (create t) _)
      rw [this]
      exact hk sh4 (Sh.le_trans h1 (Sh.le_trans h2 (Sh.le_trans h3
        (Sh.le_trans (inv_pcStore i3 t).2 h4)))) i4

theorem agrees_getHandler {reg : Reg} (key : TKey) (raiseExc : Bool) (k : Except Err HRes → Prog) (a : Out) (sh : Sh)
    (hk : ∀ sh', sh.le sh' → Inv reg sh' → Agrees reg (k (.ok (lookupAlone reg key raiseExc))) a sh') :
    Agrees reg (getHandlerP reg key raiseExc k) a sh := by
  simp only [getHandlerP, Agrees]
  intro sh1 h1 i1
  -- the store (of a handler, or of a remembered False) followed by the final lookup
  have hstore : ∀ (h : Option String), reg key = h →
      Agrees reg (.tcStore key h (.tcGet key fun r => k (hitResult raiseExc r))) a sh1 := by
    intro h hr
    simp only [Agrees]
    refine ⟨hr, ?_⟩
    intro sh3 h3 i3 sh4 h4 i4
    have : dlookup key sh4.typeCache = some h := h4.2 key _ (dlookup_dstore_same key h _)
    rw [this, hitResult_inv reg key raiseExc h hr]
    exact hk sh4 (Sh.le_trans h1 (Sh.le_trans h3 (Sh.le_trans (inv_tcStore i3 key h hr).2 h4))) i4
  cases hl : dlookup key sh1.typeCache with
  | some h =>
    simp only [Option.isSome_some, ↓reduceIte, Agrees]
    intro sh2 h2 i2
    rw [h2.2 key h hl, hitResult_inv reg key raiseExc h (inv_lookup_type i1 hl)]
    exact hk sh2 (Sh.le_trans h1 h2) i2
  | none =>
    simp only [Option.isSome_none, Bool.false_eq_true, ↓reduceIte]
    cases hr : reg key with
    | none =>
      simp only
      cases raiseExc with
      | true =>
        simp only [↓reduceIte]
        have := hk sh1 h1 i1
        simpa [lookupAlone, hr] using this
      | false =>
        simp only [Bool.false_eq_true, ↓reduceIte]
        exact hstore none hr
    | some h => exact hstore (some h) hr

theorem compile_agrees (max : Nat) (reg : Reg) : ∀ (ev : Ev) (sh : Sh), Inv reg sh →
    Agrees reg (compile max reg ev) (denote reg ev) sh := by
  intro ev
  induction ev with
  | ret o => intro sh _; simp [compile, denote, Agrees]
  | parse t k ih =>
    intro sh _
    simp only [compile, denote]
    exact agrees_fromText max t _ _ sh (fun sh' _ hi' => ih _ sh' hi')
  | handler key re k ih =>
    intro sh _
    simp only [compile, denote]
    exact agrees_getHandler key re _ _ sh (fun sh' _ hi' => ih _ sh' hi')
  | user f k ih =>
    intro sh _
    simp only [compile, denote, Agrees]
    exact fun sh' _ hi' => ih sh' hi'
  | nested inner k ihi ihk =>
    intro sh hi
    simp only [compile, denote]
    exact agrees_bind _ _ _ _ sh hi (ihi sh hi) (fun sh' _ hi' => ihk _ sh' hi')

/-! ### threads -/

/-- every thread's residual program still ends with its expected outcome -/
def SysOK (reg : Reg) (s : Sys) (as : List Out) : Prop :=
  Inv reg s.sh ∧ s.threads.length = as.length ∧
  ∀ (i : Nat) (p : Prog) (a : Out), s.threads[i]? = some p → as[i]? = some a → Agrees reg p a s.sh

theorem sysOK_step {reg : Reg} {s : Sys} {as : List Out} (h : SysOK reg s as) (i : Nat) :
    SysOK reg (s.step i) as ∧ s.sh.le (s.step i).sh := by
  obtain ⟨hi, hlen, hth⟩ := h
  unfold Sys.step
  cases hp : s.threads[i]? with
  | none => exact ⟨⟨hi, hlen, hth⟩, Sh.le_refl _⟩
  | some p =>
    simp only
    have hilt : i < s.threads.length := by
      rcases Nat.lt_or_ge i s.threads.length with h | h
      · exact h
      · rw [List.getElem?_eq_none h] at hp; cases hp
    obtain ⟨a, ha⟩ : ∃ a, as[i]? = some a := ⟨as[i]'(hlen ▸ hilt), List.getElem?_eq_getElem _⟩
    obtain ⟨hi', hle, hag⟩ := agrees_step hi (hth i p a hp ha)
    refine ⟨⟨hi', by simpa using hlen, ?_⟩, hle⟩
    intro j q b hq hb
    by_cases hji : j = i
    · subst hji
      simp only [List.getElem?_set_self hilt, Option.some.injEq] at hq
      subst hq
      rw [ha] at hb; cases hb
      exact hag
    · rw [List.getElem?_set_ne (Ne.symm hji)] at hq
      exact (hth j q b hq hb).mono hle

theorem sysOK_run {reg : Reg} {as : List Out} : ∀ (sched : List Nat) (s : Sys), SysOK reg s as →
    SysOK reg (s.run sched) as ∧ s.sh.le (s.run sched).sh := by
  intro sched
  induction sched with
  | nil => intro s h; exact ⟨h, Sh.le_refl _⟩
  | cons i r ih =>
    intro s h
    obtain ⟨h1, l1⟩ := sysOK_step h i
    obtain ⟨h2, l2⟩ := ih _ h1
    exact ⟨h2, Sh.le_trans l1 l2⟩

theorem sysOK_runToYield {reg : Reg} {as : List Out} (i : Nat) : ∀ (fuel : Nat) (s : Sys), SysOK reg s as →
    SysOK reg (s.runToYield i fuel) as := by
  intro fuel
  induction fuel with
  | zero => intro s h; exact h
  | succ fuel ih =>
    intro s h
    simp only [Sys.runToYield]
    split
    · exact h
    · exact h
    · exact (sysOK_step h i).1
    · exact ih _ (sysOK_step h i).1

theorem sysOK_runSegments {reg : Reg} {as : List Out} (fuel : Nat) : ∀ (sched : List Nat) (s : Sys),
    SysOK reg s as → SysOK reg (s.runSegments fuel sched) as := by
  intro sched
  induction sched with
  | nil => intro s h; exact h
  | cons i r ih => intro s h; exact ih _ (sysOK_runToYield i fuel s h)

theorem sysOK_init (max : Nat) (reg : Reg) (evs : List Ev) (sh : Sh) (hi : Inv reg sh) :
    SysOK reg ⟨sh, evs.map (compile max reg)⟩ (evs.map (denote reg)) := by
  refine ⟨hi, by simp, ?_⟩
  intro i p a hp ha
  simp only [List.getElem?_map] at hp ha
  cases he : evs[i]? with
  | none => simp [he] at hp
  | some ev =>
    simp only [he, Option.map_some, Option.some.injEq] at hp ha
    rw [← hp, ← ha]
    exact compile_agrees max reg ev sh hi

theorem sysOK_done {reg : Reg} {s : Sys} {as : List Out} (h : SysOK reg s as) (i : Nat) (o a : Out)
    (hp : s.threads[i]? = some (.done o)) (ha : as[i]? = some a) : o = a := by
  have := h.2.2 i _ a hp ha
  simpa [Agrees] using this

/-! ### a call run alone -/

theorem runAlone_agrees {reg : Reg} {a : Out} : ∀ (n : Nat) (p : Prog) (sh : Sh), Inv reg sh → Agrees reg p a sh →
    Inv reg (runAlone p sh n).2 ∧ Agrees reg (runAlone p sh n).1 a (runAlone p sh n).2 := by
  intro n
  induction n with
  | zero => intro p sh hi h; exact ⟨hi, h⟩
  | succ n ih =>
    intro p sh hi h
    obtain ⟨hi', _, hag⟩ := agrees_step hi h
    exact ih _ _ hi' hag

/-- every program is a finite tree: run alone it reaches `done` -/
theorem runAlone_terminates : ∀ (p : Prog) (sh : Sh), ∃ n o, (runAlone p sh n).1 = .done o := by
  intro p
  induction p with
  | done o => intro sh; exact ⟨0, o, rfl⟩
  | pcHas t k ih => intro sh; obtain ⟨n, o, h⟩ := ih _ sh; exact ⟨n + 1, o, h⟩
  | pcLen k ih => intro sh; obtain ⟨n, o, h⟩ := ih _ sh; exact ⟨n + 1, o, h⟩
  | pcStore t v k ih => intro sh; obtain ⟨n, o, h⟩ := ih _; exact ⟨n + 1, o, h⟩
  | pcGet t k ih => intro sh; obtain ⟨n, o, h⟩ := ih _ sh; exact ⟨n + 1, o, h⟩
  | tcHas key k ih => intro sh; obtain ⟨n, o, h⟩ := ih _ sh; exact ⟨n + 1, o, h⟩
  | tcStore key hh k ih => intro sh; obtain ⟨n, o, h⟩ := ih _; exact ⟨n + 1, o, h⟩
  | tcGet key k ih => intro sh; obtain ⟨n, o, h⟩ := ih _ sh; exact ⟨n + 1, o, h⟩
  | tcReset k ih => intro sh; obtain ⟨n, o, h⟩ := ih _; exact ⟨n + 1, o, h⟩
  | user f k ih => intro sh; obtain ⟨n, o, h⟩ := ih sh; exact ⟨n + 1, o, h⟩

/-- a call run alone (any sound initial cache contents) ends with its denotation -/
theorem alone_outcome (max : Nat) (reg : Reg) (ev : Ev) (sh : Sh) (hi : Inv reg sh) :
    ∃ n, (runAlone (compile max reg ev) sh n).1 = .done (denote reg ev) := by
  obtain ⟨n, o, h⟩ := runAlone_terminates (compile max reg ev) sh
  have := (runAlone_agrees n _ sh hi (compile_agrees max reg ev sh hi)).2
  rw [h] at this
  simp only [Agrees] at this
  exact ⟨n, by rw [h, this]⟩

/-! ### scope frames -/

theorem writeFrame_length (h : SHeap) (a : Nat) (k v : String) : (writeFrame h a k v).length = h.length := by
  unfold writeFrame; split <;> simp

theorem writeFrame_other (h : SHeap) (a b : Nat) (k v : String) (hne : b ≠ a) :
    (writeFrame h a k v)[b]? = h[b]? := by
  unfold writeFrame
  split
  · rw [List.getElem?_set_ne (Ne.symm hne)]
  · rfl

/-- what a run of scope operations preserves, given that every writable frame of the current
    chain (all but the default scope at its end) was allocated at or after `base` -/
structure Framed (base : Nat) (h : SHeap) (chain : List Nat) (h' : SHeap) (chain' : List Nat) : Prop where
  old : ∀ a, a < base → h'[a]? = h[a]?
  grows : h.length ≤ h'.length
  fresh : ∀ a ∈ chain'.dropLast, base ≤ a

mutual
theorem execOp_framed (base : Nat) : ∀ (op : SOp) (h : SHeap) (chain : List Nat), base ≤ h.length →
    (∀ a ∈ chain.dropLast, base ≤ a) → Framed base h chain (execOp h chain op).1 (execOp h chain op).2
  | .child init, h, chain, hb, hc => by
    simp only [execOp]
    split
    · next p q r =>
      refine ⟨?_, by simp [writeFrame_length], ?_⟩
      · intro a ha
        have hp : base ≤ p := hc p (by simp [List.dropLast])
        rw [writeFrame_other _ _ _ _ _ (by omega), List.getElem?_append_left (by omega)]
      · intro a ha
        simp only [List.dropLast_cons_cons, List.mem_cons] at ha
        rcases ha with rfl | ha
        · exact hb
        · exact hc a (by simpa [List.dropLast] using ha)
    · next hneg =>
      refine ⟨fun a ha => by rw [List.getElem?_append_left (by omega)], by simp, ?_⟩
      intro a ha
      cases chain with
      | nil => simp at ha
      | cons x xs =>
        cases xs with
        | nil => simp [List.dropLast] at ha; omega
        | cons y ys => exact absurd rfl (hneg x y ys)
  | .set depth k v, h, chain, hb, hc => by
    simp only [execOp]
    split
    · next hd =>
      cases hg : chain[depth]? with
      | none => exact ⟨fun _ _ => rfl, Nat.le_refl _, hc⟩
      | some a =>
        simp only
        refine ⟨?_, by simp [writeFrame_length], hc⟩
        intro b hb'
        have : a ∈ chain.dropLast := by
          rw [List.mem_iff_getElem?]
          refine ⟨depth, ?_⟩
          rw [List.getElem?_dropLast]
          simp [show depth < chain.length - 1 by omega, hg]
        have := hc a this
        rw [writeFrame_other _ _ _ _ _ (by omega)]
    · exact ⟨fun _ _ => rfl, Nat.le_refl _, hc⟩
  | .pop, h, chain, hb, hc => by
    simp only [execOp]
    split
    · next x y z rest =>
      refine ⟨fun _ _ => rfl, Nat.le_refl _, ?_⟩
      intro a ha
      exact hc a (by simp only [List.dropLast_cons_cons, List.mem_cons]; right; simpa [List.dropLast] using ha)
    · exact ⟨fun _ _ => rfl, Nat.le_refl _, hc⟩
  | .call body, h, chain, hb, hc => by
    simp only [execOp]
    have := execOps_framed h.length body (h ++ [⟨rootInit⟩]) [h.length, 0] (by simp)
      (by simp [List.dropLast])
    refine ⟨?_, ?_, hc⟩
    · intro a ha
      rw [this.old a (by omega), List.getElem?_append_left (by omega)]
    · have := this.grows; simp at this; omega
theorem execOps_framed (base : Nat) : ∀ (ops : List SOp) (h : SHeap) (chain : List Nat), base ≤ h.length →
    (∀ a ∈ chain.dropLast, base ≤ a) → Framed base h chain (execOps h chain ops).1 (execOps h chain ops).2
  | [], h, chain, _, hc => ⟨fun _ _ => rfl, Nat.le_refl _, hc⟩
  | op :: r, h, chain, hb, hc => by
    simp only [execOps]
    have h1 := execOp_framed base op h chain hb hc
    have h2 := execOps_framed base r (execOp h chain op).1 (execOp h chain op).2
      (Nat.le_trans hb h1.grows) h1.fresh
    exact ⟨fun a ha => by rw [h2.old a ha, h1.old a ha], Nat.le_trans h1.grows h2.grows, h2.fresh⟩
end

/-! ### the recursion guard of `bbrepr`: keys of other threads do not matter -/

theorem renderGuarded_congr (perCall : Bool) (tid : Nat) : ∀ (c : RChain) (a b : List (Nat × Nat × Nat)) (call : Nat),
    (∀ k : Nat × Nat × Nat, k.2.1 = tid → (a.contains k = b.contains k)) →
    renderGuarded perCall a tid call c = renderGuarded perCall b tid call c := by
  intro c
  induction c with
  | leaf id name =>
    intro a b call h
    simp only [renderGuarded]
    rw [h _ rfl]
  | node id name via inner ih =>
    intro a b call h
    simp only [renderGuarded]
    generalize hk : ((id, tid, if perCall = true then call else 0) : Nat × Nat × Nat) = key
    have hkt : key.2.1 = tid := by rw [← hk]
    rw [h key hkt]
    cases hb : b.contains key with
    | true => rfl
    | false =>
      simp only [Bool.false_eq_true, ↓reduceIte]
      congr 1
      apply ih
      intro k hk'
      simp only [List.contains_cons]
      rw [h k hk']

end Glom.C20

/-! ### the error bookkeeping of re-entrant evaluations -/

namespace Glom.C20.Re

theorem modAt_length {α : Type} (l : List α) (i : Nat) (g : α → α) : (modAt l i g).length = l.length := by
  unfold modAt; split <;> simp

theorem modAt_getElem? {α : Type} (l : List α) (i j : Nat) (g : α → α) :
    (modAt l i g)[j]? = if j = i then (l[j]?).map g else l[j]? := by
  unfold modAt
  split
  · next x hx =>
    by_cases h : j = i
    · subst h
      have hlt : j < l.length := (List.getElem?_eq_some_iff.mp hx).1
      simp [hx, List.getElem?_set_self hlt]
    · simp [h, Ne.symm h]
  · next hx =>
    by_cases h : j = i
    · subst h; simp [hx]
    · simp [h]

/-- a frame of the region `[base, …)` points only into the region -/
def FrameOK (base lbase nF nL : Nat) (f : BFrame) : Prop :=
  lbase ≤ f.childErrors ∧ f.childErrors < nL ∧ (∀ u, f.up = some u → base ≤ u ∧ u < nF) ∧
  (∀ c, f.lastChild = some c → base ≤ c) ∧ (f.noPyframe = true → f.up.isSome = true)

theorem FrameOK.mono {base lbase nF nL nF' nL' : Nat} {f : BFrame} (h : FrameOK base lbase nF nL f)
    (hF : nF ≤ nF') (hL : nL ≤ nL') : FrameOK base lbase nF' nL' f := by
  obtain ⟨h1, h2, h3, h4, h5⟩ := h
  exact ⟨h1, by omega, fun u hu => ⟨(h3 u hu).1, by have := (h3 u hu).2; omega⟩, h4, h5⟩

/-- the frames from `base` on and the lists from `lbase` on form a closed region -/
structure Own (base lbase : Nat) (st : BSt) : Prop where
  hb : base ≤ st.frames.length
  hl : lbase ≤ st.lists.length
  fr : ∀ a f, base ≤ a → st.frames[a]? = some f → FrameOK base lbase st.frames.length st.lists.length f

/-- everything below the region is untouched -/
structure Same (base lbase : Nat) (st st' : BSt) : Prop where
  fr : ∀ i, i < base → st'.frames[i]? = st.frames[i]?
  ls : ∀ l, l < lbase → st'.lists[l]? = st.lists[l]?

theorem Same.refl (base lbase : Nat) (st : BSt) : Same base lbase st st := ⟨fun _ _ => rfl, fun _ _ => rfl⟩
theorem Same.trans {base lbase : Nat} {a b c : BSt} (h1 : Same base lbase a b) (h2 : Same base lbase b c) :
    Same base lbase a c :=
  ⟨fun i hi => by rw [h2.fr i hi, h1.fr i hi], fun l hl => by rw [h2.ls l hl, h1.ls l hl]⟩

/-- a step of the evaluation inside the region -/
structure Step (base lbase : Nat) (st st' : BSt) : Prop where
  own : Own base lbase st'
  same : Same base lbase st st'
  growF : st.frames.length ≤ st'.frames.length
  growL : st.lists.length ≤ st'.lists.length

theorem Step.refl {base lbase : Nat} {st : BSt} (h : Own base lbase st) : Step base lbase st st :=
  ⟨h, Same.refl _ _ _, Nat.le_refl _, Nat.le_refl _⟩
theorem Step.trans {base lbase : Nat} {a b c : BSt} (h1 : Step base lbase a b) (h2 : Step base lbase b c) :
    Step base lbase a c :=
  ⟨h2.own, h1.same.trans h2.same, Nat.le_trans h1.growF h2.growF, Nat.le_trans h1.growL h2.growL⟩

theorem step_modList {base lbase : Nat} {st : BSt} (h : Own base lbase st) (l : Nat) (g : List Nat → List Nat)
    (hl : lbase ≤ l) : Step base lbase st (st.modList l g) := by
  refine ⟨⟨h.hb, by simp [BSt.modList, modAt_length]; exact h.hl, ?_⟩, ⟨fun _ _ => rfl, ?_⟩, Nat.le_refl _, ?_⟩
  · intro a f ha hf
    have := h.fr a f ha hf
    simpa [BSt.modList, modAt_length] using this
  · intro j hj
    simp only [BSt.modList, modAt_getElem?]
    rw [if_neg (by omega)]
  · simp [BSt.modList, modAt_length]

theorem step_modFrame {base lbase : Nat} {st : BSt} (h : Own base lbase st) (a : Nat) (g : BFrame → BFrame)
    (ha : base ≤ a)
    (hg : ∀ f, st.frames[a]? = some f → FrameOK base lbase st.frames.length st.lists.length f →
      FrameOK base lbase st.frames.length st.lists.length (g f)) :
    Step base lbase st (st.modFrame a g) := by
  refine ⟨⟨by simp [BSt.modFrame, modAt_length]; exact h.hb, h.hl, ?_⟩, ⟨?_, fun _ _ => rfl⟩, ?_, Nat.le_refl _⟩
  · intro b f hb hf
    simp only [BSt.modFrame, modAt_getElem?, modAt_length] at hf ⊢
    by_cases hba : b = a
    · subst hba
      simp only [if_true] at hf
      cases hx : st.frames[b]? with
      | none => simp [hx] at hf
      | some x =>
        simp [hx] at hf
        subst hf
        exact hg x hx (h.fr b x hb hx)
    · simp only [if_neg hba] at hf
      exact h.fr b f hb hf
  · intro j hj
    simp only [BSt.modFrame, modAt_getElem?]
    rw [if_neg (by omega)]
  · simp [BSt.modFrame, modAt_length]


theorem step_push {base lbase : Nat} {st : BSt} (h : Own base lbase st) (f : BFrame) (ls : List (List Nat))
    (hf : FrameOK base lbase (st.frames.length + 1) (st.lists.length + ls.length) f) :
    Step base lbase st ⟨st.frames ++ [f], st.lists ++ ls⟩ := by
  refine ⟨⟨by simp; have := h.hb; omega, by simp; have := h.hl; omega, ?_⟩, ⟨?_, ?_⟩, by simp, by simp⟩
  · intro a x ha hx
    simp only [List.length_append, List.length_cons, List.length_nil] at hx ⊢
    by_cases hlt : a < st.frames.length
    · rw [List.getElem?_append_left hlt] at hx
      exact (h.fr a x ha hx).mono (by omega) (by omega)
    · rw [List.getElem?_append_right (by omega)] at hx
      have : a - st.frames.length = 0 := by
        cases hk : a - st.frames.length with
        | zero => rfl
        | succ k => simp [hk] at hx
      simp [this] at hx
      subst hx
      simpa using hf
  · intro i hi
    have := h.hb
    exact List.getElem?_append_left (by omega)
  · intro l hl
    have := h.hl
    exact List.getElem?_append_left (by omega)

theorem step_alloc {base lbase : Nat} {st : BSt} (h : Own base lbase st) (spec : Label) (up : Option Nat)
    (hup : ∀ u, up = some u → base ≤ u ∧ u < st.frames.length) :
    Step base lbase st (st.alloc spec up).1 := by
  apply step_push h
  refine ⟨h.hl, by simp, ?_, by simp, by simp⟩
  intro u hu
  have := hup u hu
  exact ⟨this.1, by omega⟩

theorem step_enter {base lbase : Nat} {st : BSt} (h : Own base lbase st) (p : Nat) (l : Label)
    (hp : base ≤ p) (hlt : p < st.frames.length) :
    Step base lbase st (enter st p l).1 ∧ base ≤ (enter st p l).2 ∧
      (enter st p l).2 < (enter st p l).1.frames.length := by
  have h1 := step_alloc h l (some p) (by intro u hu; cases hu; exact ⟨hp, hlt⟩)
  have h2 := step_modFrame h1.own p (fun f => { f with lastChild := some st.frames.length }) hp (by
    intro f _ hf
    obtain ⟨a1, a2, a3, _, a5⟩ := hf
    exact ⟨a1, a2, a3, by intro c hc; cases hc; exact h.hb, a5⟩)
  refine ⟨h1.trans h2, h.hb, ?_⟩
  simp [enter, BSt.alloc, BSt.modFrame, modAt_length]

theorem step_record {base lbase : Nat} {st : BSt} (h : Own base lbase st) (cur : Nat) (fu : BFrame) (e : Err)
    (hc : base ≤ cur) (hl : lbase ≤ fu.childErrors) : Step base lbase st (record st cur fu e) := by
  have h1 := step_modList h fu.childErrors (· ++ [cur]) hl
  have h2 := step_modFrame h1.own cur (fun f => { f with curError := some e }) hc (by
    intro f _ hf; exact hf)
  exact h1.trans h2

theorem walk_owned {base lbase : Nat} (e : Err) : ∀ (n : Nat) (st : BSt) (cur : Nat), Own base lbase st →
    base ≤ cur → Step base lbase st (walk e n st cur).1 ∧ (walk e n st cur).2 = e := by
  intro n
  induction n with
  | zero => intro st cur h _; exact ⟨Step.refl h, rfl⟩
  | succ n ih =>
    intro st cur h hc
    simp only [walk]
    cases hf : st.frames[cur]? with
    | none => exact ⟨Step.refl h, rfl⟩
    | some f =>
      simp only
      have hok := h.fr cur f hc hf
      by_cases hn : f.noPyframe = true
      · simp only [hn, if_true]
        have hup := hok.2.2.2.2 hn
        cases hu : f.up with
        | none => simp [hu] at hup
        | some u =>
          simp only
          have hub := hok.2.2.1 u hu
          have hlt : u < st.frames.length := hub.2
          have hfu : st.frames[u]? = some st.frames[u] := List.getElem?_eq_getElem hlt
          rw [hfu]
          simp only
          have hfuok := h.fr u _ hub.1 hfu
          have h1 := step_record h cur st.frames[u] e hc hfuok.1
          have h2 := ih (record st cur st.frames[u] e) u h1.own hub.1
          exact ⟨h1.trans h2.1, h2.2⟩
      · simp only [hn]
        exact ⟨Step.refl h, rfl⟩

theorem onError_owned {base lbase : Nat} {st : BSt} (h : Own base lbase st) (a : Nat) (e : Err) (ha : base ≤ a) :
    Step base lbase st (onError st a e).1 ∧ (onError st a e).2 = e := by
  simp only [onError]
  cases hf : st.frames[a]? with
  | none => exact ⟨Step.refl h, rfl⟩
  | some f =>
    simp only
    have hok := h.fr a f ha hf
    cases hu : f.up with
    | none => exact ⟨Step.refl h, rfl⟩
    | some p =>
      simp only
      have hpb := hok.2.2.1 p hu
      cases hfp : st.frames[p]? with
      | none => exact ⟨Step.refl h, rfl⟩
      | some fp =>
        simp only
        have hfpok := h.fr p fp hpb.1 hfp
        have h1 := step_record h a fp e ha hfpok.1
        have h2 := walk_owned e (record st a fp e).frames.length (record st a fp e) p h1.own hpb.1
        exact ⟨h1.trans h2.1, h2.2⟩

theorem chainChild_owned {base lbase : Nat} {st : BSt} (h : Own base lbase st) (a : Nat) (ha : base ≤ a)
    (hlt : a < st.frames.length) :
    Step base lbase st (chainChild st a).1 ∧ base ≤ (chainChild st a).2 ∧
      (chainChild st a).2 < (chainChild st a).1.frames.length := by
  simp only [chainChild]
  cases hf : st.frames[a]? with
  | none => exact ⟨Step.refl h, ha, hlt⟩
  | some f =>
    simp only
    have hok := h.fr a f ha hf
    cases hc : f.lastChild with
    | none => exact ⟨Step.refl h, ha, hlt⟩
    | some c =>
      simp only
      have hcb := hok.2.2.2.1 c hc
      cases hfc : st.frames[c]? with
      | none => exact ⟨Step.refl h, ha, hlt⟩
      | some fc =>
        simp only
        have hfcok := h.fr c fc hcb hfc
        cases hup : fc.up with
        | none => exact ⟨Step.refl h, ha, hlt⟩
        | some u =>
          simp only
          have h1 := step_modFrame h c (fun f => { f with noPyframe := true }) hcb (by
            intro x hx hxok
            rw [hfc] at hx; cases hx
            obtain ⟨a1, a2, a3, a4, _⟩ := hxok
            exact ⟨a1, a2, a3, a4, by intro _; simp [hup]⟩)
          have h2 := step_modList h1.own fc.childErrors (fun _ => []) hfcok.1
          refine ⟨h1.trans h2, hcb, ?_⟩
          have : c < st.frames.length := (List.getElem?_eq_some_iff.mp hfc).1
          simpa [BSt.modList, BSt.modFrame, modAt_length] using this


/-- the map a covering re-entry starts from: a fresh list, no marker -/
theorem step_start {base lbase : Nat} {st : BSt} (h : Own base lbase st) (a : Nat) (how : How) (hc : how.covers = true) :
    Step base lbase st (start st a how).1 ∧ base ≤ (start st a how).2 ∧
      (start st a how).2 < (start st a how).1.frames.length := by
  cases how with
  | isolated =>
    simp only [start, newRoot]
    exact ⟨step_alloc h _ none (by simp), h.hb, by simp [BSt.alloc]⟩
  | handed resets =>
    simp only [How.covers, Bool.and_eq_true] at hc
    simp only [start, flatCopy, hc.1, hc.2, if_true, Bool.not_true, Bool.false_and]
    refine ⟨?_, h.hb, by simp⟩
    apply step_push h
    exact ⟨h.hl, by simp, by simp, by simp, by simp⟩

theorem eval_owned (base lbase : Nat) : ∀ (s : RSpec) (st : BSt) (p : Nat), s.covered = true →
    Own base lbase st → base ≤ p → p < st.frames.length →
    Step base lbase st (eval s st p).1 ∧ (eval s st p).2 = denote s := by
  intro s
  induction s with
  | pure v => intro st p _ h _ _; exact ⟨Step.refl h, rfl⟩
  | leaf l r =>
    intro st p _ h hp hlt
    obtain ⟨e1, e2, _⟩ := step_enter h p l hp hlt
    cases r with
    | ok v => exact ⟨e1, rfl⟩
    | error e =>
      have h2 := onError_owned e1.own (enter st p l).2 e e2
      simp only [eval, denote]
      exact ⟨e1.trans h2.1, by rw [h2.2]⟩
  | sub l c ih =>
    intro st p hc h hp hlt
    obtain ⟨e1, e2, e3⟩ := step_enter h p l hp hlt
    have h1 := ih (enter st p l).1 (enter st p l).2 (by simpa [RSpec.covered] using hc) e1.own e2 e3
    simp only [eval, denote]
    generalize hr : eval c (enter st p l).1 (enter st p l).2 = r at h1
    obtain ⟨st2, res⟩ := r
    cases res with
    | ok v => exact ⟨e1.trans h1.1, h1.2⟩
    | error e =>
      have h2 := onError_owned h1.1.own (enter st p l).2 e e2
      simp only at h1 ⊢
      exact ⟨(e1.trans h1.1).trans h2.1, by rw [h2.2]; exact h1.2⟩
  | coal l c ih =>
    intro st p hc h hp hlt
    obtain ⟨e1, e2, e3⟩ := step_enter h p l hp hlt
    have h1 := ih (enter st p l).1 (enter st p l).2 (by simpa [RSpec.covered] using hc) e1.own e2 e3
    simp only [eval, denote]
    generalize hr : eval c (enter st p l).1 (enter st p l).2 = r at h1
    obtain ⟨st2, res⟩ := r
    cases res with
    | ok v => simp only at h1 ⊢; rw [← h1.2]; exact ⟨e1.trans h1.1, rfl⟩
    | error e =>
      have h2 := onError_owned h1.1.own (enter st p l).2 (.coalesce l) e2
      simp only at h1 ⊢
      rw [← h1.2]
      exact ⟨(e1.trans h1.1).trans h2.1, by rw [h2.2]⟩
  | both x y ihx ihy =>
    intro st p hc h hp hlt
    simp only [RSpec.covered, Bool.and_eq_true] at hc
    have h1 := ihx st p hc.1 h hp hlt
    simp only [eval, denote]
    generalize hr : eval x st p = r at h1
    obtain ⟨st2, res⟩ := r
    cases res with
    | error e => simp only at h1 ⊢; rw [← h1.2]; exact ⟨h1.1, rfl⟩
    | ok v =>
      simp only at h1 ⊢
      rw [← h1.2]
      have h2 := ihy st2 p hc.2 h1.1.own hp (Nat.lt_of_lt_of_le hlt h1.1.growF)
      exact ⟨h1.1.trans h2.1, h2.2⟩
  | orElse x y ihx ihy =>
    intro st p hc h hp hlt
    simp only [RSpec.covered, Bool.and_eq_true] at hc
    have h1 := ihx st p hc.1 h hp hlt
    simp only [eval, denote]
    generalize hr : eval x st p = r at h1
    obtain ⟨st2, res⟩ := r
    cases res with
    | ok v => simp only at h1 ⊢; rw [← h1.2]; exact ⟨h1.1, rfl⟩
    | error e =>
      simp only at h1 ⊢
      rw [← h1.2]
      have h2 := ihy st2 p hc.2 h1.1.own hp (Nat.lt_of_lt_of_le hlt h1.1.growF)
      exact ⟨h1.1.trans h2.1, h2.2⟩
  | andThen x y ihx ihy =>
    intro st p hc h hp hlt
    simp only [RSpec.covered, Bool.and_eq_true] at hc
    have h1 := ihx st p hc.1 h hp hlt
    simp only [eval, denote]
    generalize hr : eval x st p = r at h1
    obtain ⟨st2, res⟩ := r
    cases res with
    | error e => simp only at h1 ⊢; rw [← h1.2]; exact ⟨h1.1, rfl⟩
    | ok v =>
      simp only at h1 ⊢
      rw [← h1.2]
      obtain ⟨c1, c2, c3⟩ := chainChild_owned h1.1.own p hp (Nat.lt_of_lt_of_le hlt h1.1.growF)
      have h2 := ihy (chainChild st2 p).1 (chainChild st2 p).2 hc.2 c1.own c2 c3
      exact ⟨(h1.1.trans c1).trans h2.1, h2.2⟩
  | reent l how inner after ihi iha =>
    intro st p hc h hp hlt
    simp only [RSpec.covered, Bool.and_eq_true] at hc
    obtain ⟨⟨hc1, hc2⟩, hc3⟩ := hc
    obtain ⟨e1, e2, e3⟩ := step_enter h p l hp hlt
    obtain ⟨s1, s2, s3⟩ := step_start e1.own (enter st p l).2 how hc1
    simp only [eval, denote]
    generalize start (enter st p l).1 (enter st p l).2 how = s0 at s1 s2 s3
    have h1 := ihi s0.1 s0.2 hc2 s1.own s2 s3
    have e3' : (enter st p l).2 < (eval inner s0.1 s0.2).1.frames.length :=
      Nat.lt_of_lt_of_le e3 (Nat.le_trans s1.growF h1.1.growF)
    have h2 := iha (eval inner s0.1 s0.2).1 (enter st p l).2 hc3 h1.1.own e2 e3'
    generalize hr2 : eval after (eval inner s0.1 s0.2).1 (enter st p l).2 = r2 at h2
    obtain ⟨st4, res2⟩ := r2
    cases res2 with
    | ok v => simp only at h2 ⊢; rw [← h2.2]; exact ⟨((e1.trans s1).trans h1.1).trans h2.1, rfl⟩
    | error e' =>
      simp only at h2 ⊢
      rw [← h2.2]
      have h3 := onError_owned h2.1.own (enter st p l).2 e' e2
      exact ⟨(((e1.trans s1).trans h1.1).trans h2.1).trans h3.1, by rw [h3.2]⟩

/-- `n` re-entrant calls inside one another: the custom spec `n+1` makes an inner call (the way
    `how` says) whose spec is the custom spec `n`, …, the innermost inner call evaluates `body` -/
def nestRe (how : How) (body : RSpec) : Nat → RSpec
  | 0 => body
  | n + 1 => .reent (n + 1) how (nestRe how body n) (.leaf 0 (.ok 0))

theorem nestRe_covered (how : How) (body : RSpec) (hh : how.covers = true) (hb : body.covered = true) (n : Nat) :
    (nestRe how body n).covered = true := by
  induction n with
  | zero => exact hb
  | succ n ih => simp [nestRe, RSpec.covered, hh, ih]

end Glom.C20.Re
