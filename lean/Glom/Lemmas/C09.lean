import Glom.Lemmas.C10
import Glom.Spec.C09
/-
  Helper lemmas for C09:

   * `conf_den`  — the three-valued, sequential denotation passes exactly when the
     two-valued, declarative `conforms` says so, whenever it does not fault (mutual
     structural induction over pattern trees; short-circuiting makes the children that
     are never evaluated irrelevant to both readings);
   * `pure_den`  — a pattern without defaults / Val / Switch / Check returns a
     well-formed target structurally unchanged.
-/
set_option linter.unusedSimpArgs false
set_option linter.unusedSectionVars false

namespace Glom.C09
open Glom Glom.MV Glom.C10

theorem ofArg_pass (a : Arg) (t : V) : isPass (ofArg a t) = argOK a t ∧ isFault (ofArg a t) = false := by
  cases a with
  | const v => simp [ofArg, argOK, isPass, isFault]
  | val v => simp [ofArg, argOK, isPass, isFault]
  | t e => simp only [ofArg, argOK]; cases tGet e t <;> simp [isPass, isFault]
  | seq tup items => simp only [ofArg, argOK]; cases ofItems items t <;> simp [isPass, isFault]

/-- `default=`: a rejection becomes the default -/
theorem withDefault_conf (d : Option Arg) (t : V) (x : D) (b : Bool)
    (hnf : isFault (withDefault d t x).1 = false)
    (h : isFault x.1 = false → isPass x.1 = b) :
    isPass (withDefault d t x).1 = (b || dfltOK d t) := by
  obtain ⟨v, l⟩ := x
  cases v with
  | pass r =>
    have := h rfl
    cases d <;> simp_all [withDefault, isPass, dfltOK]
  | reject o =>
    have hb : b = false := (h rfl).symm
    subst hb
    cases d with
    | none => simp [withDefault, isPass, dfltOK]
    | some a => simp only [withDefault, dfltOK, Bool.false_or]; exact (ofArg_pass a t).1
  | fault c => cases d <;> simp [withDefault, isFault] at hnf

theorem withDefault_fault (d : Option Arg) (t : V) (x : D) (h : isFault (withDefault d t x).1 = false) :
    isFault x.1 = false := by
  obtain ⟨v, l⟩ := x
  cases v with
  | fault c => cases d <;> simp [withDefault, isFault] at h
  | _ => rfl

theorem withDefault_none (t : V) (x : D) : withDefault none t x = x := by
  obtain ⟨v, l⟩ := x
  cases v <;> rfl

/-! ### loops over the target, two-valued -/

def itemsOk (r : (Except Verdict (List V)) × Log) : Bool :=
  match r.1 with
  | .ok _ => true
  | .error _ => false

def itemsFault (r : (Except Verdict (List V)) × Log) : Bool :=
  match r.1 with
  | .error (.fault _) => true
  | _ => false

theorem allItems_conf (f : V → D) (g : V → Bool)
    (hf : ∀ x, isFault (f x).1 = false → isPass (f x).1 = g x) (items : List V)
    (hnf : itemsFault (allItems f items) = false) :
    itemsOk (allItems f items) = items.all g := by
  induction items with
  | nil => rfl
  | cons x xs ih =>
    have hx := hf x
    unfold allItems at hnf ⊢
    cases hfx : (f x).1 with
    | pass v =>
      rw [hfx] at hx
      have hg : g x = true := (hx rfl).symm
      simp only [hfx] at hnf ⊢
      have hnf' : itemsFault (allItems f xs) = false := by
        revert hnf
        unfold itemsFault
        cases (allItems f xs).1 <;> simp [Except.map]
      have := ih hnf'
      simp only [List.all_cons, hg, Bool.true_and, ← this]
      unfold itemsOk
      cases (allItems f xs).1 <;> simp [Except.map]
    | reject o =>
      rw [hfx] at hx
      have hg : g x = false := (hx rfl).symm
      simp [hfx, itemsOk, hg]
    | fault c => simp [hfx, itemsFault] at hnf

theorem finish_conf (mk : List V → Verdict) (r : (Except Verdict (List V)) × Log)
    (hmk : ∀ vs, isPass (mk vs) = true ∨ isFault (mk vs) = true)
    (hne : ∀ v, r.1 = .error v → isPass v = false)
    (hnf : isFault (finish mk r).1 = false) :
    isPass (finish mk r).1 = itemsOk r ∧ itemsFault r = false := by
  obtain ⟨rv, l⟩ := r
  unfold finish at hnf ⊢
  cases rv with
  | ok vs =>
    simp only at hnf ⊢
    rcases hmk vs with h | h
    · exact ⟨by simp [itemsOk, h], rfl⟩
    · rw [h] at hnf; cases hnf
  | error v =>
    have := hne v rfl
    simp only at hnf ⊢
    cases v <;> simp_all [isPass, isFault, itemsOk, itemsFault]

theorem allItems_error (f : V → D) (items : List V) (v : Verdict)
    (h : (allItems f items).1 = .error v) : isPass v = false := by
  induction items with
  | nil => simp [allItems] at h
  | cons x xs ih =>
    unfold allItems at h
    cases hfx : (f x).1 with
    | pass r =>
      simp only [hfx] at h
      cases hr : (allItems f xs).1 with
      | ok vs => rw [hr] at h; simp [Except.map] at h
      | error e => rw [hr] at h; simp only [Except.map] at h; injection h with h; subst h; exact ih hr
    | reject o => simp only [hfx] at h; injection h with h; subst h; rfl
    | fault c => simp only [hfx] at h; injection h with h; subst h; rfl

theorem denZip_error (ct : ClassTable) (ps : List Spec) (xs : List V) (v : Verdict)
    (h : (denZip ct ps xs).1 = .error v) : isPass v = false := by
  induction ps generalizing xs with
  | nil => simp [denZip] at h
  | cons p ps ih =>
    cases xs with
    | nil => simp [denZip] at h
    | cons x xs =>
      rw [denZip] at h
      cases hfx : (denote ct p x).1 with
      | pass r =>
        simp only [hfx] at h
        cases hr : (denZip ct ps xs).1 with
        | ok vs => rw [hr] at h; simp [Except.map] at h
        | error e => rw [hr] at h; simp only [Except.map] at h; injection h with h; subst h; exact ih xs hr
      | reject o => simp only [hfx] at h; injection h with h; subst h; rfl
      | fault c => simp only [hfx] at h; injection h with h; subst h; rfl

/-! ### the mutual induction: sequential three-valued = declarative two-valued -/

def hitIdx : KeyHit → Option Nat
  | .hit i _ _ => some i
  | _ => none

def keyFault : KeyHit → Bool
  | .stop (.fault _) => true
  | _ => false

def keyIsHit : KeyHit → Bool
  | .hit .. => true
  | _ => false

theorem ofItems_const (items : List ArgItem) (t : V) (h : items.all ArgItem.isConst = true) :
    (ofItems items t).isSome = true := by
  induction items with
  | nil => rfl
  | cons it r ih =>
    simp only [List.all_cons, Bool.and_eq_true] at h
    cases it with
    | const v =>
      simp only [ofItems]
      have := ih h.2
      cases ho : ofItems r t with
      | none => rw [ho] at this; cases this
      | some vs => rfl
    | t e => simp [ArgItem.isConst] at h

theorem ofArg_const (a : Arg) (t : V) (h : a.isConst = true) : ∃ v, ofArg a t = .pass v := by
  cases a with
  | const v => exact ⟨v, rfl⟩
  | val v => exact ⟨v, rfl⟩
  | t e => simp [Arg.isConst] at h
  | seq tup items =>
    have := ofItems_const items t (by simpa [Arg.isConst] using h)
    simp only [ofArg]
    cases ho : ofItems items t with
    | none => rw [ho] at this; cases this
    | some vs => exact ⟨_, rfl⟩

theorem constDefaults_fill (target : V) (ds : List (V × Arg)) (hc : ∀ p ∈ ds, p.2.isConst = true)
    (result : List (V × V)) : ∃ r, defaultsRef target ds result = .ok r := by
  induction ds generalizing result with
  | nil => exact ⟨result, rfl⟩
  | cons kd ds ih =>
    obtain ⟨k, d⟩ := kd
    obtain ⟨v, hv⟩ := ofArg_const d target (hc (k, d) (by simp))
    unfold defaultsRef
    split
    · exact ih (fun p hp => hc p (by simp [hp])) result
    · simp only [hv]
      exact ih (fun p hp => hc p (by simp [hp])) _

theorem dictDefaults_const (es : List (KeyKind × Spec × Spec)) (h : constDefaultsD es = true) :
    ∀ p ∈ dictDefaults es, p.2.isConst = true := by
  induction es with
  | nil => simp [dictDefaults]
  | cons e es ih =>
    obtain ⟨kind, k, v⟩ := e
    simp only [constDefaultsD, Bool.and_eq_true] at h
    obtain ⟨⟨⟨h1, _⟩, _⟩, h4⟩ := h
    cases kind with
    | plain => simpa [dictDefaults] using ih h4
    | req => simpa [dictDefaults] using ih h4
    | opt d =>
      cases d with
      | none => cases k <;> simpa [dictDefaults] using ih h4
      | some a =>
        simp only at h1
        cases k <;> simp only [dictDefaults] <;> first
          | exact ih h4
          | (intro p hp
             rcases List.mem_cons.mp hp with rfl | hp
             · exact h1
             · exact ih h4 p hp)

/-- relation between the sequential key search and the declarative claim -/
def KeyConf (ct : ClassTable) (es : List (KeyKind × Spec × Spec)) (i : Nat) (key val : V) (h : KeyHit) : Prop :=
  match h with
  | .hit j _ _ => claimIdx ct es i key = some j ∧ confEntry ct es key val = true
  | .noKey => claimIdx ct es i key = none ∧ confEntry ct es key val = false
  | .stop (.fault _) => True
  | .stop (.reject _) => confEntry ct es key val = false
  | .stop (.pass _) => False

theorem dictRef_conf (ct : ClassTable) (es : List (KeyKind × Spec × Spec)) (find : V → V → KeyHit × Log)
    (hf : ∀ k v, KeyConf ct es 0 k v (find k v).1)
    (items result : List (V × V)) (seen : List Nat)
    (hnf : (match (dictRef find items result seen).1 with
            | .error (.fault _) => false
            | _ => true) = true) :
    match (dictRef find items result seen).1 with
    | .ok (_, seen') =>
      items.all (fun kv => confEntry ct es kv.1 kv.2) = true ∧
      ∀ j, seen'.contains j = (seen.contains j || items.any (fun kv => claimIdx ct es 0 kv.1 == some j))
    | .error v => items.all (fun kv => confEntry ct es kv.1 kv.2) = false ∧ isPass v = false := by
  induction items generalizing result seen with
  | nil => simp [dictRef]
  | cons kv rest ih =>
    obtain ⟨k, v⟩ := kv
    have hk := hf k v
    unfold dictRef at hnf ⊢
    cases hfk : (find k v).1 with
    | hit i k' v' =>
      rw [hfk] at hk
      simp only [KeyConf] at hk
      simp only [hfk] at hnf ⊢
      have := ih (dictSet result k' v') (i :: seen) hnf
      cases hr : (dictRef find rest (dictSet result k' v') (i :: seen)).1 with
      | error e =>
        rw [hr] at this
        simp only at this ⊢
        simp [this.1, this.2]
      | ok p =>
        obtain ⟨res, seen'⟩ := p
        rw [hr] at this
        simp only at this ⊢
        refine ⟨by simp [hk.2, this.1], ?_⟩
        intro j
        rw [this.2 j]
        simp only [List.contains_cons, List.any_cons, hk.1]
        by_cases hj : j = i
        · subst hj; simp
        · have : (j == i) = false := by simpa using hj
          have h2 : (some i == some j) = false := by simp; exact fun h => hj h.symm
          simp [this, h2]
    | noKey =>
      rw [hfk] at hk
      simp only [KeyConf] at hk
      simp [hfk, hk.2, isPass]
    | stop x =>
      rw [hfk] at hk
      simp only [hfk] at hnf ⊢
      cases x with
      | fault c => simp at hnf
      | pass r => simp only [KeyConf] at hk
      | reject o => simp only [KeyConf] at hk; simp [hk, isPass]

mutual
theorem conf_den (ct : ClassTable) : ∀ (p : Spec) (t : V), ctorErr p = none → constDefaults p = true →
    isFault (denote ct p t).1 = false → isPass (denote ct p t).1 = conforms ct p t
  | .t e, t, _, _, _ => by
    simp only [denote, conforms, vaccess]
    cases tGet e t <;> simp [vpass, vreject, isPass]
  | .val v, t, _, _, _ => by simp [denote, conforms, vpass, isPass]
  | .mtype, t, _, _, _ => by
    simp only [denote, conforms, vcond]
    cases truthy t <;> simp [vpass, vreject, isPass]
  | .msub e, t, _, _, _ => by
    simp only [denote, conforms, vaccess]
    cases tGet e t with
    | none => simp [vreject, isPass]
    | some m => simp only [vcond]; cases truthy m <;> simp [vpass, vreject, isPass]
  | .mexpr l op r, t, _, _, hnf => by
    simp only [denote, conforms] at hnf ⊢
    have core : ∀ lv rv, isFault (match pyCmp op lv rv with
          | some b => vcond b t
          | none => ((.fault "TypeError", []) : D)).1 = false →
        isPass (match pyCmp op lv rv with
          | some b => vcond b t
          | none => ((.fault "TypeError", []) : D)).1 = (pyCmp op lv rv == some true) := by
      intro lv rv h
      cases hp : pyCmp op lv rv with
      | none => rw [hp] at h; simp [isFault] at h
      | some b => cases b <;> simp [vcond, vpass, vreject, isPass]
    cases l with
    | m =>
      simp only [msideRef, msideVal?] at hnf ⊢
      cases r with
      | m => simp only [sideRef, sideVal?, cmpTrue] at hnf ⊢; exact core t t hnf
      | const v => simp only [sideRef, sideVal?, cmpTrue] at hnf ⊢; exact core t v hnf
      | sub e =>
        simp only [sideRef, vaccess, sideVal?] at hnf ⊢
        revert hnf
        cases tGet e t with
        | none => intro _; simp [vreject, isPass, cmpTrue]
        | some rv => intro hnf; simp only [cmpTrue]; exact core t rv hnf
    | sub e' =>
      simp only [msideRef, vaccess, msideVal?] at hnf ⊢
      revert hnf
      cases tGet e' t with
      | none => intro _; simp [vreject, isPass, cmpTrue]
      | some lv =>
        intro hnf
        simp only at hnf ⊢
        cases r with
        | m => simp only [sideRef, sideVal?, cmpTrue] at hnf ⊢; exact core lv t hnf
        | const v => simp only [sideRef, sideVal?, cmpTrue] at hnf ⊢; exact core lv v hnf
        | sub e =>
          simp only [sideRef, vaccess, sideVal?] at hnf ⊢
          revert hnf
          cases tGet e t with
          | none => intro _; simp [vreject, isPass, cmpTrue]
          | some rv => intro hnf; simp only [cmpTrue]; exact core lv rv hnf
  | .and cs d, t, hc, hd, hnf => by
    simp only [denote, conforms] at hnf ⊢
    exact withDefault_conf d t _ _ hnf
      (confAll_den ct cs t t (ctorErr_and hc).1 (by simpa [constDefaults] using hd))
  | .or cs d, t, hc, hd, hnf => by
    simp only [denote, conforms] at hnf ⊢
    exact withDefault_conf d t _ _ hnf
      (confAny_den ct cs t (ctorErr_or hc).1 (by simpa [constDefaults] using hd))
  | .not c, t, hc, hd, hnf => by
    simp only [denote, conforms] at hnf ⊢
    have ih := conf_den ct c t (by simpa [ctorErr] using hc) (by simpa [constDefaults] using hd)
    cases hv : (denote ct c t).1 with
    | pass v => rw [hv] at ih; simp [isPass, ← ih rfl]
    | reject o => rw [hv] at ih; simp [isPass, ← ih rfl]
    | fault x => rw [hv] at hnf; simp [isFault] at hnf
  | .switch cases d, t, hc, hd, hnf => by
    simp only [denote, conforms] at hnf ⊢
    exact confCases_den ct cases d t (ctorErr_switch hc) (by simpa [constDefaults] using hd) hnf
  | .check a, t, _, _, _ => by
    simp only [denote, conforms]
    cases (checkRef ct a t).1 <;> rfl
  | .regex items f, t, _, _, _ => by
    simp only [denote, conforms]
    cases t with
    | str s =>
      simp only [denote, conforms, vcond]
      cases reMatches items f s <;> simp [vpass, vreject, isPass]
    | _ => simp [denote, conforms, vreject, isPass]
  | .matchS s d, t, hc, hd, hnf => by
    simp only [denote, conforms] at hnf ⊢
    exact withDefault_conf d t _ _ hnf
      (conf_den ct s t (by simpa [ctorErr] using hc) (by simpa [constDefaults] using hd))
  | .ty n, t, _, _, _ => by
    simp only [denote, conforms]
    cases isInst ct t n <;> simp [vpass, vreject, isPass]
  | .lit v, t, _, _, _ => by
    simp only [denote, conforms, vcond]
    cases pyEq t v <;> simp [vpass, vreject, isPass]
  | .pred id fn, t, _, _, _ => by
    simp only [denote, conforms]
    cases predApply fn t with
    | ret v => simp only; cases truthy v <;> simp [isPass]
    | raise c => simp [isPass]
  | .list alts, t, hc, hd, hnf => by
    simp only [denote, conforms] at hnf ⊢
    revert hnf
    cases t.unsub with
    | list items =>
      intro hnf
      simp only [conforms] at hnf ⊢
      have hfin := finish_conf (fun vs => .pass (.list vs)) (allItems (denAlt ct alts) items)
        (fun vs => Or.inl rfl) (allItems_error _ _) hnf
      rw [hfin.1]
      exact allItems_conf _ _ (fun x => confAlt_den ct alts x (by simpa [ctorErr] using hc)
        (by simpa [constDefaults] using hd)) items hfin.2
    | _ => intro _; simp [conforms, vreject, isPass]
  | .set alts, t, hc, hd, hnf => by
    simp only [denote, conforms] at hnf ⊢
    revert hnf
    cases t.unsub with
    | set items =>
      intro hnf
      simp only [conforms] at hnf ⊢
      have hfin := finish_conf (mkSetRef false) (allItems (denAlt ct alts) items)
        (fun vs => by unfold mkSetRef; split <;> simp [isPass, isFault]) (allItems_error _ _) hnf
      rw [hfin.1]
      exact allItems_conf _ _ (fun x => confAlt_den ct alts x
        (ctorErr_setlike (by simpa [ctorErr] using hc))
        (by simpa [constDefaults] using hd)) items hfin.2
    | _ => intro _; simp [conforms, vreject, isPass]
  | .fset alts, t, hc, hd, hnf => by
    simp only [denote, conforms] at hnf ⊢
    revert hnf
    cases t.unsub with
    | fset items =>
      intro hnf
      simp only [conforms] at hnf ⊢
      have hfin := finish_conf (mkSetRef true) (allItems (denAlt ct alts) items)
        (fun vs => by unfold mkSetRef; split <;> simp [isPass, isFault]) (allItems_error _ _) hnf
      rw [hfin.1]
      exact allItems_conf _ _ (fun x => confAlt_den ct alts x
        (ctorErr_setlike (by simpa [ctorErr] using hc))
        (by simpa [constDefaults] using hd)) items hfin.2
    | _ => intro _; simp [conforms, vreject, isPass]
  | .tuple ps, t, hc, hd, hnf => by
    simp only [denote, conforms] at hnf ⊢
    revert hnf
    cases t.unsub with
    | tuple items =>
      intro hnf
      simp only [conforms] at hnf ⊢
      by_cases hlen : (items.length != ps.length) = true
      · simp only [hlen, if_true] at hnf ⊢
        have : (items.length == ps.length) = false := by simpa using hlen
        simp [vreject, isPass, this]
      · simp only [hlen, Bool.false_eq_true, if_false] at hnf ⊢
        have hl : (items.length == ps.length) = true := by simpa using hlen
        have hfin := finish_conf (fun vs => .pass (.tuple vs)) (denZip ct ps items)
          (fun vs => Or.inl rfl) (denZip_error ct ps items) hnf
        rw [hfin.1, hl, Bool.true_and]
        exact confZip_den ct ps items (by simpa [ctorErr] using hc) (by simpa [constDefaults] using hd)
          hfin.2
    | _ => intro _; simp [conforms, vreject, isPass]
  | .dict es, t, hc, hd, hnf => by
    simp only [denote, conforms] at hnf ⊢
    revert hnf
    cases t.unsub with
    | dict items =>
      intro hnf
      simp only [conforms] at hnf ⊢
      have hcd : ctorErrD es = none := by simpa [ctorErr] using hc
      have hdd : constDefaultsD es = true := by simpa [constDefaults] using hd
      have hkey := fun k v => confKey_den ct es 0 k v hcd hdd
      cases hr : (dictRef (denKey ct es 0) items [] []).1 with
      | error v =>
        rw [hr] at hnf
        simp only at hnf ⊢
        have := dictRef_conf ct es (denKey ct es 0) hkey items [] []
          (by rw [hr]; cases v <;> simp_all [isFault])
        rw [hr] at this
        simp only at this
        rw [this.1, this.2, Bool.false_and]
      | ok p =>
        obtain ⟨result, seen⟩ := p
        rw [hr] at hnf
        simp only at hnf ⊢
        have := dictRef_conf ct es (denKey ct es 0) hkey items [] [] (by rw [hr])
        rw [hr] at this
        simp only at this
        obtain ⟨r', hr'⟩ := constDefaults_fill t (dictDefaults es)
          (dictDefaults_const es hdd) result
        rw [hr'] at hnf ⊢
        simp only at hnf ⊢
        have hseen : (requiredRef es 0).all (fun i => seen.contains i) =
            (requiredRef es 0).all (fun i => items.any (fun kv => claimIdx ct es 0 kv.1 == some i)) := by
          congr 1; funext i
          rw [this.2 i]; simp
        rw [this.1, hseen, Bool.true_and]
        split <;> simp_all [isPass]
    | _ => intro _; simp [conforms, vreject, isPass]

theorem confAll_den (ct : ClassTable) : ∀ (cs : List Spec) (t r : V), ctorErrL cs = none →
    constDefaultsL cs = true →
    isFault (denAll ct cs t r).1 = false → isPass (denAll ct cs t r).1 = confAll ct cs t
  | [], t, r, _, _, _ => by simp [denAll, confAll, vpass, isPass]
  | c :: cs, t, r, hc, hd, hnf => by
    obtain ⟨hc1, hc2⟩ := ctorErrL_cons hc
    simp only [constDefaultsL, Bool.and_eq_true] at hd
    have ih := conf_den ct c t hc1 hd.1
    simp only [denAll, confAll] at hnf ⊢
    cases hv : (denote ct c t).1 with
    | pass v =>
      rw [hv] at ih hnf
      simp only at hnf ⊢
      rw [← ih rfl]
      simp only [isPass, Bool.true_and]
      exact confAll_den ct cs t v hc2 hd.2 hnf
    | reject o =>
      rw [hv] at ih hnf
      simp only at hnf ⊢
      rw [hv, ← ih rfl]; rfl
    | fault x => rw [hv] at hnf; simp only at hnf; rw [hv] at hnf; cases hnf

theorem confAny_den (ct : ClassTable) : ∀ (cs : List Spec) (t : V), ctorErrL cs = none →
    constDefaultsL cs = true →
    isFault (denAny ct cs t).1 = false → isPass (denAny ct cs t).1 = confAny ct cs t
  | [], t, _, _, _ => by simp [denAny, confAny, vreject, isPass]
  | [c], t, hc, hd, hnf => by
    simp only [constDefaultsL, Bool.and_eq_true] at hd
    simp only [denAny, confAny, Bool.or_false] at hnf ⊢
    exact conf_den ct c t (ctorErrL_cons hc).1 hd.1 hnf
  | c :: c' :: cs, t, hc, hd, hnf => by
    obtain ⟨hc1, hc2⟩ := ctorErrL_cons hc
    have hd' := hd
    simp only [constDefaultsL, Bool.and_eq_true] at hd
    have ih := conf_den ct c t hc1 hd.1
    rw [denAny] at hnf ⊢
    rw [confAny]
    cases hv : (denote ct c t).1 with
    | pass v =>
      rw [hv] at ih hnf
      simp only at hnf ⊢
      rw [hv, ← ih rfl]; rfl
    | reject o =>
      rw [hv] at ih hnf
      simp only at hnf ⊢
      rw [← ih rfl]
      simp only [isPass, Bool.false_or]
      exact confAny_den ct (c' :: cs) t hc2 (by simp [constDefaultsL, hd.2.1, hd.2.2]) hnf
    | fault x => rw [hv] at hnf; simp only at hnf; rw [hv] at hnf; cases hnf

theorem confCases_den (ct : ClassTable) : ∀ (cases : List (Spec × Spec)) (d : Option Arg) (t : V),
    ctorErrC cases = none → constDefaultsC cases = true →
    isFault (denCases ct cases d t).1 = false → isPass (denCases ct cases d t).1 = confCases ct cases d t
  | [], d, t, _, _, hnf => by
    simp only [denCases, confCases] at hnf ⊢
    have := withDefault_conf d t (vreject .comb) false hnf (fun _ => rfl)
    simpa using this
  | (k, v) :: rest, d, t, hc, hd, hnf => by
    obtain ⟨hc1, hc2, hc3⟩ := ctorErrC_cons hc
    simp only [constDefaultsC, Bool.and_eq_true] at hd
    have ih := conf_den ct k t hc1 hd.1.1
    simp only [denCases, confCases] at hnf ⊢
    cases hv : (denote ct k t).1 with
    | pass r =>
      rw [hv] at ih hnf
      simp only at hnf ⊢
      rw [← ih rfl]
      simp only [isPass, if_true]
      exact conf_den ct v t hc2 hd.1.2 hnf
    | reject o =>
      rw [hv] at ih hnf
      simp only at hnf ⊢
      rw [← ih rfl]
      simp only [isPass, Bool.false_eq_true, if_false]
      exact confCases_den ct rest d t hc3 hd.2 hnf
    | fault x => rw [hv] at hnf; simp [isFault] at hnf

/-- one item against the alternatives: the first that passes = some alternative conforms -/
theorem confAlt_den (ct : ClassTable) : ∀ (alts : List Spec) (x : V), ctorErrL alts = none →
    constDefaultsL alts = true →
    isFault (denAlt ct alts x).1 = false → isPass (denAlt ct alts x).1 = confAny ct alts x
  | [], x, _, _, _ => by simp [denAlt, confAny, vreject, isPass]
  | [c], x, hc, hd, hnf => by
    simp only [constDefaultsL, Bool.and_eq_true] at hd
    simp only [denAlt, confAny, Bool.or_false] at hnf ⊢
    exact conf_den ct c x (ctorErrL_cons hc).1 hd.1 hnf
  | c :: c' :: cs, x, hc, hd, hnf => by
    obtain ⟨hc1, hc2⟩ := ctorErrL_cons hc
    simp only [constDefaultsL, Bool.and_eq_true] at hd
    have ih := conf_den ct c x hc1 hd.1
    rw [denAlt] at hnf ⊢
    rw [confAny]
    cases hv : (denote ct c x).1 with
    | pass v =>
      rw [hv] at ih hnf
      simp only at hnf ⊢
      rw [hv, ← ih rfl]; rfl
    | reject o =>
      rw [hv] at ih hnf
      simp only at hnf ⊢
      rw [← ih rfl]
      simp only [isPass, Bool.false_or]
      exact confAlt_den ct (c' :: cs) x hc2 (by simp [constDefaultsL, hd.2.1, hd.2.2]) hnf
    | fault y => rw [hv] at hnf; simp only at hnf; rw [hv] at hnf; cases hnf

theorem confZip_den (ct : ClassTable) : ∀ (ps : List Spec) (xs : List V), ctorErrL ps = none →
    constDefaultsL ps = true →
    itemsFault (denZip ct ps xs) = false → itemsOk (denZip ct ps xs) = confZip ct ps xs
  | [], xs, _, _, _ => by simp [denZip, confZip, itemsOk]
  | _ :: _, [], _, _, _ => by simp [denZip, confZip, itemsOk]
  | p :: ps, x :: xs, hc, hd, hnf => by
    obtain ⟨hc1, hc2⟩ := ctorErrL_cons hc
    simp only [constDefaultsL, Bool.and_eq_true] at hd
    have ih := conf_den ct p x hc1 hd.1
    simp only [denZip, confZip] at hnf ⊢
    cases hv : (denote ct p x).1 with
    | pass v =>
      rw [hv] at ih hnf
      simp only at hnf ⊢
      rw [← ih rfl]
      simp only [isPass, Bool.true_and]
      have hnf' : itemsFault (denZip ct ps xs) = false := by
        revert hnf; unfold itemsFault
        cases (denZip ct ps xs).1 <;> simp [Except.map]
      rw [← confZip_den ct ps xs hc2 hd.2 hnf']
      unfold itemsOk
      cases (denZip ct ps xs).1 <;> simp [Except.map]
    | reject o =>
      rw [hv] at ih hnf
      simp only at hnf ⊢
      rw [← ih rfl]; simp [itemsOk, isPass]
    | fault y => rw [hv] at hnf; simp [itemsFault] at hnf

theorem confKey_den (ct : ClassTable) : ∀ (es : List (KeyKind × Spec × Spec)) (i : Nat) (key val : V),
    ctorErrD es = none → constDefaultsD es = true →
    KeyConf ct es i key val (denKey ct es i key val).1
  | [], i, key, val, _, _ => by simp [denKey, KeyConf, claimIdx, confEntry]
  | (kind, ks, vs) :: es, i, key, val, hc, hd => by
    obtain ⟨hc1, hc2, hc3, _⟩ := ctorErrD_cons hc
    simp only [constDefaultsD, Bool.and_eq_true] at hd
    obtain ⟨⟨⟨_, hd1⟩, hd2⟩, hd3⟩ := hd
    have ihv := conf_den ct vs val hc2 hd2
    have ihr := confKey_den ct es (i + 1) key val hc3 hd3
    -- the key test, in both readings
    have hkey : ∀ (kr : D) (b : Bool), (isFault kr.1 = false → isPass kr.1 = b) →
        KeyConf ct ((kind, ks, vs) :: es) i key val
          (match kr.1 with
           | .pass k' =>
             (match (denote ct vs val).1 with
              | .pass v' => (KeyHit.hit i k' v', kr.2 ++ (denote ct vs val).2)
              | other => (.stop other, kr.2 ++ (denote ct vs val).2))
           | .reject _ => ((denKey ct es (i + 1) key val).1, kr.2 ++ (denKey ct es (i + 1) key val).2)
           | .fault c => (.stop (.fault c), kr.2)).1 ∨
        keyTest (conforms ct ks) kind ks key ≠ b := by
      intro kr b hb
      by_cases hkb : keyTest (conforms ct ks) kind ks key = b
      · left
        cases hkr : kr.1 with
        | pass k' =>
          rw [hkr] at hb
          have hbt : b = true := (hb rfl).symm
          subst hbt
          simp only
          cases hvv : (denote ct vs val).1 with
          | pass v' =>
            rw [hvv] at ihv
            simp [KeyConf, claimIdx, confEntry, hkb, ← ihv rfl, isPass]
          | reject o =>
            rw [hvv] at ihv
            simp [KeyConf, confEntry, hkb, ← ihv rfl, isPass]
          | fault c => simp only [KeyConf]
        | reject o =>
          rw [hkr] at hb
          have hbf : b = false := (hb rfl).symm
          subst hbf
          simp only
          revert ihr
          cases (denKey ct es (i + 1) key val).1 with
          | hit j a b => simp only [KeyConf, claimIdx, confEntry, hkb]; simp
          | noKey => simp only [KeyConf, claimIdx, confEntry, hkb]; simp
          | stop x => cases x <;> simp only [KeyConf, claimIdx, confEntry, hkb] <;> simp
        | fault c => simp only [KeyConf]
      · right; exact hkb
    simp only [denKey]
    cases ho : optKey kind ks with
    | some k =>
      simp only
      rcases hkey (vcond (pyEq key k) key) (pyEq key k)
        (by intro _; cases pyEq key k <;> simp [vcond, vpass, vreject, isPass]) with h | h
      · exact h
      · rw [keyTest, ho] at h; exact absurd rfl h
    | none =>
      simp only
      rcases hkey (denote ct ks key) (conforms ct ks key) (conf_den ct ks key hc1 hd1) with h | h
      · exact h
      · rw [keyTest, ho] at h; exact absurd rfl h
end

/-! ### "returns them unchanged" -/

theorem dedup_distinct (acc xs : List V) (h : distinctFrom acc xs = true) :
    dedupEq acc xs = acc.reverse ++ xs := by
  induction xs generalizing acc with
  | nil => simp [dedupEq]
  | cons x xs ih =>
    simp only [distinctFrom, Bool.and_eq_true, Bool.not_eq_true'] at h
    rw [dedupEq, if_neg (by simp [h.1]), ih (x :: acc) h.2]
    simp

theorem dictSet_fresh (es : List (V × V)) (k v : V) (h : dictHas es k = false) :
    dictSet es k v = es ++ [(k, v)] := by
  unfold dictSet dictHas at *
  rw [if_neg (by simp [h])]

theorem pure_defaults (es : List (KeyKind × Spec × Spec)) (h : noOptDefaults es = true) :
    dictDefaults es = [] := by
  induction es with
  | nil => rfl
  | cons e es ih =>
    obtain ⟨kind, k, v⟩ := e
    simp only [noOptDefaults, Bool.and_eq_true] at h
    obtain ⟨h1, h4⟩ := h
    cases kind with
    | plain => simpa [dictDefaults] using ih h4
    | req => simpa [dictDefaults] using ih h4
    | opt d =>
      cases d with
      | some a => simp at h1
      | none => cases k <;> simpa [dictDefaults] using ih h4

/-- every item passes `f` unchanged -/
theorem allItems_pure (f : V → D) (items : List V)
    (hf : ∀ x ∈ items, ∀ v, (f x).1 = .pass v → v = x) (vs : List V)
    (h : (allItems f items).1 = .ok vs) : vs = items := by
  induction items generalizing vs with
  | nil => simp [allItems] at h; exact h
  | cons x xs ih =>
    unfold allItems at h
    cases hfx : (f x).1 with
    | pass v =>
      simp only [hfx] at h
      have hv := hf x (by simp) v hfx
      cases hr : (allItems f xs).1 with
      | error e => rw [hr] at h; simp [Except.map] at h
      | ok ws =>
        rw [hr] at h
        simp only [Except.map] at h
        injection h with h
        rw [← h, hv, ih (fun y hy => hf y (by simp [hy])) ws hr]
    | reject o => simp [hfx] at h
    | fault c => simp [hfx] at h

theorem wfL_mem {xs : List V} (h : wfL xs = true) : ∀ x ∈ xs, wfV x = true := by
  induction xs with
  | nil => simp
  | cons a as ih =>
    simp only [wfL, Bool.and_eq_true] at h
    intro x hx
    simp only [List.mem_cons] at hx
    rcases hx with rfl | hx
    · exact h.1
    · exact ih h.2 x hx

theorem wfD_mem {es : List (V × V)} (h : wfD es = true) : ∀ kv ∈ es, wfV kv.1 = true ∧ wfV kv.2 = true := by
  induction es with
  | nil => simp
  | cons a as ih =>
    obtain ⟨k, v⟩ := a
    simp only [wfD, Bool.and_eq_true] at h
    intro kv hkv
    simp only [List.mem_cons] at hkv
    rcases hkv with rfl | hkv
    · exact ⟨h.1.1, h.1.2⟩
    · exact ih h.2 kv hkv

/-- `denKey` never stops with a pass -/
theorem denKey_stop (ct : ClassTable) (es : List (KeyKind × Spec × Spec)) (i : Nat) (key val : V) (x : Verdict)
    (h : (denKey ct es i key val).1 = .stop x) : isPass x = false := by
  induction es generalizing i with
  | nil => simp [denKey] at h
  | cons e es ih =>
    obtain ⟨kind, ks, vs⟩ := e
    simp only [denKey] at h
    split at h
    · split at h
      · simp at h
      · rename_i hnp
        simp only at h
        injection h with h; subst h
        cases hv : (denote ct vs val).1 <;> simp_all [isPass]
    · exact ih (i + 1) h
    · simp only at h; injection h with h; subst h; rfl

theorem dictRef_error (ct : ClassTable) (es : List (KeyKind × Spec × Spec)) (items acc : List (V × V))
    (seen : List Nat) (e : Verdict)
    (h : (dictRef (denKey ct es 0) items acc seen).1 = .error e) : isPass e = false := by
  induction items generalizing acc seen with
  | nil => simp [dictRef] at h
  | cons kv rest ih =>
    obtain ⟨k, v⟩ := kv
    unfold dictRef at h
    cases hfk : (denKey ct es 0 k v).1 with
    | hit i k' v' => simp only [hfk] at h; exact ih _ _ h
    | noKey => simp only [hfk] at h; injection h with h; subst h; rfl
    | stop x => simp only [hfk] at h; injection h with h; subst h; exact denKey_stop ct es 0 k v x hfk

/-- a value the structural theorems talk about is no subclass instance: it is its own content -/
theorem wfV_unsub {t : V} (h : wfV t = true) : t.unsub = t := by
  cases t <;> first | rfl | simp [wfV] at h

/-- every entry is claimed and returned unchanged, keys staying distinct -/
theorem dictRef_pure (find : V → V → KeyHit × Log) (items acc : List (V × V)) (seen : List Nat)
    (hf : ∀ kv ∈ items, ∀ i k' v', (find kv.1 kv.2).1 = .hit i k' v' → k' = kv.1 ∧ v' = kv.2)
    (hd : keysDistinct acc items = true) (res : List (V × V)) (seen' : List Nat)
    (h : (dictRef find items acc seen).1 = .ok (res, seen')) : res = acc ++ items := by
  induction items generalizing acc seen with
  | nil => simp [dictRef] at h; simp [h.1]
  | cons kv rest ih =>
    obtain ⟨k, v⟩ := kv
    unfold dictRef at h
    simp only [keysDistinct, Bool.and_eq_true, Bool.not_eq_true'] at hd
    cases hfk : (find k v).1 with
    | hit i k' v' =>
      obtain ⟨rfl, rfl⟩ := hf (k, v) (by simp) i k' v' hfk
      simp only [hfk] at h
      rw [dictSet_fresh acc _ _ hd.1] at h
      have := ih (acc ++ [(k', v')]) (i :: seen) (fun kv hkv => hf kv (by simp [hkv])) hd.2 h
      simp [this]
    | noKey => simp [hfk] at h
    | stop x => simp [hfk] at h

mutual
theorem pure_den (ct : ClassTable) : ∀ (p : Spec) (t v : V), pureP p = true → wfV t = true →
    (denote ct p t).1 = .pass v → v = t
  | .ty n, t, v, _, _, h => by
    simp only [denote] at h
    split at h <;> simp [vpass, vreject] at h
    exact h.symm
  | .lit x, t, v, _, _, h => by
    simp only [denote, vcond] at h
    split at h <;> simp [vpass, vreject] at h
    exact h.symm
  | .pred id fn, t, v, _, _, h => by
    simp only [denote] at h
    split at h
    · split at h <;> simp at h
      exact h.symm
    · simp at h
  | .regex items f, t, v, _, _, h => by
    simp only [denote] at h
    split at h
    · simp only [vcond] at h
      split at h <;> simp [vpass, vreject] at h
      exact h.symm
    · simp [vreject] at h
  | .mtype, t, v, _, _, h => by
    simp only [denote, vcond] at h
    split at h <;> simp [vpass, vreject] at h
    exact h.symm
  | .msub e, t, v, _, _, h => by
    simp only [denote, vaccess] at h
    split at h
    · simp only [vcond] at h
      split at h <;> simp [vpass, vreject] at h
      exact h.symm
    · simp [vreject] at h
  | .mexpr l op r, t, v, _, _, h => by
    simp only [denote] at h
    have core : ∀ lv rv, (match pyCmp op lv rv with
          | some b => vcond b t
          | none => ((.fault "TypeError", []) : D)).1 = .pass v → v = t := by
      intro lv rv h
      split at h
      · simp only [vcond] at h
        split at h <;> simp [vpass, vreject] at h
        exact h.symm
      · simp at h
    cases l with
    | m =>
      simp only [msideRef] at h
      cases r with
      | m => exact core t t h
      | const c => exact core t c h
      | sub e =>
        simp only [sideRef, vaccess] at h
        split at h
        · exact core _ _ h
        · simp [vreject] at h
    | sub e' =>
      simp only [msideRef, vaccess] at h
      split at h
      · cases r with
        | m => exact core _ t h
        | const c => exact core _ c h
        | sub e =>
          simp only [sideRef, vaccess] at h
          split at h
          · exact core _ _ h
          · simp [vreject] at h
      · simp [vreject] at h
  | .not c, t, v, _, _, h => by
    simp only [denote] at h
    split at h <;> simp at h
    exact h.symm
  | .and cs none, t, v, hp, hw, h => by
    simp only [denote, withDefault_none] at h
    rcases pureAll_den ct cs t t v (by simpa [pureP] using hp) hw h with h1 | h1
    · exact h1
    · exact h1
  | .or cs none, t, v, hp, hw, h => by
    simp only [denote, withDefault_none] at h
    exact pureAny_den ct cs t v (by simpa [pureP] using hp) hw h
  | .matchS s none, t, v, hp, hw, h => by
    simp only [denote, withDefault_none] at h
    exact pure_den ct s t v (by simpa [pureP] using hp) hw h
  | .list alts, t, v, hp, hw, h => by
    simp only [denote] at h
    rw [wfV_unsub hw] at h
    cases t with
    | list items =>
      simp only [finish] at h
      cases hr : (allItems (denAlt ct alts) items).1 with
      | error e => rw [hr] at h; simp only at h; exact absurd h (by
          have := allItems_error _ _ e hr; cases e <;> simp_all [isPass])
      | ok vs =>
        rw [hr] at h; simp only at h
        injection h with h
        have hwl : wfL items = true := by simpa [wfV] using hw
        rw [← h, allItems_pure _ items
          (fun x hx w hxw => pureAlt_den ct alts x w (by simpa [pureP] using hp) (wfL_mem hwl x hx) hxw)
          vs hr]
    | _ => simp [vreject] at h
  | .set alts, t, v, hp, hw, h => by
    simp only [denote] at h
    rw [wfV_unsub hw] at h
    cases t with
    | set items =>
      simp only [finish] at h
      cases hr : (allItems (denAlt ct alts) items).1 with
      | error e => rw [hr] at h; simp only at h; exact absurd h (by
          have := allItems_error _ _ e hr; cases e <;> simp_all [isPass])
      | ok vs =>
        rw [hr] at h; simp only [mkSetRef] at h
        simp only [wfV, Bool.and_eq_true] at hw
        have := allItems_pure _ items
          (fun x hx w hxw => pureAlt_den ct alts x w (by simpa [pureP] using hp) (wfL_mem hw.1 x hx) hxw)
          vs hr
        subst this
        split at h
        · injection h with h
          rw [← h]
          simp [dedup_distinct [] vs hw.2]
        · simp at h
    | _ => simp [vreject] at h
  | .fset alts, t, v, hp, hw, h => by
    simp only [denote] at h
    rw [wfV_unsub hw] at h
    cases t with
    | fset items =>
      simp only [finish] at h
      cases hr : (allItems (denAlt ct alts) items).1 with
      | error e => rw [hr] at h; simp only at h; exact absurd h (by
          have := allItems_error _ _ e hr; cases e <;> simp_all [isPass])
      | ok vs =>
        rw [hr] at h; simp only [mkSetRef] at h
        simp only [wfV, Bool.and_eq_true] at hw
        have := allItems_pure _ items
          (fun x hx w hxw => pureAlt_den ct alts x w (by simpa [pureP] using hp) (wfL_mem hw.1 x hx) hxw)
          vs hr
        subst this
        split at h
        · injection h with h
          rw [← h]
          simp [dedup_distinct [] vs hw.2]
        · simp at h
    | _ => simp [vreject] at h
  | .tuple ps, t, v, hp, hw, h => by
    simp only [denote] at h
    rw [wfV_unsub hw] at h
    cases t with
    | tuple items =>
      simp only at h
      split at h
      · simp [vreject] at h
      · simp only [finish] at h
        cases hr : (denZip ct ps items).1 with
        | error e => rw [hr] at h; simp only at h; exact absurd h (by
            have := denZip_error ct ps items e hr; cases e <;> simp_all [isPass])
        | ok vs =>
          rw [hr] at h; simp only at h
          injection h with h
          rename_i hlen
          have hl : items.length = ps.length := by simpa using hlen
          rw [← h, pureZip_den ct ps items vs (by simpa [pureP] using hp) (by simpa [wfV] using hw) hl.symm hr]
    | _ => simp [vreject] at h
  | .dict es, t, v, hp, hw, h => by
    simp only [denote] at h
    rw [wfV_unsub hw] at h
    cases t with
    | dict items =>
      simp only at h
      have hpd : pureD es = true := by simp only [pureP, Bool.and_eq_true] at hp; exact hp.1
      have hno : noOptDefaults es = true := by simp only [pureP, Bool.and_eq_true] at hp; exact hp.2
      simp only [wfV, Bool.and_eq_true] at hw
      cases hr : (dictRef (denKey ct es 0) items [] []).1 with
      | error e =>
        rw [hr] at h; simp only at h
        have := dictRef_error ct es items [] [] e hr
        cases e <;> simp_all [isPass]
      | ok p =>
        obtain ⟨res, seen⟩ := p
        rw [hr] at h; simp only at h
        rw [pure_defaults es hno] at h
        simp only [defaultsRef] at h
        have hres := dictRef_pure (denKey ct es 0) items [] []
          (fun kv hkv i k' v' hh => pureKey_den ct es 0 kv.1 kv.2 i k' v' hpd
            (wfD_mem hw.1 kv hkv).1 (wfD_mem hw.1 kv hkv).2 hh) hw.2 res seen hr
        split at h
        · injection h with h; rw [← h, hres]; simp
        · simp at h
    | _ => simp [vreject] at h
  | .t _, _, _, hp, _, _ | .val _, _, _, hp, _, _ | .switch .., _, _, hp, _, _ | .check _, _, _, hp, _, _
  | .and _ (some _), _, _, hp, _, _ | .or _ (some _), _, _, hp, _, _ | .matchS _ (some _), _, _, hp, _, _ => by
    simp [pureP] at hp

theorem pureAll_den (ct : ClassTable) : ∀ (cs : List Spec) (t r v : V), pureL cs = true → wfV t = true →
    (denAll ct cs t r).1 = .pass v → v = t ∨ v = r
  | [], t, r, v, _, _, h => by simp [denAll, vpass] at h; exact Or.inr h.symm
  | c :: cs, t, r, v, hp, hw, h => by
    simp only [pureL, Bool.and_eq_true] at hp
    simp only [denAll] at h
    cases hv : (denote ct c t).1 with
    | pass w =>
      rw [hv] at h; simp only at h
      have hw' := pure_den ct c t w hp.1 hw hv
      subst hw'
      rcases pureAll_den ct cs w w v hp.2 hw h with h1 | h1 <;> exact Or.inl h1
    | reject o => rw [hv] at h; simp only at h; rw [hv] at h; cases h
    | fault x => rw [hv] at h; simp only at h; rw [hv] at h; cases h

theorem pureAny_den (ct : ClassTable) : ∀ (cs : List Spec) (t v : V), pureL cs = true → wfV t = true →
    (denAny ct cs t).1 = .pass v → v = t
  | [], t, v, _, _, h => by simp [denAny, vreject] at h
  | [c], t, v, hp, hw, h => by
    simp only [pureL, Bool.and_eq_true] at hp
    simp only [denAny] at h
    exact pure_den ct c t v hp.1 hw h
  | c :: c' :: cs, t, v, hp, hw, h => by
    simp only [pureL, Bool.and_eq_true] at hp
    rw [denAny] at h
    cases hv : (denote ct c t).1 with
    | pass w => rw [hv] at h; simp only at h; rw [hv] at h; injection h with h; subst h
                exact pure_den ct c t w hp.1 hw hv
    | reject o =>
      rw [hv] at h; simp only at h
      exact pureAny_den ct (c' :: cs) t v (by simp [pureL, hp.2.1, hp.2.2]) hw h
    | fault x => rw [hv] at h; simp only at h; rw [hv] at h; cases h

theorem pureAlt_den (ct : ClassTable) : ∀ (alts : List Spec) (x v : V), pureL alts = true → wfV x = true →
    (denAlt ct alts x).1 = .pass v → v = x
  | [], x, v, _, _, h => by simp [denAlt, vreject] at h
  | [c], x, v, hp, hw, h => by
    simp only [pureL, Bool.and_eq_true] at hp
    simp only [denAlt] at h
    exact pure_den ct c x v hp.1 hw h
  | c :: c' :: cs, x, v, hp, hw, h => by
    simp only [pureL, Bool.and_eq_true] at hp
    rw [denAlt] at h
    cases hv : (denote ct c x).1 with
    | pass w => rw [hv] at h; simp only at h; rw [hv] at h; injection h with h; subst h
                exact pure_den ct c x w hp.1 hw hv
    | reject o =>
      rw [hv] at h; simp only at h
      exact pureAlt_den ct (c' :: cs) x v (by simp [pureL, hp.2.1, hp.2.2]) hw h
    | fault y => rw [hv] at h; simp only at h; rw [hv] at h; cases h

theorem pureZip_den (ct : ClassTable) : ∀ (ps : List Spec) (xs vs : List V), pureL ps = true →
    wfL xs = true → ps.length = xs.length → (denZip ct ps xs).1 = .ok vs → vs = xs
  | [], xs, vs, _, _, hl, h => by
    simp [denZip] at h
    cases xs with
    | nil => exact h
    | cons _ _ => simp at hl
  | _ :: _, [], vs, _, _, hl, _ => by simp at hl
  | p :: ps, x :: xs, vs, hp, hw, hl, h => by
    simp only [pureL, Bool.and_eq_true] at hp
    simp only [wfL, Bool.and_eq_true] at hw
    simp only [denZip] at h
    cases hv : (denote ct p x).1 with
    | pass w =>
      rw [hv] at h; simp only at h
      have hw' := pure_den ct p x w hp.1 hw.1 hv
      cases hr : (denZip ct ps xs).1 with
      | error e => rw [hr] at h; simp [Except.map] at h
      | ok ws =>
        rw [hr] at h; simp only [Except.map] at h
        injection h with h
        rw [← h, hw', pureZip_den ct ps xs ws hp.2 hw.2 (by simpa using hl) hr]
    | reject o => rw [hv] at h; simp at h
    | fault y => rw [hv] at h; simp at h

theorem pureKey_den (ct : ClassTable) : ∀ (es : List (KeyKind × Spec × Spec)) (i : Nat) (key val : V)
    (j : Nat) (k' v' : V), pureD es = true → wfV key = true → wfV val = true →
    (denKey ct es i key val).1 = .hit j k' v' → k' = key ∧ v' = val
  | [], i, key, val, j, k', v', _, _, _, h => by simp [denKey] at h
  | (kind, ks, vs) :: es, i, key, val, j, k', v', hp, hwk, hwv, h => by
    simp only [pureD, Bool.and_eq_true] at hp
    obtain ⟨⟨hp1, hp2⟩, hp3⟩ := hp
    simp only [denKey] at h
    have fin : ∀ (kr : D), (∀ w, kr.1 = .pass w → w = key) →
        (match kr.1 with
         | .pass k'' =>
           (match (denote ct vs val).1 with
            | .pass v'' => (KeyHit.hit i k'' v'', kr.2 ++ (denote ct vs val).2)
            | other => (.stop other, kr.2 ++ (denote ct vs val).2))
         | .reject _ => ((denKey ct es (i + 1) key val).1, kr.2 ++ (denKey ct es (i + 1) key val).2)
         | .fault c => (.stop (.fault c), kr.2)).1 = .hit j k' v' → k' = key ∧ v' = val := by
      intro kr hkr hh
      cases hk : kr.1 with
      | pass w =>
        rw [hk] at hh; simp only at hh
        have hwk' := hkr w hk
        cases hvv : (denote ct vs val).1 with
        | pass w' =>
          rw [hvv] at hh; simp only at hh
          injection hh with h1 h2 h3
          exact ⟨by rw [← h2]; exact hwk', by rw [← h3]; exact pure_den ct vs val w' hp2 hwv hvv⟩
        | reject o => rw [hvv] at hh; simp at hh
        | fault c => rw [hvv] at hh; simp at hh
      | reject o =>
        rw [hk] at hh; simp only at hh
        exact pureKey_den ct es (i + 1) key val j k' v' hp3 hwk hwv hh
      | fault c => rw [hk] at hh; simp at hh
    cases ho : optKey kind ks with
    | some k =>
      rw [ho] at h; simp only at h
      refine fin (vcond (pyEq key k) key) ?_ h
      intro w hw
      simp only [vcond] at hw
      split at hw <;> simp [vpass, vreject] at hw
      exact hw.symm
    | none =>
      rw [ho] at h; simp only at h
      exact fin (denote ct ks key) (fun w hw => pure_den ct ks key w hp1 hwk hw) h
end

theorem defaultsRef_error (target : V) (ds : List (V × Arg)) (result : List (V × V)) (e : Verdict)
    (h : defaultsRef target ds result = .error e) : isPass e = false := by
  induction ds generalizing result with
  | nil => simp [defaultsRef] at h
  | cons kd ds ih =>
    obtain ⟨k, d⟩ := kd
    unfold defaultsRef at h
    split at h
    · exact ih result h
    · cases ho : ofArg d target with
      | pass w => rw [ho] at h; exact ih _ h
      | reject o => rw [ho] at h; simp only at h; injection h with h; subst h; rfl
      | fault c => rw [ho] at h; simp only at h; injection h with h; subst h; rfl

/-- a dict pattern with pure key / value patterns returns the target's entries, in order,
    followed by the Optional defaults of the keys the target lacks -/
theorem dict_defaults_den (ct : ClassTable) (es : List (KeyKind × Spec × Spec)) (items : List (V × V)) (v : V)
    (hp : pureD es = true) (hw : wfV (.dict items) = true)
    (h : (denote ct (.dict es) (.dict items)).1 = .pass v) :
    ∃ r, defaultsRef (.dict items) (dictDefaults es) items = .ok r ∧ v = .dict r := by
  simp only [denote, V.unsub] at h
  simp only [wfV, Bool.and_eq_true] at hw
  cases hr : (dictRef (denKey ct es 0) items [] []).1 with
  | error e =>
    rw [hr] at h; simp only at h
    have := dictRef_error ct es items [] [] e hr
    cases e <;> simp_all [isPass]
  | ok p =>
    obtain ⟨res, seen⟩ := p
    rw [hr] at h; simp only at h
    have hres := dictRef_pure (denKey ct es 0) items [] []
      (fun kv hkv i k' v' hh => pureKey_den ct es 0 kv.1 kv.2 i k' v' hp
        (wfD_mem hw.1 kv hkv).1 (wfD_mem hw.1 kv hkv).2 hh) hw.2 res seen hr
    simp only [List.nil_append] at hres
    subst hres
    cases hd : defaultsRef (.dict res) (dictDefaults es) res with
    | error e =>
      rw [hd] at h; simp only at h
      have := defaultsRef_error _ _ _ e hd
      cases e <;> simp_all [isPass]
    | ok r =>
      rw [hd] at h; simp only at h
      split at h
      · injection h with h; exact ⟨r, rfl, h.symm⟩
      · simp at h

/-! ### `abc.register(k)` on the class table -/

def regRow (a k : String) (r : String × List String) : String × List String :=
  if r.2.contains k && !r.2.contains a then (r.1, r.2 ++ [a]) else r

theorem regRow_fst (a k : String) (r : String × List String) : (regRow a k r).1 = r.1 := by
  unfold regRow; split <;> rfl

theorem find_map_regRow (a k c : String) (rows : ClassTable) :
    (rows.map (regRow a k)).find? (·.1 == c) = (rows.find? (·.1 == c)).map (regRow a k) := by
  induction rows with
  | nil => rfl
  | cons r rs ih =>
    simp only [List.map_cons, List.find?_cons, regRow_fst]
    cases (r.1 == c) <;> simp [ih]

theorem registerCls_eq (ct : ClassTable) (a k : String) :
    registerCls ct a k =
      (if ct.any (·.1 == k) then ct else (k, ct.mro k) :: ct).map (regRow a k) := rfl

theorem mro_cons_self (ct : ClassTable) (k c : String) :
    ClassTable.mro ((k, ct.mro k) :: ct) c = ct.mro c := by
  unfold ClassTable.mro
  simp only [List.find?_cons]
  by_cases h : (k == c) = true
  · have : k = c := by simpa using h
    subst this; simp
  · simp [h]

theorem find_isSome_of_any (ct : ClassTable) (c : String) (h : ct.any (·.1 == c) = true) :
    ∃ r, ct.find? (·.1 == c) = some r := by
  induction ct with
  | nil => simp at h
  | cons r rs ih =>
    simp only [List.find?_cons]
    cases hr : (r.1 == c)
    · simp only [List.any_cons, hr, Bool.false_or] at h
      exact ih h
    · exact ⟨r, rfl⟩

/-- after `a.register(k)` every class that has `k` in its MRO is a subclass of `a` -/
theorem registerCls_isSub (ct : ClassTable) (a k c : String)
    (hrow : ct.any (·.1 == c) = true ∨ c = k) (h : (ct.mro c).contains k = true) :
    (registerCls ct a k).isSub c a = true := by
  rw [registerCls_eq]
  have key : ∃ r, (if ct.any (·.1 == k) then ct else (k, ct.mro k) :: ct).find? (·.1 == c) = some r ∧
      r.2 = ct.mro c := by
    split
    · rename_i hk
      have hc : ct.any (·.1 == c) = true := by
        rcases hrow with h | h
        · exact h
        · subst h; exact hk
      obtain ⟨r, hr⟩ := find_isSome_of_any ct c hc
      exact ⟨r, hr, by unfold ClassTable.mro; rw [hr]⟩
    · rename_i hk
      simp only [List.find?_cons]
      cases hkc : (k == c)
      · have hc : ct.any (·.1 == c) = true := by
          rcases hrow with h | h
          · exact h
          · subst h; simp at hkc
        obtain ⟨r, hr⟩ := find_isSome_of_any ct c hc
        exact ⟨r, by simp [hr], by unfold ClassTable.mro; rw [hr]⟩
      · have : k = c := by simpa using hkc
        subst this
        exact ⟨_, rfl, rfl⟩
  generalize (if ct.any (·.1 == k) then ct else (k, ct.mro k) :: ct) = rows at key
  obtain ⟨r, hr, hm⟩ := key
  have hmro : ClassTable.mro (rows.map (regRow a k)) c = (regRow a k r).2 := by
    unfold ClassTable.mro
    rw [find_map_regRow, hr]
    simp only [Option.map_some]
  unfold ClassTable.isSub
  rw [hmro]
  unfold regRow
  rw [hm, h]
  cases ha : (ct.mro c).contains a
  · simp
  · simpa [hm] using ha

/-! ### calm evaluations do not fault -/

theorem withDefault_noFault (d : Option Arg) (t : V) (x : D) (h : isFault x.1 = false) :
    isFault (withDefault d t x).1 = false := by
  obtain ⟨v, l⟩ := x
  cases v with
  | pass r => cases d <;> simp [withDefault, isFault]
  | reject o =>
    cases d with
    | none => simp [withDefault, isFault]
    | some a => simp only [withDefault]; exact (ofArg_pass a t).2
  | fault c => simp [isFault] at h

theorem allItems_noFault (f : V → D) (items : List V) (hf : ∀ x ∈ items, isFault (f x).1 = false) :
    itemsFault (allItems f items) = false := by
  induction items with
  | nil => rfl
  | cons x xs ih =>
    have hx := hf x (by simp)
    have ih' := ih (fun y hy => hf y (by simp [hy]))
    unfold allItems
    cases hfx : (f x).1 with
    | pass v =>
      simp only [hfx]
      revert ih'
      unfold itemsFault
      cases (allItems f xs).1 <;> simp [Except.map]
    | reject o => simp [hfx, itemsFault, isFault]
    | fault c => rw [hfx] at hx; simp [isFault] at hx

theorem finish_noFault (mk : List V → Verdict) (r : (Except Verdict (List V)) × Log)
    (hmk : ∀ vs, r.1 = .ok vs → isFault (mk vs) = false) (hr : itemsFault r = false) :
    isFault (finish mk r).1 = false := by
  obtain ⟨rv, l⟩ := r
  unfold finish
  cases rv with
  | ok vs => exact hmk vs rfl
  | error v => cases v <;> simp_all [itemsFault, isFault]

theorem defaultsRef_noFault (target : V) (ds : List (V × Arg)) (result : List (V × V)) (e : Verdict)
    (h : defaultsRef target ds result = .error e) : isFault e = false := by
  induction ds generalizing result with
  | nil => simp [defaultsRef] at h
  | cons kd ds ih =>
    obtain ⟨k, d⟩ := kd
    unfold defaultsRef at h
    split at h
    · exact ih result h
    · have hp := (ofArg_pass d target).2
      revert h
      cases ho : ofArg d target with
      | pass v => intro h; exact ih _ h
      | reject o => intro h; injection h with h; subst h; rfl
      | fault c => rw [ho] at hp; simp [isFault] at hp

theorem dictRef_noFault (find : V → V → KeyHit × Log) (items result : List (V × V)) (seen : List Nat)
    (hf : ∀ kv ∈ items, keyFault (find kv.1 kv.2).1 = false) :
    ∀ e, (dictRef find items result seen).1 = .error e → isFault e = false := by
  induction items generalizing result seen with
  | nil => intro e h; simp [dictRef] at h
  | cons kv rest ih =>
    obtain ⟨k, v⟩ := kv
    have hk := hf (k, v) (by simp)
    intro e h
    unfold dictRef at h
    cases hfk : (find k v).1 with
    | hit i k' v' =>
      simp only [hfk] at h
      exact ih _ _ (fun kv hkv => hf kv (by simp [hkv])) e h
    | noKey => simp only [hfk] at h; injection h with h; subst h; rfl
    | stop x =>
      simp only [hfk] at h; injection h with h; subst h
      rw [hfk] at hk
      cases x <;> simp_all [keyFault, isFault]

theorem checkWithDefault_noFault (d : Arg) (x t0 : V) (cs : List (Cond × Log)) :
    isFault (checkWithDefault d x t0 cs).1 = false := by
  induction cs with
  | nil => unfold checkWithDefault; rfl
  | cons c rest ih =>
    obtain ⟨c, l⟩ := c
    unfold checkWithDefault
    cases c with
    | holds => exact ih
    | fails => exact (ofArg_pass d x).2

theorem checkRef_noFault (ct : ClassTable) (a : CheckArgs) (t : V) (o : CheckObj) (h : checkObjRef a = .ok o) :
    isFault (checkRef ct a t).1 = false := by
  unfold checkRef
  rw [h]
  simp only
  have go : ∀ x, isFault ((match o.default with
      | some d => checkWithDefault d x t (checkConds ct o x)
      | none => checkNoDefault t (checkConds ct o x)) : D).1 = false := by
    intro x
    cases o.default with
    | some d => exact checkWithDefault_noFault d x t _
    | none => simp only [checkNoDefault]; split <;> rfl
  cases o.spec with
  | none => exact go t
  | some e =>
    simp only [vaccess]
    cases tGet e t with
    | none => rfl
    | some x => exact go x

theorem cmp_noFault (op : CmpOp) (lv rv t : V) (h : (pyCmp op lv rv).isSome = true) :
    isFault ((match pyCmp op lv rv with
      | some b => vcond b t
      | none => ((.fault "TypeError", []) : D))).1 = false := by
  cases hp : pyCmp op lv rv with
  | none => rw [hp] at h; simp at h
  | some b => cases b <;> simp [vcond, vpass, vreject, isFault]

theorem setlike_noFault (ct : ClassTable) (frozen : Bool) (alts : List Spec) (items : List V)
    (hcalm : ∀ x ∈ items, isFault (denAlt ct alts x).1 = false)
    (hp : pureL alts = true) (hw : wfL items = true) (hh : items.all V.hashable = true) :
    isFault (finish (mkSetRef frozen) (allItems (denAlt ct alts) items)).1 = false := by
  refine finish_noFault _ _ ?_ (allItems_noFault _ _ hcalm)
  intro vs hvs
  have : vs = items := allItems_pure _ items
    (fun x hx v hv => pureAlt_den ct alts x v hp (wfL_mem hw x hx) hv) vs hvs
  subst this
  unfold mkSetRef
  rw [if_pos hh]; rfl

mutual
theorem calm_den (ct : ClassTable) : ∀ (p : Spec) (t : V), calm ct p t = true →
    isFault (denote ct p t).1 = false
  | .t e, t, _ => by
    simp only [denote, vaccess]
    cases tGet e t <;> rfl
  | .val v, t, _ => rfl
  | .mtype, t, _ => by simp only [denote, vcond]; cases truthy t <;> rfl
  | .msub e, t, _ => by
    simp only [denote, vaccess]
    cases tGet e t with
    | none => rfl
    | some m => simp only [vcond]; cases truthy m <;> rfl
  | .mexpr l op r, t, h => by
    simp only [calm] at h
    simp only [denote]
    cases l with
    | m =>
      simp only [msideRef, msideVal?] at h ⊢
      cases r with
      | m => simp only [sideRef, sideVal?, cmpCalm] at h ⊢; exact cmp_noFault op t t t h
      | const v => simp only [sideRef, sideVal?, cmpCalm] at h ⊢; exact cmp_noFault op t v t h
      | sub e =>
        simp only [sideRef, vaccess, sideVal?] at h ⊢
        revert h
        cases tGet e t with
        | none => intro _; rfl
        | some rv => intro h; simp only [cmpCalm] at h; exact cmp_noFault op t rv t h
    | sub e' =>
      simp only [msideRef, vaccess, msideVal?] at h ⊢
      revert h
      cases tGet e' t with
      | none => intro _; rfl
      | some lv =>
        intro h
        simp only at h ⊢
        cases r with
        | m => simp only [sideRef, sideVal?, cmpCalm] at h ⊢; exact cmp_noFault op lv t t h
        | const v => simp only [sideRef, sideVal?, cmpCalm] at h ⊢; exact cmp_noFault op lv v t h
        | sub e =>
          simp only [sideRef, vaccess, sideVal?] at h ⊢
          revert h
          cases tGet e t with
          | none => intro _; rfl
          | some rv => intro h; simp only [cmpCalm] at h; exact cmp_noFault op lv rv t h
  | .and cs d, t, h => by
    simp only [calm] at h
    simp only [denote]
    exact withDefault_noFault d t _ (calmAll_den ct cs t t h)
  | .or cs d, t, h => by
    simp only [calm] at h
    simp only [denote]
    exact withDefault_noFault d t _ (calmAny_den ct cs t h)
  | .not c, t, h => by
    simp only [calm] at h
    simp only [denote]
    have ih := calm_den ct c t h
    cases hv : (denote ct c t).1 with
    | pass v => rfl
    | reject o => rfl
    | fault x => rw [hv] at ih; simp [isFault] at ih
  | .switch cases d, t, h => by
    simp only [calm] at h
    simp only [denote]
    exact calmCases_den ct cases d t h
  | .check a, t, h => by
    simp only [calm] at h
    simp only [denote]
    cases hi : checkObjRef a with
    | error e => rw [hi] at h; simp at h
    | ok o => exact checkRef_noFault ct a t o hi
  | .regex items f, t, _ => by
    simp only [denote]
    cases t with
    | str s => simp only [vcond]; cases reMatches items f s <;> rfl
    | _ => rfl
  | .matchS s d, t, h => by
    simp only [calm] at h
    simp only [denote]
    exact withDefault_noFault d t _ (calm_den ct s t h)
  | .ty n, t, _ => by simp only [denote]; cases isInst ct t n <;> rfl
  | .lit v, t, _ => by simp only [denote, vcond]; cases pyEq t v <;> rfl
  | .pred id fn, t, _ => by
    simp only [denote]
    cases predApply fn t with
    | ret v => simp only; cases truthy v <;> rfl
    | raise c => rfl
  | .list alts, t, h => by
    simp only [denote]
    simp only [calm] at h
    revert h
    cases t.unsub with
    | list items =>
      intro h
      simp only [List.all_eq_true] at h
      simp only
      exact finish_noFault _ _ (fun vs _ => rfl)
        (allItems_noFault _ _ (fun x hx => calmAlt_den ct alts x (h x hx)))
    | _ => intro _; rfl
  | .set alts, t, h => by
    simp only [denote]
    simp only [calm] at h
    revert h
    cases t.unsub with
    | set items =>
      intro h
      simp only [Bool.and_eq_true] at h
      obtain ⟨⟨⟨h1, h2⟩, h3⟩, h4⟩ := h
      rw [List.all_eq_true] at h1
      simp only
      exact setlike_noFault ct false alts items (fun x hx => calmAlt_den ct alts x (h1 x hx)) h2 h3 h4
    | _ => intro _; rfl
  | .fset alts, t, h => by
    simp only [denote]
    simp only [calm] at h
    revert h
    cases t.unsub with
    | fset items =>
      intro h
      simp only [Bool.and_eq_true] at h
      obtain ⟨⟨⟨h1, h2⟩, h3⟩, h4⟩ := h
      rw [List.all_eq_true] at h1
      simp only
      exact setlike_noFault ct true alts items (fun x hx => calmAlt_den ct alts x (h1 x hx)) h2 h3 h4
    | _ => intro _; rfl
  | .tuple ps, t, h => by
    simp only [denote]
    simp only [calm] at h
    revert h
    cases t.unsub with
    | tuple items =>
      intro h
      simp only
      split
      · rfl
      · exact finish_noFault _ _ (fun vs _ => rfl) (calmZip_den ct ps items h)
    | _ => intro _; rfl
  | .dict es, t, h => by
    simp only [denote]
    simp only [calm] at h
    revert h
    cases t.unsub with
    | dict items =>
      intro h
      simp only [List.all_eq_true] at h
      simp only
      have hkeys : ∀ kv ∈ items, keyFault (denKey ct es 0 kv.1 kv.2).1 = false :=
        fun kv hkv => calmKey_den ct es 0 kv.1 kv.2 (h kv hkv)
      have hnf := dictRef_noFault (denKey ct es 0) items [] [] hkeys
      cases hr : (dictRef (denKey ct es 0) items [] []).1 with
      | error v => simp only; exact hnf v hr
      | ok p =>
        obtain ⟨result, seen⟩ := p
        simp only
        cases hdr : defaultsRef t (dictDefaults es) result with
        | error v => simp only; exact defaultsRef_noFault _ _ _ v hdr
        | ok r' => simp only; split <;> rfl
    | _ => intro _; rfl

theorem calmAll_den (ct : ClassTable) : ∀ (cs : List Spec) (t r : V), calmL ct cs t = true →
    isFault (denAll ct cs t r).1 = false
  | [], t, r, _ => rfl
  | c :: cs, t, r, h => by
    simp only [calmL, Bool.and_eq_true] at h
    have ih := calm_den ct c t h.1
    simp only [denAll]
    cases hv : (denote ct c t).1 with
    | pass v => simp only; exact calmAll_den ct cs t v h.2
    | reject o => simp only; rw [hv]; rfl
    | fault x => rw [hv] at ih; simp [isFault] at ih

theorem calmAny_den (ct : ClassTable) : ∀ (cs : List Spec) (t : V), calmL ct cs t = true →
    isFault (denAny ct cs t).1 = false
  | [], t, _ => rfl
  | [c], t, h => by
    simp only [calmL, Bool.and_eq_true] at h
    simp only [denAny]
    exact calm_den ct c t h.1
  | c :: c' :: cs, t, h => by
    have h' := h
    simp only [calmL, Bool.and_eq_true] at h
    have ih := calm_den ct c t h.1
    rw [denAny]
    cases hv : (denote ct c t).1 with
    | pass v => simp only; rw [hv]; rfl
    | reject o =>
      simp only
      exact calmAny_den ct (c' :: cs) t (by simp [calmL, h.2.1, h.2.2])
    | fault x => rw [hv] at ih; simp [isFault] at ih

theorem calmAlt_den (ct : ClassTable) : ∀ (alts : List Spec) (x : V), calmL ct alts x = true →
    isFault (denAlt ct alts x).1 = false
  | [], x, _ => rfl
  | [c], x, h => by
    simp only [calmL, Bool.and_eq_true] at h
    simp only [denAlt]
    exact calm_den ct c x h.1
  | c :: c' :: cs, x, h => by
    simp only [calmL, Bool.and_eq_true] at h
    have ih := calm_den ct c x h.1
    rw [denAlt]
    cases hv : (denote ct c x).1 with
    | pass v => simp only; rw [hv]; rfl
    | reject o =>
      simp only
      exact calmAlt_den ct (c' :: cs) x (by simp [calmL, h.2.1, h.2.2])
    | fault y => rw [hv] at ih; simp [isFault] at ih

theorem calmCases_den (ct : ClassTable) : ∀ (cases : List (Spec × Spec)) (d : Option Arg) (t : V),
    calmC ct cases t = true → isFault (denCases ct cases d t).1 = false
  | [], d, t, _ => by
    simp only [denCases]
    exact withDefault_noFault d t _ rfl
  | (k, v) :: rest, d, t, h => by
    simp only [calmC, Bool.and_eq_true] at h
    have ih := calm_den ct k t h.1.1
    simp only [denCases]
    cases hv : (denote ct k t).1 with
    | pass r => simp only; exact calm_den ct v t h.1.2
    | reject o => simp only; exact calmCases_den ct rest d t h.2
    | fault x => rw [hv] at ih; simp [isFault] at ih

theorem calmZip_den (ct : ClassTable) : ∀ (ps : List Spec) (xs : List V), calmZ ct ps xs = true →
    itemsFault (denZip ct ps xs) = false
  | [], xs, _ => by simp [denZip, itemsFault]
  | _ :: _, [], _ => by simp [denZip, itemsFault]
  | p :: ps, x :: xs, h => by
    simp only [calmZ, Bool.and_eq_true] at h
    have ih := calm_den ct p x h.1
    have ih2 := calmZip_den ct ps xs h.2
    simp only [denZip]
    cases hv : (denote ct p x).1 with
    | pass v =>
      simp only
      revert ih2
      unfold itemsFault
      cases (denZip ct ps xs).1 <;> simp [Except.map]
    | reject o => simp [itemsFault]
    | fault y => rw [hv] at ih; simp [isFault] at ih

theorem calmKey_den (ct : ClassTable) : ∀ (es : List (KeyKind × Spec × Spec)) (i : Nat) (key val : V),
    calmD ct es key val = true → keyFault (denKey ct es i key val).1 = false
  | [], i, key, val, _ => rfl
  | (kind, ks, vs) :: es, i, key, val, h => by
    simp only [calmD, Bool.and_eq_true] at h
    obtain ⟨hk, hr⟩ := h
    have ihr := calmKey_den ct es (i + 1) key val hr
    have core : ∀ kr : D, isFault kr.1 = false → (isPass kr.1 = true → calm ct vs val = true) →
        keyFault ((match kr.1 with
           | .pass k' =>
             (match (denote ct vs val).1 with
              | .pass v' => (KeyHit.hit i k' v', kr.2 ++ (denote ct vs val).2)
              | other => (.stop other, kr.2 ++ (denote ct vs val).2))
           | .reject _ => ((denKey ct es (i + 1) key val).1, kr.2 ++ (denKey ct es (i + 1) key val).2)
           | .fault c => (.stop (.fault c), kr.2)) : KeyHit × Log).1 = false := by
      intro kr hkr hval
      cases hkv : kr.1 with
      | pass k' =>
        simp only
        have ihv := calm_den ct vs val (hval (by rw [hkv]; rfl))
        cases hvv : (denote ct vs val).1 with
        | pass v' => rfl
        | reject o => rfl
        | fault c => rw [hvv] at ihv; simp [isFault] at ihv
      | reject o => simp only; exact ihr
      | fault c => rw [hkv] at hkr; simp [isFault] at hkr
    simp only [denKey]
    cases ho : optKey kind ks with
    | some k =>
      rw [ho] at hk
      simp only at hk ⊢
      refine core (vcond (pyEq key k) key) (by cases pyEq key k <;> rfl) ?_
      intro hp
      cases hpe : pyEq key k with
      | true => simpa [hpe] using hk
      | false => rw [hpe] at hp; simp [vcond, vreject, isPass] at hp
    | none =>
      rw [ho] at hk
      simp only [Bool.and_eq_true] at hk ⊢
      refine core (denote ct ks key) (calm_den ct ks key hk.1) ?_
      intro hp
      simpa [hp] using hk.2
end

/-! ### the regex engine of the model decides membership in the declared language -/

/-- remainders after one or more further characters of the class -/
theorem spanRems_iff (c : CharCls) (xs u : List Char) :
    u ∈ spanRems c xs ↔ ∃ y ys, c.matches y = true ∧ ys.all c.matches = true ∧ xs = y :: ys ++ u := by
  induction xs with
  | nil => simp [spanRems]
  | cons x xs ih =>
    unfold spanRems
    by_cases hx : c.matches x = true
    · rw [if_pos hx, List.mem_cons, ih]
      constructor
      · rintro (h | ⟨y, ys, hy, hall, heq⟩)
        · exact ⟨x, [], hx, rfl, by simp [h]⟩
        · exact ⟨x, y :: ys, hx, by simp [hy, hall], by simp [heq]⟩
      · rintro ⟨y, ys, hy, hall, heq⟩
        simp only [List.cons_append, List.cons.injEq] at heq
        obtain ⟨rfl, heq⟩ := heq
        cases ys with
        | nil => left; simpa using heq.symm
        | cons y' ys' =>
          right
          simp only [List.all_cons, Bool.and_eq_true] at hall
          exact ⟨y', ys', hall.1, hall.2, by simpa using heq⟩
    · rw [if_neg hx]
      simp only [List.not_mem_nil, false_iff]
      rintro ⟨y, ys, hy, _, heq⟩
      simp only [List.cons_append, List.cons.injEq] at heq
      obtain ⟨rfl, _⟩ := heq
      exact hx hy

/-- the engine's remainders are exactly the suffixes left by a prefix in the language -/
theorem reRems_iff : ∀ (items : List ReItem) (s u : List Char),
    u ∈ reRems items s ↔ ∃ pre, ReLang items pre ∧ s = pre ++ u
  | [], s, u => by
    simp only [reRems, List.mem_singleton]
    constructor
    · intro h; exact ⟨[], .nil, by simp [h]⟩
    · rintro ⟨pre, hl, heq⟩
      cases hl; simpa using heq.symm
  | it :: its, s, u => by
    simp only [reRems, List.mem_flatMap]
    constructor
    · rintro ⟨a, ha, hu⟩
      obtain ⟨pre, hpre, heq⟩ := (reRems_iff its a u).mp hu
      cases s with
      | nil => simp at ha
      | cons x xs =>
        simp only at ha
        by_cases hx : it.cls.matches x = true
        · rw [if_pos hx] at ha
          cases hp : it.plus with
          | false =>
            rw [hp] at ha
            simp only [Bool.false_eq_true, if_false, List.mem_singleton] at ha
            subst ha
            exact ⟨x :: pre, .one it its x pre hp hx hpre, by simp [heq]⟩
          | true =>
            rw [hp] at ha
            simp only [if_true, List.mem_cons] at ha
            rcases ha with ha | ha
            · subst ha
              exact ⟨x :: [] ++ pre, .plus it its x [] pre hp hx rfl hpre, by simp [heq]⟩
            · obtain ⟨y, ys, hy, hall, hxs⟩ := (spanRems_iff it.cls xs a).mp ha
              exact ⟨x :: (y :: ys) ++ pre, .plus it its x (y :: ys) pre hp hx (by simp [hy, hall]) hpre,
                by simp [hxs, heq]⟩
        · rw [if_neg hx] at ha; simp at ha
    · rintro ⟨pre, hl, heq⟩
      cases hl with
      | one _ _ c rest hp hc hrest =>
        subst heq
        refine ⟨rest ++ u, ?_, (reRems_iff its (rest ++ u) u).mpr ⟨rest, hrest, rfl⟩⟩
        simp [hc, hp]
      | plus _ _ c cs rest hp hc hall hrest =>
        subst heq
        refine ⟨rest ++ u, ?_, (reRems_iff its (rest ++ u) u).mpr ⟨rest, hrest, rfl⟩⟩
        simp only [List.cons_append, List.append_assoc, hc, hp, if_true, List.mem_cons]
        cases cs with
        | nil => left; simp
        | cons y ys =>
          right
          simp only [List.all_cons, Bool.and_eq_true] at hall
          exact (spanRems_iff it.cls _ _).mpr ⟨y, ys, hall.1, hall.2, by simp⟩

theorem mem_tailsOf (s u : List Char) : u ∈ tailsOf s ↔ ∃ a, s = a ++ u := by
  induction s with
  | nil =>
    simp only [tailsOf, List.mem_singleton]
    constructor
    · intro h; exact ⟨[], by simp [h]⟩
    · rintro ⟨a, h⟩
      have := congrArg List.length h
      simp at this
      exact List.eq_nil_of_length_eq_zero (by omega)
  | cons x xs ih =>
    simp only [tailsOf, List.mem_cons, ih]
    constructor
    · rintro (h | ⟨a, h⟩)
      · exact ⟨[], by simp [h]⟩
      · exact ⟨x :: a, by simp [h]⟩
    · rintro ⟨a, h⟩
      cases a with
      | nil => left; simpa using h.symm
      | cons y ys =>
        right
        simp only [List.cons_append, List.cons.injEq] at h
        exact ⟨ys, h.2⟩

theorem reMatches_iff (items : List ReItem) (f : ReFunc) (s : String) :
    reMatches items f s = true ↔ reAccepts items f s.toList := by
  cases f with
  | fullmatch =>
    simp only [reMatches, reAccepts, List.any_eq_true]
    constructor
    · rintro ⟨u, hu, he⟩
      obtain ⟨pre, hl, heq⟩ := (reRems_iff items _ u).mp hu
      have : u = [] := by simpa using he
      subst this
      simpa [heq] using hl
    · intro h
      exact ⟨[], (reRems_iff items _ []).mpr ⟨_, h, by simp⟩, rfl⟩
  | match_ =>
    simp only [reMatches, reAccepts]
    constructor
    · intro h
      cases hr : reRems items s.toList with
      | nil => simp [hr] at h
      | cons u us =>
        obtain ⟨pre, hl, heq⟩ := (reRems_iff items _ u).mp (by rw [hr]; simp)
        exact ⟨pre, u, hl, heq⟩
    · rintro ⟨pre, suf, hl, heq⟩
      have : suf ∈ reRems items s.toList := (reRems_iff items _ suf).mpr ⟨pre, hl, heq⟩
      cases hr : reRems items s.toList with
      | nil => rw [hr] at this; simp at this
      | cons u us => simp
  | search =>
    simp only [reMatches, reAccepts, List.any_eq_true]
    constructor
    · rintro ⟨u, hu, hne⟩
      obtain ⟨a, ha⟩ := (mem_tailsOf _ u).mp hu
      cases hr : reRems items u with
      | nil => simp [hr] at hne
      | cons w ws =>
        obtain ⟨pre, hl, heq⟩ := (reRems_iff items u w).mp (by rw [hr]; simp)
        exact ⟨a, pre, w, hl, by rw [ha, heq]⟩
    · rintro ⟨a, pre, suf, hl, heq⟩
      refine ⟨pre ++ suf, (mem_tailsOf _ _).mpr ⟨a, heq⟩, ?_⟩
      have : suf ∈ reRems items (pre ++ suf) := (reRems_iff items _ suf).mpr ⟨pre, hl, rfl⟩
      cases hr : reRems items (pre ++ suf) with
      | nil => rw [hr] at this; simp at this
      | cons u us => simp

/-- `Match(p)` without a default re-raises whatever `p` raised -/
theorem matchGlom_none (env : Env) (p : Spec) (t : V) : matchGlom env p none t = eval env p t := by
  simp only [matchGlom, eval]
  cases h : (eval env p t).1 with
  | ok v => rfl
  | error e => simp only; split <;> rfl

/-! ### the model's `precedence` satisfies the extracted if-chain -/

theorem maxOver_prec : ∀ ps : List Spec, maxOver precedence ps = precedenceL ps
  | [] => by simp [maxOver, precedenceL]
  | p :: ps => by simp [maxOver, precedenceL, maxOver_prec ps]

theorem precStep_expected (kind : KeyKind) (s : Spec) :
    precStep precedence expectedPrecedence kind s = some (precedence s) := by
  cases s <;> cases kind <;>
    simp [precStep, precTest, precAct, expectedPrecedence, precedence, glomitOrCallable, itemsOf, maxOver_prec,
      kindIsPlain, isTupleOrFset, isTypeObj, objGlomitOrCallable]

/-! ### "returning the target" -/

mutual
theorem selfP_pure : ∀ p : Spec, selfP p = true → pureP p = true
  | .ty _, _ | .lit _, _ | .pred .., _ | .regex .., _ | .mtype, _ | .msub _, _ | .mexpr .., _ | .not _, _ => by
    simp [pureP]
  | .and cs none, h => by simp only [selfP] at h; simp only [pureP]; exact selfL_pure cs h
  | .or cs none, h => by simp only [selfP] at h; simp only [pureP]; exact selfL_pure cs h
  | .matchS s none, h => by simp only [selfP] at h; simp only [pureP]; exact selfP_pure s h
  | .and _ (some _), h | .or _ (some _), h | .matchS _ (some _), h => by simp [selfP] at h
  | .t _, h | .val _, h | .switch .., h | .check _, h | .list _, h | .set _, h | .fset _, h
  | .tuple _, h | .dict _, h => by simp [selfP] at h
theorem selfL_pure : ∀ cs : List Spec, selfL cs = true → pureL cs = true
  | [], _ => rfl
  | c :: cs, h => by
    simp only [selfL, Bool.and_eq_true] at h
    simp [pureL, selfP_pure c h.1, selfL_pure cs h.2]
end

/-! ### the result is the target plus Optional defaults, at every depth -/

theorem allItems_rel (f : V → D) (R : V → V → Bool) (items : List V)
    (hf : ∀ x ∈ items, ∀ v, (f x).1 = .pass v → R x v = true) (vs : List V)
    (h : (allItems f items).1 = .ok vs) : listAll2 R items vs = true := by
  induction items generalizing vs with
  | nil => simp [allItems] at h; subst h; rfl
  | cons x xs ih =>
    unfold allItems at h
    cases hfx : (f x).1 with
    | pass v =>
      simp only [hfx] at h
      cases hr : (allItems f xs).1 with
      | error e => rw [hr] at h; simp [Except.map] at h
      | ok ws =>
        rw [hr] at h
        simp only [Except.map] at h
        injection h with h
        subst h
        simp [listAll2, hf x (by simp) v hfx, ih (fun y hy => hf y (by simp [hy])) ws hr]
    | reject o => simp [hfx] at h
    | fault c => simp [hfx] at h

/-- `defaultsRef` only appends -/
theorem defaultsRef_prefix (target : V) (ds : List (V × Arg)) (res res' : List (V × V))
    (h : defaultsRef target ds res = .ok res') : res'.take res.length = res := by
  induction ds generalizing res with
  | nil => simp [defaultsRef] at h; subst h; simp
  | cons kd ds ih =>
    obtain ⟨k, d⟩ := kd
    unfold defaultsRef at h
    split at h
    · exact ih res h
    · rename_i hk
      revert h
      cases ho : ofArg d target with
      | pass v =>
        intro h
        simp only at h
        have := ih _ h
        rw [dictSet_fresh res k v (by simpa using hk)] at this
        have h2 := congrArg (List.take res.length) this
        simp only [List.take_take, List.length_append, List.length_cons, List.length_nil] at h2
        rw [Nat.min_eq_left (by omega)] at h2
        simpa using h2
      | reject o => intro h; simp at h
      | fault c => intro h; simp at h

theorem dictHas_keys (a b : List (V × V)) (k : V) (h : a.map (·.1) = b.map (·.1)) :
    dictHas a k = dictHas b k := by
  unfold dictHas
  have : ∀ l : List (V × V), l.any (fun e => pyEq e.1 k) = (l.map (·.1)).any (fun x => pyEq x k) := by
    intro l; simp [List.any_map, Function.comp_def]
  rw [this a, this b, h]

theorem keysDistinct_keys (items a b : List (V × V)) (h : a.map (·.1) = b.map (·.1)) :
    keysDistinct a items = keysDistinct b items := by
  induction items generalizing a b with
  | nil => rfl
  | cons kv r ih =>
    obtain ⟨k, v⟩ := kv
    simp only [keysDistinct]
    rw [dictHas_keys a b k h, ih (a ++ [(k, v)]) (b ++ [(k, v)]) (by simp [h])]

/-- every entry is claimed, keys handed back, values related; keys stay distinct -/
theorem dictRef_rel (find : V → V → KeyHit × Log) (R : V → V → Bool) (items acc : List (V × V)) (seen : List Nat)
    (hf : ∀ kv ∈ items, ∀ i k' v', (find kv.1 kv.2).1 = .hit i k' v' → k' = kv.1 ∧ R kv.2 v' = true)
    (hd : keysDistinct acc items = true) (res : List (V × V)) (seen' : List Nat)
    (h : (dictRef find items acc seen).1 = .ok (res, seen')) :
    ∃ ext, res = acc ++ ext ∧ ext.length = items.length ∧
      listAll2 (fun kv kv' => valEq kv'.1 kv.1 && R kv.2 kv'.2) items ext = true := by
  induction items generalizing acc seen with
  | nil => simp [dictRef] at h; exact ⟨[], by simp [h.1], rfl, rfl⟩
  | cons kv rest ih =>
    obtain ⟨k, v⟩ := kv
    unfold dictRef at h
    simp only [keysDistinct, Bool.and_eq_true, Bool.not_eq_true'] at hd
    cases hfk : (find k v).1 with
    | hit i k' v' =>
      obtain ⟨rfl, hR⟩ := hf (k, v) (by simp) i k' v' hfk
      simp only [hfk] at h
      rw [dictSet_fresh acc _ _ hd.1] at h
      have hd2 : keysDistinct (acc ++ [(k', v')]) rest = true := by
        rw [keysDistinct_keys rest (acc ++ [(k', v')]) (acc ++ [(k', v)]) (by simp)]; exact hd.2
      obtain ⟨ext, he, hl, hall⟩ := ih (acc ++ [(k', v')]) (i :: seen) (fun kv hkv => hf kv (by simp [hkv])) hd2 h
      refine ⟨(k', v') :: ext, by simp [he], by simp [hl], ?_⟩
      simp [listAll2, valEq_refl, hR, hall]
    | noKey => simp [hfk] at h
    | stop x => simp [hfk] at h

theorem denZip_length (ct : ClassTable) : ∀ (ps : List Spec) (xs vs : List V), ps.length = xs.length →
    (denZip ct ps xs).1 = .ok vs → vs.length = xs.length
  | [], xs, vs, hl, h => by
    simp [denZip] at h
    cases xs with
    | nil => simp [← h]
    | cons _ _ => simp at hl
  | _ :: _, [], vs, hl, _ => by simp at hl
  | p :: ps, x :: xs, vs, hl, h => by
    simp only [denZip] at h
    cases hv : (denote ct p x).1 with
    | pass w =>
      rw [hv] at h; simp only at h
      cases hr : (denZip ct ps xs).1 with
      | error e => rw [hr] at h; simp [Except.map] at h
      | ok ws =>
        rw [hr] at h; simp only [Except.map] at h
        injection h with h
        rw [← h]
        simp [denZip_length ct ps xs ws (by simpa using hl) hr]
    | reject o => rw [hv] at h; simp at h
    | fault y => rw [hv] at h; simp at h

/-- a pattern that is no list / tuple / dict pattern: covered by `pure_den` when pure -/
theorem plus_leaf (ct : ClassTable) (p : Spec) (t r : V)
    (hp : (match p with | .list _ | .tuple _ | .dict _ => false | _ => true) = true)
    (hw : wfV t = true) (h : (denote ct p t).1 = .pass r) : plusDefaults ct p t r = true := by
  have key : (!pureP p || valEq r t) = true := by
    cases hpp : pureP p with
    | false => rfl
    | true => simp [pure_den ct p t r hpp hw h, valEq_refl]
  cases p <;> first
    | (simp at hp; done)
    | (simp only [plusDefaults]; exact key)

theorem beqPairs_refl (l : List (V × V)) :
    listAll2 (fun a b => valEq a.1 b.1 && valEq a.2 b.2) l l = true := by
  induction l with
  | nil => rfl
  | cons a r ih => simp [listAll2, valEq_refl, ih]

mutual
theorem plus_den (ct : ClassTable) : ∀ (p : Spec) (t r : V), wfV t = true →
    (denote ct p t).1 = .pass r → plusDefaults ct p t r = true
  | .list alts, t, r, hw, h => by
    simp only [denote] at h
    rw [wfV_unsub hw] at h
    cases t with
    | list items =>
      simp only [finish] at h
      cases hr : (allItems (denAlt ct alts) items).1 with
      | error e => rw [hr] at h; simp only at h; exact absurd h (by
          have := allItems_error _ _ e hr; cases e <;> simp_all [isPass])
      | ok vs =>
        rw [hr] at h; simp only at h
        injection h with h
        subst h
        have hwl : wfL items = true := by simpa [wfV] using hw
        simp only [plusDefaults]
        exact allItems_rel _ _ items
          (fun x hx v hv => plusAlt_den ct alts x v (wfL_mem hwl x hx) hv) vs hr
    | _ => simp [vreject] at h
  | .tuple ps, t, r, hw, h => by
    simp only [denote] at h
    rw [wfV_unsub hw] at h
    cases t with
    | tuple items =>
      simp only at h
      split at h
      · simp [vreject] at h
      · rename_i hlen
        simp only [finish] at h
        cases hr : (denZip ct ps items).1 with
        | error e => rw [hr] at h; simp only at h; exact absurd h (by
            have := denZip_error ct ps items e hr; cases e <;> simp_all [isPass])
        | ok vs =>
          rw [hr] at h; simp only at h
          injection h with h
          subst h
          have hwl : wfL items = true := by simpa [wfV] using hw
          have hl : ps.length = items.length := by
            have : (items.length != ps.length) = false := by simpa using hlen
            simp at this; exact this.symm
          simp only [plusDefaults, Bool.and_eq_true, beq_iff_eq]
          exact ⟨(denZip_length ct ps items vs hl hr).symm, plusZip_den ct ps items vs hwl hr⟩
    | _ => simp [vreject] at h
  | .dict es, t, r, hw, h => by
    simp only [denote] at h
    rw [wfV_unsub hw] at h
    cases t with
    | dict items =>
      simp only at h
      simp only [wfV, Bool.and_eq_true] at hw
      cases hr : (dictRef (denKey ct es 0) items [] []).1 with
      | error e =>
        rw [hr] at h; simp only at h
        have := dictRef_error ct es items [] [] e hr
        cases e <;> simp_all [isPass]
      | ok pr =>
        obtain ⟨res0, seen⟩ := pr
        rw [hr] at h; simp only at h
        cases hd : defaultsRef (.dict items) (dictDefaults es) res0 with
        | error e =>
          rw [hd] at h; simp only at h
          have := defaultsRef_error _ _ _ e hd
          cases e <;> simp_all [isPass]
        | ok res' =>
          rw [hd] at h; simp only at h
          split at h
          · injection h with h
            subst h
            simp only [plusDefaults]
            cases hpk : pureKeys es with
            | false => rfl
            | true =>
              simp only [Bool.not_true, Bool.false_or, Bool.and_eq_true]
              obtain ⟨ext, he, hl, hall⟩ := dictRef_rel (denKey ct es 0) (plusVal ct es) items [] []
                (fun kv hkv i k' v' hh => plusKey_den ct es es 0 kv.1 kv.2 i k' v' hpk
                  (wfD_mem hw.1 kv hkv).1 (wfD_mem hw.1 kv hkv).2 hh) hw.2 res0 seen hr
              simp only [List.nil_append] at he
              subst he
              have hpre := defaultsRef_prefix _ _ _ _ hd
              rw [hl] at hpre
              rw [hpre, hd]
              exact ⟨hall, valEq_refl _⟩
          · simp at h
    | _ => simp [vreject] at h
  | .t e, t, r, hw, h => plus_leaf ct (.t e) t r rfl hw h
  | .val v, t, r, hw, h => plus_leaf ct (.val v) t r rfl hw h
  | .mtype, t, r, hw, h => plus_leaf ct .mtype t r rfl hw h
  | .msub e, t, r, hw, h => plus_leaf ct (.msub e) t r rfl hw h
  | .mexpr l op rr, t, r, hw, h => plus_leaf ct (.mexpr l op rr) t r rfl hw h
  | .and cs d, t, r, hw, h => plus_leaf ct (.and cs d) t r rfl hw h
  | .or cs d, t, r, hw, h => plus_leaf ct (.or cs d) t r rfl hw h
  | .not c, t, r, hw, h => plus_leaf ct (.not c) t r rfl hw h
  | .switch cases d, t, r, hw, h => plus_leaf ct (.switch cases d) t r rfl hw h
  | .check a, t, r, hw, h => plus_leaf ct (.check a) t r rfl hw h
  | .regex items f, t, r, hw, h => plus_leaf ct (.regex items f) t r rfl hw h
  | .matchS s d, t, r, hw, h => plus_leaf ct (.matchS s d) t r rfl hw h
  | .ty n, t, r, hw, h => plus_leaf ct (.ty n) t r rfl hw h
  | .lit v, t, r, hw, h => plus_leaf ct (.lit v) t r rfl hw h
  | .pred i fn, t, r, hw, h => plus_leaf ct (.pred i fn) t r rfl hw h
  | .set alts, t, r, hw, h => plus_leaf ct (.set alts) t r rfl hw h
  | .fset alts, t, r, hw, h => plus_leaf ct (.fset alts) t r rfl hw h

theorem plusAlt_den (ct : ClassTable) : ∀ (alts : List Spec) (x v : V), wfV x = true →
    (denAlt ct alts x).1 = .pass v → plusAny ct alts x v = true
  | [], x, v, _, h => by simp [denAlt, vreject] at h
  | [c], x, v, hw, h => by
    simp only [denAlt] at h
    simp [plusAny, plus_den ct c x v hw h]
  | c :: c' :: cs, x, v, hw, h => by
    rw [denAlt] at h
    cases hv : (denote ct c x).1 with
    | pass w =>
      rw [hv] at h; simp only at h; rw [hv] at h; injection h with h; subst h
      simp [plusAny, plus_den ct c x w hw hv]
    | reject o =>
      rw [hv] at h; simp only at h
      have := plusAlt_den ct (c' :: cs) x v hw h
      rw [plusAny, this]; simp
    | fault y => rw [hv] at h; simp only at h; rw [hv] at h; cases h

theorem plusZip_den (ct : ClassTable) : ∀ (ps : List Spec) (xs vs : List V), wfL xs = true →
    (denZip ct ps xs).1 = .ok vs → plusZip ct ps xs vs = true
  | [], xs, vs, _, _ => by simp [plusZip]
  | _ :: _, [], vs, _, _ => by simp [plusZip]
  | p :: ps, x :: xs, vs, hw, h => by
    simp only [wfL, Bool.and_eq_true] at hw
    simp only [denZip] at h
    cases hv : (denote ct p x).1 with
    | pass w =>
      rw [hv] at h; simp only at h
      cases hr : (denZip ct ps xs).1 with
      | error e => rw [hr] at h; simp [Except.map] at h
      | ok ws =>
        rw [hr] at h; simp only [Except.map] at h
        injection h with h
        subst h
        simp [plusZip, plus_den ct p x w hw.1 hv, plusZip_den ct ps xs ws hw.2 hr]
    | reject o => rw [hv] at h; simp at h
    | fault y => rw [hv] at h; simp at h

/-- `es0`: the whole dict pattern (for `plusVal`), `es`: the spec keys not tried yet -/
theorem plusKey_den (ct : ClassTable) (es0 : List (KeyKind × Spec × Spec)) :
    ∀ (es : List (KeyKind × Spec × Spec)) (i : Nat) (key val : V)
    (j : Nat) (k' v' : V), pureKeys es = true → wfV key = true → wfV val = true →
    (denKey ct es i key val).1 = .hit j k' v' → k' = key ∧ plusVal ct es val v' = true
  | [], i, key, val, j, k', v', _, _, _, h => by simp [denKey] at h
  | (kind, ks, vs) :: es, i, key, val, j, k', v', hp, hwk, hwv, h => by
    simp only [pureKeys, Bool.and_eq_true] at hp
    simp only [denKey] at h
    have fin : ∀ (kr : D), (∀ w, kr.1 = .pass w → w = key) →
        (match kr.1 with
         | .pass k'' =>
           (match (denote ct vs val).1 with
            | .pass v'' => (KeyHit.hit i k'' v'', kr.2 ++ (denote ct vs val).2)
            | other => (.stop other, kr.2 ++ (denote ct vs val).2))
         | .reject _ => ((denKey ct es (i + 1) key val).1, kr.2 ++ (denKey ct es (i + 1) key val).2)
         | .fault c => (.stop (.fault c), kr.2)).1 = .hit j k' v' →
        k' = key ∧ plusVal ct ((kind, ks, vs) :: es) val v' = true := by
      intro kr hkr hh
      cases hk : kr.1 with
      | pass w =>
        rw [hk] at hh; simp only at hh
        have hwk' := hkr w hk
        cases hvv : (denote ct vs val).1 with
        | pass w' =>
          rw [hvv] at hh; simp only at hh
          injection hh with h1 h2 h3
          refine ⟨by rw [← h2]; exact hwk', ?_⟩
          rw [← h3]
          simp [plusVal, plus_den ct vs val w' hwv hvv]
        | reject o => rw [hvv] at hh; simp at hh
        | fault c => rw [hvv] at hh; simp at hh
      | reject o =>
        rw [hk] at hh; simp only at hh
        obtain ⟨h1, h2⟩ := plusKey_den ct es0 es (i + 1) key val j k' v' hp.2 hwk hwv hh
        exact ⟨h1, by rw [plusVal, h2]; simp⟩
      | fault c => rw [hk] at hh; simp at hh
    cases ho : optKey kind ks with
    | some k =>
      rw [ho] at h; simp only at h
      refine fin (vcond (pyEq key k) key) ?_ h
      intro w hw
      simp only [vcond] at hw
      split at hw <;> simp [vpass, vreject] at hw
      exact hw.symm
    | none =>
      rw [ho] at h; simp only at h
      exact fin (denote ct ks key) (fun w hw => pure_den ct ks key w hp.1 hwk hw) h
end

/-! ### what a fault can be: the classes of the exceptions the sequential reading lets escape -/

theorem withDefault_faultOK (d : Option Arg) (t : V) (x : D) (h : faultOK x.1 = true) :
    faultOK (withDefault d t x).1 = true := by
  obtain ⟨v, l⟩ := x
  cases v with
  | pass r => cases d <;> simp [withDefault, faultOK]
  | reject o =>
    cases d with
    | none => simp [withDefault, faultOK]
    | some a =>
      simp only [withDefault]
      have := (ofArg_pass a t).2
      cases ho : ofArg a t <;> simp_all [faultOK, isFault]
  | fault c => cases d <;> simpa [withDefault] using h

theorem allItems_faultOK (f : V → D) (items : List V) (hf : ∀ x ∈ items, faultOK (f x).1 = true) :
    ∀ e, (allItems f items).1 = .error e → faultOK e = true := by
  induction items with
  | nil => intro e h; simp [allItems] at h
  | cons x xs ih =>
    intro e h
    have hx := hf x (by simp)
    unfold allItems at h
    cases hfx : (f x).1 with
    | pass v =>
      simp only [hfx] at h
      cases hr : (allItems f xs).1 with
      | ok vs => rw [hr] at h; simp [Except.map] at h
      | error e' =>
        rw [hr] at h; simp only [Except.map] at h; injection h with h; subst h
        exact ih (fun y hy => hf y (by simp [hy])) _ hr
    | reject o => simp only [hfx] at h; injection h with h; subst h; rfl
    | fault c => simp only [hfx] at h; injection h with h; subst h; rw [hfx] at hx; exact hx

theorem finish_faultOK (mk : List V → Verdict) (r : (Except Verdict (List V)) × Log)
    (hmk : ∀ vs, faultOK (mk vs) = true) (hr : ∀ e, r.1 = .error e → faultOK e = true) :
    faultOK (finish mk r).1 = true := by
  obtain ⟨rv, l⟩ := r
  unfold finish
  cases rv with
  | ok vs => exact hmk vs
  | error v => exact hr v rfl

theorem mkSetRef_faultOK (frozen : Bool) (vs : List V) : faultOK (mkSetRef frozen vs) = true := by
  unfold mkSetRef; split <;> simp [faultOK]

theorem defaultsRef_faultOK (target : V) (ds : List (V × Arg)) (result : List (V × V)) (e : Verdict)
    (h : defaultsRef target ds result = .error e) : faultOK e = true := by
  have := defaultsRef_noFault target ds result e h
  cases e <;> simp_all [faultOK, isFault]

theorem dictRef_faultOK (find : V → V → KeyHit × Log) (items result : List (V × V)) (seen : List Nat)
    (hf : ∀ kv ∈ items, ∀ x, (find kv.1 kv.2).1 = .stop x → faultOK x = true) :
    ∀ e, (dictRef find items result seen).1 = .error e → faultOK e = true := by
  induction items generalizing result seen with
  | nil => intro e h; simp [dictRef] at h
  | cons kv rest ih =>
    obtain ⟨k, v⟩ := kv
    intro e h
    unfold dictRef at h
    cases hfk : (find k v).1 with
    | hit i k' v' =>
      simp only [hfk] at h
      exact ih _ _ (fun kv hkv => hf kv (by simp [hkv])) e h
    | noKey => simp only [hfk] at h; injection h with h; subst h; rfl
    | stop x =>
      simp only [hfk] at h; injection h with h; subst h
      exact hf (k, v) (by simp) x hfk

theorem checkRef_faultOK (ct : ClassTable) (a : CheckArgs) (t : V) : faultOK (checkRef ct a t).1 = true := by
  cases ho : checkObjRef a with
  | ok o =>
    have := checkRef_noFault ct a t o ho
    cases h : (checkRef ct a t).1 <;> simp_all [faultOK, isFault]
  | error e =>
    unfold checkRef
    rw [ho]
    simp only [faultOK]
    unfold checkObjRef at ho
    split at ho
    · rename_i er her
      injection ho with ho; subst ho
      have hm := List.mem_of_find?_eq_some her
      simp only [checkArgErrors, List.mem_cons, List.not_mem_nil, or_false] at hm
      rcases hm with rfl | rfl | rfl | rfl <;> simp
    · cases ho

theorem cmp_faultOK (op : CmpOp) (lv rv t : V) :
    faultOK ((match pyCmp op lv rv with
      | some b => vcond b t
      | none => ((.fault "TypeError", []) : D))).1 = true := by
  cases pyCmp op lv rv with
  | none => simp [faultOK]
  | some b => cases b <;> simp [vcond, vpass, vreject, faultOK]

mutual
theorem den_faultOK (ct : ClassTable) : ∀ (p : Spec) (t : V), faultOK (denote ct p t).1 = true
  | .t e, t => by simp only [denote, vaccess]; cases tGet e t <;> rfl
  | .val v, t => rfl
  | .mtype, t => by simp only [denote, vcond]; cases truthy t <;> rfl
  | .msub e, t => by
    simp only [denote, vaccess]
    cases tGet e t with
    | none => rfl
    | some m => simp only [vcond]; cases truthy m <;> rfl
  | .mexpr l op r, t => by
    simp only [denote]
    cases l with
    | m =>
      simp only [msideRef]
      cases r with
      | m => exact cmp_faultOK op t t t
      | const v => exact cmp_faultOK op t v t
      | sub e =>
        simp only [sideRef, vaccess]
        cases tGet e t with
        | none => rfl
        | some rv => exact cmp_faultOK op t rv t
    | sub e' =>
      simp only [msideRef, vaccess]
      cases tGet e' t with
      | none => rfl
      | some lv =>
        simp only
        cases r with
        | m => exact cmp_faultOK op lv t t
        | const v => exact cmp_faultOK op lv v t
        | sub e =>
          simp only [sideRef, vaccess]
          cases tGet e t with
          | none => rfl
          | some rv => exact cmp_faultOK op lv rv t
  | .and cs d, t => by simp only [denote]; exact withDefault_faultOK d t _ (denAll_faultOK ct cs t t)
  | .or cs d, t => by simp only [denote]; exact withDefault_faultOK d t _ (denAny_faultOK ct cs t)
  | .not c, t => by
    simp only [denote]
    have ih := den_faultOK ct c t
    cases hv : (denote ct c t).1 with
    | pass v => rfl
    | reject o => rfl
    | fault x => rw [hv] at ih; exact ih
  | .switch cases d, t => by simp only [denote]; exact denCases_faultOK ct cases d t
  | .check a, t => by simp only [denote]; exact checkRef_faultOK ct a t
  | .regex items f, t => by
    simp only [denote]
    cases t with
    | str s => simp only [vcond]; cases reMatches items f s <;> rfl
    | _ => rfl
  | .matchS s d, t => by simp only [denote]; exact withDefault_faultOK d t _ (den_faultOK ct s t)
  | .ty n, t => by simp only [denote]; cases isInst ct t n <;> rfl
  | .lit v, t => by simp only [denote, vcond]; cases pyEq t v <;> rfl
  | .pred id fn, t => by
    simp only [denote]
    cases predApply fn t with
    | ret v => simp only; cases truthy v <;> rfl
    | raise c => rfl
  | .list alts, t => by
    simp only [denote]
    cases t.unsub with
    | list items =>
      exact finish_faultOK _ _ (fun vs => rfl)
        (allItems_faultOK _ _ (fun x _ => denAlt_faultOK ct alts x))
    | _ => rfl
  | .set alts, t => by
    simp only [denote]
    cases t.unsub with
    | set items =>
      exact finish_faultOK _ _ (mkSetRef_faultOK false)
        (allItems_faultOK _ _ (fun x _ => denAlt_faultOK ct alts x))
    | _ => rfl
  | .fset alts, t => by
    simp only [denote]
    cases t.unsub with
    | fset items =>
      exact finish_faultOK _ _ (mkSetRef_faultOK true)
        (allItems_faultOK _ _ (fun x _ => denAlt_faultOK ct alts x))
    | _ => rfl
  | .tuple ps, t => by
    simp only [denote]
    cases t.unsub with
    | tuple items =>
      simp only
      split
      · rfl
      · exact finish_faultOK _ _ (fun vs => rfl) (denZip_faultOK ct ps items)
    | _ => rfl
  | .dict es, t => by
    simp only [denote]
    cases t.unsub with
    | dict items =>
      simp only
      have hnf := dictRef_faultOK (denKey ct es 0) items [] []
        (fun kv _ x hx => denKey_faultOK ct es 0 kv.1 kv.2 x hx)
      cases hr : (dictRef (denKey ct es 0) items [] []).1 with
      | error v => simp only; exact hnf v hr
      | ok p =>
        obtain ⟨result, seen⟩ := p
        simp only
        cases hdr : defaultsRef t (dictDefaults es) result with
        | error v => simp only; exact defaultsRef_faultOK _ _ _ v hdr
        | ok r' => simp only; split <;> rfl
    | _ => rfl

theorem denAll_faultOK (ct : ClassTable) : ∀ (cs : List Spec) (t r : V), faultOK (denAll ct cs t r).1 = true
  | [], t, r => rfl
  | c :: cs, t, r => by
    have ih := den_faultOK ct c t
    simp only [denAll]
    cases hv : (denote ct c t).1 with
    | pass v => simp only; exact denAll_faultOK ct cs t v
    | reject o => simp only; rw [hv]; rfl
    | fault x => simp only; exact ih

theorem denAny_faultOK (ct : ClassTable) : ∀ (cs : List Spec) (t : V), faultOK (denAny ct cs t).1 = true
  | [], t => rfl
  | [c], t => by simp only [denAny]; exact den_faultOK ct c t
  | c :: c' :: cs, t => by
    have ih := den_faultOK ct c t
    rw [denAny]
    cases hv : (denote ct c t).1 with
    | pass v => simp only; rw [hv]; rfl
    | reject o => simp only; exact denAny_faultOK ct (c' :: cs) t
    | fault x => simp only; exact ih

theorem denAlt_faultOK (ct : ClassTable) : ∀ (alts : List Spec) (x : V), faultOK (denAlt ct alts x).1 = true
  | [], x => rfl
  | [c], x => by simp only [denAlt]; exact den_faultOK ct c x
  | c :: c' :: cs, x => by
    have ih := den_faultOK ct c x
    rw [denAlt]
    cases hv : (denote ct c x).1 with
    | pass v => simp only; rw [hv]; rfl
    | reject o => simp only; exact denAlt_faultOK ct (c' :: cs) x
    | fault y => simp only; exact ih

theorem denCases_faultOK (ct : ClassTable) : ∀ (cases : List (Spec × Spec)) (d : Option Arg) (t : V),
    faultOK (denCases ct cases d t).1 = true
  | [], d, t => by simp only [denCases]; exact withDefault_faultOK d t _ rfl
  | (k, v) :: rest, d, t => by
    have ih := den_faultOK ct k t
    simp only [denCases]
    cases hv : (denote ct k t).1 with
    | pass r => simp only; exact den_faultOK ct v t
    | reject o => simp only; exact denCases_faultOK ct rest d t
    | fault x => rw [hv] at ih; exact ih

theorem denZip_faultOK (ct : ClassTable) : ∀ (ps : List Spec) (xs : List V) (e : Verdict),
    (denZip ct ps xs).1 = .error e → faultOK e = true
  | [], xs, e, h => by simp [denZip] at h
  | _ :: _, [], e, h => by simp [denZip] at h
  | p :: ps, x :: xs, e, h => by
    have ih := den_faultOK ct p x
    simp only [denZip] at h
    cases hv : (denote ct p x).1 with
    | pass v =>
      rw [hv] at h; simp only at h
      cases hr : (denZip ct ps xs).1 with
      | ok vs => rw [hr] at h; simp [Except.map] at h
      | error e' =>
        rw [hr] at h; simp only [Except.map] at h; injection h with h; subst h
        exact denZip_faultOK ct ps xs _ hr
    | reject o => rw [hv] at h; simp only at h; injection h with h; subst h; rfl
    | fault y => rw [hv] at h ih; simp only at h; injection h with h; subst h; exact ih

theorem denKey_faultOK (ct : ClassTable) : ∀ (es : List (KeyKind × Spec × Spec)) (i : Nat) (key val : V)
    (x : Verdict), (denKey ct es i key val).1 = .stop x → faultOK x = true
  | [], i, key, val, x, h => by simp [denKey] at h
  | (kind, ks, vs) :: es, i, key, val, x, h => by
    have ihv := den_faultOK ct vs val
    have core : ∀ kr : D, faultOK kr.1 = true →
        ((match kr.1 with
           | .pass k' =>
             (match (denote ct vs val).1 with
              | .pass v' => (KeyHit.hit i k' v', kr.2 ++ (denote ct vs val).2)
              | other => (.stop other, kr.2 ++ (denote ct vs val).2))
           | .reject _ => ((denKey ct es (i + 1) key val).1, kr.2 ++ (denKey ct es (i + 1) key val).2)
           | .fault c => (.stop (.fault c), kr.2)) : KeyHit × Log).1 = .stop x → faultOK x = true := by
      intro kr hkr hh
      cases hkv : kr.1 with
      | pass k' =>
        rw [hkv] at hh; simp only at hh
        cases hvv : (denote ct vs val).1 with
        | pass v' => rw [hvv] at hh; simp at hh
        | reject o => rw [hvv] at hh; simp only at hh; injection hh with hh; subst hh; rfl
        | fault c => rw [hvv] at hh ihv; simp only at hh; injection hh with hh; subst hh; exact ihv
      | reject o => rw [hkv] at hh; simp only at hh; exact denKey_faultOK ct es (i + 1) key val x hh
      | fault c => rw [hkv] at hh hkr; simp only at hh; injection hh with hh; subst hh; exact hkr
    simp only [denKey] at h
    cases ho : optKey kind ks with
    | some k =>
      rw [ho] at h; simp only at h
      exact core (vcond (pyEq key k) key) (by cases pyEq key k <;> rfl) h
    | none =>
      rw [ho] at h; simp only at h
      exact core (denote ct ks key) (den_faultOK ct ks key) h
end

end Glom.C09
