import Glom.Lemmas.C10
import Glom.Spec.C09
/-
  Helper lemmas for C09:

   * `conf_den`  — the three-valued, sequential denotation passes exactly when the
     two-valued, declarative `conforms` says so, whenever it does not fault (mutual
     structural induction over pattern trees; short-circuiting makes the children that
     are never evaluated irrelevant to both readings);
   * `pure_den`  — a pattern without defaults / Val / Switch / Check returns a
     well-formed target structurally unchanged.
-/
set_option linter.unusedSimpArgs false
set_option linter.unusedSectionVars false

namespace Glom.C09
open Glom Glom.MV Glom.C10

def isPass : Verdict → Bool
  | .pass _ => true
  | _ => false

def isFault : Verdict → Bool
  | .fault _ => true
  | _ => false

theorem ofArg_pass (a : Arg) (t : V) : isPass (ofArg a t) = argOK a t ∧ isFault (ofArg a t) = false := by
  cases a with
  | const v => simp [ofArg, argOK, isPass, isFault]
  | t e => simp only [ofArg, argOK]; cases tGet e t <;> simp [isPass, isFault]

/-- `default=`: a rejection becomes the default -/
theorem withDefault_conf (d : Option Arg) (t : V) (x : D) (b : Bool)
    (hnf : isFault (withDefault d t x).1 = false)
    (h : isFault x.1 = false → isPass x.1 = b) :
    isPass (withDefault d t x).1 = (b || dfltOK d t) := by
  obtain ⟨v, l⟩ := x
  cases v with
  | pass r =>
    have := h rfl
    cases d <;> simp_all [withDefault, isPass, dfltOK]
  | reject o =>
    have hb : b = false := (h rfl).symm
    subst hb
    cases d with
    | none => simp [withDefault, isPass, dfltOK]
    | some a => simp only [withDefault, dfltOK, Bool.false_or]; exact (ofArg_pass a t).1
  | fault c => cases d <;> simp [withDefault, isFault] at hnf

theorem withDefault_fault (d : Option Arg) (t : V) (x : D) (h : isFault (withDefault d t x).1 = false) :
    isFault x.1 = false := by
  obtain ⟨v, l⟩ := x
  cases v with
  | fault c => cases d <;> simp [withDefault, isFault] at h
  | _ => rfl

/-! ### loops over the target, two-valued -/

def itemsOk (r : (Except Verdict (List V)) × Log) : Bool :=
  match r.1 with
  | .ok _ => true
  | .error _ => false

def itemsFault (r : (Except Verdict (List V)) × Log) : Bool :=
  match r.1 with
  | .error (.fault _) => true
  | _ => false

theorem allItems_conf (f : V → D) (g : V → Bool)
    (hf : ∀ x, isFault (f x).1 = false → isPass (f x).1 = g x) (items : List V)
    (hnf : itemsFault (allItems f items) = false) :
    itemsOk (allItems f items) = items.all g := by
  induction items with
  | nil => rfl
  | cons x xs ih =>
    have hx := hf x
    unfold allItems at hnf ⊢
    cases hfx : (f x).1 with
    | pass v =>
      rw [hfx] at hx
      have hg : g x = true := (hx rfl).symm
      simp only [hfx] at hnf ⊢
      have hnf' : itemsFault (allItems f xs) = false := by
        revert hnf
        unfold itemsFault
        cases (allItems f xs).1 <;> simp [Except.map]
      have := ih hnf'
      simp only [List.all_cons, hg, Bool.true_and, ← this]
      unfold itemsOk
      cases (allItems f xs).1 <;> simp [Except.map]
    | reject o =>
      rw [hfx] at hx
      have hg : g x = false := (hx rfl).symm
      simp [hfx, itemsOk, hg]
    | fault c => simp [hfx, itemsFault] at hnf

theorem finish_conf (mk : List V → Verdict) (r : (Except Verdict (List V)) × Log)
    (hmk : ∀ vs, isPass (mk vs) = true ∨ isFault (mk vs) = true)
    (hne : ∀ v, r.1 = .error v → isPass v = false)
    (hnf : isFault (finish mk r).1 = false) :
    isPass (finish mk r).1 = itemsOk r ∧ itemsFault r = false := by
  obtain ⟨rv, l⟩ := r
  unfold finish at hnf ⊢
  cases rv with
  | ok vs =>
    simp only at hnf ⊢
    rcases hmk vs with h | h
    · exact ⟨by simp [itemsOk, h], rfl⟩
    · rw [h] at hnf; cases hnf
  | error v =>
    have := hne v rfl
    simp only at hnf ⊢
    cases v <;> simp_all [isPass, isFault, itemsOk, itemsFault]

theorem allItems_error (f : V → D) (items : List V) (v : Verdict)
    (h : (allItems f items).1 = .error v) : isPass v = false := by
  induction items with
  | nil => simp [allItems] at h
  | cons x xs ih =>
    unfold allItems at h
    cases hfx : (f x).1 with
    | pass r =>
      simp only [hfx] at h
      cases hr : (allItems f xs).1 with
      | ok vs => rw [hr] at h; simp [Except.map] at h
      | error e => rw [hr] at h; simp only [Except.map] at h; injection h with h; subst h; exact ih hr
    | reject o => simp only [hfx] at h; injection h with h; subst h; rfl
    | fault c => simp only [hfx] at h; injection h with h; subst h; rfl

theorem denZip_error (ct : ClassTable) (ps : List Spec) (xs : List V) (v : Verdict)
    (h : (denZip ct ps xs).1 = .error v) : isPass v = false := by
  induction ps generalizing xs with
  | nil => simp [denZip] at h
  | cons p ps ih =>
    cases xs with
    | nil => simp [denZip] at h
    | cons x xs =>
      rw [denZip] at h
      cases hfx : (denote ct p x).1 with
      | pass r =>
        simp only [hfx] at h
        cases hr : (denZip ct ps xs).1 with
        | ok vs => rw [hr] at h; simp [Except.map] at h
        | error e => rw [hr] at h; simp only [Except.map] at h; injection h with h; subst h; exact ih xs hr
      | reject o => simp only [hfx] at h; injection h with h; subst h; rfl
      | fault c => simp only [hfx] at h; injection h with h; subst h; rfl

/-! ### the mutual induction: sequential three-valued = declarative two-valued -/

def hitIdx : KeyHit → Option Nat
  | .hit i _ _ => some i
  | _ => none

def keyFault : KeyHit → Bool
  | .stop (.fault _) => true
  | _ => false

def keyIsHit : KeyHit → Bool
  | .hit .. => true
  | _ => false

theorem constDefaults_fill (target : V) (ds : List (V × Arg)) (hc : ∀ p ∈ ds, ∃ v, p.2 = Arg.const v)
    (result : List (V × V)) : ∃ r, defaultsRef target ds result = .ok r := by
  induction ds generalizing result with
  | nil => exact ⟨result, rfl⟩
  | cons kd ds ih =>
    obtain ⟨k, d⟩ := kd
    obtain ⟨v, hv⟩ := hc (k, d) (by simp)
    simp only at hv; subst hv
    unfold defaultsRef
    split
    · exact ih (fun p hp => hc p (by simp [hp])) result
    · simp only [ofArg]
      exact ih (fun p hp => hc p (by simp [hp])) _

theorem dictDefaults_const (es : List (KeyKind × Spec × Spec)) (h : constDefaultsD es = true) :
    ∀ p ∈ dictDefaults es, ∃ v, p.2 = Arg.const v := by
  induction es with
  | nil => simp [dictDefaults]
  | cons e es ih =>
    obtain ⟨kind, k, v⟩ := e
    simp only [constDefaultsD, Bool.and_eq_true] at h
    obtain ⟨⟨⟨h1, _⟩, _⟩, h4⟩ := h
    cases kind with
    | plain => simpa [dictDefaults] using ih h4
    | req => simpa [dictDefaults] using ih h4
    | opt d =>
      cases d with
      | none => cases k <;> simpa [dictDefaults] using ih h4
      | some a =>
        cases a with
        | t e => simp at h1
        | const c =>
          cases k <;> try (simpa [dictDefaults] using ih h4)
          intro p hp
          simp only [dictDefaults, List.mem_cons] at hp
          rcases hp with rfl | hp
          · exact ⟨c, rfl⟩
          · exact ih h4 p hp

/-- relation between the sequential key search and the declarative claim -/
def KeyConf (ct : ClassTable) (es : List (KeyKind × Spec × Spec)) (i : Nat) (key val : V) (h : KeyHit) : Prop :=
  match h with
  | .hit j _ _ => claimIdx ct es i key = some j ∧ confEntry ct es key val = true
  | .noKey => claimIdx ct es i key = none ∧ confEntry ct es key val = false
  | .stop (.fault _) => True
  | .stop _ => confEntry ct es key val = false

theorem dictRef_conf (ct : ClassTable) (es : List (KeyKind × Spec × Spec)) (find : V → V → KeyHit × Log)
    (hf : ∀ k v, KeyConf ct es 0 k v (find k v).1)
    (items result : List (V × V)) (seen : List Nat)
    (hnf : (match (dictRef find items result seen).1 with
            | .error (.fault _) => false
            | _ => true) = true) :
    match (dictRef find items result seen).1 with
    | .ok (_, seen') =>
      items.all (fun kv => confEntry ct es kv.1 kv.2) = true ∧
      ∀ j, seen'.contains j = (seen.contains j || items.any (fun kv => claimIdx ct es 0 kv.1 == some j))
    | .error _ => items.all (fun kv => confEntry ct es kv.1 kv.2) = false := by
  induction items generalizing result seen with
  | nil => simp [dictRef]
  | cons kv rest ih =>
    obtain ⟨k, v⟩ := kv
    have hk := hf k v
    unfold dictRef at hnf ⊢
    cases hfk : (find k v).1 with
    | hit i k' v' =>
      rw [hfk] at hk
      simp only [KeyConf] at hk
      simp only [hfk] at hnf ⊢
      have := ih (dictSet result k' v') (i :: seen) hnf
      cases hr : (dictRef find rest (dictSet result k' v') (i :: seen)).1 with
      | error e =>
        rw [hr] at this
        simp only at this ⊢
        simp [this]
      | ok p =>
        obtain ⟨res, seen'⟩ := p
        rw [hr] at this
        simp only at this ⊢
        refine ⟨by simp [hk.2, this.1], ?_⟩
        intro j
        rw [this.2 j]
        simp only [List.contains_cons, List.any_cons, hk.1]
        by_cases hj : j = i
        · subst hj; simp
        · have : (j == i) = false := by simpa using hj
          have h2 : (some i == some j) = false := by simp; exact fun h => hj h.symm
          simp [this, h2]
    | noKey =>
      rw [hfk] at hk
      simp only [KeyConf] at hk
      simp [hfk, hk.2]
    | stop x =>
      rw [hfk] at hk
      simp only [hfk] at hnf ⊢
      cases x with
      | fault c => simp at hnf
      | pass r => simp only [KeyConf] at hk; simp [hk]
      | reject o => simp only [KeyConf] at hk; simp [hk]

mutual
theorem conf_den (ct : ClassTable) : ∀ (p : Spec) (t : V), ctorErr p = none → constDefaults p = true →
    isFault (denote ct p t).1 = false → isPass (denote ct p t).1 = conforms ct p t
  | .t e, t, _, _, _ => by
    simp only [denote, conforms, vaccess]
    cases tGet e t <;> simp [vpass, vreject, isPass]
  | .val v, t, _, _, _ => by simp [denote, conforms, vpass, isPass]
  | .mtype, t, _, _, _ => by
    simp only [denote, conforms, vcond]
    cases truthy t <;> simp [vpass, vreject, isPass]
  | .msub e, t, _, _, _ => by
    simp only [denote, conforms, vaccess]
    cases tGet e t with
    | none => simp [vreject, isPass]
    | some m => simp only [vcond]; cases truthy m <;> simp [vpass, vreject, isPass]
  | .mexpr l op r, t, _, _, hnf => by
    simp only [denote, conforms] at hnf ⊢
    have core : ∀ lv rv, isFault (match pyCmp op lv rv with
          | some b => vcond b t
          | none => ((.fault "TypeError", []) : D)).1 = false →
        isPass (match pyCmp op lv rv with
          | some b => vcond b t
          | none => ((.fault "TypeError", []) : D)).1 = (pyCmp op lv rv == some true) := by
      intro lv rv h
      cases hp : pyCmp op lv rv with
      | none => rw [hp] at h; simp [isFault] at h
      | some b => cases b <;> simp [vcond, vpass, vreject, isPass]
    cases l with
    | m =>
      simp only [msideRef] at hnf ⊢
      cases r with
      | m => simp only [sideRef] at hnf ⊢; exact core t t hnf
      | const v => simp only [sideRef] at hnf ⊢; exact core t v hnf
      | sub e =>
        simp only [sideRef, vaccess] at hnf ⊢
        revert hnf
        cases tGet e t with
        | none => intro _; simp [vreject, isPass]
        | some rv => intro hnf; exact core t rv hnf
    | sub e' =>
      simp only [msideRef, vaccess] at hnf ⊢
      revert hnf
      cases tGet e' t with
      | none => intro _; cases r <;> simp [vreject, isPass]
      | some lv =>
        intro hnf
        simp only at hnf ⊢
        cases r with
        | m => simp only [sideRef] at hnf ⊢; exact core lv t hnf
        | const v => simp only [sideRef] at hnf ⊢; exact core lv v hnf
        | sub e =>
          simp only [sideRef, vaccess] at hnf ⊢
          revert hnf
          cases tGet e t with
          | none => intro _; simp [vreject, isPass]
          | some rv => intro hnf; exact core lv rv hnf
  | .and cs d, t, hc, hd, hnf => by
    simp only [denote, conforms] at hnf ⊢
    exact withDefault_conf d t _ _ hnf
      (confAll_den ct cs t t (ctorErr_and hc).1 (by simpa [constDefaults] using hd))
  | .or cs d, t, hc, hd, hnf => by
    simp only [denote, conforms] at hnf ⊢
    exact withDefault_conf d t _ _ hnf
      (confAny_den ct cs t (ctorErr_or hc).1 (by simpa [constDefaults] using hd))
  | .not c, t, hc, hd, hnf => by
    simp only [denote, conforms] at hnf ⊢
    have ih := conf_den ct c t (by simpa [ctorErr] using hc) (by simpa [constDefaults] using hd)
    cases hv : (denote ct c t).1 with
    | pass v => rw [hv] at ih; simp [isPass, ← ih rfl]
    | reject o => rw [hv] at ih; simp [isPass, ← ih rfl]
    | fault x => rw [hv] at hnf; simp [isFault] at hnf
  | .switch cases d, t, hc, hd, hnf => by
    simp only [denote, conforms] at hnf ⊢
    exact confCases_den ct cases d t (ctorErr_switch hc) (by simpa [constDefaults] using hd) hnf
  | .check a, t, _, _, _ => by
    simp only [denote, conforms]
    cases (checkRef ct a t).1 <;> rfl
  | .regex items f, t, _, _, _ => by
    simp only [denote, conforms]
    cases t with
    | str s => simp only [vcond]; cases reMatches items f s <;> simp [vpass, vreject, isPass]
    | _ => simp [vreject, isPass]
  | .matchS s d, t, hc, hd, hnf => by
    simp only [denote, conforms] at hnf ⊢
    exact withDefault_conf d t _ _ hnf
      (conf_den ct s t (by simpa [ctorErr] using hc) (by simpa [constDefaults] using hd))
  | .ty n, t, _, _, _ => by
    simp only [denote, conforms]
    cases isInst ct t n <;> simp [vpass, vreject, isPass]
  | .lit v, t, _, _, _ => by
    simp only [denote, conforms, vcond]
    cases pyEq t v <;> simp [vpass, vreject, isPass]
  | .pred id fn, t, _, _, _ => by
    simp only [denote, conforms]
    cases predApply fn t with
    | ret v => simp only; cases truthy v <;> simp [isPass]
    | raise c => simp [isPass]
  | .list alts, t, hc, hd, hnf => by
    simp only [denote, conforms] at hnf ⊢
    cases t with
    | list items =>
      simp only at hnf ⊢
      have hfin := finish_conf (fun vs => .pass (.list vs)) (allItems (denAlt ct alts) items)
        (fun vs => Or.inl rfl) (allItems_error _ _) hnf
      rw [hfin.1]
      exact allItems_conf _ _ (fun x => confAlt_den ct alts x (by simpa [ctorErr] using hc)
        (by simpa [constDefaults] using hd)) items hfin.2
    | _ => simp [vreject, isPass]
  | .set alts, t, hc, hd, hnf => by
    simp only [denote, conforms] at hnf ⊢
    cases t with
    | set items =>
      simp only at hnf ⊢
      have hfin := finish_conf (mkSetRef false) (allItems (denAlt ct alts) items)
        (fun vs => by unfold mkSetRef; split <;> simp [isPass, isFault]) (allItems_error _ _) hnf
      rw [hfin.1]
      exact allItems_conf _ _ (fun x => confAlt_den ct alts x
        (ctorErr_setlike (by simpa [ctorErr] using hc))
        (by simpa [constDefaults] using hd)) items hfin.2
    | _ => simp [vreject, isPass]
  | .fset alts, t, hc, hd, hnf => by
    simp only [denote, conforms] at hnf ⊢
    cases t with
    | fset items =>
      simp only at hnf ⊢
      have hfin := finish_conf (mkSetRef true) (allItems (denAlt ct alts) items)
        (fun vs => by unfold mkSetRef; split <;> simp [isPass, isFault]) (allItems_error _ _) hnf
      rw [hfin.1]
      exact allItems_conf _ _ (fun x => confAlt_den ct alts x
        (ctorErr_setlike (by simpa [ctorErr] using hc))
        (by simpa [constDefaults] using hd)) items hfin.2
    | _ => simp [vreject, isPass]
  | .tuple ps, t, hc, hd, hnf => by
    simp only [denote, conforms] at hnf ⊢
    cases t with
    | tuple items =>
      simp only at hnf ⊢
      by_cases hlen : (items.length != ps.length) = true
      · simp only [hlen, if_true] at hnf ⊢
        have : (items.length == ps.length) = false := by simpa using hlen
        simp [vreject, isPass, this]
      · simp only [hlen, Bool.false_eq_true, if_false] at hnf ⊢
        have hl : (items.length == ps.length) = true := by simpa using hlen
        have hfin := finish_conf (fun vs => .pass (.tuple vs)) (denZip ct ps items)
          (fun vs => Or.inl rfl) (denZip_error ct ps items) hnf
        rw [hfin.1, hl, Bool.true_and]
        exact confZip_den ct ps items (by simpa [ctorErr] using hc) (by simpa [constDefaults] using hd)
          hfin.2
    | _ => simp [vreject, isPass]
  | .dict es, t, hc, hd, hnf => by
    simp only [denote, conforms] at hnf ⊢
    cases t with
    | dict items =>
      simp only at hnf ⊢
      have hcd : ctorErrD es = none := by simpa [ctorErr] using hc
      have hdd : constDefaultsD es = true := by simpa [constDefaults] using hd
      have hkey := fun k v => confKey_den ct es 0 k v hcd hdd
      cases hr : (dictRef (denKey ct es 0) items [] []).1 with
      | error v =>
        rw [hr] at hnf ⊢
        simp only at hnf ⊢
        have := dictRef_conf ct es (denKey ct es 0) hkey items [] []
          (by rw [hr]; cases v <;> simp_all [isFault])
        rw [hr] at this
        simp only at this
        cases v <;> simp_all [isPass, isFault]
      | ok p =>
        obtain ⟨result, seen⟩ := p
        rw [hr] at hnf ⊢
        simp only at hnf ⊢
        have := dictRef_conf ct es (denKey ct es 0) hkey items [] [] (by rw [hr])
        rw [hr] at this
        simp only at this
        obtain ⟨r', hr'⟩ := constDefaults_fill (.dict items) (dictDefaults es)
          (dictDefaults_const es hdd) result
        rw [hr'] at hnf ⊢
        simp only at hnf ⊢
        have hseen : (requiredRef es 0).all (fun i => seen.contains i) =
            (requiredRef es 0).all (fun i => items.any (fun kv => claimIdx ct es 0 kv.1 == some i)) := by
          apply List.all_congr rfl
          intro i _
          rw [this.2 i]; simp
        rw [this.1, hseen, Bool.true_and]
        split <;> simp_all [isPass]
    | _ => simp [vreject, isPass]

theorem confAll_den (ct : ClassTable) : ∀ (cs : List Spec) (t r : V), ctorErrL cs = none →
    constDefaultsL cs = true →
    isFault (denAll ct cs t r).1 = false → isPass (denAll ct cs t r).1 = confAll ct cs t
  | [], t, r, _, _, _ => by simp [denAll, confAll, vpass, isPass]
  | c :: cs, t, r, hc, hd, hnf => by
    obtain ⟨hc1, hc2⟩ := ctorErrL_cons hc
    simp only [constDefaultsL, Bool.and_eq_true] at hd
    have ih := conf_den ct c t hc1 hd.1
    simp only [denAll, confAll] at hnf ⊢
    cases hv : (denote ct c t).1 with
    | pass v =>
      rw [hv] at ih hnf ⊢
      simp only at hnf ⊢
      rw [← ih rfl]
      simp only [isPass, Bool.true_and]
      exact confAll_den ct cs t v hc2 hd.2 hnf
    | reject o =>
      rw [hv] at ih hnf ⊢
      simp only at hnf ⊢
      rw [hv, ← ih rfl]; rfl
    | fault x => rw [hv] at hnf; simp only at hnf; rw [hv] at hnf; cases hnf

theorem confAny_den (ct : ClassTable) : ∀ (cs : List Spec) (t : V), ctorErrL cs = none →
    constDefaultsL cs = true →
    isFault (denAny ct cs t).1 = false → isPass (denAny ct cs t).1 = confAny ct cs t
  | [], t, _, _, _ => by simp [denAny, confAny, vreject, isPass]
  | [c], t, hc, hd, hnf => by
    simp only [constDefaultsL, Bool.and_eq_true] at hd
    simp only [denAny, confAny, Bool.or_false] at hnf ⊢
    exact conf_den ct c t (ctorErrL_cons hc).1 hd.1 hnf
  | c :: c' :: cs, t, hc, hd, hnf => by
    obtain ⟨hc1, hc2⟩ := ctorErrL_cons hc
    have hd' := hd
    simp only [constDefaultsL, Bool.and_eq_true] at hd
    have ih := conf_den ct c t hc1 hd.1
    rw [denAny] at hnf ⊢
    rw [confAny]
    cases hv : (denote ct c t).1 with
    | pass v =>
      rw [hv] at ih hnf ⊢
      simp only at hnf ⊢
      rw [hv, ← ih rfl]; rfl
    | reject o =>
      rw [hv] at ih hnf ⊢
      simp only at hnf ⊢
      rw [← ih rfl]
      simp only [isPass, Bool.false_or]
      exact confAny_den ct (c' :: cs) t hc2 (by simp [constDefaultsL, hd.2.1, hd.2.2]) hnf
    | fault x => rw [hv] at hnf; simp only at hnf; rw [hv] at hnf; cases hnf

theorem confCases_den (ct : ClassTable) : ∀ (cases : List (Spec × Spec)) (d : Option Arg) (t : V),
    ctorErrC cases = none → constDefaultsC cases = true →
    isFault (denCases ct cases d t).1 = false → isPass (denCases ct cases d t).1 = confCases ct cases d t
  | [], d, t, _, _, hnf => by
    simp only [denCases, confCases] at hnf ⊢
    have := withDefault_conf d t (vreject .comb) false hnf (fun _ => rfl)
    simpa using this
  | (k, v) :: rest, d, t, hc, hd, hnf => by
    obtain ⟨hc1, hc2, hc3⟩ := ctorErrC_cons hc
    simp only [constDefaultsC, Bool.and_eq_true] at hd
    have ih := conf_den ct k t hc1 hd.1.1
    simp only [denCases, confCases] at hnf ⊢
    cases hv : (denote ct k t).1 with
    | pass r =>
      rw [hv] at ih hnf ⊢
      simp only at hnf ⊢
      rw [← ih rfl]
      simp only [isPass, if_true]
      exact conf_den ct v t hc2 hd.1.2 hnf
    | reject o =>
      rw [hv] at ih hnf ⊢
      simp only at hnf ⊢
      rw [← ih rfl]
      simp only [isPass, Bool.false_eq_true, if_false]
      exact confCases_den ct rest d t hc3 hd.2 hnf
    | fault x => rw [hv] at hnf; simp [isFault] at hnf

/-- one item against the alternatives: the first that passes = some alternative conforms -/
theorem confAlt_den (ct : ClassTable) : ∀ (alts : List Spec) (x : V), ctorErrL alts = none →
    constDefaultsL alts = true →
    isFault (denAlt ct alts x).1 = false → isPass (denAlt ct alts x).1 = confAny ct alts x
  | [], x, _, _, _ => by simp [denAlt, confAny, vreject, isPass]
  | [c], x, hc, hd, hnf => by
    simp only [constDefaultsL, Bool.and_eq_true] at hd
    simp only [denAlt, confAny, Bool.or_false] at hnf ⊢
    exact conf_den ct c x (ctorErrL_cons hc).1 hd.1 hnf
  | c :: c' :: cs, x, hc, hd, hnf => by
    obtain ⟨hc1, hc2⟩ := ctorErrL_cons hc
    simp only [constDefaultsL, Bool.and_eq_true] at hd
    have ih := conf_den ct c x hc1 hd.1
    rw [denAlt] at hnf ⊢
    rw [confAny]
    cases hv : (denote ct c x).1 with
    | pass v =>
      rw [hv] at ih hnf ⊢
      simp only at hnf ⊢
      rw [hv, ← ih rfl]; rfl
    | reject o =>
      rw [hv] at ih hnf ⊢
      simp only at hnf ⊢
      rw [← ih rfl]
      simp only [isPass, Bool.false_or]
      exact confAlt_den ct (c' :: cs) x hc2 (by simp [constDefaultsL, hd.2.1, hd.2.2]) hnf
    | fault y => rw [hv] at hnf; simp only at hnf; rw [hv] at hnf; cases hnf

theorem confZip_den (ct : ClassTable) : ∀ (ps : List Spec) (xs : List V), ctorErrL ps = none →
    constDefaultsL ps = true →
    itemsFault (denZip ct ps xs) = false → itemsOk (denZip ct ps xs) = confZip ct ps xs
  | [], xs, _, _, _ => by simp [denZip, confZip, itemsOk]
  | _ :: _, [], _, _, _ => by simp [denZip, confZip, itemsOk]
  | p :: ps, x :: xs, hc, hd, hnf => by
    obtain ⟨hc1, hc2⟩ := ctorErrL_cons hc
    simp only [constDefaultsL, Bool.and_eq_true] at hd
    have ih := conf_den ct p x hc1 hd.1
    simp only [denZip, confZip] at hnf ⊢
    cases hv : (denote ct p x).1 with
    | pass v =>
      rw [hv] at ih hnf ⊢
      simp only at hnf ⊢
      rw [← ih rfl]
      simp only [isPass, Bool.true_and]
      have hnf' : itemsFault (denZip ct ps xs) = false := by
        revert hnf; unfold itemsFault
        cases (denZip ct ps xs).1 <;> simp [Except.map]
      rw [← confZip_den ct ps xs hc2 hd.2 hnf']
      unfold itemsOk
      cases (denZip ct ps xs).1 <;> simp [Except.map]
    | reject o =>
      rw [hv] at ih hnf ⊢
      simp only at hnf ⊢
      rw [← ih rfl]; simp [itemsOk, isPass]
    | fault y => rw [hv] at hnf; simp [itemsFault] at hnf

theorem confKey_den (ct : ClassTable) : ∀ (es : List (KeyKind × Spec × Spec)) (i : Nat) (key val : V),
    ctorErrD es = none → constDefaultsD es = true →
    KeyConf ct es i key val (denKey ct es i key val).1
  | [], i, key, val, _, _ => by simp [denKey, KeyConf, claimIdx, confEntry]
  | (kind, ks, vs) :: es, i, key, val, hc, hd => by
    obtain ⟨hc1, hc2, hc3, _⟩ := ctorErrD_cons hc
    simp only [constDefaultsD, Bool.and_eq_true] at hd
    obtain ⟨⟨⟨_, hd1⟩, hd2⟩, hd3⟩ := hd
    have ihv := conf_den ct vs val hc2 hd2
    have ihr := confKey_den ct es (i + 1) key val hc3 hd3
    -- the key test, in both readings
    have hkey : ∀ (kr : D) (b : Bool), (isFault kr.1 = false → isPass kr.1 = b) →
        KeyConf ct ((kind, ks, vs) :: es) i key val
          (match kr.1 with
           | .pass k' =>
             (match (denote ct vs val).1 with
              | .pass v' => (KeyHit.hit i k' v', kr.2 ++ (denote ct vs val).2)
              | other => (.stop other, kr.2 ++ (denote ct vs val).2))
           | .reject _ => ((denKey ct es (i + 1) key val).1, kr.2 ++ (denKey ct es (i + 1) key val).2)
           | .fault c => (.stop (.fault c), kr.2)).1 ∨
        (match optKey kind ks with
         | some k => pyEq key k
         | none => conforms ct ks key) ≠ b := by
      intro kr b hb
      by_cases hkb : (match optKey kind ks with
         | some k => pyEq key k
         | none => conforms ct ks key) = b
      · left
        cases hkr : kr.1 with
        | pass k' =>
          rw [hkr] at hb
          have hbt : b = true := (hb rfl).symm
          subst hbt
          simp only
          cases hvv : (denote ct vs val).1 with
          | pass v' =>
            rw [hvv] at ihv
            simp only [KeyConf, claimIdx, confEntry, hkb, if_true, ← ihv rfl]
            exact ⟨rfl, rfl⟩
          | reject o =>
            rw [hvv] at ihv
            simp only [KeyConf, confEntry, hkb, if_true, ← ihv rfl]
            rfl
          | fault c => simp only [KeyConf]
        | reject o =>
          rw [hkr] at hb
          have hbf : b = false := (hb rfl).symm
          subst hbf
          simp only
          revert ihr
          cases (denKey ct es (i + 1) key val).1 with
          | hit j a b => simp only [KeyConf, claimIdx, confEntry, hkb]; simp
          | noKey => simp only [KeyConf, claimIdx, confEntry, hkb]; simp
          | stop x => cases x <;> simp only [KeyConf, claimIdx, confEntry, hkb] <;> simp
        | fault c => simp only [KeyConf]
      · right; exact hkb
    simp only [denKey]
    cases ho : optKey kind ks with
    | some k =>
      simp only
      rcases hkey (vcond (pyEq key k) key) (pyEq key k)
        (by intro _; cases pyEq key k <;> simp [vcond, vpass, vreject, isPass]) with h | h
      · exact h
      · rw [ho] at h; exact absurd rfl h
    | none =>
      simp only
      rcases hkey (denote ct ks key) (conforms ct ks key) (conf_den ct ks key hc1 hd1) with h | h
      · exact h
      · rw [ho] at h; exact absurd rfl h
end

end Glom.C09
