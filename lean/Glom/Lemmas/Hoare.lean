import Glom.Model.Interp
/-
  Hoare-style reasoning for the evaluation monad `M`: a relation between the
  state before and after, closed under sequencing.  Proved once per primitive;
  loops and `interp` then follow by rule application.
-/
namespace Glom.Interp

theorem M.bind_apply {α β} (m : M α) (f : α → M β) (st : St) :
    (m >>= f) st = match m st with
      | (st', .ok a) => f a st'
      | (st', .error e) => (st', .error e) := rfl

theorem M.pure_apply {α} (a : α) (st : St) : (Pure.pure a : M α) st = (st, .ok a) := rfl

/-- a reflexive, transitive relation on states ("how the state may evolve") -/
structure StRel (Rl : St → St → Prop) : Prop where
  refl : ∀ st, Rl st st
  trans : ∀ {a b c}, Rl a b → Rl b c → Rl a c

/-- running `m` from any state ends in a state related to the start -/
structure Hoare {α} (Rl : St → St → Prop) (m : M α) : Prop where
  run : ∀ st, Rl st (m st).1

namespace Hoare
variable {Rl : St → St → Prop} {α β : Type}

theorem pure (h : StRel Rl) (a : α) : Hoare Rl (Pure.pure a : M α) := ⟨fun st => h.refl st⟩

theorem throw (h : StRel Rl) (e : Err) : Hoare Rl (M.throw e : M α) := ⟨fun st => h.refl st⟩

theorem fail (h : StRel Rl) (c : String) : Hoare Rl (M.fail c : M α) := ⟨fun st => h.refl st⟩

theorem lift (h : StRel Rl) (r : Except Err α) : Hoare Rl (M.lift r) := ⟨fun st => h.refl st⟩

theorem getGvars (h : StRel Rl) : Hoare Rl M.getGvars := ⟨fun st => h.refl st⟩

theorem bind (h : StRel Rl) {m : M α} {f : α → M β} (hm : Hoare Rl m) (hf : ∀ a, Hoare Rl (f a)) :
    Hoare Rl (m >>= f) := by
  constructor
  intro st
  show Rl st (M.bind m f st).1
  unfold M.bind
  have h1 := hm.run st
  rcases hr : m st with ⟨st', r⟩
  rw [hr] at h1
  cases r with
  | error e => exact h1
  | ok a => exact h.trans h1 ((hf a).run st')

theorem attempt {m : M α} (hm : Hoare Rl m) : Hoare Rl (M.attempt m) := by
  constructor
  intro st
  unfold M.attempt
  have h1 := hm.run st
  rcases hr : m st with ⟨st', r⟩
  rw [hr] at h1
  exact h1

end Hoare

end Glom.Interp
