import Glom.Spec.C12
import Glom.Lemmas.C11c
/-
  Helper lemmas for C12: exception classes and frames of the deletion primitives,
  `_del_one` (table-driven) against the deletion the step denotes, the refinement.
-/
namespace Glom.Mut
open Glom

theorem pyDelitem_exc {env h dest key e} (hh : pyDelitem env h dest key = .error e) :
    e = exc "RuntimeError" ∨ e = exc "TypeError" ∨ e = exc "KeyError" ∨ e = exc "IndexError" := by
  unfold pyDelitem at hh
  repeat' split at hh
  all_goals first
    | contradiction
    | (injection hh with hh; subst hh; simp)

theorem pyDelattr_exc {env h dest name e} (hh : pyDelattr env h dest name = .error e) :
    e = exc "RuntimeError" ∨ e = exc "AttributeError" ∨ e = exc "TypeError" := by
  unfold pyDelattr at hh
  repeat' split at hh
  all_goals first
    | contradiction
    | (injection hh with hh; subst hh; simp)

theorem pyDelSeqItem_exc {env h dest idx e} (hh : pyDelSeqItem env h dest idx = .error e) :
    e = exc "RuntimeError" ∨ e = exc "TypeError" ∨ e = exc "KeyError" ∨ e = exc "IndexError" ∨
      e = exc "ValueError" := by
  unfold pyDelSeqItem at hh
  split at hh
  · rcases pyDelitem_exc hh with h1 | h1 | h1 | h1 <;> simp [h1]
  · rename_i e' he
    injection hh with hh; subst hh
    rcases C01.pyInt_exc he with h1 | h1 <;> simp [h1]

end Glom.Mut

namespace Glom.C12
open Glom Glom.Mut Glom.C11

theorem applyDeleteHandler_exc {env h hn dest arg e}
    (hh : applyDeleteHandler env h hn dest arg = .error e) : e.cls ∈ deleteHandlerExcs := by
  unfold applyDeleteHandler at hh
  split at hh
  · rcases pyDelitem_exc hh with h1 | h1 | h1 | h1 <;> simp [h1, deleteHandlerExcs, exc]
  · split at hh
    · rcases pyDelSeqItem_exc hh with h1 | h1 | h1 | h1 | h1 <;> simp [h1, deleteHandlerExcs, exc]
    · split at hh
      · rcases pyDelattr_exc hh with h1 | h1 | h1 <;> simp [h1, deleteHandlerExcs, exc]
      · injection hh with hh; subst hh; simp [deleteHandlerExcs, exc]

theorem applyDeleteHandler_frame {env h hn dest arg w}
    (hh : applyDeleteHandler env h hn dest arg = .ok w) : FrameAt h w.heap dest := by
  unfold applyDeleteHandler at hh
  split at hh
  · exact pyDelitem_frame hh
  · split at hh
    · exact pyDelSeqItem_frame hh
    · split at hh
      · exact pyDelattr_frame hh
      · contradiction

theorem refDelOp_frame {env h op dest arg w}
    (hh : refDelOp env h op dest arg = some (.ok w)) : FrameAt h w.heap dest := by
  unfold refDelOp at hh
  split at hh
  · injection hh with hh; exact pyDelitem_frame hh
  · split at hh
    · injection hh with hh; exact pyDelattr_frame hh
    · split at hh
      · cases hn : nearestHandler env.t.ct env.deleteReg (dest.clsName h) with
        | none => simp [hn] at hh
        | some n => simp [hn] at hh; exact applyDeleteHandler_frame hh
      · contradiction

theorem delCatches_parts {env : MEnv} {op kind : String} {needed : List String}
    (h : delCatches env op kind needed = true) :
    ∃ caught, branchOf env.delBr op = some (kind, caught, "PathDeleteError") ∧
      ∀ n ∈ needed, C01.caughtBy env.t caught ⟨n⟩ = true := by
  unfold delCatches at h
  split at h
  · rename_i k caught raises heq
    simp only [Bool.and_eq_true, beq_iff_eq, List.all_eq_true] at h
    exact ⟨caught, by rw [heq, h.1.1, h.1.2], h.2⟩
  · contradiction

theorem WF_parts {env : MEnv} (h : WF env = true) :
    C01.WF env.t = true ∧ C01.dispatchOf env.t "x" = some ("star", []) ∧
    delCatches env "[" "delitem" ["KeyError", "IndexError"] = true ∧
    delCatches env "." "delattr" ["AttributeError"] = true ∧
    delCatches env "P" "handler" deleteHandlerExcs = true := by
  simp only [WF, Bool.and_eq_true, beq_iff_eq] at h
  obtain ⟨h, _⟩ := h
  exact ⟨h.1.1.1.1.1.1.1.1, h.1.1.1.1.1.1.1.2, h.1.1.1.1.1.1.2, h.1.1.1.1.1.2, h.1.1.1.1.2⟩

theorem WF_exc {env : MEnv} (h : WF env = true) :
    env.t.excTable.isSub "PathDeleteError" "PathDeleteError" = true ∧
    env.t.excTable.isSub "PathAccessError" "PathAccessError" = true := by
  simp only [WF, Bool.and_eq_true] at h
  obtain ⟨h, _⟩ := h
  exact ⟨h.1.2, h.2⟩

theorem WF_exact {env : MEnv} (h : WF env = true) :
    ∀ op, op = "[" ∨ op = "." → ∃ k caught r, branchOf env.delBr op = some (k, caught, r) ∧
      C01.caughtBy env.t caught ⟨"RuntimeError"⟩ = false ∧ C01.caughtBy env.t caught ⟨"TypeError"⟩ = false := by
  simp only [WF, Bool.and_eq_true] at h
  have hx := h.2
  simp only [delExactOK, List.all_cons, List.all_nil, Bool.and_true, Bool.and_eq_true] at hx
  intro op hop
  have hone : (match branchOf env.delBr op with
      | some (_, caught, _) => (!C01.caughtBy env.t caught ⟨"RuntimeError"⟩ && !C01.caughtBy env.t caught ⟨"TypeError"⟩)
      | none => false) = true := by
    rcases hop with rfl | rfl
    · exact hx.1
    · exact hx.2
  cases hb : branchOf env.delBr op with
  | none => rw [hb] at hone; cases hone
  | some x =>
    obtain ⟨k, c, r⟩ := x
    rw [hb] at hone
    simp only [Bool.and_eq_true, Bool.not_eq_true'] at hone
    exact ⟨k, c, r, rfl, hone.1, hone.2⟩

/-- does the `except` clause of branch `op` of `_del_one` name a class of `e`? -/
def delCaught (env : MEnv) (op : String) (e : PyExc) : Bool :=
  match branchOf env.delBr op with
  | some (_, caught, _) => C01.caughtBy env.t caught e
  | none => false

/-- `_del_one` is the deletion the step denotes; an exception its `except` clause names becomes
    a PathDeleteError (nothing under `ignore_missing`), any other escapes as it is -/
theorem delOne_eq {env : MEnv} (hwf : WF env = true) {op : String} (hop : finalOk op = true)
    (ignore : Bool) (arg : Val) (st : St) (dest : Val) :
    delOne env ignore op arg st dest =
      match refDelOp env st.heap op dest arg with
      | some (.ok w) => (st.wrote w, .ok ())
      | some (.error e) =>
        if delCaught env op e then (if ignore then (st, .ok ()) else (st, .error (.pdelete e arg)))
        else (st, .error (.raised e))
      | none => (st, .error .unregistered) := by
  obtain ⟨_, _, h1, h2, h3⟩ := WF_parts hwf
  obtain ⟨c1, hb1, _⟩ := delCatches_parts h1
  obtain ⟨c2, hb2, _⟩ := delCatches_parts h2
  obtain ⟨c3, hb3, _⟩ := delCatches_parts h3
  simp only [finalOk, Bool.or_eq_true, beq_iff_eq] at hop
  rcases hop with (rfl | rfl) | rfl
  · simp only [delOne, hb1, refDelOp, delCaught]
    cases pyDelitem env st.heap dest arg <;> simp
  · simp only [delOne, hb2, refDelOp, delCaught]
    cases pyDelattr env st.heap dest arg <;> simp
  · simp only [delOne, hb3, refDelOp, delCaught]
    cases hn : nearestHandler env.t.ct env.deleteReg (dest.clsName st.heap) with
    | none => simp
    | some n =>
      cases hr : applyDeleteHandler env st.heap n dest arg with
      | ok w => simp [hr]
      | error e => simp [hr]

/-- **the facts obligation at work**: whatever Python's `del` raises for a *missing* key, index
    or attribute is named by the `except` clause of the branch that performed it -/
theorem missing_caught {env : MEnv} (hwf : WF env = true) {op : String} (hop : finalOk op = true)
    {h : Heap} {dest arg : Val} {e : PyExc} (hr : refDelOp env h op dest arg = some (.error e))
    (hm : missingExc e = true) : delCaught env op e = true := by
  obtain ⟨_, _, h1, h2, h3⟩ := WF_parts hwf
  obtain ⟨c1, hb1, hc1⟩ := delCatches_parts h1
  obtain ⟨c2, hb2, hc2⟩ := delCatches_parts h2
  obtain ⟨c3, hb3, hc3⟩ := delCatches_parts h3
  simp only [finalOk, Bool.or_eq_true, beq_iff_eq] at hop
  rcases hop with (rfl | rfl) | rfl
  · simp only [refDelOp, beq_self_eq_true, if_true, Option.some.injEq] at hr
    simp only [delCaught, hb1]
    rcases pyDelitem_exc hr with rfl | rfl | rfl | rfl
    · simp [missingExc, exc] at hm
    · simp [missingExc, exc] at hm
    · exact hc1 "KeyError" (by simp)
    · exact hc1 "IndexError" (by simp)
  · simp only [refDelOp] at hr
    simp at hr
    simp only [delCaught, hb2]
    rcases pyDelattr_exc hr with rfl | rfl | rfl
    · simp [missingExc, exc] at hm
    · exact hc2 "AttributeError" (by simp)
    · simp [missingExc, exc] at hm
  · simp only [refDelOp] at hr
    simp at hr
    obtain ⟨hn, _, hr⟩ := hr
    simp only [delCaught, hb3]
    exact hc3 e.cls (applyDeleteHandler_exc hr)

end Glom.C12

namespace Glom.C12
open Glom Glom.Mut Glom.C11

/-- the `except` clauses of `_del_one` (extracted) swallow exactly what the reading says (`swallowed`) -/
theorem delCaught_swallowed {env : MEnv} (hwf : WF env = true) {op : String} (hop : finalOk op = true)
    {h : Heap} {dest arg : Val} {e : PyExc} (hr : refDelOp env h op dest arg = some (.error e)) :
    delCaught env op e = swallowed op e := by
  by_cases hm : missingExc e = true
  · rw [missing_caught hwf hop hr hm]; simp [swallowed, hm]
  · simp only [finalOk, Bool.or_eq_true, beq_iff_eq] at hop
    rcases hop with (rfl | rfl) | rfl
    · obtain ⟨k, c, r, hb, h1, h2⟩ := WF_exact hwf "[" (.inl rfl)
      simp only [refDelOp, beq_self_eq_true, if_true, Option.some.injEq] at hr
      simp only [delCaught, hb, swallowed, hm]
      rcases pyDelitem_exc hr with rfl | rfl | rfl | rfl
      · simpa [exc] using h1
      · simpa [exc] using h2
      · simp [missingExc, exc] at hm
      · simp [missingExc, exc] at hm
    · obtain ⟨k, c, r, hb, h1, h2⟩ := WF_exact hwf "." (.inr rfl)
      simp only [refDelOp] at hr
      simp at hr
      simp only [delCaught, hb, swallowed, hm]
      rcases pyDelattr_exc hr with rfl | rfl | rfl
      · simpa [exc] using h1
      · simp [missingExc, exc] at hm
      · simpa [exc] using h2
    · obtain ⟨_, _, _, _, h3⟩ := WF_parts hwf
      obtain ⟨c3, hb3, hc3⟩ := delCatches_parts h3
      simp only [refDelOp] at hr
      simp at hr
      obtain ⟨hn, _, hr⟩ := hr
      simp only [delCaught, hb3, swallowed, beq_self_eq_true, Bool.true_or]
      exact hc3 e.cls (applyDeleteHandler_exc hr)

/-- what the refinement says about one run of the model of `delete` -/
def Refines (h : Heap) (target : Val) (ignore : Bool) (arg : Option Val) (out : St × Except MErr Val) :
    RefRes → Prop
  | .ok h' hid => out.2 = .ok target ∧ out.1.heap = h' ∧ out.1.hidden = hid
  | .missingFinal e =>
    out.1.heap = h ∧ out.1.hidden = false ∧
      (if ignore then out.2 = .ok target else ∃ a, arg = some a ∧ out.2 = .error (.pdelete e a))
  | .missingParent k e =>
    out.1.heap = h ∧ out.1.hidden = false ∧
      (if ignore then out.2 = .ok target else out.2 = .error (.pae k e))
  | .fault silent =>
    out.1.heap = h ∧ out.1.hidden = false ∧
      (if silent then (if ignore then out.2 = .ok target else ∃ e a, out.2 = .error (.pdelete e a))
       else ∃ e, out.2 = .error e)
  | .partialFail _ _ => False
  | .unsupported => False

/-- **Main refinement**: for a wildcard-free path the model of `Delete` does exactly what the
    property prescribes. -/
theorem delete_spec {env : MEnv} (hwf : WF env = true) (hc : classesOK env = true)
    (sroot : Bool) (sref : Val) (ignore : Bool) (h : Heap) (target : Val) (orig : List Step)
    (hs : C01.wfSteps orig = true) :
    Refines h target ignore (orig.getLast?.map (·.2)) (delete env sroot sref ignore h target orig)
      (refDelete env h (if sroot then sref else target) orig ignore) := by
  obtain ⟨hwf1, hx, _, _, _⟩ := WF_parts hwf
  unfold delete refDelete
  cases hl : orig.getLast? with
  | none => exact ⟨rfl, rfl, ⟨_, rfl⟩⟩
  | some last =>
    obtain ⟨op, arg⟩ := last
    have hlastw : C01.wfSteps [(op, arg)] = true := (wfSteps_iff orig).1 hs _ (getLast?_mem hl)
    have hfin : finalOk op = true := finalOk_of_wfSteps hlastw
    have hpw : C01.wfSteps orig.dropLast = true :=
      wfSteps_sub hs (fun s hs' => mem_of_mem_dropLast hs')
    have hpns := wfSteps_noStar hpw
    simp only [hfin, Bool.not_true, Bool.false_eq_true, if_false, hpns, Option.map_some]
    have hspec := fetch_spec' hwf1 hx hc h orig.dropLast (wfSteps_wfStar hpw) (.inl hpns) 0
      (if sroot then sref else target)
    cases hmo : matchesOf env h orig.dropLast 0 (if sroot then sref else target) with
    | unreg => rw [hmo] at hspec; exact hspec.elim
    | unsupported => rw [hmo] at hspec; exact hspec.elim
    | fail k e stop =>
      rw [hmo] at hspec
      simp only at hspec
      simp only [hspec]
      cases ignore <;> simp [Refines]
    | ok ds =>
      rw [hmo] at hspec
      obtain ⟨nest, hf, hu, hlv⟩ := hspec
      rw [stars_zero hpns] at hu
      obtain ⟨d, rfl⟩ := uniform0_leaf hu
      simp only [Nest.leaves] at hlv
      subst hlv
      simp only [hf, stars_zero hpns, applyForEach, beq_self_eq_true, if_true]
      rw [delOne_eq hwf hfin]
      cases hr : refDelOp env h op d arg with
      | none => exact ⟨rfl, rfl, ⟨_, rfl⟩⟩
      | some r =>
        cases r with
        | ok w => exact ⟨rfl, rfl, by simp [St.wrote]⟩
        | error e =>
          simp only
          by_cases hme : missingExc e = true
          · have hcg := missing_caught hwf hfin hr hme
            simp only [hme, if_true, hcg]
            cases ignore <;> simp [Refines]
          · simp only [hme, Bool.false_eq_true, if_false]
            have hsw := delCaught_swallowed hwf hfin hr
            simp only [swallowed, hme, Bool.or_false] at hsw
            by_cases hP : (op == "P") = true
            · simp only [hP] at hsw ⊢
              simp only [hsw, if_true]
              cases ignore with
              | true => exact ⟨rfl, rfl, rfl⟩
              | false => exact ⟨rfl, rfl, ⟨_, _, rfl⟩⟩
            · simp only [Bool.not_eq_true] at hP
              simp only [hP] at hsw ⊢
              simp only [hsw, Bool.false_eq_true, if_false]
              exact ⟨rfl, rfl, ⟨_, rfl⟩⟩

/-! ### wildcards -/

theorem seqM_delete {env : MEnv} (hwf : WF env = true) {op : String} (hop : finalOk op = true)
    (ignore : Bool) (arg : Val) : ∀ (ds : List Val) (st : St),
    match seqDel env ignore op arg st.heap st.hidden ds with
    | .ok (h', hid) =>
      ∃ st', seqM (delOne env ignore op arg) st ds = (st', .ok ()) ∧ st'.heap = h' ∧ st'.hidden = hid
    | .error (h', hid) =>
      ∃ st' e, seqM (delOne env ignore op arg) st ds = (st', .error e) ∧ st'.heap = h' ∧ st'.hidden = hid := by
  intro ds
  induction ds with
  | nil => intro st; exact ⟨st, rfl, rfl, rfl⟩
  | cons d ds ih =>
    intro st
    simp only [seqDel, seqM]
    rw [delOne_eq hwf hop]
    cases hr : refDelOp env st.heap op d arg with
    | none => exact ⟨_, _, rfl, rfl, rfl⟩
    | some r =>
      cases r with
      | ok w =>
        have := ih (st.wrote w)
        simpa [St.wrote] using this
      | error e =>
        simp only
        rw [delCaught_swallowed hwf hop hr]
        by_cases hsw : swallowed op e = true
        · simp only [hsw, Bool.and_true, if_true]
          cases ignore with
          | true => simpa using ih st
          | false => exact ⟨_, _, rfl, rfl, rfl⟩
        · simp only [hsw, Bool.and_false, Bool.false_eq_true, if_false]
          exact ⟨_, _, rfl, rfl, rfl⟩

end Glom.C12

namespace Glom.C12
open Glom Glom.Mut Glom.C11

theorem pyIdx_lt {n : Nat} {i : Int} {j : Nat} (h : pyIdx n i = some j) : j < n := by
  unfold pyIdx at h
  simp only at h
  repeat' split at h
  all_goals first
    | contradiction
    | (injection h with h; omega)

/-- `del xs[i]` on a list cell: the cell keeps its class and becomes the same list without the
    addressed position — earlier items stay, later items shift down by one -/
theorem pyDelitem_list {env : MEnv} {h : Heap} {a : Nat} {c : String} {xs : List Val} {key : Val} {w : Wr}
    (ha : h[a]? = some (.list c xs)) (hd : pyDelitem env h (.ref a) key = .ok w) :
    ∃ i j, asIndex key = some i ∧ pyIdx xs.length i = some j ∧ j < xs.length ∧
      w.heap[a]? = some (.list c (xs.eraseIdx j)) ∧
      ∀ n, (xs.eraseIdx j)[n]? = if n < j then xs[n]? else xs[n + 1]? := by
  have hal : a < h.length := (List.getElem?_eq_some_iff.1 ha).1
  unfold pyDelitem at hd
  simp only [ha] at hd
  split at hd
  · contradiction
  · split at hd
    · contradiction
    · rename_i i hi
      split at hd
      · contradiction
      · rename_i j hj
        injection hd with hd
        subst hd
        refine ⟨i, j, hi, hj, pyIdx_lt hj, by simp [hal], ?_⟩
        intro n
        rw [List.getElem?_eraseIdx]

theorem covered_parts {env : MEnv} {orig : List Step} (hy : C12.covered env orig = true) :
    C12.WF env = true ∧ classesOK env = true ∧ C01.wfSteps orig = true := by
  simp only [C12.covered, Bool.and_eq_true] at hy
  exact ⟨hy.1.1.1, hy.1.1.2, hy.1.2⟩

end Glom.C12
