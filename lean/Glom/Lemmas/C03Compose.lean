import Glom.Lemmas.C03
/-
  C03 — the interpreter's container loops over "log-pure" sub-specs (an outcome function of the
  target: value or exception, plus the events appended to the log) are the outcome folds
  `chainF` / `listF` / `dictF`, and so is the checker's `composeRef` over the same functions.
-/
set_option linter.unusedSectionVars false
set_option linter.unusedSimpArgs false
namespace Glom.Interp
open ScopeAlg

def addLog (st : St) (l : List Ev) : St := { st with log := st.log ++ l }

@[simp] theorem addLog_nil (st : St) : addLog st [] = st := by simp [addLog]
@[simp] theorem addLog_addLog (st : St) (a b : List Ev) : addLog (addLog st a) b = addLog st (a ++ b) := by
  simp [addLog, List.append_assoc]

@[simp] theorem after_fst (l : List Ev) (o : Outcome) : (o.after l).1 = o.1 := rfl
@[simp] theorem after_snd (l : List Ev) (o : Outcome) : (o.after l).2 = l ++ o.2 := rfl

section
variable {σ : Type} [ScopeAlg σ]

/-- in AUTO mode, outside argument position, the evaluator yields on `s` the outcome `f t`: the
    value or exception `(f t).1`, the log extended by `(f t).2`, nothing else of the state changed,
    whatever the scope shows -/
def StepPure (rec : Rec σ) (s : Spec) (f : V → Outcome) : Prop :=
  ∀ t (sc : σ) st, mode sc = .auto → argMode sc = false →
    ∃ c, rec s t sc st = (addLog st (f t).2, (f t).1.map (fun v => (v, c)))

variable [LawfulScope σ]

theorem tupleLoop_pure (rec : Rec σ) :
    ∀ (steps : List Spec) (fs : List (V → Outcome)), steps.length = fs.length →
      (∀ i (hi : i < steps.length) (hj : i < fs.length), StepPure rec steps[i] fs[i]) →
      ∀ (t : V) (cur : σ) (last : Option σ) (st : St), mode cur = .auto → argMode cur = false →
        tupleLoop rec steps t cur last st = (addLog st (chainF fs t).2, (chainF fs t).1) := by
  intro steps
  induction steps with
  | nil => intro fs hl _ t cur last st _ _; cases fs <;> simp_all [tupleLoop, chainF, M.pure_apply]
  | cons s rest ih =>
    intro fs hl hall t cur last st hm ha
    cases fs with
    | nil => simp at hl
    | cons f frest =>
      have h0 := hall 0 (by simp) (by simp)
      simp only [List.getElem_cons_zero] at h0
      have hm' : mode (nextScope cur last) = .auto := by rw [nextScope_mode, hm]
      have ha' : argMode (nextScope cur last) = false := by rw [nextScope_argMode, ha]
      have hrest := fun t' l st' => ih frest (by simpa using hl) (by
        intro i hi hj
        have := hall (i + 1) (by simp; omega) (by simp; omega)
        simpa using this) t' (nextScope cur last) l st' hm' ha'
      obtain ⟨c, hc⟩ := h0 t (nextScope cur last) st hm' ha'
      simp only [tupleLoop, M.bind_apply, hc, chainF]
      rcases hf : f t with ⟨r, l⟩
      cases r with
      | error e => simp [Except.map]
      | ok v => cases v <;> simp [Except.map, hrest, M.pure_apply]

theorem listLoop_pure (rec : Rec σ) (sub : Spec) (f : V → Outcome) (h : StepPure rec sub f) (sc : σ)
    (hm : mode sc = .auto) (ha : argMode sc = false) :
    ∀ (items acc : List V) (st : St),
      listLoop rec sub sc items acc st =
        (addLog st (listF f items acc).2, (listF f items acc).1.bind (fun v => match v with
          | .list xs => .ok xs
          | _ => .ok [])) := by
  intro items
  induction items with
  | nil => intro acc st; simp [listLoop, listF, M.pure_apply, Except.bind]
  | cons x xs ih =>
    intro acc st
    obtain ⟨c, hc⟩ := h x sc st hm ha
    simp only [listLoop, M.bind_apply, hc, listF]
    rcases hf : f x with ⟨r, l⟩
    cases r with
    | error e => simp [Except.map, Except.bind]
    | ok v => cases v <;> simp [Except.map, ih, M.pure_apply, Except.bind]

/-- what `ds[i]` must say about entry `es[i]` of a dict spec -/
def EntryOK (rec : Rec σ) (e : Spec × Spec) (d : V × Option (V → Outcome) × (V → Outcome)) : Prop :=
  StepPure rec e.2 d.2.2 ∧
  (match d.2.1 with
   | some g => e.1.isComputedKey = true ∧ StepPure rec e.1 g
   | Option.none => e.1.isComputedKey = false ∧ reify e.1 = some d.1)

theorem dictLoop_pure (p : Prims) (rec : Rec σ) (o : Bool) (t : V) (sc : σ) (hm : mode sc = .auto)
    (ha : argMode sc = false) :
    ∀ (es : List (Spec × Spec)) (ds : List (V × Option (V → Outcome) × (V → Outcome))), es.length = ds.length →
      (∀ i (hi : i < es.length) (hj : i < ds.length), EntryOK rec es[i] ds[i]) →
      ∀ (acc : List (V × V)) (st : St),
        dictLoop p rec t sc es acc st =
          (addLog st (dictF p o t ds acc).2, (dictF p o t ds acc).1.bind (fun v => match v with
            | .dict _ kvs => .ok kvs
            | _ => .ok [])) := by
  intro es
  induction es with
  | nil => intro ds hl _ acc st; cases ds <;> simp_all [dictLoop, dictF, M.pure_apply, Except.bind]
  | cons e rest ih =>
    obtain ⟨field, sub⟩ := e
    intro ds hl hall acc st
    cases ds with
    | nil => simp at hl
    | cons d drest =>
      obtain ⟨k, kf, f⟩ := d
      have h0 := hall 0 (by simp) (by simp)
      simp only [List.getElem_cons_zero, EntryOK] at h0
      obtain ⟨hv, hk⟩ := h0
      have hrest := fun acc' st' => ih drest (by simpa using hl) (by
        intro i hi hj
        have := hall (i + 1) (by simp; omega) (by simp; omega)
        simpa using this) acc' st'
      obtain ⟨c, hc⟩ := hv t sc st hm ha
      simp only [dictLoop, M.bind_apply, hc, dictF]
      rcases hf : f t with ⟨r, l⟩
      cases r with
      | error e => simp [Except.map, Except.bind]
      | ok v =>
        cases kf with
        | none =>
          simp only at hk
          obtain ⟨hck, hre⟩ := hk
          cases v <;> simp [Except.map, hrest, hck, hre, Except.bind]
        | some g =>
          simp only at hk
          obtain ⟨hck, hg⟩ := hk
          have hkey : ∀ st', ∃ c', rec field t sc st' = (addLog st' (g t).2, (g t).1.map (fun v => (v, c'))) :=
            fun st' => hg t sc st' hm ha
          cases v <;> simp only [Except.map, hck, if_true, hrest, Except.bind, after_fst, after_snd] <;>
            first
            | (simp [hrest]; done)
            | (obtain ⟨c', hc'⟩ := hkey (addLog st l)
               simp only [M.bind_apply, hc']
               rcases hgt : g t with ⟨r2, l2⟩
               cases r2 with
               | error e => simp [Except.map, Except.bind]
               | ok k' =>
                 by_cases hh : p.hashable k' = true <;>
                   simp [Except.map, hh, hrest, M.fail, M.throw, Except.bind])

/-! ### one level of the interpreter: a container over log-pure sub-specs is log-pure -/

theorem interp_tuple_pure (p : Prims) (fuel : Nat) (xs : List Spec) (fs : List (V → Outcome))
    (hl : xs.length = fs.length)
    (h : ∀ i (hi : i < xs.length) (hj : i < fs.length), StepPure (σ := σ) (interp p fuel) xs[i] fs[i]) :
    StepPure (σ := σ) (interp p (fuel + 1)) (.tuple xs) (chainF fs) ∧
    StepPure (σ := σ) (interp p (fuel + 1)) (.pipe xs) (chainF fs) := by
  constructor
  · intro t sc st hm ha
    refine ⟨child sc, ?_⟩
    have := tupleLoop_pure (interp p fuel) xs fs hl h t (child sc) Option.none st
      (by rw [LawfulScope.mode_child, hm]) (by rw [LawfulScope.argMode_child, ha])
    simp only [interp, Spec.isSpecLike, Bool.false_eq_true, if_false, LawfulScope.argMode_child,
      LawfulScope.mode_child, hm, ha, autoFn, M.bind_apply, this]
    cases (chainF fs t).1 <;> rfl
  · intro t sc st hm ha
    refine ⟨setArgMode (child sc) false, ?_⟩
    have := tupleLoop_pure (interp p fuel) xs fs hl h t (setArgMode (child sc) false) Option.none st
      (by rw [LawfulScope.mode_setArgMode, LawfulScope.mode_child, hm]) (by rw [LawfulScope.argMode_setArgMode])
    simp only [interp, Spec.isSpecLike, if_true, glomit, M.bind_apply, this]
    cases (chainF fs t).1 <;> rfl

/-- the outcome function of a list spec `[sub, …]` -/
def listOut (p : Prims) (f : V → Outcome) (t : V) : Outcome :=
  match p.iterate t with
  | .error e => (.error e, [])
  | .ok items => listF f items []

theorem listF_is_list (f : V → Outcome) : ∀ (items acc : List V) (v : V),
    (listF f items acc).1 = .ok v → ∃ xs, v = .list xs := by
  intro items
  induction items with
  | nil => intro acc v h; simp [listF] at h; exact ⟨acc, h.symm⟩
  | cons x xs ih =>
    intro acc v h
    simp only [listF] at h
    rcases hf : f x with ⟨r, l⟩
    rw [hf] at h
    cases r with
    | error e => simp at h
    | ok w =>
      cases w <;> simp only [after_fst] at h <;> first
        | exact ih _ _ h
        | (simp at h; exact ⟨acc, h.symm⟩)

theorem interp_list_pure (p : Prims) (fuel : Nat) (sub : Spec) (rest : List Spec) (f : V → Outcome)
    (h : StepPure (σ := σ) (interp p fuel) sub f) :
    StepPure (σ := σ) (interp p (fuel + 1)) (.list (sub :: rest)) (listOut p f) := by
  intro t sc st hm ha
  refine ⟨child sc, ?_⟩
  simp only [interp, Spec.isSpecLike, Bool.false_eq_true, if_false, LawfulScope.argMode_child,
    LawfulScope.mode_child, hm, ha, autoFn, M.bind_apply, M.lift, listOut]
  cases hit : p.iterate t with
  | error e => simp [Except.map]
  | ok items =>
    have := listLoop_pure (interp p fuel) sub f h (child sc)
      (by rw [LawfulScope.mode_child, hm]) (by rw [LawfulScope.argMode_child, ha]) items [] st
    simp only [this]
    cases hr : (listF f items []).1 with
    | error e => simp [Except.map, Except.bind]
    | ok v =>
      obtain ⟨ys, rfl⟩ := listF_is_list f items [] v hr
      simp [Except.map, Except.bind, M.pure_apply]

theorem dictF_is_dict (p : Prims) (o : Bool) (t : V) :
    ∀ (ds : List (V × Option (V → Outcome) × (V → Outcome))) (acc : List (V × V)) (v : V),
      (dictF p o t ds acc).1 = .ok v → ∃ kvs, v = .dict o kvs := by
  intro ds
  induction ds with
  | nil => intro acc v h; simp [dictF] at h; exact ⟨acc, h.symm⟩
  | cons d rest ih =>
    obtain ⟨k, kf, f⟩ := d
    intro acc v h
    simp only [dictF] at h
    rcases hf : f t with ⟨r, l⟩
    rw [hf] at h
    cases r with
    | error e => simp at h
    | ok w =>
      cases kf with
      | none => cases w <;> simp only [after_fst] at h <;> exact ih _ _ h
      | some g =>
        rcases hg : g t with ⟨r2, l2⟩
        cases r2 with
        | error e => cases w <;> simp [hg] at h <;> exact ih _ _ h
        | ok k' =>
          by_cases hh : p.hashable k' = true
          · cases w <;> simp [hg, hh] at h <;> exact ih _ _ h
          · cases w <;> simp [hg, hh] at h <;> exact ih _ _ h

theorem interp_dict_pure (p : Prims) (fuel : Nat) (o : Bool) (es : List (Spec × Spec))
    (ds : List (V × Option (V → Outcome) × (V → Outcome))) (hl : es.length = ds.length)
    (h : ∀ i (hi : i < es.length) (hj : i < ds.length), EntryOK (σ := σ) (interp p fuel) es[i] ds[i]) :
    StepPure (σ := σ) (interp p (fuel + 1)) (.dict o es) (fun t => dictF p o t ds []) := by
  intro t sc st hm ha
  refine ⟨child sc, ?_⟩
  have := dictLoop_pure p (interp p fuel) o t (child sc)
    (by rw [LawfulScope.mode_child, hm]) (by rw [LawfulScope.argMode_child, ha]) es ds hl h [] st
  simp only [interp, Spec.isSpecLike, Bool.false_eq_true, if_false, LawfulScope.argMode_child,
    LawfulScope.mode_child, hm, ha, autoFn, M.bind_apply, this]
  cases hr : (dictF p o t ds []).1 with
  | error e => simp [Except.map, Except.bind]
  | ok v =>
    obtain ⟨kvs, rfl⟩ := dictF_is_dict p o t ds [] v hr
    simp [Except.map, Except.bind, M.pure_apply]

theorem interp_val_pure (p : Prims) (fuel : Nat) (v : V) :
    StepPure (σ := σ) (interp p (fuel + 1)) (.val v) (fun _ => (.ok v, [])) := by
  intro t sc st _ _
  exact ⟨setArgMode (child sc) false, by simp [interp, Spec.isSpecLike, glomit, M.pure_apply, Except.map]⟩

theorem interp_specW_pure (p : Prims) (fuel : Nat) (s : Spec) (f : V → Outcome)
    (h : StepPure (σ := σ) (interp p fuel) s f) :
    StepPure (σ := σ) (interp p (fuel + 1)) (.specW s []) f ∧
    StepPure (σ := σ) (interp p (fuel + 1)) (.auto s) f := by
  constructor
  · intro t sc st hm ha
    obtain ⟨c, hc⟩ := h t (setArgMode (child sc) false) st
      (by rw [LawfulScope.mode_setArgMode, LawfulScope.mode_child, hm]) (by rw [LawfulScope.argMode_setArgMode])
    refine ⟨setArgMode (child sc) false, ?_⟩
    simp only [interp, Spec.isSpecLike, if_true, glomit, List.foldl_nil, M.bind_apply, hc]
    cases (f t).1 <;> rfl
  · intro t sc st hm ha
    obtain ⟨c, hc⟩ := h t (setMode (setArgMode (child sc) false) .auto) st
      (by rw [LawfulScope.mode_setMode]) (by rw [LawfulScope.argMode_setMode, LawfulScope.argMode_setArgMode])
    refine ⟨setMode (setArgMode (child sc) false) .auto, ?_⟩
    simp only [interp, Spec.isSpecLike, if_true, glomit, M.bind_apply, hc]
    cases (f t).1 <;> rfl

end

/-! ### the checker's side: `composeRef` over the same outcome functions -/

theorem chainC_eq (rec : List Nat → Spec → V → Option Outcome) (pos : List Nat) :
    ∀ (steps : List Spec) (fs : List (V → Outcome)) (i : Nat), steps.length = fs.length →
      (∀ k (hk : k < steps.length) (hj : k < fs.length) t, rec (pos ++ [i + k]) steps[k] t = some (fs[k] t)) →
      ∀ t, chainC rec pos i steps t = some (chainF fs t) := by
  intro steps
  induction steps with
  | nil => intro fs i hl _ t; cases fs <;> simp_all [chainC, chainF]
  | cons s rest ih =>
    intro fs i hl hall t
    cases fs with
    | nil => simp at hl
    | cons f frest =>
      have h0 := hall 0 (by simp) (by simp) t
      simp only [List.getElem_cons_zero, Nat.add_zero] at h0
      have hrest := ih frest (i + 1) (by simpa using hl) (by
        intro k hk hj t'
        have := hall (k + 1) (by simp; omega) (by simp; omega) t'
        simpa [Nat.add_assoc, Nat.add_comm 1 k] using this)
      simp only [chainC, h0, chainF]
      rcases hf : f t with ⟨r, l⟩
      cases r with
      | error e => rfl
      | ok v => cases v <;> simp [hrest]

theorem listC_eq (rec : List Nat → Spec → V → Option Outcome) (pos : List Nat) (sub : Spec) (f : V → Outcome)
    (h : ∀ t, rec (pos ++ [0]) sub t = some (f t)) :
    ∀ (items acc : List V), listC rec pos sub items acc = some (listF f items acc) := by
  intro items
  induction items with
  | nil => intro acc; rfl
  | cons x xs ih =>
    intro acc
    simp only [listC, h, listF]
    rcases hf : f x with ⟨r, l⟩
    cases r with
    | error e => rfl
    | ok v => cases v <;> simp [ih]

/-- what `ds[k]` says about the checker's view of entry `es[k]` (at index `i + k`) -/
def EntryC (rec : List Nat → Spec → V → Option Outcome) (pos : List Nat) (j : Nat) (e : Spec × Spec)
    (d : V × Option (V → Outcome) × (V → Outcome)) : Prop :=
  (∀ t, rec (pos ++ [j, 1]) e.2 t = some (d.2.2 t)) ∧
  (match d.2.1 with
   | some g => e.1.isComputedKey = true ∧ ∀ t, rec (pos ++ [j, 0]) e.1 t = some (g t)
   | Option.none => e.1.isComputedKey = false ∧ reify e.1 = some d.1)

theorem dictC_eq (p : Prims) (rec : List Nat → Spec → V → Option Outcome) (pos : List Nat) (o : Bool) (t : V) :
    ∀ (es : List (Spec × Spec)) (ds : List (V × Option (V → Outcome) × (V → Outcome))) (i : Nat),
      es.length = ds.length →
      (∀ k (hk : k < es.length) (hj : k < ds.length), EntryC rec pos (i + k) es[k] ds[k]) →
      ∀ acc, dictC p rec pos o t i es acc = some (dictF p o t ds acc) := by
  intro es
  induction es with
  | nil => intro ds i hl _ acc; cases ds <;> simp_all [dictC, dictF]
  | cons e rest ih =>
    obtain ⟨field, sub⟩ := e
    intro ds i hl hall acc
    cases ds with
    | nil => simp at hl
    | cons d drest =>
      obtain ⟨k, kf, f⟩ := d
      have h0 := hall 0 (by simp) (by simp)
      simp only [List.getElem_cons_zero, Nat.add_zero, EntryC] at h0
      obtain ⟨hv, hk⟩ := h0
      have hrest := ih drest (i + 1) (by simpa using hl) (by
        intro k' hk' hj
        have := hall (k' + 1) (by simp; omega) (by simp; omega)
        simpa [Nat.add_assoc, Nat.add_comm 1 k'] using this)
      simp only [dictC, hv, dictF]
      rcases hf : f t with ⟨r, l⟩
      cases r with
      | error e => rfl
      | ok v =>
        cases kf with
        | none =>
          simp only at hk
          obtain ⟨hck, hre⟩ := hk
          cases v <;> simp [hrest, hck, hre]
        | some g =>
          simp only at hk
          obtain ⟨hck, hg⟩ := hk
          rcases hgt : g t with ⟨r2, l2⟩
          cases r2 with
          | error e => cases v <;> simp [hrest, hck, hg, hgt]
          | ok k' =>
            by_cases hh : p.hashable k' = true <;> cases v <;> simp [hrest, hck, hg, hgt, hh]

end Glom.Interp
