import Glom.Lemmas.C11g
/-
  Helper lemmas for C11, part 8: one Assign object, overlapping evaluations (`assignAuxR`).
-/
namespace Glom.C11
open Glom Glom.Mut

theorem callFactory_calls (kind : String) (st : St) : (callFactory kind st).1.calls = st.calls + 1 := by
  simp only [callFactory]
  repeat' split
  all_goals rfl

/-- where the factory's side effect does nothing, the evaluation is the plain one: `P` holds of the
    state at the first factory call and is kept by factory calls -/
theorem assignAuxR_inactive (env : MEnv) (hook : St → St) (sref : Val) (kind : String) (P : St → Prop)
    (hP : ∀ st, P st → hook st = st) (hcf : ∀ st, P st → P (callFactory kind st).1) :
    ∀ (fuel : Nat) (sroot : Bool) (st : St) (target : Val) (orig : List Step) (vs : ValSpec), P st →
    assignAuxR env hook sroot sref kind fuel st target orig vs =
      assignAux env sroot sref (.factory kind) fuel st target orig vs := by
  intro fuel
  induction fuel with
  | zero => intro sroot st target orig vs _; rfl
  | succ f ih =>
    intro sroot st target orig vs hst
    simp only [assignAuxR, assignAux]
    cases hl : orig.getLast? with
    | none => rfl
    | some last =>
      obtain ⟨op, arg⟩ := last
      simp only
      split
      · rfl
      · have hfst := evalVal_fst env st target vs
        cases hv : evalVal env st target vs with
        | mk st1 r =>
          rw [hv] at hfst
          simp only at hfst
          subst hfst
          cases r with
          | error e => rfl
          | ok val =>
            simp only
            cases hf : fetch env st1.heap orig.dropLast 0 (if sroot = true then sref else target) with
            | ok nest => rfl
            | error e =>
              cases e with
              | pae k e' =>
                simp only
                rw [hP st1 hst]
                cases hcf' : callFactory kind st1 with
                | mk st2 r2 =>
                  cases r2 with
                  | error e2 => rfl
                  | ok fresh =>
                    simp only
                    have hst2 : P st2 := by have := hcf st1 hst; rw [hcf'] at this; exact this
                    rw [ih false st2 fresh (orig.drop (k + 1)) (.val val) hst2]
                    rfl
              | _ => rfl

/-- a factory without side effect: `assignAuxR` is `assignAux` -/
theorem assignAuxR_id (env : MEnv) (sroot : Bool) (sref : Val) (kind : String) (fuel : Nat) (st : St)
    (target : Val) (orig : List Step) (vs : ValSpec) :
    assignAuxR env id sroot sref kind fuel st target orig vs =
      assignAux env sroot sref (.factory kind) fuel st target orig vs :=
  assignAuxR_inactive env id sref kind (fun _ => True) (fun _ _ => rfl) (fun _ _ => trivial)
    fuel sroot st target orig vs trivial

/-- once the factory has been called more than `at_` times the re-entrant hook is spent -/
theorem assignAuxR_spent (env : MEnv) (at_ : Nat) (inner : St → St × Except MErr Val) (sroot : Bool)
    (sref : Val) (kind : String) (fuel : Nat) (st : St) (target : Val) (orig : List Step) (vs : ValSpec)
    (h : at_ < st.calls) :
    assignAuxR env (reenterHook at_ inner) sroot sref kind fuel st target orig vs =
      assignAux env sroot sref (.factory kind) fuel st target orig vs := by
  refine assignAuxR_inactive env _ sref kind (fun s => at_ < s.calls) ?_ ?_ fuel sroot st target orig vs h
  · intro s hs
    simp only [reenterHook]
    have : (s.calls == at_) = false := by simp; omega
    simp [this]
  · intro s hs
    show at_ < (callFactory kind s).1.calls
    rw [callFactory_calls]; omega

/-- **Re-entrancy is transparent**: an evaluation whose factory, at its first call, evaluates the same
    spec on another record (`inner`, leaving state `st'`) is the evaluation carried out alone from
    `st'` — provided the nested evaluation did not change what this evaluation had read before it
    called the factory (its value and the failing fetch of the parent; true when the two records
    share nothing).  In particular the value this evaluation assigns is the one IT evaluated (`val`),
    not the nested one's. -/
theorem assignAuxR_first (env : MEnv) (inner : St → St × Except MErr Val) (sroot : Bool) (sref : Val)
    (kind : String) (fuel : Nat) (st : St) (target : Val) (orig : List Step) (vs : ValSpec)
    (op : String) (arg val : Val) (k : Nat) (e : PyExc)
    (hl : orig.getLast? = some (op, arg)) (hfin : finalOk op = true)
    (hmono : st.calls ≤ (inner st).1.calls)
    (hv : evalVal env st target vs = (st, .ok val))
    (hv' : evalVal env (inner st).1 target vs = ((inner st).1, .ok val))
    (hf : fetch env st.heap orig.dropLast 0 (if sroot then sref else target) = .error (.pae k e))
    (hf' : fetch env (inner st).1.heap orig.dropLast 0 (if sroot then sref else target) = .error (.pae k e)) :
    assignAuxR env (reenterHook st.calls inner) sroot sref kind (fuel + 1) st target orig vs =
      assignAux env sroot sref (.factory kind) (fuel + 1) (inner st).1 target orig vs := by
  simp only [assignAuxR, assignAux, hl, hfin, hv, hv', hf, hf', Bool.not_true, Bool.false_eq_true, if_false]
  have hh : reenterHook st.calls inner st = (inner st).1 := by simp [reenterHook]
  rw [hh]
  cases hcf : callFactory kind (inner st).1 with
  | mk st1 r =>
    cases r with
    | error e' => rfl
    | ok fresh =>
      simp only
      have hc1 : st.calls < st1.calls := by
        have := callFactory_calls kind (inner st).1
        rw [hcf] at this
        simp only at this
        omega
      rw [assignAuxR_spent env st.calls inner false sref kind fuel st1 fresh (orig.drop (k + 1)) (.val val) hc1]
      rfl

/-- the factory-call counter never decreases -/
theorem assignAux_calls_mono (env : MEnv) (sroot : Bool) (sref : Val) (missing : Missing) (fuel : Nat)
    (st : St) (target : Val) (orig : List Step) (vs : ValSpec) :
    st.calls ≤ (assignAux env sroot sref missing fuel st target orig vs).1.calls := by
  rw [assignAux_from]
  simp [St.shift]

end Glom.C11
