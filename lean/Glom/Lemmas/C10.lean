import Glom.Spec.C10
/-
  Helper lemmas for C10/C09: consequences of the facts obligation `WF`, the
  refinement relation `Rel` between the code-shaped evaluator and the
  denotation, and the refinement itself (one mutual structural induction over
  spec trees, lists of children, Switch cases and dict entries).
-/
set_option linter.unusedSimpArgs false
set_option linter.unusedSectionVars false

namespace Glom.C10
open Glom Glom.MV

/-! ### consequences of `WF` -/

structure WFacts (env : Env) : Prop where
  raise_ok : ∀ s ∈ siteOrigins, classOK env s.2.2 (raiseAt env s.1 s.2.1).cls = true
  comb_ok : ∀ site ∈ combinatorSites, ∃ cs, env.raises.lookup site = some cs ∧
      ∀ c ∈ cs, c = "<reraise>" ∨ env.exc.isSub c "MatchError" = true
  catch_ok : ∀ s ∈ catchSites, (env.catches.lookup s.1).bind (·[s.2.1]?) = some [s.2.2]
  pae_ok : classOK env .access pae.cls = true
  plain_ok : ∀ c ∈ ["TypeError", "ValueError", "NameError", "IndexError", "KeyError",
      "UnboundLocalError", "AttributeError", "NotImplementedError"],
      env.exc.isSub c "GlomError" = false ∧ env.exc.isSub c "Exception" = true
  glom_exc : env.exc.isSub "GlomError" "Exception" = true
  m_ok : ∀ c ∈ ["_MType", "_MSubspec"], ∀ op ∈ allOps,
      env.mDispatch.lookup (opChar env c op) = some (opName op)
  m_nodup : (env.mDispatch.map (·.1)).Nodup
  ops_ok : env.boolOps = expectedBoolOps

theorem WF.facts {env : Env} (h : WF env = true) : WFacts env := by
  unfold WF at h
  simp only [Bool.and_eq_true, List.all_eq_true, decide_eq_true_eq, beq_iff_eq,
    Bool.not_eq_true'] at h
  obtain ⟨⟨⟨⟨⟨⟨⟨⟨⟨h1, h2⟩, h3⟩, h4⟩, h5⟩, h6⟩, h7⟩, h8⟩, _⟩, h10⟩ := h
  refine ⟨h1, ?_, h3, h4, ?_, h6, ?_, h8, h10⟩
  · intro site hs
    have := h2 site hs
    split at this
    · rename_i cs hcs
      rw [List.all_eq_true] at this
      exact ⟨cs, hcs, fun c hc => by simpa using this c hc⟩
    · simp at this
  · intro c hc; exact h5 c hc
  · intro c hc op hop; exact h7 c hc op hop

theorem catchesAt_of {env : Env} {site : String} {i : Nat} {b : String}
    (h : (env.catches.lookup site).bind (·[i]?) = some [b]) (e : PyExc) :
    catchesAt env site i e = env.exc.isSub e.cls b := by
  unfold catchesAt; rw [h]; simp

def isGlomE (env : Env) (e : PyExc) : Bool := env.exc.isSub e.cls "GlomError"

theorem classOK_glom {env : Env} {o : Origin} {c : String} (h : classOK env o c = true) :
    env.exc.isSub c "GlomError" = true := by
  unfold classOK at h; simp only [Bool.and_eq_true] at h; exact h.1


/-! ### the refinement relation -/

def RelRes (env : Env) : Res → Verdict → Prop
  | .ok a, .pass b => a = b
  | .error e, .reject o => classOK env o e.cls = true
  | .error e, .fault c => e.cls = c ∧ env.exc.isSub c "GlomError" = false
  | _, _ => False

/-- the code-shaped outcome carries what the denotation promises, and the same call log -/
def Rel (env : Env) (o : Out) (d : D) : Prop := RelRes env o.1 d.1 ∧ o.2 = d.2

theorem RelRes.elim {env : Env} {r : Res} {v : Verdict} (h : RelRes env r v) :
    (∃ a, r = .ok a ∧ v = .pass a) ∨
    (∃ e o, r = .error e ∧ v = .reject o ∧ classOK env o e.cls = true) ∨
    (∃ e, r = .error e ∧ v = .fault e.cls ∧ env.exc.isSub e.cls "GlomError" = false) := by
  cases r with
  | ok a => cases v <;> simp_all [RelRes]
  | error e =>
    cases v with
    | pass _ => simp [RelRes] at h
    | reject o => exact Or.inr (Or.inl ⟨e, o, rfl, rfl, h⟩)
    | fault c => simp only [RelRes] at h; obtain ⟨rfl, h2⟩ := h; exact Or.inr (Or.inr ⟨e, rfl, rfl, h2⟩)

theorem Rel.mk_ok {env : Env} (a : V) (l : Log) : Rel env (.ok a, l) (.pass a, l) := ⟨rfl, rfl⟩

theorem Rel.mk_rej {env : Env} {e : PyExc} {o : Origin} (l : Log) (h : classOK env o e.cls = true) :
    Rel env (.error e, l) (.reject o, l) := ⟨h, rfl⟩

theorem Rel.mk_fault {env : Env} {e : PyExc} (l : Log) (h : env.exc.isSub e.cls "GlomError" = false) :
    Rel env (.error e, l) (.fault e.cls, l) := ⟨⟨rfl, h⟩, rfl⟩

/-- case analysis on a related pair, exposing both sides as explicit pairs -/
theorem Rel.cases {env : Env} {o : Out} {d : D} (h : Rel env o d) :
    (∃ a l, o = (.ok a, l) ∧ d = (.pass a, l)) ∨
    (∃ e og l, o = (.error e, l) ∧ d = (.reject og, l) ∧ classOK env og e.cls = true) ∨
    (∃ e l, o = (.error e, l) ∧ d = (.fault e.cls, l) ∧ env.exc.isSub e.cls "GlomError" = false) := by
  obtain ⟨r, l⟩ := o
  obtain ⟨v, l'⟩ := d
  obtain ⟨h1, h2⟩ := h
  simp only at h1 h2
  subst h2
  rcases h1.elim with ⟨a, rfl, rfl⟩ | ⟨e, og, rfl, rfl, hc⟩ | ⟨e, rfl, rfl, hg⟩
  · exact Or.inl ⟨a, l, rfl, rfl⟩
  · exact Or.inr (Or.inl ⟨e, og, l, rfl, rfl, hc⟩)
  · exact Or.inr (Or.inr ⟨e, l, rfl, rfl, hg⟩)

section
variable {env : Env} (hw : WFacts env)
include hw

theorem raise_rel (site : String) (i : Nat) (o : Origin) (l : Log)
    (hm : (site, i, o) ∈ siteOrigins) :
    Rel env (.error (raiseAt env site i), l) (.reject o, l) :=
  Rel.mk_rej l (hw.raise_ok (site, i, o) hm)

theorem catch_glom (site : String) (hm : (site, 0, "GlomError") ∈ catchSites) (e : PyExc) :
    catchesAt env site 0 e = env.exc.isSub e.cls "GlomError" :=
  catchesAt_of (hw.catch_ok (site, 0, "GlomError") hm) e

theorem catch_exc (site : String) (hm : (site, 0, "Exception") ∈ catchSites) (e : PyExc) :
    catchesAt env site 0 e = env.exc.isSub e.cls "Exception" :=
  catchesAt_of (hw.catch_ok (site, 0, "Exception") hm) e

theorem tRes_rel (e : TExpr) (t : V) (k : V → D) (k' : V → Out)
    (hk : ∀ v, Rel env (k' v) (k v)) :
    Rel env (match tRes e t with | .ok v => k' v | .error x => (.error x, [])) (vaccess e t k) := by
  unfold tRes vaccess
  cases tGet e t with
  | none => exact Rel.mk_rej [] hw.pae_ok
  | some v => exact hk v

omit hw in
theorem argItems_eq (items : List ArgItem) (t : V) :
    argItems items t = (match ofItems items t with | some vs => .ok vs | none => .error pae) := by
  induction items with
  | nil => rfl
  | cons it r ih =>
    cases it with
    | const v =>
      simp only [argItems, ofItems, ih]
      cases ofItems r t <;> rfl
    | t e =>
      simp only [argItems, ofItems]
      cases tGet e t with
      | none => rfl
      | some v => simp only [Option.bind_some, ih]; cases ofItems r t <;> rfl

theorem argVal_rel (a : Arg) (t : V) (l : Log) : Rel env (argVal a t, l) (ofArg a t, l) := by
  cases a with
  | const v => exact Rel.mk_ok v l
  | val v => exact Rel.mk_ok v l
  | t e =>
    simp only [argVal, ofArg, tRes]
    cases tGet e t with
    | none => exact Rel.mk_rej l hw.pae_ok
    | some v => exact Rel.mk_ok v l
  | seq tup items =>
    simp only [argVal, ofArg, argItems_eq]
    cases ofItems items t with
    | none => exact Rel.mk_rej l hw.pae_ok
    | some vs => exact Rel.mk_ok _ l

/-- `_Bool.glomit` / `Match.glomit`: a rejection becomes the default, nothing else changes -/
theorem default_rel (site : String) (hm : (site, 0, "GlomError") ∈ catchSites)
    (dflt : Option Arg) (t : V) {o : Out} {d : D} (h : Rel env o d) :
    Rel env
      (match o.1 with
       | .ok _ => o
       | .error e =>
         if catchesAt env site 0 e then
           (match dflt with | some a => (argVal a t, o.2) | none => o)
         else o)
      (withDefault dflt t d) := by
  rcases h.cases with ⟨a, l, rfl, rfl⟩ | ⟨e, og, l, rfl, rfl, hc⟩ | ⟨e, l, rfl, rfl, hg⟩
  · cases dflt <;> exact Rel.mk_ok a l
  · simp only [catch_glom hw site hm, classOK_glom hc, if_true, withDefault]
    cases dflt with
    | none => exact Rel.mk_rej l hc
    | some a => exact argVal_rel hw a t l
  · simp only [catch_glom hw site hm, hg, withDefault]
    cases dflt <;> exact Rel.mk_fault l hg


/-! ### M comparisons -/

omit hw in
theorem cmpOfName_opName (op : CmpOp) : cmpOfName (opName op) = some op := by
  cases op <;> decide

omit hw in
theorem mMatched_not_mem (disp : List (String × String)) (ch : String) (l r : V)
    (h : ch ∉ disp.map (·.1)) : mMatched disp ch l r = some false := by
  induction disp with
  | nil => rfl
  | cons p rest ih =>
    obtain ⟨c, o⟩ := p
    simp only [List.map_cons, List.mem_cons, not_or] at h
    unfold mMatched
    rw [if_neg (by simpa using h.1)]
    exact ih h.2

omit hw in
theorem mMatched_eq (disp : List (String × String)) (hn : (disp.map (·.1)).Nodup) (ch : String)
    (op : CmpOp) (hl : disp.lookup ch = some (opName op)) (l r : V) :
    mMatched disp ch l r = pyCmp op l r := by
  induction disp with
  | nil => simp [List.lookup] at hl
  | cons p rest ih =>
    obtain ⟨c, o⟩ := p
    simp only [List.map_cons, List.nodup_cons] at hn
    unfold mMatched
    by_cases hc : ch = c
    · subst hc
      simp only [List.lookup, beq_self_eq_true] at hl
      injection hl with hl; subst hl
      rw [if_pos (by simp), cmpOfName_opName]
      simp only [Option.bind_some]
      have := mMatched_not_mem rest ch l r hn.1
      cases hp : pyCmp op l r with
      | none => rfl
      | some b => cases b <;> simp [this]
    · have hne : (ch == c) = false := by simpa using hc
      simp only [List.lookup, hne] at hl
      rw [if_neg (by simpa using hc)]
      exact ih hn.2 hl

theorem mexpr_rel (l : MSide) (op : CmpOp) (r : Side) (t : V) :
    Rel env (mexprGlomit env l op r t, []) (denote env.cls (.mexpr l op r) t) := by
  have hcls : l.cls ∈ ["_MType", "_MSubspec"] := by cases l <;> simp [MSide.cls]
  have hop : op ∈ allOps := by cases op <;> simp [allOps]
  have hm := fun lv rv => mMatched_eq env.mDispatch hw.m_nodup _ op (hw.m_ok l.cls hcls op hop) lv rv
  have core : ∀ lv rv, Rel env
      (match mMatched env.mDispatch (opChar env l.cls op) lv rv with
        | none => (Except.error ⟨"TypeError"⟩ : Res)
        | some true => .ok t
        | some false => .error (raiseAt env "_MExpr.glomit" 0), [])
      (match pyCmp op lv rv with
        | some b => vcond b t
        | none => (.fault "TypeError", [])) := by
    intro lv rv
    rw [hm]
    cases pyCmp op lv rv with
    | none => exact Rel.mk_fault (e := ⟨"TypeError"⟩) [] (hw.plain_ok "TypeError" (by simp)).1
    | some b =>
      cases b
      · exact raise_rel hw "_MExpr.glomit" 0 .comb [] (by simp [siteOrigins])
      · exact Rel.mk_ok t []
  unfold mexprGlomit
  simp only [denote]
  have side : ∀ lv, Rel env
      (match r.val t with
        | .error e => (Except.error e : Res)
        | .ok rv =>
          match mMatched env.mDispatch (opChar env l.cls op) lv rv with
          | none => .error ⟨"TypeError"⟩
          | some true => .ok t
          | some false => .error (raiseAt env "_MExpr.glomit" 0), [])
      (sideRef r t (fun rv => match pyCmp op lv rv with
        | some b => vcond b t
        | none => (.fault "TypeError", []))) := by
    intro lv
    cases r with
    | m => exact core lv t
    | const v => exact core lv v
    | sub e =>
      simp only [Side.val, sideRef, tRes, vaccess]
      cases tGet e t with
      | none => exact Rel.mk_rej [] hw.pae_ok
      | some v => exact core lv v
  cases l with
  | m => exact side t
  | sub e =>
    simp only [MSide.val, msideRef, tRes, vaccess]
    cases tGet e t with
    | none => exact Rel.mk_rej [] hw.pae_ok
    | some v => exact side v


/-! ### user callables and Check -/

omit hw in
theorem posRes_raise {x : V} {c : String} (h : posRes x = .raise c) : c = "TypeError" := by
  unfold posRes at h
  split at h
  · contradiction
  · injection h with h; exact h.symm

omit hw in
theorem nthPos_raise {i : Nat} {x : V} {c : String} (h : nthPos i x = .raise c) :
    c ∈ ["TypeError", "IndexError", "KeyError"] := by
  unfold nthPos at h
  repeat (first
    | (split at h)
    | (have := posRes_raise h; subst this; simp)
    | (injection h with h; subst h; simp)
    | contradiction)

omit hw in
theorem lenLt3_raise {x : V} {c : String} (h : lenLt3 x = .raise c) : c = "TypeError" := by
  unfold lenLt3 at h
  split at h
  · contradiction
  · injection h with h; exact h.symm

omit hw in
theorem lookup_mem {α β} [BEq α] [LawfulBEq α] {l : List (α × β)} {a : α} {b : β}
    (h : l.lookup a = some b) : (a, b) ∈ l := by
  induction l with
  | nil => simp [List.lookup] at h
  | cons p rest ih =>
    obtain ⟨k, v⟩ := p
    simp only [List.lookup] at h
    split at h
    · rename_i heq
      injection h with h; subst h
      have : a = k := by simpa using heq
      subst this; exact List.mem_cons_self
    · exact List.mem_cons_of_mem _ (ih h)

omit hw in
theorem predApply_raise {fn : String} {x : V} {c : String} (h : predApply fn x = .raise c) :
    c ∈ ["TypeError", "ValueError", "GlomError", "NameError", "IndexError", "KeyError"] := by
  unfold predApply at h
  split at h
  · rename_i f hf
    have hm := lookup_mem hf
    simp only [predTable, List.mem_cons, Prod.mk.injEq, List.not_mem_nil, or_false] at hm
    rcases hm with ⟨_, rfl⟩ | ⟨_, rfl⟩ | ⟨_, rfl⟩ | ⟨_, rfl⟩ | ⟨_, rfl⟩ | ⟨_, rfl⟩ | ⟨_, rfl⟩ | ⟨_, rfl⟩ |
      ⟨_, rfl⟩ | ⟨_, rfl⟩ | ⟨_, rfl⟩ | ⟨_, rfl⟩ | ⟨_, rfl⟩ | ⟨_, rfl⟩ | ⟨_, rfl⟩ | ⟨_, rfl⟩ | ⟨_, rfl⟩
    all_goals first
      | (have := nthPos_raise h; simp at this; rcases this with rfl | rfl | rfl <;> simp)
      | (have := posRes_raise h; subst this; simp)
      | (have := lenLt3_raise h; subst this; simp)
      | (injection h with h; subst h; simp)
      | (simp at h)
  · injection h with h; subst h; simp

theorem pred_is_exc {fn : String} {x : V} {c : String} (h : predApply fn x = .raise c) :
    env.exc.isSub c "Exception" = true := by
  have := predApply_raise h
  simp only [List.mem_cons, List.not_mem_nil, or_false] at this
  rcases this with rfl | rfl | rfl | rfl | rfl | rfl
  · exact (hw.plain_ok "TypeError" (by simp)).2
  · exact (hw.plain_ok "ValueError" (by simp)).2
  · exact hw.glom_exc
  · exact (hw.plain_ok "NameError" (by simp)).2
  · exact (hw.plain_ok "IndexError" (by simp)).2
  · exact (hw.plain_ok "KeyError" (by simp)).2

/-- the tail of `runValidators` after validator `f`, adding `k` error messages -/
def bump (env : Env) (hd : Bool) (f : Fn) (fs : List Fn) (x : V) (k : Nat) : ValidRes × Log :=
  addErrs k (fnLog f) (runValidators env hd fs x)

theorem runValidators_cons (hd : Bool) (f : Fn) (fs : List Fn) (x : V) :
    runValidators env hd (f :: fs) x =
      match validatorCond f x with
      | .holds => bump env hd f fs x 0
      | .fails => if hd then (.useDefault, fnLog f) else bump env hd f fs x 1 := by
  unfold validatorCond bump
  conv => lhs; unfold runValidators
  cases hp : predApply f.2 x with
  | ret v =>
    cases v with
    | bool b => cases b <;> rfl
    | _ => rfl
  | raise c =>
    simp only [catch_exc hw "Check.glomit" (by simp [catchSites]), pred_is_exc hw hp, if_true]

/-- without a default the loop never returns early: it counts the unmet validators -/
theorem runValidators_none (fs : List Fn) (x : V) :
    runValidators env false fs x =
      (.errs (fs.filter (fun f => validatorCond f x != .holds)).length, fs.flatMap fnLog) := by
  induction fs with
  | nil => rfl
  | cons f fs ih =>
    rw [runValidators_cons hw]
    cases hc : validatorCond f x <;> simp [bump, addErrs, ih, hc]

omit hw in
theorem cwd_holds (a : Arg) (x t0 : V) (l : Log) (rest : List (Cond × Log)) :
    checkWithDefault a x t0 ((.holds, l) :: rest) =
      ((checkWithDefault a x t0 rest).1, l ++ (checkWithDefault a x t0 rest).2) := by
  rw [checkWithDefault]

/-- with a default: the loop either ends at the first validator that returned False or raised
    (the default is evaluated), or finishes with nothing to report -/
theorem runValidators_some (a : Arg) (x t0 : V) (rest : List (Cond × Log)) (fs : List Fn) :
    match runValidators env true fs x with
    | (.useDefault, l) =>
      checkWithDefault a x t0 (fs.map (fun f => (validatorCond f x, fnLog f)) ++ rest) = (ofArg a x, l)
    | (.raise _, _) => False
    | (.errs n, l) =>
      n = 0 ∧
      checkWithDefault a x t0 (fs.map (fun f => (validatorCond f x, fnLog f)) ++ rest) =
        ((checkWithDefault a x t0 rest).1, l ++ (checkWithDefault a x t0 rest).2) := by
  induction fs with
  | nil => simp [runValidators]
  | cons f fs ih =>
    rw [runValidators_cons hw]
    simp only [List.map_cons, List.cons_append]
    cases hc : validatorCond f x with
    | fails => simp [checkWithDefault]
    | holds =>
      simp only [bump, addErrs]
      rw [checkWithDefault]
      cases hr : runValidators env true fs x with
      | mk vr l =>
        rw [hr] at ih
        cases vr with
        | useDefault => simp only at ih ⊢; rw [ih]
        | raise e => simp only at ih
        | errs n =>
          simp only at ih ⊢
          obtain ⟨hn, ih⟩ := ih
          subst hn
          rw [ih]; simp [List.append_assoc]

omit hw in
theorem all_holds_eq (fs : List Fn) (x : V) :
    (fs.all fun f => validatorCond f x == Cond.holds) =
      ((fs.filter fun f => validatorCond f x != Cond.holds).length == 0) := by
  induction fs with
  | nil => rfl
  | cons f fs ih =>
    simp only [List.all_cons, List.filter_cons, ih]
    cases validatorCond f x <;> simp

omit hw in
theorem cwd_opt (a : Arg) (x t0 : V) (absent ok : Bool) (rest : List (Cond × Log)) :
    checkWithDefault a x t0
      ((if absent then [] else [((if ok then Cond.holds else Cond.fails), ([] : Log))]) ++ rest) =
    if !absent && !ok then (ofArg a x, []) else checkWithDefault a x t0 rest := by
  cases absent <;> cases ok <;> simp [checkWithDefault]

omit hw in
theorem cwd_nil (a : Arg) (x t0 : V) : checkWithDefault a x t0 [] = vpass t0 := by
  rw [checkWithDefault]

theorem checkOn_rel (o : CheckObj) (x t0 : V) :
    Rel env (checkOn env o x t0)
      (match o.default with
       | some d => checkWithDefault d x t0 (checkConds env.cls o x)
       | none => checkNoDefault t0 (checkConds env.cls o x)) := by
  unfold checkOn checkConds
  cases hd : o.default with
  | none =>
    simp only [Option.isSome_none, Bool.and_false, Bool.false_eq_true, if_false, runValidators_none hw]
    unfold checkNoDefault
    simp only [List.all_append, List.flatMap_append, List.all_map, List.flatMap_map]
    generalize o.types.isEmpty = e1
    generalize o.types.contains x.cls = k1
    generalize o.vals.isEmpty = e2
    generalize pyIn x o.vals = k2
    generalize o.instanceOf.isEmpty = e3
    generalize (o.instanceOf.any fun c => isInst env.cls x c) = k3
    have hlog : ∀ (b : Bool) (c : Cond),
        List.flatMap (fun (p : Cond × Log) => p.2) (if b then [] else [(c, ([] : Log))]) = [] := by
      intro b c; cases b <;> simp
    have hfl : List.flatMap (fun f => fnLog f) o.validators = List.flatMap fnLog o.validators := rfl
    simp only [hlog, List.nil_append, List.append_nil]
    have hall : (o.validators.all fun f => validatorCond f x == Cond.holds) =
        ((o.validators.filter fun f => validatorCond f x != Cond.holds).length == 0) := by
      induction o.validators with
      | nil => rfl
      | cons f fs ih =>
        simp only [List.all_cons, List.filter_cons, ih]
        cases validatorCond f x <;> simp
    simp only [Function.comp_def, hall]
    generalize (o.validators.filter fun f => validatorCond f x != Cond.holds).length = n
    have hraise := raise_rel hw "Check.glomit" 1 .check (List.flatMap fnLog o.validators)
      (by simp [siteOrigins])
    cases e1 <;> cases k1 <;> cases e2 <;> cases k2 <;> cases e3 <;> cases k3 <;>
      cases n <;> first
        | exact Rel.mk_ok _ _
        | (simp; exact hraise)
        | (simp; exact Rel.mk_ok _ _)
  | some a =>
    simp only [Option.isSome_some, Bool.and_true, Option.getD_some]
    rw [List.append_assoc, List.append_assoc, cwd_opt]
    by_cases h1 : (!o.types.isEmpty && !o.types.contains x.cls) = true
    · simp only [h1, ↓reduceIte]; exact argVal_rel hw a x []
    · simp only [h1, ↓reduceIte]
      rw [cwd_opt]
      by_cases h2 : (!o.vals.isEmpty && !pyIn x o.vals) = true
      · simp only [h2, ↓reduceIte]; exact argVal_rel hw a x []
      · simp only [h2, ↓reduceIte]
        have hv := runValidators_some hw a x t0
          (if o.instanceOf.isEmpty then []
            else [(if o.instanceOf.any fun c => isInst env.cls x c then Cond.holds else Cond.fails, [])])
          o.validators
        cases hr : runValidators env true o.validators x with
        | mk vr l =>
          rw [hr] at hv
          cases vr with
          | useDefault => simp only at hv ⊢; rw [hv]; exact argVal_rel hw a x l
          | raise e => exact absurd hv (by simp)
          | errs n =>
            simp only at hv ⊢
            obtain ⟨hn, hv⟩ := hv
            subst hn
            rw [hv]
            have := cwd_opt a x t0 o.instanceOf.isEmpty
              (o.instanceOf.any fun c => isInst env.cls x c) []
            rw [List.append_nil] at this
            rw [this]
            by_cases h3 : (!o.instanceOf.isEmpty && !o.instanceOf.any fun c => isInst env.cls x c) = true
            · simp only [h3, ↓reduceIte, List.append_nil]
              exact argVal_rel hw a x l
            · simp only [h3, ↓reduceIte]
              rw [cwd_nil]
              simp only [Bool.not_eq_true] at h1 h2 h3
              simp only [h1, h2, h3, Bool.false_eq_true, if_false, Nat.zero_add, Nat.add_zero,
                Nat.lt_irrefl, gt_iff_lt, vpass, List.append_nil]
              exact Rel.mk_ok t0 l

/-- with a default, the validator loop ends in "use the default" exactly when some validator
    returns False or raises -/
theorem runValidators_true (fs : List Fn) (x : V) :
    (runValidators env true fs x).1 =
      if fs.all (fun f => validatorCond f x == .holds) then .errs 0 else .useDefault := by
  induction fs with
  | nil => rfl
  | cons f fs ih =>
    rw [runValidators_cons hw]
    cases hc : validatorCond f x with
    | fails => simp [hc]
    | holds =>
      simp only [bump, addErrs, ih, List.all_cons, hc, beq_self_eq_true, Bool.true_and]
      cases (fs.all fun f => validatorCond f x == Cond.holds) <;> simp

/-- **Check with a default, as an equation**: the target when every condition holds on the
    subject, `arg_val(default)` against the subject otherwise -/
theorem checkOn_default_eq (o : CheckObj) (x t0 : V) (a : Arg) (hd : o.default = some a) :
    (checkOn env o x t0).1 = if allHold env.cls o x then .ok t0 else argVal a x := by
  unfold checkOn allHold
  simp only [hd, Option.isSome_some, Bool.and_true, Option.getD_some]
  have hv := runValidators_true hw o.validators x
  generalize o.types.isEmpty = e1
  generalize o.types.contains x.cls = k1
  generalize o.vals.isEmpty = e2
  generalize pyIn x o.vals = k2
  generalize o.instanceOf.isEmpty = e3
  generalize (o.instanceOf.any fun c => isInst env.cls x c) = k3
  cases hall : (o.validators.all fun f => validatorCond f x == Cond.holds) <;>
    rw [hall] at hv <;> simp only [Bool.false_eq_true, if_false, if_true] at hv <;>
    cases e1 <;> cases k1 <;> cases e2 <;> cases k2 <;> cases e3 <;> cases k3 <;> simp [hv]

omit hw in
/-- the Check described by the documentation of the arguments is the one `Check.__init__` builds,
    and the same argument errors are raised -/
theorem checkObjRef_eq (a : CheckArgs) :
    checkObjRef a = (match checkInit a with | .ok o => .ok o | .error e => .error e.cls) := by
  obtain ⟨sp, ty, io, eq, oo, va, df⟩ := a
  unfold checkObjRef checkArgErrors checkInit
  rcases io with _ | (_ | (_ | ⟨_, _⟩)) <;> rcases ty with _ | (_ | (_ | ⟨_, _⟩)) <;>
    rcases eq with _ | _ <;> rcases oo with _ | (_ | ⟨_, _⟩) <;> rcases va with _ | _ <;>
    simp [omEmpty, omList, OneOrMany.toList]

theorem checkGlomit_rel (a : CheckArgs) (o : CheckObj) (ho : checkInit a = .ok o) (t0 : V) :
    Rel env (checkGlomit env o t0) (checkRef env.cls a t0) := by
  unfold checkGlomit checkRef
  rw [checkObjRef_eq, ho]
  simp only
  cases o.spec with
  | none => exact checkOn_rel hw o t0 t0
  | some e =>
    simp only [tRes, vaccess]
    cases tGet e t0 with
    | none => exact Rel.mk_rej [] hw.pae_ok
    | some x => exact checkOn_rel hw o x t0


/-! ### loops over the target -/

/-- one item against the alternatives -/
def AltRel (env : Env) (specEmpty : Bool) (a : AltRes × Log) (last : Option PyExc) (d : D) : Prop :=
  a.2 = d.2 ∧
  match a.1, d.1 with
  | .hit v _, .pass v' => v = v'
  | .miss last', .reject o =>
    (specEmpty = true ∧ o = .comb ∧ last' = last) ∨
    (specEmpty = false ∧ ∃ e, last' = some e ∧ classOK env o e.cls = true)
  | .raise e, .fault c => e.cls = c ∧ env.exc.isSub c "GlomError" = false
  | _, _ => False

def ItemsRel (env : Env) (a : Except PyExc (List V) × Log) (b : Except Verdict (List V) × Log) : Prop :=
  a.2 = b.2 ∧
  match a.1, b.1 with
  | .ok vs, .ok vs' => vs = vs'
  | .error e, .error v => RelRes env (.error e) v
  | _, _ => False

theorem itemsLoop_rel (specEmpty : Bool) (alts : V → Option PyExc → AltRes × Log) (dalt : V → D)
    (h : ∀ item last, AltRel env specEmpty (alts item last) last (dalt item))
    (items : List V) (last : Option PyExc) :
    ItemsRel env (itemsLoop env specEmpty alts items last) (allItems dalt items) := by
  induction items generalizing last with
  | nil => exact ⟨rfl, rfl⟩
  | cons it its ih =>
    have ha := h it last
    unfold itemsLoop allItems
    obtain ⟨hl, hm⟩ := ha
    cases hr : alts it last with
    | mk ar al =>
      cases hd : dalt it with
      | mk dv dl =>
        rw [hr, hd] at hl hm
        simp only at hl hm
        subst hl
        cases ar with
        | hit v last' =>
          cases dv with
          | pass v' =>
            simp only at hm; subst hm
            have := ih last'
            obtain ⟨h1, h2⟩ := this
            refine ⟨by simp [h1], ?_⟩
            simp only
            cases hx : (itemsLoop env specEmpty alts its last').1 <;>
              cases hy : (allItems dalt its).1 <;> rw [hx, hy] at h2 <;> simp_all [Except.map]
          | _ => simp at hm
        | miss last' =>
          cases dv with
          | reject o =>
            simp only at hm
            rcases hm with ⟨he, ho, _⟩ | ⟨he, e, hl', hc⟩
            · subst he ho
              exact ⟨rfl, hw.raise_ok ("_glom_match/listlike", 1, .comb) (by simp [siteOrigins])⟩
            · subst he hl'
              exact ⟨rfl, hc⟩
          | _ => simp at hm
        | raise e =>
          cases dv with
          | fault c => exact ⟨rfl, hm⟩
          | _ => simp at hm

theorem mkSet_rel (frozen : Bool) (xs : List V) : RelRes env (mkSetLike frozen xs) (mkSetRef frozen xs) := by
  unfold mkSetLike mkSetRef
  split
  · rfl
  · exact ⟨rfl, (hw.plain_ok "TypeError" (by simp)).1⟩

omit hw in
theorem finish_map_rel {a : Except PyExc (List V) × Log} {b : Except Verdict (List V) × Log}
    (h : ItemsRel env a b) (mk : List V → V) :
    Rel env (a.1.map mk, a.2) (finish (fun vs => .pass (mk vs)) b) := by
  obtain ⟨h1, h2⟩ := h
  obtain ⟨ar, al⟩ := a
  obtain ⟨br, bl⟩ := b
  simp only at h1 h2; subst h1
  unfold finish
  cases ar <;> cases br <;> simp_all [Except.map, Rel, RelRes]

omit hw in
theorem finish_bind_rel {a : Except PyExc (List V) × Log} {b : Except Verdict (List V) × Log}
    (h : ItemsRel env a b) (mk : List V → Res) (mk' : List V → Verdict)
    (hmk : ∀ xs, RelRes env (mk xs) (mk' xs)) :
    Rel env (a.1.bind mk, a.2) (finish mk' b) := by
  obtain ⟨h1, h2⟩ := h
  obtain ⟨ar, al⟩ := a
  obtain ⟨br, bl⟩ := b
  simp only at h1 h2; subst h1
  unfold finish
  cases ar <;> cases br <;> simp_all [Except.bind, Rel, RelRes]

/-- one target entry against the spec keys -/
def FindRel (env : Env) (a : FindRes × Log) (b : KeyHit × Log) : Prop :=
  a.2 = b.2 ∧
  match a.1, b.1 with
  | .hit i k v, .hit i' k' v' => i = i' ∧ k = k' ∧ v = v'
  | .miss, .noKey => True
  | .raise e, .stop v => RelRes env (.error e) v
  | _, _ => False

theorem dictLoop_rel (find : V → V → FindRes × Log) (find' : V → V → KeyHit × Log)
    (h : ∀ k v, FindRel env (find k v) (find' k v)) (req0 : List Nat)
    (items result : List (V × V)) (required seen : List Nat)
    (hreq : required = req0.filter (fun i => !seen.contains i)) :
    (dictLoop env find items result required).2 = (dictRef find' items result seen).2 ∧
    match (dictLoop env find items result required).1, (dictRef find' items result seen).1 with
    | .ok (res, req), .ok (res', seen') =>
      res = res' ∧ req = req0.filter (fun i => !seen'.contains i)
    | .error e, .error v => RelRes env (.error e) v
    | _, _ => False := by
  induction items generalizing result required seen with
  | nil => exact ⟨rfl, rfl, hreq⟩
  | cons kv rest ih =>
    obtain ⟨k, v⟩ := kv
    have hf := h k v
    unfold dictLoop dictRef
    obtain ⟨hl, hm⟩ := hf
    cases hr : find k v with
    | mk fr fl =>
      cases hd : find' k v with
      | mk dr dl =>
        rw [hr, hd] at hl hm
        simp only at hl hm
        subst hl
        cases fr with
        | hit i k' v' =>
          cases dr with
          | hit i' k'' v'' =>
            simp only at hm
            obtain ⟨rfl, rfl, rfl⟩ := hm
            have := ih (dictSet result k' v') (listRemove required i) (i :: seen) (by
              subst hreq
              simp only [listRemove, List.filter_filter]
              congr 1; funext j
              by_cases hj : j = i <;> simp [hj, Bool.and_comm])
            simp only
            exact ⟨by rw [this.1], this.2⟩
          | _ => simp at hm
        | miss =>
          cases dr with
          | noKey =>
            exact ⟨rfl, hw.raise_ok ("_handle_dict", 1, .comb) (by simp [siteOrigins])⟩
          | _ => simp at hm
        | raise e =>
          cases dr with
          | stop x => exact ⟨rfl, hm⟩
          | _ => simp at hm

omit hw in
/-- relation between the two default-filling loops -/
def FillRel (env : Env) (a : Except PyExc (List (V × V))) (b : Except Verdict (List (V × V))) : Prop :=
  match a, b with
  | .ok x, .ok y => x = y
  | .error e, .error v => RelRes env (.error e) v
  | _, _ => False

theorem fillDefaults_rel (target : V) (ds : List (V × Arg)) (result : List (V × V)) :
    FillRel env (fillDefaults target ds result) (defaultsRef target ds result) := by
  induction ds generalizing result with
  | nil => simp [fillDefaults, defaultsRef, FillRel]
  | cons kd ds ih =>
    obtain ⟨k, d⟩ := kd
    unfold fillDefaults defaultsRef
    by_cases hk : dictHas result k = true
    · simp only [hk, if_true]; exact ih result
    · simp only [hk, Bool.false_eq_true, if_false]
      have := (argVal_rel hw d target []).1
      simp only at this
      rcases this.elim with ⟨a, ha, ho⟩ | ⟨e, o, ha, ho, hc⟩ | ⟨e, ha, ho, hg⟩
      · rw [ha, ho]; exact ih _
      · rw [ha, ho]; exact hc
      · rw [ha, ho]; exact ⟨rfl, hg⟩

/-! ### required keys -/

omit hw in
theorem filter_isEmpty_eq_all (l seen : List Nat) :
    (l.filter (fun i => !seen.contains i)).isEmpty = l.all (fun i => seen.contains i) := by
  induction l with
  | nil => rfl
  | cons a l ih =>
    simp only [List.filter_cons, List.all_cons]
    cases h : seen.contains a
    · simp
    · simpa using ih

end

mutual
theorem isEqKey_prec : ∀ s : Spec, isEqKey s = true → precedence s = 0
  | .lit _, _ => by simp [precedence]
  | .tuple ps, h => by
      simp only [isEqKey] at h
      simp only [precedence]; exact isEqKeyL_prec ps h
  | .fset ps, h => by
      simp only [isEqKey] at h
      simp only [precedence]; exact isEqKeyL_prec ps h
  | .t _, h | .val _, h | .mtype, h | .msub _, h | .mexpr .., h | .and .., h | .or .., h | .not _, h
  | .switch .., h | .check _, h | .regex .., h | .matchS .., h | .ty _, h | .pred .., h | .list _, h
  | .set _, h | .dict _, h => by simp [isEqKey] at h
theorem isEqKeyL_prec : ∀ ps : List Spec, isEqKeyL ps = true → precedenceL ps = 0
  | [], _ => by simp [precedenceL]
  | p :: ps, h => by
      simp only [isEqKeyL, Bool.and_eq_true] at h
      simp [precedenceL, isEqKey_prec p h.1, isEqKeyL_prec ps h.2]
end

mutual
theorem prec_zero_iff : ∀ s : Spec, hashableSpec s = true → (precedence s == 0) = isEqKey s
  | .lit _, _ => by simp [precedence, isEqKey]
  | .tuple ps, h => by
      simp only [hashableSpec] at h
      simp only [precedence, isEqKey]; exact precL_zero_iff ps h
  | .fset ps, h => by
      simp only [hashableSpec] at h
      simp only [precedence, isEqKey]; exact precL_zero_iff ps h
  | .ty _, _ => by simp [precedence, isEqKey]
  | .list _, h | .set _, h | .dict _, h | .mtype, h | .msub _, h => by simp [hashableSpec] at h
  | .t _, _ | .val _, _ | .mexpr .., _ | .and .., _ | .or .., _ | .not _, _
  | .switch .., _ | .check _, _ | .regex .., _ | .matchS .., _ | .pred .., _ => by
      simp [precedence, isEqKey]
theorem precL_zero_iff : ∀ ps : List Spec, hashableSpecL ps = true → (precedenceL ps == 0) = isEqKeyL ps
  | [], _ => by simp [precedenceL, isEqKeyL]
  | p :: ps, h => by
      simp only [hashableSpecL, Bool.and_eq_true] at h
      have h1 := prec_zero_iff p h.1
      have h2 := precL_zero_iff ps h.2
      simp only [precedenceL, isEqKeyL, ← h1, ← h2]
      cases hp : precedence p <;> cases hq : precedenceL ps <;> simp
end

/-- keys of a dict pattern that Python could build are hashable -/
def keysHashable : List (KeyKind × Spec × Spec) → Bool
  | [] => true
  | (_, k, _) :: r => hashableSpec k && keysHashable r

theorem required_eq (es : List (KeyKind × Spec × Spec)) (i : Nat) (h : keysHashable es = true) :
    requiredIdx es i = requiredRef es i := by
  induction es generalizing i with
  | nil => rfl
  | cons e es ih =>
    obtain ⟨kind, k, v⟩ := e
    simp only [keysHashable, Bool.and_eq_true] at h
    simp only [requiredIdx, requiredRef, ih (i + 1) h.2]
    congr 1
    cases kind with
    | plain => simp only [prec_zero_iff k h.1]
    | opt d => rfl
    | req => rfl

/-! ### constructor errors, piecewise -/

theorem orElse_none {α} {a : Option α} {b : Unit → Option α} (h : a.orElse b = none) :
    a = none ∧ b () = none := by
  cases a <;> simp_all [Option.orElse]

theorem ctorErr_and {cs : List Spec} {d : Option Arg} (h : ctorErr (.and cs d) = none) :
    ctorErrL cs = none ∧ cs ≠ [] := by
  simp only [ctorErr] at h
  obtain ⟨h1, h2⟩ := orElse_none h
  refine ⟨h1, ?_⟩
  intro he; subst he; simp at h2

theorem ctorErr_or {cs : List Spec} {d : Option Arg} (h : ctorErr (.or cs d) = none) :
    ctorErrL cs = none ∧ cs ≠ [] := by
  simp only [ctorErr] at h
  obtain ⟨h1, h2⟩ := orElse_none h
  refine ⟨h1, ?_⟩
  intro he; subst he; simp at h2

theorem ctorErr_switch {cases : List (Spec × Spec)} {d : Option Arg}
    (h : ctorErr (.switch cases d) = none) : ctorErrC cases = none := by
  simp only [ctorErr] at h
  exact (orElse_none h).1

theorem ctorErrL_cons {s : Spec} {ss : List Spec} (h : ctorErrL (s :: ss) = none) :
    ctorErr s = none ∧ ctorErrL ss = none := by
  simp only [ctorErrL] at h
  exact orElse_none h

theorem ctorErrC_cons {k v : Spec} {r : List (Spec × Spec)} (h : ctorErrC ((k, v) :: r) = none) :
    ctorErr k = none ∧ ctorErr v = none ∧ ctorErrC r = none := by
  simp only [ctorErrC] at h
  obtain ⟨h1, h2⟩ := orElse_none h
  obtain ⟨h3, h4⟩ := orElse_none h1
  exact ⟨h3, h4, h2⟩

theorem ctorErrD_cons {kind : KeyKind} {k v : Spec} {r : List (KeyKind × Spec × Spec)}
    (h : ctorErrD ((kind, k, v) :: r) = none) :
    ctorErr k = none ∧ ctorErr v = none ∧ ctorErrD r = none ∧ hashableSpec k = true := by
  simp only [ctorErrD] at h
  obtain ⟨h1, h2⟩ := orElse_none h
  obtain ⟨h3, h4⟩ := orElse_none h1
  obtain ⟨h5, h6⟩ := orElse_none h3
  refine ⟨h5, h4, h2, ?_⟩
  cases hh : hashableSpec k
  · simp [hh] at h6
  · rfl

theorem ctorErrD_hashable {es : List (KeyKind × Spec × Spec)} (h : ctorErrD es = none) :
    keysHashable es = true := by
  induction es with
  | nil => rfl
  | cons e es ih =>
    obtain ⟨kind, k, v⟩ := e
    obtain ⟨_, _, h3, h4⟩ := ctorErrD_cons h
    simp [keysHashable, h4, ih h3]

theorem ctorErr_setlike {cs : List Spec} (h : ((ctorErrL cs).orElse
    (fun _ => if hashableSpecL cs then none else some (⟨"TypeError"⟩ : PyExc))) = none) :
    ctorErrL cs = none := (orElse_none h).1

/-! ### the refinement: the code-shaped evaluator computes the denotation -/

section
variable {env : Env} (hw : WFacts env)
include hw

mutual
theorem eval_rel : ∀ (s : Spec) (t : V), ctorErr s = none →
    Rel env (eval env s t) (denote env.cls s t)
  | .t e, t, _ => by
    simp only [eval, denote, tRes, vaccess]
    cases tGet e t with
    | none => exact Rel.mk_rej [] hw.pae_ok
    | some v => exact Rel.mk_ok v []
  | .val v, t, _ => by simp only [eval, denote]; exact Rel.mk_ok v []
  | .mtype, t, _ => by
    simp only [eval, denote, vcond]
    cases truthy t
    · exact raise_rel hw "_MType.glomit" 0 .comb [] (by simp [siteOrigins])
    · exact Rel.mk_ok t []
  | .msub e, t, _ => by
    simp only [eval, denote, tRes, vaccess]
    cases tGet e t with
    | none => exact Rel.mk_rej [] hw.pae_ok
    | some m =>
      simp only [vcond]
      cases truthy m
      · exact raise_rel hw "_MSubspec.glomit" 0 .comb [] (by simp [siteOrigins])
      · exact Rel.mk_ok t []
  | .mexpr l op r, t, _ => by
    simp only [eval]; exact mexpr_rel hw l op r t
  | .and cs d, t, hc => by
    obtain ⟨hcl, _⟩ := ctorErr_and hc
    simp only [eval, denote]
    exact default_rel hw "_Bool.glomit" (by simp [catchSites]) d t
      (evalAnd_rel cs t t hcl)
  | .or cs d, t, hc => by
    obtain ⟨hcl, hne⟩ := ctorErr_or hc
    simp only [eval, denote]
    exact default_rel hw "_Bool.glomit" (by simp [catchSites]) d t
      (evalOr_rel cs t hne hcl)
  | .not c, t, hc => by
    have ih := eval_rel c t (by simpa [ctorErr] using hc)
    simp only [eval, denote]
    rcases ih.cases with ⟨a, l, h1, h2⟩ | ⟨e, og, l, h1, h2, hcl⟩ | ⟨e, l, h1, h2, hg⟩
    · simp only [h1, h2]
      exact raise_rel hw "Not.glomit" 0 .comb l (by simp [siteOrigins])
    · simp only [h1, h2, catch_glom hw "Not.glomit" (by simp [catchSites]), classOK_glom hcl, if_true]
      exact Rel.mk_ok t l
    · simp only [h1, h2, catch_glom hw "Not.glomit" (by simp [catchSites]), hg]
      exact Rel.mk_fault l hg
  | .switch cases d, t, hc => by
    simp only [eval, denote]
    exact evalSwitch_rel cases d t (ctorErr_switch hc)
  | .check a, t, hc => by
    simp only [ctorErr] at hc
    simp only [eval, denote]
    cases hi : checkInit a with
    | error e => rw [hi] at hc; simp at hc
    | ok o => exact checkGlomit_rel hw a o hi t
  | .regex items f, t, _ => by
    simp only [eval, denote]
    cases t with
    | str s =>
      simp only [vcond]
      cases reMatches items f s
      · exact raise_rel hw "Regex.glomit" 1 .comb [] (by simp [siteOrigins])
      · exact Rel.mk_ok _ []
    | _ => exact raise_rel hw "Regex.glomit" 0 .comb [] (by simp [siteOrigins])
  | .matchS s d, t, hc => by
    simp only [eval, denote]
    exact default_rel hw "Match.glomit" (by simp [catchSites]) d t
      (eval_rel s t (by simpa [ctorErr] using hc))
  | .ty n, t, _ => by
    simp only [eval, denote]
    cases isInst env.cls t n
    · exact raise_rel hw "_glom_match/type" 0 .typ [] (by simp [siteOrigins])
    · exact Rel.mk_ok t []
  | .lit v, t, _ => by
    simp only [eval, denote, vcond]
    cases pyEq t v
    · exact raise_rel hw "_glom_match/ne" 0 .comb [] (by simp [siteOrigins])
    · exact Rel.mk_ok t []
  | .pred id fn, t, _ => by
    simp only [eval, denote]
    cases hp : predApply fn t with
    | ret v =>
      simp only
      cases truthy v
      · exact raise_rel hw "_glom_match/callable" 1 .comb [id] (by simp [siteOrigins])
      · exact Rel.mk_ok t [id]
    | raise c =>
      simp only [catch_exc hw "_glom_match/callable" (by simp [catchSites]), pred_is_exc hw hp, if_true]
      exact raise_rel hw "_glom_match/callable" 0 .comb [id] (by simp [siteOrigins])
  | .list alts, t, hc => by
    simp only [eval, denote]
    cases t.unsub with
    | list items =>
      exact finish_map_rel (itemsLoop_rel hw alts.isEmpty (evalAlts env alts) (denAlt env.cls alts)
        (fun item last => evalAlts_rel alts item last (by simpa [ctorErr] using hc)) items none) V.list
    | _ => exact raise_rel hw "_glom_match/listlike" 0 .typ [] (by simp [siteOrigins])
  | .set alts, t, hc => by
    simp only [eval, denote]
    cases t.unsub with
    | set items =>
      exact finish_bind_rel (itemsLoop_rel hw alts.isEmpty (evalAlts env alts) (denAlt env.cls alts)
        (fun item last => evalAlts_rel alts item last (ctorErr_setlike (by simpa [ctorErr] using hc))) items none) _ _ (mkSet_rel hw false)
    | _ => exact raise_rel hw "_glom_match/listlike" 0 .typ [] (by simp [siteOrigins])
  | .fset alts, t, hc => by
    simp only [eval, denote]
    cases t.unsub with
    | fset items =>
      exact finish_bind_rel (itemsLoop_rel hw alts.isEmpty (evalAlts env alts) (denAlt env.cls alts)
        (fun item last => evalAlts_rel alts item last (ctorErr_setlike (by simpa [ctorErr] using hc))) items none) _ _ (mkSet_rel hw true)
    | _ => exact raise_rel hw "_glom_match/listlike" 0 .typ [] (by simp [siteOrigins])
  | .tuple ps, t, hc => by
    simp only [eval, denote]
    cases t.unsub with
    | tuple items =>
      simp only
      split
      · exact raise_rel hw "_glom_match/tuple" 1 .comb [] (by simp [siteOrigins])
      · exact finish_map_rel (evalZip_rel ps items (by simpa [ctorErr] using hc)) V.tuple
    | _ => exact raise_rel hw "_glom_match/tuple" 0 .typ [] (by simp [siteOrigins])
  | .dict es, t, hc => by
    simp only [eval, denote]
    cases t.unsub with
    | dict items =>
      have hcd : ctorErrD es = none := by simpa [ctorErr] using hc
      have hkd : keysHashable es = true := ctorErrD_hashable hcd
      rw [required_eq es 0 hkd]
      have hl := dictLoop_rel hw (dictFind env es 0) (denKey env.cls es 0)
        (fun k v => dictFind_rel es 0 k v hcd) (requiredRef es 0) items [] (requiredRef es 0) []
        (List.filter_eq_self.mpr (by simp)).symm
      obtain ⟨hl1, hl2⟩ := hl
      simp only
      cases hm : (dictLoop env (dictFind env es 0) items [] (requiredRef es 0)).1 with
      | error e =>
        cases hr : (dictRef (denKey env.cls es 0) items [] []).1 with
        | error v =>
          rw [hm, hr] at hl2
          exact ⟨hl2, hl1⟩
        | ok p => rw [hm, hr] at hl2; exact absurd hl2 (by simp)
      | ok p =>
        obtain ⟨result, required⟩ := p
        cases hr : (dictRef (denKey env.cls es 0) items [] []).1 with
        | error v => rw [hm, hr] at hl2; exact absurd hl2 (by simp)
        | ok q =>
          obtain ⟨result', seen⟩ := q
          rw [hm, hr] at hl2
          simp only at hl2
          obtain ⟨rfl, hreq⟩ := hl2
          simp only
          have hf := fillDefaults_rel hw t (dictDefaults es) result
          cases hfa : fillDefaults t (dictDefaults es) result with
          | error e =>
            cases hfb : defaultsRef t (dictDefaults es) result with
            | error v => rw [hfa, hfb] at hf; exact ⟨hf, hl1⟩
            | ok _ => rw [hfa, hfb] at hf; exact absurd hf (by simp [FillRel])
          | ok r1 =>
            cases hfb : defaultsRef t (dictDefaults es) result with
            | error v => rw [hfa, hfb] at hf; exact absurd hf (by simp [FillRel])
            | ok r2 =>
              rw [hfa, hfb] at hf
              simp only [FillRel] at hf
              subst hf
              simp only
              rw [hreq, filter_isEmpty_eq_all]
              split
              · exact ⟨rfl, hl1⟩
              · exact ⟨hw.raise_ok ("_handle_dict", 2, .comb) (by simp [siteOrigins]), hl1⟩
    | _ => exact raise_rel hw "_handle_dict" 0 .typ [] (by simp [siteOrigins])

theorem evalAnd_rel : ∀ (cs : List Spec) (t r : V), ctorErrL cs = none →
    Rel env (evalAnd env cs t r) (denAll env.cls cs t r)
  | [], t, r, _ => by simp only [evalAnd, denAll]; exact Rel.mk_ok r []
  | c :: cs, t, r, hc => by
    obtain ⟨hc1, hc2⟩ := ctorErrL_cons hc
    have ih := eval_rel c t hc1 
    simp only [evalAnd, denAll]
    rcases ih.cases with ⟨a, l, h1, h2⟩ | ⟨e, og, l, h1, h2, hcl⟩ | ⟨e, l, h1, h2, hg⟩
    · simp only [h1, h2]
      have ih2 := evalAnd_rel cs t a hc2 
      exact ⟨ih2.1, by rw [ih2.2]⟩
    · simp only [h1, h2]; exact Rel.mk_rej l hcl
    · simp only [h1, h2]; exact Rel.mk_fault l hg

theorem evalOr_rel : ∀ (cs : List Spec) (t : V), cs ≠ [] → ctorErrL cs = none →
    Rel env (evalOr env cs t) (denAny env.cls cs t)
  | [], _, hne, _ => absurd rfl hne
  | [c], t, _, hc => by
    simp only [evalOr, denAny]
    exact eval_rel c t (ctorErrL_cons hc).1 
  | c :: c' :: cs, t, _, hc => by
    obtain ⟨hc1, hc2⟩ := ctorErrL_cons hc
    have ih := eval_rel c t hc1 
    simp only [evalOr, denAny]
    rcases ih.cases with ⟨a, l, h1, h2⟩ | ⟨e, og, l, h1, h2, hcl⟩ | ⟨e, l, h1, h2, hg⟩
    · simp only [h1, h2]; exact Rel.mk_ok a l
    · simp only [h1, h2, catch_glom hw "Or._glomit" (by simp [catchSites]), classOK_glom hcl, if_true]
      have ih2 := evalOr_rel (c' :: cs) t (by simp) hc2
      exact ⟨ih2.1, by rw [ih2.2]⟩
    · simp only [h1, h2, catch_glom hw "Or._glomit" (by simp [catchSites]), hg]
      exact Rel.mk_fault l hg

theorem evalSwitch_rel : ∀ (cases : List (Spec × Spec)) (d : Option Arg) (t : V),
    ctorErrC cases = none →
    Rel env (evalSwitch env cases d t) (denCases env.cls cases d t)
  | [], d, t, _ => by
    simp only [evalSwitch, denCases, withDefault, vreject]
    cases d with
    | none => exact raise_rel hw "Switch.glomit" 0 .comb [] (by simp [siteOrigins])
    | some a => exact argVal_rel hw a t []
  | (k, v) :: rest, d, t, hc => by
    obtain ⟨hc1, hc2, hc3⟩ := ctorErrC_cons hc
    have ih := eval_rel k t hc1 
    simp only [evalSwitch, denCases]
    rcases ih.cases with ⟨a, l, h1, h2⟩ | ⟨e, og, l, h1, h2, hcl⟩ | ⟨e, l, h1, h2, hg⟩
    · simp only [h1, h2]
      have ih2 := eval_rel v t hc2 
      exact ⟨ih2.1, by rw [ih2.2]⟩
    · simp only [h1, h2, catch_glom hw "Switch.glomit" (by simp [catchSites]), classOK_glom hcl, if_true]
      have ih2 := evalSwitch_rel rest d t hc3 
      exact ⟨ih2.1, by rw [ih2.2]⟩
    · simp only [h1, h2, catch_glom hw "Switch.glomit" (by simp [catchSites]), hg]
      exact Rel.mk_fault l hg

theorem evalAlts_rel : ∀ (alts : List Spec) (item : V) (last : Option PyExc),
    ctorErrL alts = none →
    AltRel env alts.isEmpty (evalAlts env alts item last) last (denAlt env.cls alts item)
  | [], item, last, _ => by
    simp only [evalAlts, denAlt, vreject]
    exact ⟨rfl, Or.inl ⟨rfl, rfl, rfl⟩⟩
  | [c], item, last, hc => by
    have ih := eval_rel c item (ctorErrL_cons hc).1 
    simp only [evalAlts, denAlt]
    rcases ih.cases with ⟨a, l, h1, h2⟩ | ⟨e, og, l, h1, h2, hcl⟩ | ⟨e, l, h1, h2, hg⟩
    · simp only [h1, h2]; exact ⟨rfl, rfl⟩
    · simp only [h1, h2, catch_glom hw "_glom_match/listlike" (by simp [catchSites]),
        classOK_glom hcl, if_true]
      exact ⟨by simp, Or.inr ⟨rfl, e, rfl, hcl⟩⟩
    · simp only [h1, h2, catch_glom hw "_glom_match/listlike" (by simp [catchSites]), hg]
      exact ⟨rfl, rfl, hg⟩
  | c :: c' :: cs, item, last, hc => by
    obtain ⟨hc1, hc2⟩ := ctorErrL_cons hc
    have ih := eval_rel c item hc1 
    rw [evalAlts, denAlt]
    rcases ih.cases with ⟨a, l, h1, h2⟩ | ⟨e, og, l, h1, h2, hcl⟩ | ⟨e, l, h1, h2, hg⟩
    · simp only [h1, h2]; exact ⟨rfl, rfl⟩
    · simp only [h1, h2, catch_glom hw "_glom_match/listlike" (by simp [catchSites]),
        classOK_glom hcl, if_true]
      have ih2 := evalAlts_rel (c' :: cs) item (some e) hc2
      obtain ⟨i1, i2⟩ := ih2
      refine ⟨by simp only [i1], ?_⟩
      revert i2
      cases (evalAlts env (c' :: cs) item (some e)).1 <;> cases (denAlt env.cls (c' :: cs) item).1 <;>
        simp
    · simp only [h1, h2, catch_glom hw "_glom_match/listlike" (by simp [catchSites]), hg]
      exact ⟨rfl, rfl, hg⟩

theorem evalZip_rel : ∀ (ps : List Spec) (xs : List V), ctorErrL ps = none →
    ItemsRel env (evalZip env ps xs) (denZip env.cls ps xs)
  | [], xs, _ => by simp only [evalZip, denZip]; exact ⟨rfl, rfl⟩
  | _ :: _, [], _ => by simp only [evalZip, denZip]; exact ⟨rfl, rfl⟩
  | p :: ps, x :: xs, hc => by
    obtain ⟨hc1, hc2⟩ := ctorErrL_cons hc
    have ih := eval_rel p x hc1 
    simp only [evalZip, denZip]
    rcases ih.cases with ⟨a, l, h1, h2⟩ | ⟨e, og, l, h1, h2, hcl⟩ | ⟨e, l, h1, h2, hg⟩
    · simp only [h1, h2]
      have ih2 := evalZip_rel ps xs hc2 
      obtain ⟨i1, i2⟩ := ih2
      refine ⟨by simp only [i1], ?_⟩
      revert i2
      cases (evalZip env ps xs).1 <;> cases (denZip env.cls ps xs).1 <;> simp [Except.map]
    · simp only [h1, h2]; exact ⟨rfl, hcl⟩
    · simp only [h1, h2]; exact ⟨rfl, rfl, hg⟩

theorem dictFind_rel : ∀ (es : List (KeyKind × Spec × Spec)) (i : Nat) (key val : V),
    ctorErrD es = none →
    FindRel env (dictFind env es i key val) (denKey env.cls es i key val)
  | [], i, key, val, _ => by simp only [dictFind, denKey]; exact ⟨rfl, trivial⟩
  | (kind, ks, vs) :: es, i, key, val, hc => by
    obtain ⟨hc1, hc2, hc3, _⟩ := ctorErrD_cons hc
    have ihv := eval_rel vs val hc2
    have ihr := dictFind_rel es (i + 1) key val hc3
    have hcatch := catch_glom hw "_handle_dict" (by simp [catchSites])
    cases ho : optKey kind ks with
    | none =>
      simp only [dictFind, denKey, ho]
      rcases (eval_rel ks key hc1).cases with ⟨a, l, h1, h2⟩ | ⟨e, og, l, h1, h2, hcl⟩ | ⟨e, l, h1, h2, hg⟩
      · simp only [h1, h2]
        rcases ihv.cases with ⟨a', l', g1, g2⟩ | ⟨e', og', l', g1, g2, gcl⟩ | ⟨e', l', g1, g2, gg⟩
        · simp only [g1, g2]; exact ⟨rfl, rfl, rfl, rfl⟩
        · simp only [g1, g2]; exact ⟨rfl, gcl⟩
        · simp only [g1, g2]; exact ⟨rfl, rfl, gg⟩
      · simp only [h1, h2, hcatch, classOK_glom hcl, if_true]
        obtain ⟨i1, i2⟩ := ihr
        exact ⟨by simp only [i1], i2⟩
      · simp only [h1, h2, hcatch, hg]
        exact ⟨rfl, rfl, hg⟩
    | some k =>
      simp only [dictFind, denKey, ho, vcond]
      by_cases hp : pyEq key k = true
      · simp only [hp, if_true, vpass]
        rcases ihv.cases with ⟨a', l', g1, g2⟩ | ⟨e', og', l', g1, g2, gcl⟩ | ⟨e', l', g1, g2, gg⟩
        · simp only [g1, g2]; exact ⟨rfl, rfl, rfl, rfl⟩
        · simp only [g1, g2]; exact ⟨rfl, gcl⟩
        · simp only [g1, g2]; exact ⟨rfl, rfl, gg⟩
      · have hr := hw.raise_ok ("Optional.glomit", 0, .comb) (by simp [siteOrigins])
        simp only [hp, Bool.false_eq_true, if_false, vreject, hcatch, classOK_glom hr, if_true]
        obtain ⟨i1, i2⟩ := ihr
        exact ⟨by simp only [i1], i2⟩
end

end

/-! ### from the relation to the checker -/

theorem valEq_refl (a : V) : valEq a a = true := by
  unfold valEq; rw [V.beq_refl]; rfl

theorem rel_obsSat {env : Env} {o : Out} {d : D} (h : Rel env o d) :
    obsSat d.1 d.2 (observe env o) = true := by
  rcases h.cases with ⟨a, l, rfl, rfl⟩ | ⟨e, og, l, rfl, rfl, hc⟩ | ⟨e, l, rfl, rfl, hg⟩
  · simp [observe, obsSat, valEq_refl]
  · unfold classOK at hc
    simp only [Bool.and_eq_true] at hc
    cases og <;> simp_all [observe, obsSat]
  · simp [observe, obsSat, hg]

/-! ### the combinators one by one (stated on the evaluator, no denotation involved) -/

/-- the value a spec passes with -/
def okVal (env : Env) (s : Spec) (t : V) : Option V :=
  match (eval env s t).1 with
  | .ok v => some v
  | .error _ => none

def logOf (env : Env) (s : Spec) (t : V) : Log := (eval env s t).2

theorem boolGlomit_none (env : Env) (t : V) (o : Out) : boolGlomit env none t o = o := by
  unfold boolGlomit
  split
  · rfl
  · split <;> rfl

theorem fst_eq {α β} {x : α × β} {a : α} (h : x.1 = a) : x = (a, x.2) := by
  cases x; simp_all

theorem evalAnd_isOk_iff (env : Env) (cs : List Spec) (t r0 : V) :
    (∃ r, (evalAnd env cs t r0).1 = .ok r) ↔ ∀ c ∈ cs, (okVal env c t).isSome := by
  induction cs generalizing r0 with
  | nil => simp [evalAnd]
  | cons c cs ih =>
    rw [evalAnd]
    cases hc : (eval env c t).1 with
    | error e => simp [okVal, hc]
    | ok v => simp [ih v, okVal, hc]

theorem evalAnd_log_ok (env : Env) (cs : List Spec) (t r0 : V)
    (h : ∀ c ∈ cs, (okVal env c t).isSome) :
    (evalAnd env cs t r0).2 = cs.flatMap (fun c => logOf env c t) := by
  induction cs generalizing r0 with
  | nil => rfl
  | cons c cs ih =>
    rw [evalAnd]
    have hc := h c (by simp)
    simp only [okVal] at hc
    cases hr : (eval env c t).1 with
    | error e => rw [hr] at hc; simp at hc
    | ok v =>
      simp only [List.flatMap_cons, logOf]
      rw [ih v (fun c' hc' => h c' (by simp [hc']))]
      rfl

/-- And stops at the first child that does not pass: exactly the children up to and
    including it ran, and its error is the outcome -/
theorem evalAnd_fail (env : Env) (pre : List Spec) (c : Spec) (post : List Spec) (t r0 : V) (e : PyExc)
    (hpre : ∀ c' ∈ pre, (okVal env c' t).isSome) (hc : (eval env c t).1 = .error e) :
    evalAnd env (pre ++ c :: post) t r0 =
      (.error e, (pre ++ [c]).flatMap (fun c => logOf env c t)) := by
  induction pre generalizing r0 with
  | nil => simp [evalAnd, hc, logOf]
  | cons p pre ih =>
    simp only [List.cons_append]
    rw [evalAnd]
    have hp := hpre p (by simp)
    simp only [okVal] at hp
    cases hr : (eval env p t).1 with
    | error e' => rw [hr] at hp; simp at hp
    | ok v =>
      simp only
      rw [ih v (fun c' hc' => hpre c' (by simp [hc']))]
      simp [logOf]

section
variable {env : Env} (hw : WFacts env)
include hw

/-- Or returns at the first child that passes: the children before it rejected with a
    GlomError, it and they are exactly the children that ran -/
theorem evalOr_first (pre : List Spec) (c : Spec) (post : List Spec) (t r : V)
    (hpre : ∀ c' ∈ pre, ∃ e, (eval env c' t).1 = .error e ∧ env.exc.isSub e.cls "GlomError" = true)
    (hc : (eval env c t).1 = .ok r) :
    evalOr env (pre ++ c :: post) t = (.ok r, (pre ++ [c]).flatMap (fun c => logOf env c t)) := by
  induction pre with
  | nil =>
    cases post with
    | nil => simp only [List.nil_append, evalOr]; rw [fst_eq hc]; simp [logOf, hc]
    | cons p post =>
      simp only [List.nil_append]; rw [evalOr]; simp only [hc]
      rw [fst_eq hc]; simp [logOf, hc]
  | cons p pre ih =>
    obtain ⟨e, he, hg⟩ := hpre p (by simp)
    have : ∃ x xs, pre ++ c :: post = x :: xs := by
      cases pre with
      | nil => exact ⟨c, post, rfl⟩
      | cons x xs => exact ⟨x, xs ++ c :: post, rfl⟩
    obtain ⟨x, xs, hx⟩ := this
    simp only [List.cons_append]
    rw [hx, evalOr, ← hx]
    simp only [he, catch_glom hw "Or._glomit" (by simp [catchSites]), hg, if_true]
    rw [ih (fun c' hc' => hpre c' (by simp [hc']))]
    simp [logOf]

/-- if every child rejects with a GlomError, Or's outcome is the last child's error and all ran -/
theorem evalOr_all_reject (cs : List Spec) (c : Spec) (t : V) (e : PyExc)
    (hpre : ∀ c' ∈ cs, ∃ e, (eval env c' t).1 = .error e ∧ env.exc.isSub e.cls "GlomError" = true)
    (hc : (eval env c t).1 = .error e) :
    evalOr env (cs ++ [c]) t = (.error e, (cs ++ [c]).flatMap (fun c => logOf env c t)) := by
  induction cs with
  | nil => simp only [List.nil_append, evalOr]; rw [fst_eq hc]; simp [logOf, hc]
  | cons p pre ih =>
    obtain ⟨e', he, hg⟩ := hpre p (by simp)
    have : ∃ x xs, pre ++ [c] = x :: xs := by
      cases pre with
      | nil => exact ⟨c, [], rfl⟩
      | cons x xs => exact ⟨x, xs ++ [c], rfl⟩
    obtain ⟨x, xs, hx⟩ := this
    simp only [List.cons_append]
    rw [hx, evalOr, ← hx]
    simp only [he, catch_glom hw "Or._glomit" (by simp [catchSites]), hg, if_true]
    rw [ih (fun c' hc' => hpre c' (by simp [hc']))]
    simp [logOf]

/-- a child that faults (raises something that is not a GlomError) ends Or at once -/
theorem evalOr_fault (pre : List Spec) (c : Spec) (post : List Spec) (t : V) (e : PyExc)
    (hpre : ∀ c' ∈ pre, ∃ e, (eval env c' t).1 = .error e ∧ env.exc.isSub e.cls "GlomError" = true)
    (hc : (eval env c t).1 = .error e) (hg : env.exc.isSub e.cls "GlomError" = false) :
    evalOr env (pre ++ c :: post) t = (.error e, (pre ++ [c]).flatMap (fun c => logOf env c t)) := by
  induction pre with
  | nil =>
    cases post with
    | nil => simp only [List.nil_append, evalOr]; rw [fst_eq hc]; simp [logOf, hc]
    | cons p post =>
      simp only [List.nil_append]; rw [evalOr]
      simp only [hc, catch_glom hw "Or._glomit" (by simp [catchSites]), hg]
      rw [fst_eq hc]; simp [logOf, hc]
  | cons p pre ih =>
    obtain ⟨e', he, hg'⟩ := hpre p (by simp)
    have : ∃ x xs, pre ++ c :: post = x :: xs := by
      cases pre with
      | nil => exact ⟨c, post, rfl⟩
      | cons x xs => exact ⟨x, xs ++ c :: post, rfl⟩
    obtain ⟨x, xs, hx⟩ := this
    simp only [List.cons_append]
    rw [hx, evalOr, ← hx]
    simp only [he, catch_glom hw "Or._glomit" (by simp [catchSites]), hg', if_true]
    rw [ih (fun c' hc' => hpre c' (by simp [hc']))]
    simp [logOf]

/-- Switch: the keys before the first passing one rejected; only that key's value spec runs,
    and its outcome (result or error) is Switch's outcome -/
theorem evalSwitch_first (pre : List (Spec × Spec)) (k v : Spec) (post : List (Spec × Spec))
    (d : Option Arg) (t kv : V)
    (hpre : ∀ p ∈ pre, ∃ e, (eval env p.1 t).1 = .error e ∧ env.exc.isSub e.cls "GlomError" = true)
    (hk : (eval env k t).1 = .ok kv) :
    evalSwitch env (pre ++ (k, v) :: post) d t =
      ((eval env v t).1, (pre ++ [(k, v)]).flatMap (fun p => logOf env p.1 t) ++ logOf env v t) := by
  induction pre with
  | nil => simp [evalSwitch, hk, logOf]
  | cons p pre ih =>
    obtain ⟨pk, pv⟩ := p
    obtain ⟨e, he, hg⟩ := hpre (pk, pv) (by simp)
    simp only [List.cons_append]
    rw [evalSwitch]
    simp only at he
    simp only [he, catch_glom hw "Switch.glomit" (by simp [catchSites]), hg, if_true]
    rw [ih (fun c' hc' => hpre c' (by simp [hc']))]
    simp [logOf, List.append_assoc]

/-- no key passes: the default through `arg_val`, else the combinator's own MatchError -/
theorem evalSwitch_none (cases : List (Spec × Spec)) (d : Option Arg) (t : V)
    (hall : ∀ p ∈ cases, ∃ e, (eval env p.1 t).1 = .error e ∧ env.exc.isSub e.cls "GlomError" = true) :
    evalSwitch env cases d t =
      ((match d with
        | some a => argVal a t
        | none => .error (raiseAt env "Switch.glomit" 0)),
       cases.flatMap (fun p => logOf env p.1 t)) := by
  induction cases with
  | nil => cases d <;> simp [evalSwitch]
  | cons p pre ih =>
    obtain ⟨pk, pv⟩ := p
    obtain ⟨e, he, hg⟩ := hall (pk, pv) (by simp)
    rw [evalSwitch]
    simp only at he
    simp only [he, catch_glom hw "Switch.glomit" (by simp [catchSites]), hg, if_true]
    rw [ih (fun c' hc' => hall c' (by simp [hc']))]
    simp [logOf]

end

/-! ### operator-built trees -/

theorem evalAnd_append (env : Env) (cs : List Spec) (b : Spec) (t r0 : V) :
    evalAnd env (cs ++ [b]) t r0 =
      (match (evalAnd env cs t r0).1 with
       | .ok _ => ((eval env b t).1, (evalAnd env cs t r0).2 ++ (eval env b t).2)
       | .error e => (.error e, (evalAnd env cs t r0).2)) := by
  induction cs generalizing r0 with
  | nil =>
    simp only [List.nil_append, evalAnd]
    cases (eval env b t).1 <;> simp
  | cons c cs ih =>
    simp only [List.cons_append]
    rw [evalAnd, evalAnd]
    cases hc : (eval env c t).1 with
    | error e => simp
    | ok v =>
      simp only [ih v]
      cases (evalAnd env cs t v).1 <;> simp [List.append_assoc]

theorem evalOr_append (env : Env) (cs : List Spec) (b : Spec) (t : V) (hne : cs ≠ []) :
    evalOr env (cs ++ [b]) t =
      (match (evalOr env cs t).1 with
       | .ok v => (.ok v, (evalOr env cs t).2)
       | .error e =>
         if catchesAt env "Or._glomit" 0 e then
           ((eval env b t).1, (evalOr env cs t).2 ++ (eval env b t).2)
         else (.error e, (evalOr env cs t).2)) := by
  induction cs with
  | nil => exact absurd rfl hne
  | cons c cs ih =>
    cases cs with
    | nil =>
      simp only [List.cons_append, List.nil_append]
      rw [evalOr, evalOr, evalOr]
      cases hc : (eval env c t).1 with
      | ok v => rw [fst_eq hc]
      | error e => simp only; split <;> first | rfl | exact fst_eq hc
    | cons c' cs' =>
      simp only [List.cons_append]
      rw [evalOr]
      conv => rhs; rw [evalOr]
      have ih' := ih (by simp)
      simp only [List.cons_append] at ih'
      cases hc : (eval env c t).1 with
      | ok v => simp only [hc]; rw [fst_eq hc]
      | error e =>
        simp only
        by_cases hcatch : catchesAt env "Or._glomit" 0 e = true
        · simp only [hcatch, if_true]
          rw [ih']
          cases (evalOr env (c' :: cs') t).1 with
          | ok v => simp
          | error e' =>
            simp only
            split <;> simp [List.append_assoc]
        · simp only [hcatch, hc, Bool.false_eq_true, if_false]
          exact fst_eq hc

/-- `s'` is `s` with every flattened `And(*children, x)` / `Or(*children, x)` read as the
    nested `And(And(children…), x)` / `Or(Or(children…), x)` -/
inductive Unflat : Spec → Spec → Prop where
  | refl (s : Spec) : Unflat s s
  | andFlat {cs : List Spec} {s1 b b' : Spec} : Unflat (.and cs none) s1 → Unflat b b' →
      Unflat (.and (cs ++ [b]) none) (.and [s1, b'] none)
  | andPair {a a' b b' : Spec} : Unflat a a' → Unflat b b' →
      Unflat (.and [a, b] none) (.and [a', b'] none)
  | orFlat {cs : List Spec} {s1 b b' : Spec} : cs ≠ [] → Unflat (.or cs none) s1 → Unflat b b' →
      Unflat (.or (cs ++ [b]) none) (.or [s1, b'] none)
  | orPair {a a' b b' : Spec} : Unflat a a' → Unflat b b' →
      Unflat (.or [a, b] none) (.or [a', b'] none)
  | not {a a' : Spec} : Unflat a a' → Unflat (.not a) (.not a')

theorem evalAnd_single (env : Env) (b : Spec) (t r0 : V) : evalAnd env [b] t r0 = eval env b t := by
  rw [evalAnd]
  cases h : (eval env b t).1 with
  | ok v => simp only [evalAnd, List.append_nil]; exact (fst_eq h).symm
  | error e => exact (fst_eq h).symm

theorem Unflat.eval_eq (env : Env) {s s' : Spec} (h : Unflat s s') : ∀ t, eval env s t = eval env s' t := by
  induction h with
  | refl s => intro t; rfl
  | @andFlat cs s1 b b' _ _ ih1 ih2 =>
    intro t
    have h1 := ih1 t
    simp only [eval, boolGlomit_none] at h1 ⊢
    rw [evalAnd_append, evalAnd, ← h1]
    simp only [evalAnd_single, ih2 t]
    cases (evalAnd env cs t t).1 <;> rfl
  | @andPair a a' b b' _ _ ih1 ih2 =>
    intro t
    simp only [eval, boolGlomit_none]
    rw [evalAnd, evalAnd]
    simp only [evalAnd_single, ih1 t, ih2 t]
  | @orFlat cs s1 b b' hne _ _ ih1 ih2 =>
    intro t
    have h1 := ih1 t
    simp only [eval, boolGlomit_none] at h1 ⊢
    rw [evalOr_append env cs b t hne, evalOr, ← h1, ih2 t]
    simp only [evalOr]
    cases h : (evalOr env cs t).1 with
    | ok v => exact (fst_eq h).symm
    | error e =>
      simp only
      split
      · rfl
      · exact (fst_eq h).symm
  | @orPair a a' b b' _ _ ih1 ih2 =>
    intro t
    simp only [eval, boolGlomit_none]
    rw [evalOr, evalOr, ih1 t, ih2 t]
    simp only [evalOr]
  | @not a a' _ ih =>
    intro t
    simp only [eval, ih t]

theorem Unflat.opClass_eq {s s' : Spec} (h : Unflat s s') : opClass s = opClass s' := by
  cases h <;> rfl

theorem Unflat.hasDefault_eq {s s' : Spec} (h : Unflat s s') : hasDefault s = hasDefault s' := by
  cases h <;> rfl

/-- children of an `Or` that exists are never empty (`Or()` raises ValueError) -/
def GoodOr (s : Spec) : Prop := ∀ cs d, s = .or cs d → cs ≠ []

/-- the two readings of an operator application correspond -/
def BuildRel (r r' : Except PyExc Spec) : Prop :=
  match r, r' with
  | .ok s, .ok s' => Unflat s s' ∧ GoodOr s
  | .error x, .error y => x = y
  | _, _ => False

theorem opClass_and {s : Spec} (h : opClass s = .and_) : ∃ cs d, s = .and cs d := by
  cases s <;> simp [opClass] at h
  exact ⟨_, _, rfl⟩

theorem opClass_or {s : Spec} (h : opClass s = .or_) : ∃ cs d, s = .or cs d := by
  cases s <;> simp [opClass] at h
  exact ⟨_, _, rfl⟩

theorem goodOr_of_class {s : Spec} (h : opClass s ≠ .or_) : GoodOr s := by
  intro cs d hs; subst hs; simp [opClass] at h

/-- operator lookup by class in the expected overload table -/
def shapeOf (c : OpClass) (d : String) : Option String :=
  c.mro.findSome? (fun k => (expectedBoolOps.find? (fun r => r.1 == k && r.2.1 == d)).map (·.2.2))

theorem findOp_eq (s : Spec) (d : String) : findOp expectedBoolOps s d = shapeOf (opClass s) d := rfl

def andShape : String := "default?And(self,other):And(*children,other)"
def orShape : String := "default?Or(self,other):Or(*children,other)"

theorem shapeOf_and (c : OpClass) : shapeOf c "__and__" =
    (match c with
     | .and_ => some andShape
     | .or_ | .not_ | .mexpr | .mtype => some "And(self,other)"
     | .msub | .plain => none) := by cases c <;> decide

theorem shapeOf_rand (c : OpClass) : shapeOf c "__rand__" =
    (match c with
     | .mexpr | .mtype => some "And(self,other)"
     | _ => none) := by cases c <;> decide

theorem shapeOf_or (c : OpClass) : shapeOf c "__or__" =
    (match c with
     | .or_ => some orShape
     | .and_ | .not_ | .mexpr | .mtype => some "Or(self,other)"
     | .msub | .plain => none) := by cases c <;> decide

theorem shapeOf_ror (c : OpClass) : shapeOf c "__ror__" = none := by cases c <;> decide

theorem shapeOf_inv (c : OpClass) : shapeOf c "__invert__" =
    (match c with
     | .and_ | .or_ | .not_ | .mexpr | .mtype => some "Not(self)"
     | .msub | .plain => none) := by cases c <;> decide

theorem buildShape_and (f : Bool) (x y : Spec) :
    buildShape f "And(self,other)" x y = .ok (.and [x, y] none) := by
  unfold buildShape; rw [if_pos (by decide)]

theorem buildShape_or (f : Bool) (x y : Spec) :
    buildShape f "Or(self,other)" x y = .ok (.or [x, y] none) := by
  unfold buildShape; rw [if_neg (by decide), if_pos (by decide)]

theorem buildShape_not (f : Bool) (x y : Spec) : buildShape f "Not(self)" x y = .ok (.not x) := by
  unfold buildShape
  rw [if_neg (by decide), if_neg (by decide), if_neg (by decide), if_neg (by decide),
    if_neg (by decide), if_neg (by decide), if_pos (by decide)]

theorem buildShape_andShape (f : Bool) (x y : Spec) :
    buildShape f andShape x y =
      if hasDefault x then .ok (.and [x, y] none) else flatAnd f x y := by
  unfold buildShape andShape
  rw [if_neg (by decide), if_neg (by decide), if_neg (by decide), if_neg (by decide), if_pos (by decide)]

theorem buildShape_orShape (f : Bool) (x y : Spec) :
    buildShape f orShape x y =
      if hasDefault x then .ok (.or [x, y] none) else flatOr f x y := by
  unfold buildShape orShape
  rw [if_neg (by decide), if_neg (by decide), if_neg (by decide), if_neg (by decide),
    if_neg (by decide), if_pos (by decide)]

theorem applyAnd_rel {sa sa' sb sb' : Spec} (ha : Unflat sa sa') (hb : Unflat sb sb') :
    BuildRel (applyBin expectedBoolOps true "__and__" "__rand__" sa sb)
      (applyBin expectedBoolOps false "__and__" "__rand__" sa' sb') := by
  unfold applyBin
  simp only [findOp_eq, ← ha.opClass_eq, ← hb.opClass_eq, shapeOf_and, shapeOf_rand]
  have pair : ∀ {x x' y y' : Spec}, Unflat x x' → Unflat y y' →
      BuildRel (.ok (.and [x, y] none)) (.ok (.and [x', y'] none)) :=
    fun hx hy => ⟨.andPair hx hy, goodOr_of_class (by simp [opClass])⟩
  cases hca : opClass sa with
  | and_ =>
    obtain ⟨cs, d, rfl⟩ := opClass_and hca
    have hd := ha.hasDefault_eq
    simp only [buildShape_andShape]
    cases d with
    | some dv =>
      have hd' : hasDefault sa' = true := by rw [← hd]; rfl
      simp only [hd']
      simp only [hasDefault, if_true]
      exact pair ha hb
    | none =>
      have hd' : hasDefault sa' = false := by rw [← hd]; rfl
      simp only [hd']
      simp only [hasDefault, Bool.false_eq_true, if_false, flatAnd, children?, if_true]
      exact ⟨.andFlat ha hb, goodOr_of_class (by simp [opClass])⟩
  | or_ | not_ | mexpr | mtype =>
    simp only [buildShape_and]
    exact pair ha hb
  | msub | plain =>
    simp only
    cases hcb : opClass sb <;> simp only [buildShape_and] <;> first | exact pair hb ha | exact rfl

theorem applyOr_rel {sa sa' sb sb' : Spec} (ha : Unflat sa sa') (hb : Unflat sb sb')
    (hga : GoodOr sa) :
    BuildRel (applyBin expectedBoolOps true "__or__" "__ror__" sa sb)
      (applyBin expectedBoolOps false "__or__" "__ror__" sa' sb') := by
  unfold applyBin
  simp only [findOp_eq, ← ha.opClass_eq, ← hb.opClass_eq, shapeOf_or, shapeOf_ror]
  have pair : ∀ {x x' y y' : Spec}, Unflat x x' → Unflat y y' →
      BuildRel (.ok (.or [x, y] none)) (.ok (.or [x', y'] none)) :=
    fun hx hy => ⟨.orPair hx hy, by intro cs d h; injection h with h; subst h; simp⟩
  cases hca : opClass sa with
  | or_ =>
    obtain ⟨cs, d, rfl⟩ := opClass_or hca
    have hd := ha.hasDefault_eq
    simp only [buildShape_orShape]
    cases d with
    | some dv =>
      have hd' : hasDefault sa' = true := by rw [← hd]; rfl
      simp only [hd']
      simp only [hasDefault, if_true]
      exact pair ha hb
    | none =>
      have hd' : hasDefault sa' = false := by rw [← hd]; rfl
      simp only [hd']
      simp only [hasDefault, Bool.false_eq_true, if_false, flatOr, children?, if_true]
      exact ⟨.orFlat (hga cs none rfl) ha hb, by intro cs' d h; injection h with h; subst h; simp⟩
  | and_ | not_ | mexpr | mtype =>
    simp only [buildShape_or]
    exact pair ha hb
  | msub | plain => exact rfl

theorem applyInv_rel {sa sa' : Spec} (ha : Unflat sa sa') :
    BuildRel (applyInv expectedBoolOps sa) (applyInv expectedBoolOps sa') := by
  unfold applyInv
  simp only [findOp_eq, ← ha.opClass_eq, shapeOf_inv]
  cases hca : opClass sa <;> simp only [buildShape_not] <;>
    first | exact ⟨.not ha, goodOr_of_class (by simp [opClass])⟩ | exact rfl

/-- leaves of an operator expression -/
def OpExpr.leaves : OpExpr → List Spec
  | .leaf s => [s]
  | .band a b | .bor a b => a.leaves ++ b.leaves
  | .inv a => a.leaves

/-- the spec object the operators build decides every target exactly like the nested
    constructor expression they denote (value, error and call log) -/
theorem build_rel (e : OpExpr) (hl : ∀ s ∈ e.leaves, ctorErr s = none) :
    BuildRel (build expectedBoolOps true e) (build expectedBoolOps false e) := by
  induction e with
  | leaf s =>
    refine ⟨.refl s, ?_⟩
    intro cs d h; subst h
    exact (ctorErr_or (d := d) (hl _ (by simp [OpExpr.leaves]))).2
  | band a b iha ihb =>
    have ha := iha (fun s hs => hl s (by simp [OpExpr.leaves, hs]))
    have hb := ihb (fun s hs => hl s (by simp [OpExpr.leaves, hs]))
    simp only [build]
    cases h1 : build expectedBoolOps true a <;> cases h2 : build expectedBoolOps false a <;>
      rw [h1, h2] at ha <;> simp only [BuildRel] at ha
    · subst ha; exact rfl
    · cases h3 : build expectedBoolOps true b <;> cases h4 : build expectedBoolOps false b <;>
        rw [h3, h4] at hb <;> simp only [BuildRel] at hb
      · subst hb; exact rfl
      · exact applyAnd_rel ha.1 hb.1
  | bor a b iha ihb =>
    have ha := iha (fun s hs => hl s (by simp [OpExpr.leaves, hs]))
    have hb := ihb (fun s hs => hl s (by simp [OpExpr.leaves, hs]))
    simp only [build]
    cases h1 : build expectedBoolOps true a <;> cases h2 : build expectedBoolOps false a <;>
      rw [h1, h2] at ha <;> simp only [BuildRel] at ha
    · subst ha; exact rfl
    · cases h3 : build expectedBoolOps true b <;> cases h4 : build expectedBoolOps false b <;>
        rw [h3, h4] at hb <;> simp only [BuildRel] at hb
      · subst hb; exact rfl
      · exact applyOr_rel ha.1 hb.1 ha.2
  | inv a iha =>
    have ha := iha (fun s hs => hl s (by simp [OpExpr.leaves, hs]))
    simp only [build]
    cases h1 : build expectedBoolOps true a <;> cases h2 : build expectedBoolOps false a <;>
      rw [h1, h2] at ha <;> simp only [BuildRel] at ha
    · subst ha; exact rfl
    · exact applyInv_rel ha.1

/-! ### where a rejection originates -/

/-- the sub-specs a combinator evaluates on its own target -/
def subSpecs : Spec → List Spec
  | .and cs _ => cs
  | .or cs _ => cs
  | .not c => [c]
  | .switch cases _ => cases.flatMap (fun p => [p.1, p.2])
  | _ => []

def isCombinator : Spec → Bool
  | .mtype | .msub _ | .mexpr .. | .and .. | .or .. | .not _ | .switch .. => true
  | _ => false

theorem evalAnd_error_mem (env : Env) (cs : List Spec) (t r0 : V) (e : PyExc)
    (h : (evalAnd env cs t r0).1 = .error e) : ∃ c ∈ cs, (eval env c t).1 = .error e := by
  induction cs generalizing r0 with
  | nil => simp [evalAnd] at h
  | cons c cs ih =>
    rw [evalAnd] at h
    cases hc : (eval env c t).1 with
    | error e' =>
      rw [hc] at h; simp only at h
      injection h with h; subst h
      exact ⟨c, by simp, hc⟩
    | ok v =>
      rw [hc] at h; simp only at h
      obtain ⟨c', hm, hc'⟩ := ih v h
      exact ⟨c', by simp [hm], hc'⟩

theorem evalOr_error_mem (env : Env) (cs : List Spec) (t : V) (e : PyExc) (hne : cs ≠ [])
    (h : (evalOr env cs t).1 = .error e) : ∃ c ∈ cs, (eval env c t).1 = .error e := by
  induction cs with
  | nil => exact absurd rfl hne
  | cons c cs ih =>
    cases cs with
    | nil => rw [evalOr] at h; exact ⟨c, by simp, h⟩
    | cons c' cs' =>
      rw [evalOr] at h
      cases hc : (eval env c t).1 with
      | ok v => rw [hc] at h; simp only at h; rw [hc] at h; cases h
      | error e' =>
        rw [hc] at h
        simp only at h
        split at h
        · simp only at h
          obtain ⟨c'', hm, hc''⟩ := ih (by simp) h
          exact ⟨c'', by simp [hm], hc''⟩
        · rw [hc] at h; injection h with h; subst h
          exact ⟨c, by simp, hc⟩

/-- a result of Or is the result of one of its children (on the same target) -/
theorem evalOr_ok_mem (env : Env) (cs : List Spec) (t r : V)
    (h : (evalOr env cs t).1 = .ok r) : ∃ c ∈ cs, (eval env c t).1 = .ok r := by
  induction cs with
  | nil => simp [evalOr] at h
  | cons c cs ih =>
    cases cs with
    | nil => rw [evalOr] at h; exact ⟨c, by simp, h⟩
    | cons c' cs' =>
      rw [evalOr] at h
      cases hc : (eval env c t).1 with
      | ok v => rw [hc] at h; simp only at h; rw [hc] at h; exact ⟨c, by simp, by rw [hc]; exact h⟩
      | error e' =>
        rw [hc] at h
        simp only at h
        split at h
        · simp only at h
          obtain ⟨c'', hm, hc''⟩ := ih h
          exact ⟨c'', by simp [hm], hc''⟩
        · rw [hc] at h; cases h

theorem evalSwitch_error (env : Env) (cases : List (Spec × Spec)) (d : Option Arg) (t : V) (e : PyExc)
    (h : (evalSwitch env cases d t).1 = .error e) :
    (∃ p ∈ cases, (eval env p.1 t).1 = .error e ∨ (eval env p.2 t).1 = .error e) ∨
    e = raiseAt env "Switch.glomit" 0 ∨ (∃ a, d = some a ∧ argVal a t = .error e) := by
  induction cases with
  | nil =>
    cases d with
    | none => simp only [evalSwitch] at h; injection h with h; exact Or.inr (Or.inl h.symm)
    | some a => simp only [evalSwitch] at h; exact Or.inr (Or.inr ⟨a, rfl, h⟩)
  | cons p rest ih =>
    obtain ⟨k, v⟩ := p
    rw [evalSwitch] at h
    cases hk : (eval env k t).1 with
    | ok kv =>
      rw [hk] at h; simp only at h
      exact Or.inl ⟨(k, v), by simp, Or.inr h⟩
    | error e' =>
      rw [hk] at h; simp only at h
      split at h
      · simp only at h
        rcases ih h with ⟨p, hm, hp⟩ | h2 | h3
        · exact Or.inl ⟨p, by simp [hm], hp⟩
        · exact Or.inr (Or.inl h2)
        · exact Or.inr (Or.inr h3)
      · injection h with h; subst h
        exact Or.inl ⟨(k, v), by simp, Or.inl hk⟩

theorem argVal_error {a : Arg} {t : V} {e : PyExc} (h : argVal a t = .error e) : e = pae := by
  cases a with
  | const v => simp [argVal] at h
  | val v => simp [argVal] at h
  | t x =>
    simp only [argVal, tRes] at h
    split at h
    · cases h
    · injection h with h; exact h.symm
  | seq tup items =>
    simp only [argVal, argItems_eq] at h
    cases ho : ofItems items t with
    | none => rw [ho] at h; simp only [Except.map] at h; injection h with h; exact h.symm
    | some vs => rw [ho] at h; simp only [Except.map] at h; cases h


/-! ### operands that are objects which exist already; programs -/

/-- operator application is compositional: what `build` makes of an expression depends on its
    sub-expressions only through what `build` makes of them — so an operand may be given as the
    object itself (`.leaf obj`) or as the expression that built it -/
theorem build_subst_congr (tbl : OpTable) (fl : Bool) (f g : Nat → OpExpr) (e : OpExprX)
    (h : ∀ i ∈ e.uses, build tbl fl (f i) = build tbl fl (g i)) :
    build tbl fl (e.subst f) = build tbl fl (e.subst g) := by
  induction e with
  | leaf s => rfl
  | use i => exact h i (by simp [OpExprX.uses])
  | band a b iha ihb =>
    simp only [OpExprX.subst, build]
    rw [iha (fun i hi => h i (by simp [OpExprX.uses, hi])),
      ihb (fun i hi => h i (by simp [OpExprX.uses, hi]))]
  | bor a b iha ihb =>
    simp only [OpExprX.subst, build]
    rw [iha (fun i hi => h i (by simp [OpExprX.uses, hi])),
      ihb (fun i hi => h i (by simp [OpExprX.uses, hi]))]
  | inv a iha =>
    simp only [OpExprX.subst, build]
    rw [iha (fun i hi => h i (by simp [OpExprX.uses, hi]))]

theorem subst_leaves (f : Nat → OpExpr) (e : OpExprX) :
    ∀ s ∈ (e.subst f).leaves, s ∈ e.leaves ∨ ∃ i ∈ e.uses, s ∈ (f i).leaves := by
  induction e with
  | leaf s0 => intro s hs; exact Or.inl hs
  | use i => intro s hs; exact Or.inr ⟨i, by simp [OpExprX.uses], hs⟩
  | band a b iha ihb =>
    intro s hs
    simp only [OpExprX.subst, OpExpr.leaves, List.mem_append] at hs
    rcases hs with hs | hs
    · rcases iha s hs with h | ⟨i, hi, h⟩
      · exact Or.inl (by simp [OpExprX.leaves, h])
      · exact Or.inr ⟨i, by simp [OpExprX.uses, hi], h⟩
    · rcases ihb s hs with h | ⟨i, hi, h⟩
      · exact Or.inl (by simp [OpExprX.leaves, h])
      · exact Or.inr ⟨i, by simp [OpExprX.uses, hi], h⟩
  | bor a b iha ihb =>
    intro s hs
    simp only [OpExprX.subst, OpExpr.leaves, List.mem_append] at hs
    rcases hs with hs | hs
    · rcases iha s hs with h | ⟨i, hi, h⟩
      · exact Or.inl (by simp [OpExprX.leaves, h])
      · exact Or.inr ⟨i, by simp [OpExprX.uses, hi], h⟩
    · rcases ihb s hs with h | ⟨i, hi, h⟩
      · exact Or.inl (by simp [OpExprX.leaves, h])
      · exact Or.inr ⟨i, by simp [OpExprX.uses, hi], h⟩
  | inv a iha =>
    intro s hs
    simp only [OpExprX.subst, OpExpr.leaves] at hs
    rcases iha s hs with h | ⟨i, hi, h⟩
    · exact Or.inl (by simp [OpExprX.leaves, h])
    · exact Or.inr ⟨i, by simp [OpExprX.uses, hi], h⟩

theorem ctorErrL_snoc {cs : List Spec} {b : Spec} (h1 : ctorErrL cs = none) (h2 : ctorErr b = none) :
    ctorErrL (cs ++ [b]) = none := by
  induction cs with
  | nil => simp [ctorErrL, h2, Option.orElse]
  | cons c cs ih =>
    obtain ⟨hc, hcs⟩ := ctorErrL_cons h1
    simp only [List.cons_append, ctorErrL, hc, ih hcs, Option.orElse]

theorem ctorErr_pair_and {x y : Spec} (hx : ctorErr x = none) (hy : ctorErr y = none) :
    ctorErr (.and [x, y] none) = none := by
  simp [ctorErr, ctorErrL, hx, hy, Option.orElse]

theorem ctorErr_pair_or {x y : Spec} (hx : ctorErr x = none) (hy : ctorErr y = none) :
    ctorErr (.or [x, y] none) = none := by
  simp [ctorErr, ctorErrL, hx, hy, Option.orElse]

theorem ctorErr_snoc_and {cs : List Spec} {d : Option Arg} {y : Spec}
    (hx : ctorErr (.and cs d) = none) (hy : ctorErr y = none) :
    ctorErr (.and (cs ++ [y]) none) = none := by
  obtain ⟨h1, _⟩ := ctorErr_and hx
  simp [ctorErr, ctorErrL_snoc h1 hy, Option.orElse]

theorem ctorErr_snoc_or {cs : List Spec} {d : Option Arg} {y : Spec}
    (hx : ctorErr (.or cs d) = none) (hy : ctorErr y = none) :
    ctorErr (.or (cs ++ [y]) none) = none := by
  obtain ⟨h1, _⟩ := ctorErr_or hx
  simp [ctorErr, ctorErrL_snoc h1 hy, Option.orElse]

/-- an operator applied to constructible operands builds a constructible object -/
theorem applyAnd_ctorOk (fl : Bool) {sa sb s : Spec} (ha : ctorErr sa = none) (hb : ctorErr sb = none)
    (h : applyBin expectedBoolOps fl "__and__" "__rand__" sa sb = .ok s) : ctorErr s = none := by
  unfold applyBin at h
  simp only [findOp_eq, shapeOf_and, shapeOf_rand] at h
  cases hca : opClass sa with
  | and_ =>
    obtain ⟨cs, d, rfl⟩ := opClass_and hca
    rw [hca] at h
    simp only [buildShape_andShape] at h
    cases d with
    | some dv =>
      simp only [hasDefault, if_true] at h
      injection h with h; subst h; exact ctorErr_pair_and ha hb
    | none =>
      simp only [hasDefault, Bool.false_eq_true, if_false, flatAnd, children?] at h
      cases fl with
      | true => simp only [if_true] at h; injection h with h; subst h; exact ctorErr_snoc_and ha hb
      | false =>
        simp only [Bool.false_eq_true, if_false] at h
        injection h with h; subst h; exact ctorErr_pair_and ha hb
  | or_ | not_ | mexpr | mtype =>
    rw [hca] at h
    simp only [buildShape_and] at h
    injection h with h; subst h; exact ctorErr_pair_and ha hb
  | msub | plain =>
    rw [hca] at h
    simp only at h
    cases hcb : opClass sb <;> rw [hcb] at h <;> simp only [buildShape_and] at h <;>
      first
        | (injection h with h; subst h; exact ctorErr_pair_and hb ha)
        | cases h

theorem applyOr_ctorOk (fl : Bool) {sa sb s : Spec} (ha : ctorErr sa = none) (hb : ctorErr sb = none)
    (h : applyBin expectedBoolOps fl "__or__" "__ror__" sa sb = .ok s) : ctorErr s = none := by
  unfold applyBin at h
  simp only [findOp_eq, shapeOf_or, shapeOf_ror] at h
  cases hca : opClass sa with
  | or_ =>
    obtain ⟨cs, d, rfl⟩ := opClass_or hca
    rw [hca] at h
    simp only [buildShape_orShape] at h
    cases d with
    | some dv =>
      simp only [hasDefault, if_true] at h
      injection h with h; subst h; exact ctorErr_pair_or ha hb
    | none =>
      simp only [hasDefault, Bool.false_eq_true, if_false, flatOr, children?] at h
      cases fl with
      | true => simp only [if_true] at h; injection h with h; subst h; exact ctorErr_snoc_or ha hb
      | false =>
        simp only [Bool.false_eq_true, if_false] at h
        injection h with h; subst h; exact ctorErr_pair_or ha hb
  | and_ | not_ | mexpr | mtype =>
    rw [hca] at h
    simp only [buildShape_or] at h
    injection h with h; subst h; exact ctorErr_pair_or ha hb
  | msub | plain =>
    rw [hca] at h
    simp only at h
    cases h

theorem applyInv_ctorOk {sa s : Spec} (ha : ctorErr sa = none)
    (h : applyInv expectedBoolOps sa = .ok s) : ctorErr s = none := by
  unfold applyInv at h
  simp only [findOp_eq, shapeOf_inv] at h
  cases hca : opClass sa <;> rw [hca] at h <;> simp only [buildShape_not] at h <;>
    first
      | (injection h with h; subst h; simpa [ctorErr] using ha)
      | cases h

/-- what the operators build from constructible leaves can be constructed (in both readings) -/
theorem build_ctorOk (fl : Bool) (e : OpExpr) (hl : ∀ s ∈ e.leaves, ctorErr s = none) :
    ∀ s, build expectedBoolOps fl e = .ok s → ctorErr s = none := by
  induction e with
  | leaf s0 =>
    intro s h
    simp only [build] at h
    injection h with h; subst h
    exact hl _ (by simp [OpExpr.leaves])
  | band a b iha ihb =>
    intro s h
    simp only [build] at h
    cases h1 : build expectedBoolOps fl a with
    | error x => rw [h1] at h; cases h
    | ok sa =>
      rw [h1] at h; simp only at h
      cases h2 : build expectedBoolOps fl b with
      | error x => rw [h2] at h; cases h
      | ok sb =>
        rw [h2] at h; simp only at h
        exact applyAnd_ctorOk fl (iha (fun s hs => hl s (by simp [OpExpr.leaves, hs])) sa h1)
          (ihb (fun s hs => hl s (by simp [OpExpr.leaves, hs])) sb h2) h
  | bor a b iha ihb =>
    intro s h
    simp only [build] at h
    cases h1 : build expectedBoolOps fl a with
    | error x => rw [h1] at h; cases h
    | ok sa =>
      rw [h1] at h; simp only at h
      cases h2 : build expectedBoolOps fl b with
      | error x => rw [h2] at h; cases h
      | ok sb =>
        rw [h2] at h; simp only at h
        exact applyOr_ctorOk fl (iha (fun s hs => hl s (by simp [OpExpr.leaves, hs])) sa h1)
          (ihb (fun s hs => hl s (by simp [OpExpr.leaves, hs])) sb h2) h
  | inv a iha =>
    intro s h
    simp only [build] at h
    cases h1 : build expectedBoolOps fl a with
    | error x => rw [h1] at h; cases h
    | ok sa =>
      rw [h1] at h; simp only at h
      exact applyInv_ctorOk (iha (fun s hs => hl s (by simp [OpExpr.leaves, hs])) sa h1) h

/-- the invariant of a program run: the i-th object of the heap is what the operators build
    from the i-th (inlined) definition, whose leaves can all be constructed -/
def HeapInv (objs : List Spec) (defs : List OpExpr) : Prop :=
  objs.length = defs.length ∧
  ∀ i, build expectedBoolOps true (defAt defs i) = .ok (objAt objs i) ∧
    ∀ s ∈ (defAt defs i).leaves, ctorErr s = none

theorem HeapInv.nil : HeapInv [] [] := by
  refine ⟨rfl, fun i => ⟨?_, ?_⟩⟩
  · simp [defAt, objAt, build]
  · intro s hs
    simp only [defAt, List.getD_nil, OpExpr.leaves, List.mem_singleton] at hs
    subst hs; rfl

theorem HeapInv.snoc {objs : List Spec} {defs : List OpExpr} (h : HeapInv objs defs)
    {s : Spec} {e : OpExpr} (hb : build expectedBoolOps true e = .ok s)
    (hl : ∀ x ∈ e.leaves, ctorErr x = none) : HeapInv (objs ++ [s]) (defs ++ [e]) := by
  obtain ⟨hlen, hi⟩ := h
  refine ⟨by simp [hlen], fun i => ?_⟩
  by_cases hlt : i < defs.length
  · have h1 : defAt (defs ++ [e]) i = defAt defs i := by
      simp [defAt, List.getD_eq_getElem?_getD, List.getElem?_append_left hlt]
    have h2 : objAt (objs ++ [s]) i = objAt objs i := by
      simp [objAt, List.getD_eq_getElem?_getD, List.getElem?_append_left (hlen ▸ hlt)]
    rw [h1, h2]; exact hi i
  · by_cases heq : i = defs.length
    · have h1 : defAt (defs ++ [e]) i = e := by
        subst heq; simp [defAt, List.getD_eq_getElem?_getD]
      have h2 : objAt (objs ++ [s]) i = s := by
        subst heq; simp [objAt, List.getD_eq_getElem?_getD, ← hlen]
      rw [h1, h2]; exact ⟨hb, hl⟩
    · have hgt : defs.length + 1 ≤ i := by omega
      have h1 : defAt (defs ++ [e]) i = .leaf .mtype := by
        simp [defAt, List.getD_eq_getElem?_getD, List.getElem?_eq_none (l := defs ++ [e]) (by simpa using hgt)]
      have h2 : objAt (objs ++ [s]) i = .mtype := by
        simp [objAt, List.getD_eq_getElem?_getD,
          List.getElem?_eq_none (l := objs ++ [s]) (by simpa [hlen] using hgt)]
      rw [h1, h2]
      refine ⟨rfl, ?_⟩
      intro x hx
      simp only [OpExpr.leaves, List.mem_singleton] at hx
      subst hx; rfl

/-- binding on the heap = building the inlined definition -/
theorem bindObj_eq {objs : List Spec} {defs : List OpExpr} (h : HeapInv objs defs) (e : OpExprX) :
    bindObj expectedBoolOps objs e = build expectedBoolOps true (e.subst (defAt defs)) := by
  unfold bindObj
  apply build_subst_congr
  intro i _
  rw [(h.2 i).1]; rfl

theorem inlined_leaves {objs : List Spec} {defs : List OpExpr} (h : HeapInv objs defs) (e : OpExprX)
    (hl : ∀ s ∈ e.leaves, ctorErr s = none) :
    ∀ s ∈ (e.subst (defAt defs)).leaves, ctorErr s = none := by
  intro s hs
  rcases subst_leaves _ e s hs with h1 | ⟨i, _, h1⟩
  · exact hl s h1
  · exact (h.2 i).2 s h1


/-- a program run on the model satisfies the program checker, from any heap that satisfies the
    invariant -/
theorem prog_checks {env : Env} (hw : WFacts env) :
    ∀ (steps : List Step) (objs : List Spec) (defs : List OpExpr), HeapInv objs defs →
      (∀ e, Step.bind e ∈ steps → ∀ s ∈ e.leaves, ctorErr s = none) →
      checkProg env.cls steps defs (runProg env steps objs) = true := by
  intro steps
  induction steps with
  | nil => intro objs defs _ _; simp [runProg, checkProg]
  | cons st rest ih =>
    intro objs defs hinv hl
    have hl' : ∀ e, Step.bind e ∈ rest → ∀ s ∈ e.leaves, ctorErr s = none :=
      fun e he => hl e (by simp [he])
    cases st with
    | bind e =>
      have hle := inlined_leaves hinv e (hl e (by simp))
      have hrel := build_rel _ hle
      unfold BuildRel at hrel
      simp only [runProg, hw.ops_ok, bindObj_eq hinv e]
      cases h1 : build expectedBoolOps true (e.subst (defAt defs)) <;>
        cases h2 : build expectedBoolOps false (e.subst (defAt defs)) <;>
        rw [h1, h2] at hrel <;> simp only at hrel
      · subst hrel
        simp [checkProg, bindErr, h2]
      · have c1 := build_ctorOk true _ hle _ h1
        have c2 := build_ctorOk false _ hle _ h2
        simp only [c1, checkProg, bindErr, h2, c2, Option.map_none]
        exact ih _ _ (hinv.snoc h1 hle) hl'
    | eval i t =>
      simp only [runProg, checkProg, Bool.and_eq_true]
      refine ⟨?_, ih objs defs hinv hl'⟩
      obtain ⟨hb, hle⟩ := hinv.2 i
      have hrel := build_rel (defAt defs i) hle
      rw [hb] at hrel
      unfold BuildRel at hrel
      unfold checkOps
      cases h2 : build expectedBoolOps false (defAt defs i) <;> rw [h2] at hrel <;> simp only at hrel
      simp only
      rw [hrel.1.eval_eq env t]
      unfold checkC10
      rw [build_ctorOk false _ hle _ h2]
      exact rel_obsSat (eval_rel hw _ t (build_ctorOk false _ hle _ h2))

/-! ### copies of a spec: when the markers survive, the copy is the spec -/

theorem copyDflt_kept (m : String) (d : Option Arg) : copyDflt true m d = d := by
  cases d <;> rfl

theorem copyKind_kept (k : KeyKind) : copyKind true k = k := by
  cases k <;> simp [copyKind, copyDflt_kept]

mutual
theorem deepCopy_kept : ∀ s : Spec, deepCopy true true s = s
  | .t _ | .val _ | .mtype | .msub _ | .mexpr .. | .regex .. | .ty _ | .lit _ | .pred .. => by
    simp [deepCopy]
  | .and cs d => by simp [deepCopy, deepCopyL_kept cs, copyDflt_kept]
  | .or cs d => by simp [deepCopy, deepCopyL_kept cs, copyDflt_kept]
  | .not c => by simp [deepCopy, deepCopy_kept c]
  | .switch cases d => by simp [deepCopy, deepCopyC_kept cases, copyDflt_kept]
  | .check a => by simp [deepCopy, copyDflt_kept]
  | .matchS c d => by simp [deepCopy, deepCopy_kept c, copyDflt_kept]
  | .list cs => by simp [deepCopy, deepCopyL_kept cs]
  | .set cs => by simp [deepCopy, deepCopyL_kept cs]
  | .fset cs => by simp [deepCopy, deepCopyL_kept cs]
  | .tuple cs => by simp [deepCopy, deepCopyL_kept cs]
  | .dict es => by simp [deepCopy, deepCopyD_kept es]
theorem deepCopyL_kept : ∀ l : List Spec, deepCopyL true true l = l
  | [] => by simp [deepCopyL]
  | s :: ss => by simp [deepCopyL, deepCopy_kept s, deepCopyL_kept ss]
theorem deepCopyC_kept : ∀ l : List (Spec × Spec), deepCopyC true true l = l
  | [] => by simp [deepCopyC]
  | (k, v) :: r => by simp [deepCopyC, deepCopy_kept k, deepCopy_kept v, deepCopyC_kept r]
theorem deepCopyD_kept : ∀ l : List (KeyKind × Spec × Spec), deepCopyD true true l = l
  | [] => by simp [deepCopyD]
  | (kind, k, v) :: r => by
    simp [deepCopyD, copyKind_kept, deepCopy_kept k, deepCopy_kept v, deepCopyD_kept r]
end

theorem markersOK_kept {ids : List (String × String × Bool)} (h : markersOK ids = true) {how : String}
    (hh : how ∈ ["copy", "deepcopy", "pickle"]) :
    markerKept ids "_MISSING" how = true ∧ markerKept ids "RAISE" how = true := by
  unfold markersOK at h
  simp only [Bool.and_eq_true, List.all_eq_true] at h
  exact (h.1 how hh).1

/-- with the markers kept, a copy of a spec *is* the spec (as a value): rebuilt node by node
    from equal attribute values, every "absent" slot still absent -/
theorem copySpec_id {ids : List (String × String × Bool)} (h : markersOK ids = true) {how : String}
    (hh : how ∈ ["copy", "deepcopy", "pickle"]) (s : Spec) : copySpec ids how s = s := by
  unfold copySpec
  split
  · rfl
  · obtain ⟨h1, h2⟩ := markersOK_kept h hh
    rw [h1, h2]; exact deepCopy_kept s

/-! ### another class table: the code facts are the same -/

theorem WF_withCls (env : Env) (ct : ClassTable) : WF (env.withCls ct) = WF env := rfl

end Glom.C10
