import Glom.Spec.C10
/-
  Helper lemmas for C10/C09: consequences of the facts obligation `WF`, the
  refinement relation `Rel` between the code-shaped evaluator and the
  denotation, and the refinement itself (one mutual structural induction over
  spec trees, lists of children, Switch cases and dict entries).
-/
namespace Glom.C10
open Glom Glom.MV

/-! ### consequences of `WF` -/

structure WFacts (env : Env) : Prop where
  raise_ok : ∀ s ∈ siteOrigins, classOK env s.2.2 (raiseAt env s.1 s.2.1).cls = true
  comb_ok : ∀ site ∈ combinatorSites, ∃ cs, env.raises.lookup site = some cs ∧
      ∀ c ∈ cs, c = "<reraise>" ∨ env.exc.isSub c "MatchError" = true
  catch_ok : ∀ s ∈ catchSites, (env.catches.lookup s.1).bind (·[s.2.1]?) = some [s.2.2]
  pae_ok : classOK env .access pae.cls = true
  plain_ok : ∀ c ∈ ["TypeError", "ValueError", "NameError", "IndexError", "KeyError",
      "UnboundLocalError", "AttributeError", "NotImplementedError"],
      env.exc.isSub c "GlomError" = false ∧ env.exc.isSub c "Exception" = true
  glom_exc : env.exc.isSub "GlomError" "Exception" = true
  m_ok : ∀ c ∈ ["_MType", "_MSubspec"], ∀ op ∈ allOps,
      env.mDispatch.lookup (opChar env c op) = some (opName op)
  m_nodup : (env.mDispatch.map (·.1)).Nodup
  ops_ok : env.boolOps = expectedBoolOps

theorem WF.facts {env : Env} (h : WF env = true) : WFacts env := by
  unfold WF at h
  simp only [Bool.and_eq_true, List.all_eq_true, decide_eq_true_eq, beq_iff_eq,
    Bool.not_eq_true'] at h
  obtain ⟨⟨⟨⟨⟨⟨⟨⟨⟨h1, h2⟩, h3⟩, h4⟩, h5⟩, h6⟩, h7⟩, h8⟩, _⟩, h10⟩ := h
  refine ⟨h1, ?_, h3, h4, ?_, h6, ?_, h8, h10⟩
  · intro site hs
    have := h2 site hs
    split at this
    · rename_i cs hcs
      rw [List.all_eq_true] at this
      exact ⟨cs, hcs, fun c hc => by simpa using this c hc⟩
    · simp at this
  · intro c hc; exact h5 c hc
  · intro c hc op hop; exact h7 c hc op hop

theorem catchesAt_of {env : Env} {site : String} {i : Nat} {b : String}
    (h : (env.catches.lookup site).bind (·[i]?) = some [b]) (e : PyExc) :
    catchesAt env site i e = env.exc.isSub e.cls b := by
  unfold catchesAt; rw [h]; simp

def isGlomE (env : Env) (e : PyExc) : Bool := env.exc.isSub e.cls "GlomError"

theorem classOK_glom {env : Env} {o : Origin} {c : String} (h : classOK env o c = true) :
    env.exc.isSub c "GlomError" = true := by
  unfold classOK at h; simp only [Bool.and_eq_true] at h; exact h.1


/-! ### the refinement relation -/

def RelRes (env : Env) : Res → Verdict → Prop
  | .ok a, .pass b => a = b
  | .error e, .reject o => classOK env o e.cls = true
  | .error e, .fault c => e.cls = c ∧ env.exc.isSub c "GlomError" = false
  | _, _ => False

/-- the code-shaped outcome carries what the denotation promises, and the same call log -/
def Rel (env : Env) (o : Out) (d : D) : Prop := RelRes env o.1 d.1 ∧ o.2 = d.2

theorem RelRes.elim {env : Env} {r : Res} {v : Verdict} (h : RelRes env r v) :
    (∃ a, r = .ok a ∧ v = .pass a) ∨
    (∃ e o, r = .error e ∧ v = .reject o ∧ classOK env o e.cls = true) ∨
    (∃ e, r = .error e ∧ v = .fault e.cls ∧ env.exc.isSub e.cls "GlomError" = false) := by
  cases r with
  | ok a => cases v <;> simp_all [RelRes]
  | error e =>
    cases v with
    | pass _ => simp [RelRes] at h
    | reject o => exact Or.inr (Or.inl ⟨e, o, rfl, rfl, h⟩)
    | fault c => simp only [RelRes] at h; obtain ⟨rfl, h2⟩ := h; exact Or.inr (Or.inr ⟨e, rfl, rfl, h2⟩)

theorem Rel.mk_ok {env : Env} (a : V) (l : Log) : Rel env (.ok a, l) (.pass a, l) := ⟨rfl, rfl⟩

theorem Rel.mk_rej {env : Env} {e : PyExc} {o : Origin} (l : Log) (h : classOK env o e.cls = true) :
    Rel env (.error e, l) (.reject o, l) := ⟨h, rfl⟩

theorem Rel.mk_fault {env : Env} {e : PyExc} (l : Log) (h : env.exc.isSub e.cls "GlomError" = false) :
    Rel env (.error e, l) (.fault e.cls, l) := ⟨⟨rfl, h⟩, rfl⟩

/-- case analysis on a related pair, exposing both sides as explicit pairs -/
theorem Rel.cases {env : Env} {o : Out} {d : D} (h : Rel env o d) :
    (∃ a l, o = (.ok a, l) ∧ d = (.pass a, l)) ∨
    (∃ e og l, o = (.error e, l) ∧ d = (.reject og, l) ∧ classOK env og e.cls = true) ∨
    (∃ e l, o = (.error e, l) ∧ d = (.fault e.cls, l) ∧ env.exc.isSub e.cls "GlomError" = false) := by
  obtain ⟨r, l⟩ := o
  obtain ⟨v, l'⟩ := d
  obtain ⟨h1, h2⟩ := h
  simp only at h1 h2
  subst h2
  rcases h1.elim with ⟨a, rfl, rfl⟩ | ⟨e, og, rfl, rfl, hc⟩ | ⟨e, rfl, rfl, hg⟩
  · exact Or.inl ⟨a, l, rfl, rfl⟩
  · exact Or.inr (Or.inl ⟨e, og, l, rfl, rfl, hc⟩)
  · exact Or.inr (Or.inr ⟨e, l, rfl, rfl, hg⟩)

section
variable {env : Env} (hw : WFacts env)
include hw

theorem raise_rel (site : String) (i : Nat) (o : Origin) (l : Log)
    (hm : (site, i, o) ∈ siteOrigins) :
    Rel env (.error (raiseAt env site i), l) (.reject o, l) :=
  Rel.mk_rej l (hw.raise_ok (site, i, o) hm)

theorem catch_glom (site : String) (hm : (site, 0, "GlomError") ∈ catchSites) (e : PyExc) :
    catchesAt env site 0 e = env.exc.isSub e.cls "GlomError" :=
  catchesAt_of (hw.catch_ok (site, 0, "GlomError") hm) e

theorem catch_exc (site : String) (hm : (site, 0, "Exception") ∈ catchSites) (e : PyExc) :
    catchesAt env site 0 e = env.exc.isSub e.cls "Exception" :=
  catchesAt_of (hw.catch_ok (site, 0, "Exception") hm) e

theorem tRes_rel (e : TExpr) (t : V) (k : V → D) (k' : V → Out)
    (hk : ∀ v, Rel env (k' v) (k v)) :
    Rel env (match tRes e t with | .ok v => k' v | .error x => (.error x, [])) (vaccess e t k) := by
  unfold tRes vaccess
  cases tGet e t with
  | none => exact Rel.mk_rej [] hw.pae_ok
  | some v => exact hk v

theorem argVal_rel (a : Arg) (t : V) (l : Log) : Rel env (argVal a t, l) (ofArg a t, l) := by
  cases a with
  | const v => exact Rel.mk_ok v l
  | t e =>
    simp only [argVal, ofArg, tRes]
    cases tGet e t with
    | none => exact Rel.mk_rej l hw.pae_ok
    | some v => exact Rel.mk_ok v l

/-- `_Bool.glomit` / `Match.glomit`: a rejection becomes the default, nothing else changes -/
theorem default_rel (site : String) (hm : (site, 0, "GlomError") ∈ catchSites)
    (dflt : Option Arg) (t : V) {o : Out} {d : D} (h : Rel env o d) :
    Rel env
      (match o.1 with
       | .ok _ => o
       | .error e =>
         if catchesAt env site 0 e then
           (match dflt with | some a => (argVal a t, o.2) | none => o)
         else o)
      (withDefault dflt t d) := by
  rcases h.cases with ⟨a, l, rfl, rfl⟩ | ⟨e, og, l, rfl, rfl, hc⟩ | ⟨e, l, rfl, rfl, hg⟩
  · cases dflt <;> exact Rel.mk_ok a l
  · simp only [catch_glom hw site hm, classOK_glom hc, if_true, withDefault]
    cases dflt with
    | none => exact Rel.mk_rej l hc
    | some a => exact argVal_rel hw a t l
  · simp only [catch_glom hw site hm, hg, withDefault]
    cases dflt <;> exact Rel.mk_fault l hg


/-! ### M comparisons -/

omit hw in
theorem cmpOfName_opName (op : CmpOp) : cmpOfName (opName op) = some op := by
  cases op <;> decide

omit hw in
theorem mMatched_not_mem (disp : List (String × String)) (ch : String) (l r : V)
    (h : ch ∉ disp.map (·.1)) : mMatched disp ch l r = some false := by
  induction disp with
  | nil => rfl
  | cons p rest ih =>
    obtain ⟨c, o⟩ := p
    simp only [List.map_cons, List.mem_cons, not_or] at h
    unfold mMatched
    rw [if_neg (by simpa using h.1)]
    exact ih h.2

omit hw in
theorem mMatched_eq (disp : List (String × String)) (hn : (disp.map (·.1)).Nodup) (ch : String)
    (op : CmpOp) (hl : disp.lookup ch = some (opName op)) (l r : V) :
    mMatched disp ch l r = pyCmp op l r := by
  induction disp with
  | nil => simp [List.lookup] at hl
  | cons p rest ih =>
    obtain ⟨c, o⟩ := p
    simp only [List.map_cons, List.nodup_cons] at hn
    unfold mMatched
    by_cases hc : ch = c
    · subst hc
      simp only [List.lookup, beq_self_eq_true] at hl
      injection hl with hl; subst hl
      rw [if_pos (by simp), cmpOfName_opName]
      simp only [Option.bind_some]
      have := mMatched_not_mem rest ch l r hn.1
      cases hp : pyCmp op l r with
      | none => rfl
      | some b => cases b <;> simp [this]
    · have hne : (ch == c) = false := by simpa using hc
      simp only [List.lookup, hne] at hl
      rw [if_neg (by simpa using hc)]
      exact ih hn.2 hl

theorem mexpr_rel (l : MSide) (op : CmpOp) (r : Side) (t : V) :
    Rel env (mexprGlomit env l op r t, []) (denote env.cls (.mexpr l op r) t) := by
  have hcls : l.cls ∈ ["_MType", "_MSubspec"] := by cases l <;> simp [MSide.cls]
  have hop : op ∈ allOps := by cases op <;> simp [allOps]
  have hm := fun lv rv => mMatched_eq env.mDispatch hw.m_nodup _ op (hw.m_ok l.cls hcls op hop) lv rv
  have core : ∀ lv rv, Rel env
      (match mMatched env.mDispatch (opChar env l.cls op) lv rv with
        | none => (Except.error ⟨"TypeError"⟩ : Res)
        | some true => .ok t
        | some false => .error (raiseAt env "_MExpr.glomit" 0), [])
      (match pyCmp op lv rv with
        | some b => vcond b t
        | none => (.fault "TypeError", [])) := by
    intro lv rv
    rw [hm]
    cases pyCmp op lv rv with
    | none => exact Rel.mk_fault (e := ⟨"TypeError"⟩) [] (hw.plain_ok "TypeError" (by simp)).1
    | some b =>
      cases b
      · exact raise_rel hw "_MExpr.glomit" 0 .comb [] (by simp [siteOrigins])
      · exact Rel.mk_ok t []
  unfold mexprGlomit
  simp only [denote]
  have side : ∀ lv, Rel env
      (match r.val t with
        | .error e => (Except.error e : Res)
        | .ok rv =>
          match mMatched env.mDispatch (opChar env l.cls op) lv rv with
          | none => .error ⟨"TypeError"⟩
          | some true => .ok t
          | some false => .error (raiseAt env "_MExpr.glomit" 0), [])
      (sideRef r t (fun rv => match pyCmp op lv rv with
        | some b => vcond b t
        | none => (.fault "TypeError", []))) := by
    intro lv
    cases r with
    | m => exact core lv t
    | const v => exact core lv v
    | sub e =>
      simp only [Side.val, sideRef, tRes, vaccess]
      cases tGet e t with
      | none => exact Rel.mk_rej [] hw.pae_ok
      | some v => exact core lv v
  cases l with
  | m => exact side t
  | sub e =>
    simp only [MSide.val, msideRef, tRes, vaccess]
    cases tGet e t with
    | none => exact Rel.mk_rej [] hw.pae_ok
    | some v => exact side v

end

end Glom.C10
