import Glom.Lemmas.C11k
/-
  Helper lemmas for C11, part 12: which error — the `except` clauses of `_assign_op` (extracted) against
  the reading (`refErr`): `[` / `.` let Python's exception through, a plain segment wraps it.
-/
namespace Glom.C11
open Glom Glom.Mut

theorem observeErr_isErr (env : MEnv) (e : MErr) : (observeErr env e).isErr = true := by
  cases e <;> rfl

theorem applyAssignHandler_exc {env : MEnv} {h : Heap} {hn : String} {dest arg v : Val} {e : PyExc}
    (hh : applyAssignHandler env h hn dest arg v = .error e) : e.cls ∈ assignHandlerExcs := by
  unfold applyAssignHandler at hh
  split at hh
  · rcases pySetitem_exc hh with h1 | h1 | h1 <;> simp [h1, assignHandlerExcs, exc]
  · split at hh
    · rcases pySetSeqItem_exc hh with h1 | h1 | h1 | h1 <;> simp [h1, assignHandlerExcs, exc]
    · split at hh
      · rcases pySetattr_exc hh with h1 | h1 | h1 <;> simp [h1, assignHandlerExcs, exc]
      · injection hh with hh; subst hh; simp [assignHandlerExcs, exc]

theorem assignWrapOK_parts {env : MEnv} (hw : assignWrapOK env = true) :
    (∃ k r, branchOf env.assignBr "[" = some (k, [], r)) ∧ (∃ k r, branchOf env.assignBr "." = some (k, [], r)) ∧
    ∃ k caught, branchOf env.assignBr "P" = some (k, caught, "PathAssignError") ∧
      ∀ n ∈ assignHandlerExcs, C01.caughtBy env.t caught ⟨n⟩ = true := by
  simp only [assignWrapOK, Bool.and_eq_true, beq_iff_eq] at hw
  obtain ⟨⟨h1, h2⟩, h3⟩ := hw
  refine ⟨?_, ?_, ?_⟩
  · cases hb : branchOf env.assignBr "[" with
    | none => simp [hb] at h1
    | some x => obtain ⟨k, c, r⟩ := x; simp [hb] at h1; subst h1; exact ⟨k, r, rfl⟩
  · cases hb : branchOf env.assignBr "." with
    | none => simp [hb] at h2
    | some x => obtain ⟨k, c, r⟩ := x; simp [hb] at h2; subst h2; exact ⟨k, r, rfl⟩
  · cases hb : branchOf env.assignBr "P" with
    | none => simp [hb] at h3
    | some x =>
      obtain ⟨k, c, r⟩ := x
      simp only [hb, Bool.and_eq_true, beq_iff_eq, List.all_eq_true] at h3
      exact ⟨k, c, by rw [h3.1], h3.2⟩

theorem caughtBy_nil (env : MEnv) (e : PyExc) : C01.caughtBy env.t [] e = false := by
  simp [C01.caughtBy]

/-- how a failing final step leaves `_assign_op`, by the kind of the step -/
theorem assignErr_reading {env : MEnv} (hw : assignWrapOK env = true) (arg : Val) (e : PyExc) :
    assignErr env "[" arg e = .raised e ∧ assignErr env "." arg e = .raised e ∧
    (e.cls ∈ assignHandlerExcs → assignErr env "P" arg e = .passign e arg) := by
  obtain ⟨⟨k1, r1, h1⟩, ⟨k2, r2, h2⟩, k3, c3, h3, hc3⟩ := assignWrapOK_parts hw
  refine ⟨by simp [assignErr, h1, caughtBy_nil], by simp [assignErr, h2, caughtBy_nil], ?_⟩
  intro he
  have := hc3 e.cls he
  have he' : (⟨e.cls⟩ : PyExc) = e := by cases e; rfl
  rw [he'] at this
  simp [assignErr, h3, this]

/-! unfoldings (moved out of Props: they restate definitions) -/

/-- **List indices**: assigning at index `i` of a list of length `n` (`T[...]` addressing) replaces
    exactly position `i` (for `0 ≤ i < n`) or `n + i` (for `-n ≤ i < 0`) and raises IndexError for
    every other index — never extending the list. -/
theorem pySetitem_list_index (env : MEnv) (h : Heap) (a : Nat) (c : String) (xs : List Val) (i : Int) (v : Val)
    (ha : h[a]? = some (.list c xs)) (hg : env.flag c "raise_setitem" = false) :
    pySetitem env h (.ref a) (.int i) v =
      if 0 ≤ i ∧ i < xs.length then .ok { heap := h.set a (.list c (xs.set i.toNat v)), cell := some a }
      else if i < 0 ∧ 0 ≤ i + xs.length then
        .ok { heap := h.set a (.list c (xs.set (i + xs.length).toNat v)), cell := some a }
      else .error (exc "IndexError") := by
  simp only [pySetitem, ha, hg, Bool.false_eq_true, if_false, asIndex, pyIdx]
  by_cases h0 : i < 0
  · have hn : ¬ (0 ≤ i ∧ i < (xs.length : Int)) := by omega
    simp only [h0, if_true, hn, if_false, true_and]
    by_cases h1 : i + (xs.length : Int) < 0
    · have : ¬ (0 ≤ i + (xs.length : Int)) := by omega
      simp [h1, this]
    · have h2 : 0 ≤ i + (xs.length : Int) := by omega
      have h3 : (i + (xs.length : Int)).toNat < xs.length := by omega
      simp [h1, h2, h3]
  · have hn : ¬ (i < 0 ∧ 0 ≤ i + (xs.length : Int)) := by omega
    simp only [h0, if_false, hn]
    have h1 : ¬ i < 0 := h0
    by_cases h2 : i.toNat < xs.length
    · have : 0 ≤ i ∧ i < (xs.length : Int) := by omega
      simp [h1, h2, this]
    · have : ¬ (0 ≤ i ∧ i < (xs.length : Int)) := by omega
      simp [h1, h2, this]

/-- a path whose first step is spelled `S[name]` is evaluated as it is written -/
theorem readSteps_item (arg : Val) (r : List Step) (sroot : Bool) :
    readSteps sroot (("[", arg) :: r) = ("[", arg) :: r := by
  cases sroot <;> simp [readSteps, sMagic]

/-- **A factory without side effects**: the re-entrant model is the plain one. -/
theorem assignAuxR_id' (env : MEnv) (sroot : Bool) (sref : Val) (kind : String) (fuel : Nat) (st : St)
    (target : Val) (orig : List Step) (vs : ValSpec) :
    assignAuxR env id sroot sref kind fuel st target orig vs =
      assignAux env sroot sref (.factory kind) fuel st target orig vs :=
  assignAuxR_id env sroot sref kind fuel st target orig vs


end Glom.C11

namespace Glom.C11
open Glom Glom.Mut

/-- the read-back step of a chain, run by the model on the heap the prescription gives, passes `checkReadRef` -/
theorem checkReadRef_ok {env : MEnv} (hwf1 : C01.WF env.t = true)
    (hx : C01.dispatchOf env.t "x" = some ("star", [])) (hc : classesOK env = true)
    (n : Nat) (root : Val) (H : Heap) (calls : Nat) (rs : List Step) (hrd : wfStar rs = true)
    (hns : hasStar rs = false ∨ ∀ c, isScope env H c = false) :
    checkReadRef env n root (.ok H false calls) rs H (observeRead env (some (fetch env H rs 0 root))) = true := by
  unfold checkReadRef
  have hspec := fetch_spec' hwf1 hx hc H rs hrd hns 0 root
  cases hm : matchesOf env H rs 0 root with
  | ok ds =>
    rw [hm] at hspec
    obtain ⟨nest, hf, hu, hl⟩ := hspec
    simp [hm, hf, observeRead, hu, hl]
  | fail k e stop =>
    rw [hm] at hspec
    simp [hm, hspec, observeRead, observeErr]
  | unreg => rw [hm] at hspec; exact hspec.elim
  | unsupported => simp [hm]

end Glom.C11
