import Glom.Lemmas.C16More
/-
  C16 — what the code computes when H2' fails (known finding F10): a bucket key equal to
  `id()` of its own spec dict.

  `tree[key] = {}` then lands in the slot that holds the level's `acc` dict.  The call in
  progress still holds the old `acc` object, writes its result there and returns it — the
  result of THAT item is still the hand-written loop's.  From the next item on
  `acc = tree[id(spec)]` is the SUB-TREE of the colliding bucket (the accumulators of the
  value spec, keyed by id() / spec object): everything collected before is lost, that
  sub-tree's entries show up as buckets, and every later bucket starts afresh.
-/
set_option linter.unusedSimpArgs false
set_option linter.unusedVariables false
set_option linter.unnecessarySimpa false

namespace Glom.C16

/-! ### dict primitives on appended / updated entry lists -/

theorem dget_append (a b : List (V × V)) (k : V) : dget (a ++ b) k = (dget a k).or (dget b k) := by
  induction a with
  | nil => simp [dget]
  | cons e a ih =>
    obtain ⟨k', v⟩ := e
    by_cases h : keyEq k' k = true <;> simp [dget, h, ih]

theorem dhas_append (a b : List (V × V)) (k : V) : dhas (a ++ b) k = (dhas a k || dhas b k) := by
  simp only [dhas, dget_append]
  cases dget a k <;> simp

theorem dset_append_right {a : List (V × V)} {k : V} (h : dhas a k = false) (b : List (V × V)) (v : V) :
    dset (a ++ b) k v = a ++ dset b k v := by
  induction a with
  | nil => rfl
  | cons e a ih =>
    obtain ⟨k', v'⟩ := e
    by_cases hk : keyEq k' k = true
    · simp [dhas, dget, hk] at h
    · have hk' : keyEq k' k = false := by simpa using hk
      have h' : dhas a k = false := by simpa [dhas, dget, hk'] using h
      simp [dset, hk', ih h']

theorem dset_new {a : List (V × V)} {k : V} (h : dhas a k = false) (v : V) : dset a k v = a ++ [(k, v)] := by
  have := dset_append_right h [] v
  simpa [dset] using this

theorem dget_dset_gen (es : List (V × V)) {k : V} (hk : keyEq k k = true) (v : V) (k2 : V) :
    dget (dset es k v) k2 = if keyEq k k2 then some v else dget es k2 := by
  induction es with
  | nil => by_cases h : keyEq k k2 = true <;> simp [dset, dget, h]
  | cons e es ih =>
    obtain ⟨k', v'⟩ := e
    by_cases h1 : keyEq k' k = true
    · simp only [dset, h1, if_true, dget]
      by_cases h2 : keyEq k k2 = true
      · simp [h2, keyEq_trans _ _ _ h1 h2]
      · have h3 : keyEq k' k2 = false := by
          cases h3 : keyEq k' k2 with
          | false => rfl
          | true => exact absurd (keyEq_trans _ _ _ (by rw [keyEq_symm]; exact h1) h3) h2
        simp [h2, h3]
    · have h1' : keyEq k' k = false := by simpa using h1
      simp only [dset, h1', Bool.false_eq_true, if_false, dget, ih]
      by_cases h3 : keyEq k' k2 = true
      · have h2 : keyEq k k2 = false := by
          cases h2 : keyEq k k2 with
          | false => rfl
          | true => exact absurd (keyEq_trans _ _ _ h3 (by rw [keyEq_symm]; exact h2)) h1
        simp [h3, h2]
      · simp [h3]

def allDicts (es : List (V × V)) : Prop := ∀ e ∈ es, ∃ d, e.2 = V.dict d

theorem allDicts_dset {es : List (V × V)} (h : allDicts es) (k : V) (d : List (V × V)) :
    allDicts (dset es k (.dict d)) := by
  induction es with
  | nil => intro e he; simp [dset] at he; subst he; exact ⟨d, rfl⟩
  | cons e0 es ih =>
    obtain ⟨k', v'⟩ := e0
    intro e he
    by_cases hk : keyEq k' k = true
    · simp only [dset, hk, if_true] at he
      rcases List.mem_cons.mp he with rfl | he
      · exact ⟨d, rfl⟩
      · exact h e (List.mem_cons_of_mem _ he)
    · have hk' : keyEq k' k = false := by simpa using hk
      simp only [dset, hk', Bool.false_eq_true, if_false] at he
      rcases List.mem_cons.mp he with rfl | he
      · exact h _ List.mem_cons_self
      · exact ih (fun e' he' => h e' (List.mem_cons_of_mem _ he')) e he

theorem isMarked_of_allDicts {es : List (V × V)} (h : allDicts es) (k : V) : isMarked es k = false := by
  unfold isMarked
  induction es with
  | nil => rfl
  | cons e0 es ih =>
    obtain ⟨k', v'⟩ := e0
    by_cases hk : keyEq k' k = true
    · obtain ⟨d, hd⟩ := h (k', v') List.mem_cons_self
      simp only at hd
      simp [dget, hk, hd]
    · have hk' : keyEq k' k = false := by simpa using hk
      simpa [dget, hk'] using ih (fun e' he' => h e' (List.mem_cons_of_mem _ he'))

theorem bhas_addTo (bs : List (V × List V)) (k x k2 : V) : bhas (addTo bs k x) k2 = (bhas bs k2 || keyEq k k2) := by
  induction bs with
  | nil => simp [addTo, bhas]
  | cons b0 bs ih =>
    obtain ⟨k', its⟩ := b0
    by_cases h1 : keyEq k' k = true
    · simp only [addTo, h1, if_true, bhas]
      by_cases h2 : keyEq k k2 = true
      · simp [h2, keyEq_trans _ _ _ h1 h2]
      · simp [h2]
    · have h1' : keyEq k' k = false := by simpa using h1
      simp only [addTo, h1', Bool.false_eq_true, if_false, bhas, ih, Bool.or_assoc]

theorem bucketOf_congr (bs : List (V × List V)) {k k2 : V} (h : keyEq k k2 = true) : bucketOf bs k = bucketOf bs k2 := by
  induction bs with
  | nil => rfl
  | cons b0 bs ih =>
    obtain ⟨k', its⟩ := b0
    by_cases h1 : keyEq k' k = true
    · simp [bucketOf, h1, keyEq_trans _ _ _ h1 h]
    · have h1' : keyEq k' k = false := by simpa using h1
      have h2 : keyEq k' k2 = false := by
        cases h2 : keyEq k' k2 with
        | false => rfl
        | true => exact absurd (keyEq_trans _ _ _ h2 (by rw [keyEq_symm]; exact h)) h1
      simp [bucketOf, h1', h2, ih]

/-! ### the state after a collision -/

/-- the tree of a key level some time after a bucket key collided with `id(spec)`: the slot of `acc`
    holds `A0` (the entries of the colliding bucket's sub-tree) followed by the buckets since;
    every bucket since has its sub-tree; whatever else is in the tree (`rest`) is stale -/
def PostInv (id : Nat) (sub : GSpec) (A0 : List (V × V)) (bs : List (V × List V)) (tree : List (V × V)) : Prop :=
  ∃ rest, tree = (idKey id, .dict (A0 ++ bs.map (fun b => (b.1, implOf sub b.2)))) :: rest ∧
    allDicts rest ∧ ∀ k, bhas bs k = true → dget rest k = some (.dict (treeOf sub (bucketOf bs k)))

/-- what the hypotheses say about one item of the part after the collision -/
structure PostItem (id : Nat) (key : Fn) (A0 : List (V × V)) (x : V) : Prop where
  ap : applyOk key x = true
  hash : hashable (key.val x) = true
  slot : keyEq (idKey id) (key.val x) = false
  a0 : dhas A0 (key.val x) = false

theorem post_step (id kid : Nat) (key : Fn) (sub : GSpec) (A0 : List (V × V)) (seg : List V) (x : V)
    (tree : List (V × V)) (hinv : PostInv id sub A0 (buckets key seg) tree)
    (hx : PostItem id key A0 x) (hD : Hyp false (.dict id kid key sub) (seg ++ [x]))
    (hef : eventFree (.dict id kid key sub) seg = true)
    (hs : stopsAt (.dict id kid key sub) seg x = false) :
    ∃ tree', gstep (.dict id kid key sub) x tree =
        .ok (.dict (A0 ++ (buckets key (seg ++ [x])).map (fun b => (b.1, implOf sub b.2))), tree') ∧
      PostInv id sub A0 (buckets key (seg ++ [x])) tree' := by
  obtain ⟨rest, htree, hdicts, hsubs⟩ := hinv
  have hkap := apply_of_ok hx.ap
  have hslotx := hx.slot
  have hslot_obj : keyEq (idKey id) (.obj kid) = false := keyEq_id_obj id kid
  have hhas : dhas tree (idKey id) = true := by simp [htree, dhas, dget, keyEq_idKey]
  have hacc : subTree tree (idKey id) =
      .ok (A0 ++ (buckets key seg).map (fun b => (b.1, implOf sub b.2))) := by
    simp [htree, subTree, dget, keyEq_idKey]
  have hmark : isMarked tree (.obj kid) = false := by
    have : isMarked tree (.obj kid) = isMarked rest (.obj kid) := by
      simp [isMarked, htree, dget, hslot_obj]
    rw [this]; exact isMarked_of_allDicts hdicts _
  have hst : stopsAt (.dict id kid key sub) seg x = (isStop (key.val x) ||
      (!(isSkip (key.val x)) && stopsAt sub (bucketOf (buckets key seg) (key.val x)) x)) := rfl
  rw [buckets_snoc, bucketStep_eq]
  by_cases hskip : isSkip (key.val x) = true
  · refine ⟨tree, ?_, ?_⟩
    · simp only [gstep, hhas, if_true, hacc, hmark, hkap]
      simp [hskip]
    · simp only [hskip, if_true]; exact ⟨rest, htree, hdicts, hsubs⟩
  · have hskip' : isSkip (key.val x) = false := by simpa using hskip
    rw [hst] at hs
    simp only [Bool.or_eq_false_iff, hskip', Bool.not_false, Bool.true_and] at hs
    obtain ⟨hnstop, hsb⟩ := hs
    have hkk : keyEq (key.val x) (key.val x) = true := keyEq_refl hx.hash
    have hbinv := buckets_inv key (Q := fun _ => True) seg (fun _ _ _ => trivial)
    have hbm : ∀ i ∈ bucketOf (buckets key seg) (key.val x), i ∈ seg := bucketOf_subset key seg _
    have hHb : Hyp true sub (bucketOf (buckets key seg) (key.val x) ++ [x]) := hD.bucket_snoc hskip'
    have hefb : eventFree sub (bucketOf (buckets key seg) (key.val x)) = true :=
      eventFree_bucketOf id kid key sub seg (key.val x) hef
    have hefb' : eventFree sub (bucketOf (buckets key seg) (key.val x) ++ [x]) = true := by
      rw [eventFree_snoc, hefb, hsb]; rfl
    have hrec := (gstep_both sub true _ x hHb hefb).1 hsb
    have hns := valOf_not_sentinel sub true _ (by simp) hHb hefb'
    -- `key not in acc`
    have hfresh : dhas (A0 ++ (buckets key seg).map (fun b => (b.1, implOf sub b.2))) (key.val x) =
        bhas (buckets key seg) (key.val x) := by
      rw [dhas_append, hx.a0, Bool.false_or, dhas_eq, dget_map]
      cases bhas (buckets key seg) (key.val x) <;> rfl
    -- the tree after `if key not in acc: tree[key] = {}`
    let rest1 := if (!bhas (buckets key seg) (key.val x)) = true then dset rest (key.val x) (.dict []) else rest
    have htree1 : (if (!bhas (buckets key seg) (key.val x)) = true then dset tree (key.val x) (.dict []) else tree) =
        (idKey id, .dict (A0 ++ (buckets key seg).map (fun b => (b.1, implOf sub b.2)))) :: rest1 := by
      simp only [rest1]
      split
      · rw [htree, dset_cons_ne hslotx]
      · exact htree
    have hdicts1 : allDicts rest1 := by
      simp only [rest1]; split
      · exact allDicts_dset hdicts _ _
      · exact hdicts
    have hsubtree : subTree ((idKey id, V.dict (A0 ++ (buckets key seg).map (fun b => (b.1, implOf sub b.2)))) :: rest1)
        (key.val x) = .ok (treeOf sub (bucketOf (buckets key seg) (key.val x))) := by
      simp only [subTree, dget_cons_ne hslotx, rest1]
      cases hb : bhas (buckets key seg) (key.val x) with
      | false => simp [dget_dset_self _ hkk, bucketOf_of_not_bhas hb, treeOf_nil]
      | true => simp [hsubs _ hb]
    let rest2 := dset rest1 (key.val x) (.dict (treeOf sub (bucketOf (buckets key seg) (key.val x) ++ [x])))
    refine ⟨(idKey id, .dict (A0 ++ (addTo (buckets key seg) (key.val x) x).map (fun b => (b.1, implOf sub b.2)))) ::
      rest2, ?_, ?_⟩
    · simp only [gstep, hhas, if_true, hacc, hmark, hkap]
      simp only [hskip', hnstop, hx.hash, Bool.false_eq_true, if_false, Bool.not_true, hslotx, Bool.false_and]
      rw [hfresh, htree1, hsubtree]
      simp only [hrec, hns.1, hns.2 rfl, Bool.false_eq_true, if_false]
      have hacc' := dset_map (implOf sub) (buckets key seg) (key.val x) x
      rw [dset_cons_ne hslotx, dset_append_right hx.a0, hacc']
      simp only [dset, keyEq_idKey, if_true, rest2]
    · simp only [hskip', Bool.false_eq_true, if_false]
      refine ⟨rest2, rfl, allDicts_dset hdicts1 _ _, ?_⟩
      intro k2 hk2
      simp only [rest2]
      rw [dget_dset_gen _ hkk, bucketOf_addTo_gen]
      by_cases h2 : keyEq (key.val x) k2 = true
      · simp [h2, bucketOf_congr (buckets key seg) h2]
      · have h2' : keyEq (key.val x) k2 = false := by simpa using h2
        simp only [h2', Bool.false_eq_true, if_false]
        have hb2 : bhas (buckets key seg) k2 = true := by simpa [bhas_addTo, h2'] using hk2
        simp only [rest1]
        split
        · rw [dget_dset_gen _ hkk]; simp [h2', hsubs _ hb2]
        · exact hsubs _ hb2

/-- the items after the collision: as if they ran alone, on top of the colliding bucket's sub-tree -/
theorem post_loop (id kid : Nat) (key : Fn) (sub : GSpec) (A0 : List (V × V)) :
    ∀ (post seg : List V) (ret : V) (tree : List (V × V)),
      PostInv id sub A0 (buckets key seg) tree →
      (∀ x ∈ post, PostItem id key A0 x) → Hyp false (.dict id kid key sub) (seg ++ post) →
      eventFree (.dict id kid key sub) seg = true →
      eventFreeFrom (.dict id kid key sub) seg post = true →
      loopWith (gstep (.dict id kid key sub)) post ret tree =
        .ok (if post.isEmpty then ret
             else .dict (A0 ++ (buckets key (seg ++ post)).map (fun b => (b.1, implOf sub b.2)))) := by
  intro post
  induction post with
  | nil => intro seg ret tree _ _ _ _ _; simp [loopWith]
  | cons x xs ih =>
    intro seg ret tree hinv hitems hH hef heff
    simp only [eventFreeFrom, Bool.and_eq_true, Bool.not_eq_true'] at heff
    have hHx : Hyp false (.dict id kid key sub) (seg ++ [x]) := hH.init_snoc
    obtain ⟨tree', hstep, hinv'⟩ := post_step id kid key sub A0 seg x tree hinv (hitems x List.mem_cons_self) hHx hef heff.1
    have hef' : eventFree (.dict id kid key sub) (seg ++ [x]) = true := by rw [eventFree_snoc, hef, heff.1]; rfl
    have := ih (seg ++ [x]) (.dict (A0 ++ (buckets key (seg ++ [x])).map (fun b => (b.1, implOf sub b.2)))) tree'
      hinv' (fun y hy => hitems y (List.mem_cons_of_mem _ hy)) (by simpa using hH) hef' heff.2
    simp only [loopWith, hstep, isStop, Bool.false_eq_true, if_false, this, List.isEmpty_cons]
    cases xs with
    | nil => simp
    | cons y ys => simp

/-! ### up to the collision, and the collision itself -/

theorem eventFree_prefix (s : GSpec) (xs : List V) : ∀ ys, eventFree s (xs ++ ys) = true → eventFree s xs = true := by
  intro ys
  induction ys using snoc_induction with
  | h0 => intro h; simpa using h
  | hs ys y ih =>
    intro h
    rw [← List.append_assoc] at h
    exact ih (eventFree_init h).1

/-- the loop over an event-free prefix reaches the state of that prefix -/
theorem loop_prefix (s : GSpec) :
    ∀ (xs done ys : List V), Hyp false s (done ++ xs) → eventFree s (done ++ xs) = true →
      loopWith (gstep s) (xs ++ ys) (valTopC s done) (treeOf s done) =
        loopWith (gstep s) ys (valTopC s (done ++ xs)) (treeOf s (done ++ xs)) := by
  intro xs
  induction xs with
  | nil => intro done ys _ _; simp
  | cons x xs ih =>
    intro done ys h hef
    have hx : Hyp false s (done ++ [x]) := h.init_snoc
    have hef1 : eventFree s (done ++ [x]) = true :=
      eventFree_prefix s (done ++ [x]) xs (by simpa using hef)
    obtain ⟨hef0, hs⟩ := eventFree_init hef1
    have hstep := (gstep_both s false done x hx hef0).1 hs
    have hns := (valOf_not_sentinel s false (done ++ [x]) (by simp) hx hef1).1
    simp only [List.cons_append, loopWith, hstep, hns, Bool.false_eq_true, if_false]
    rw [← valTopC_snoc]
    have := ih (done ++ [x]) ys (by simpa using h) (by simpa using hef)
    simpa using this

theorem dset_cons_eq {k' k v w : V} {es : List (V × V)} (h : keyEq k' k = true) :
    dset ((k', v) :: es) k w = (k', w) :: es := by simp [dset, h]

theorem allDicts_subtrees (sub : GSpec) (bs : List (V × List V)) :
    allDicts (bs.map (fun b => (b.1, V.dict (treeOf sub b.2)))) := by
  intro e he
  simp only [List.mem_map] at he
  obtain ⟨b, _, rfl⟩ := he
  exact ⟨_, rfl⟩

/-- **the colliding item**: its own result is still the hand-written loop's (the old `acc` object
    gets the entry and is returned), but the slot of `acc` now holds the bucket's sub-tree -/
theorem collide_step (id kid : Nat) (key : Fn) (sub : GSpec) (pre : List V) (c : V)
    (hap : applyOk key c = true) (hkc : key.val c = idKey id)
    (hpre : ∀ y ∈ pre, keyEq (idKey id) (key.val y) = false)
    (hsub : Hyp true sub [c]) (hns : stopsAt sub [] c = false) :
    ∃ tree2, gstep (.dict id kid key sub) c (treeOf (.dict id kid key sub) pre) =
        .ok (.dict ((buckets key pre).map (fun b => (b.1, implOf sub b.2)) ++ [(idKey id, implOf sub [c])]),
             tree2) ∧
      PostInv id sub (treeOf sub [c]) [] tree2 := by
  have hkap := apply_of_ok hap
  rw [hkc] at hkap
  have hinv := buckets_inv key (Q := fun k => keyEq k (idKey id) = false) pre
    (fun y hy _ => by rw [keyEq_symm]; exact hpre y hy)
  have htree1 : (if dhas (treeOf (.dict id kid key sub) pre) (idKey id) then treeOf (.dict id kid key sub) pre
      else dset (treeOf (.dict id kid key sub) pre) (idKey id) (.dict [])) = levelTree id sub (buckets key pre) := by
    rw [treeOf_dict]
    cases pre with
    | nil => simp [dhas, dget, dset, levelTree, buckets]
    | cons y ys => simp [dhas, dget, levelTree, keyEq_idKey]
  have hacc : subTree (levelTree id sub (buckets key pre)) (idKey id) =
      .ok ((buckets key pre).map (fun b => (b.1, implOf sub b.2))) := by
    simp [subTree, levelTree, dget, keyEq_idKey]
  have hmark := isMarked_levelTree id kid sub (buckets key pre)
  have hnb : bhas (buckets key pre) (idKey id) = false := bhas_false (fun b hb => (hinv b hb).1)
  have hfresh : dhas ((buckets key pre).map (fun b => (b.1, implOf sub b.2))) (idKey id) = false := by
    rw [dhas_eq, dget_map, hnb]; rfl
  have hrec := (gstep_both sub true [] c (by simpa using hsub) rfl).1 hns
  simp only [treeOf_nil, List.nil_append] at hrec
  have hsent := valOf_not_sentinel sub true [c] (by simp) hsub (by
    have : eventFree sub ([] ++ [c]) = true := by rw [eventFree_snoc, hns]; rfl
    simpa using this)
  refine ⟨(idKey id, .dict (treeOf sub [c])) :: (buckets key pre).map (fun b => (b.1, V.dict (treeOf sub b.2))), ?_, ?_⟩
  · simp only [gstep, htree1, hacc, hmark, hkap]
    have h1 : isSkip (idKey id) = false := rfl
    have h2 : isStop (idKey id) = false := rfl
    have h3 : hashable (idKey id) = true := rfl
    simp only [h1, h2, h3, Bool.false_eq_true, if_false, Bool.not_true, hfresh, Bool.not_false, if_true,
      keyEq_idKey, Bool.and_self, levelTree, dset_cons_eq (keyEq_idKey id), subTree, dget, hrec, hsent.1, hsent.2 rfl,
      Bool.and_false, dset_new hfresh]
  · refine ⟨(buckets key pre).map (fun b => (b.1, V.dict (treeOf sub b.2))), by simp, allDicts_subtrees sub _, ?_⟩
    intro k hk; simp [bhas] at hk

/-- **known finding F10, exactly** (one collision): `items = pre ++ [c] ++ post`, the key of `c`
    is `id(spec dict)`, no other key is.  If `c` is the last item the result is the hand-written
    loop's; otherwise it is the entries of the SUB-TREE of `c`'s bucket (the accumulators of the
    value spec after `c` alone, keyed by id() / spec object) followed by the buckets of `post`
    ALONE — everything grouped before `c`, and `c`'s own bucket, are gone. -/
theorem f10_exact (id kid : Nat) (key : Fn) (sub : GSpec) (pre post : List V) (c : V)
    (hwf : wfRun (.dict id kid key sub) (pre ++ c :: post) = true)
    (hwfpost : wfRun (.dict id kid key sub) post = true)
    (hkc : key.val c = idKey id)
    (hsa : ∀ y ∈ pre ++ post, keyEq (idKey id) (key.val y) = false)
    (hsasub : slotApart sub (pre ++ c :: post) = true)
    (hns : noSkipBelow true sub (pre ++ c :: post) = true)
    (hefpre : eventFree (.dict id kid key sub) (pre ++ [c]) = true)
    (hefpost : eventFree (.dict id kid key sub) post = true)
    (ha0 : ∀ y ∈ post, dhas (treeOf sub [c]) (key.val y) = false) :
    groupEval (.dict id kid key sub) (pre ++ c :: post) =
      .ok (if post.isEmpty then
             .dict ((buckets key pre).map (fun b => (b.1, implOf sub b.2)) ++ [(idKey id, implOf sub [c])])
           else .dict (treeOf sub [c] ++ (buckets key post).map (fun b => (b.1, implOf sub b.2)))) := by
  have hwf' := hwf
  simp only [wfRun, Bool.and_eq_true, List.all_eq_true] at hwf'
  have hpre_sub : ∀ i ∈ pre, i ∈ pre ++ c :: post := fun i hi => List.mem_append_left _ hi
  have hpost_sub : ∀ i ∈ post, i ∈ pre ++ c :: post := fun i hi => by simp [hi]
  have hpreH : Hyp false (.dict id kid key sub) pre := by
    refine ⟨wfRun_prefix _ pre (c :: post) hwf, ?_, ?_⟩
    · simp only [slotApart, Bool.and_eq_true, List.all_eq_true, Bool.not_eq_true']
      exact ⟨fun y hy => hsa y (List.mem_append_left _ hy), slotApart_subset sub hpre_sub hsasub⟩
    · simpa only [noSkipBelow] using noSkipBelow_subset true sub hpre_sub hns
  obtain ⟨hefp, hstopc⟩ := eventFree_init hefpre
  -- the colliding bucket is new
  have hinv := buckets_inv key (Q := fun k => keyEq k (idKey id) = false) pre
    (fun y hy _ => by rw [keyEq_symm]; exact hsa y (List.mem_append_left _ hy))
  have hnb : bhas (buckets key pre) (idKey id) = false := bhas_false (fun b hb => (hinv b hb).1)
  have hns0 : stopsAt sub [] c = false := by
    have : stopsAt (.dict id kid key sub) pre c = (isStop (key.val c) ||
      (!(isSkip (key.val c)) && stopsAt sub (bucketOf (buckets key pre) (key.val c)) c)) := rfl
    rw [this, hkc, bucketOf_of_not_bhas hnb] at hstopc
    simpa [isStop, isSkip, idKey] using hstopc
  have hcH : Hyp true sub [c] := by
    refine ⟨?_, slotApart_subset sub (fun i hi => by simp at hi; subst hi; simp) hsasub,
      noSkipBelow_subset true sub (fun i hi => by simp at hi; subst hi; simp) hns⟩
    -- `c`'s bucket after `pre ++ [c]` is `[c]`: a bucket of a prefix of the run
    have hw : wfRun (.dict id kid key sub) (pre ++ [c]) = true :=
      wfRun_prefix _ (pre ++ [c]) post (by simpa using hwf)
    simp only [wfRun, Bool.and_eq_true, List.all_eq_true] at hw
    have h2 := hw.2
    rw [buckets_snoc, bucketStep_eq, hkc] at h2
    have hsk : isSkip (idKey id) = false := rfl
    simp only [hsk, Bool.false_eq_true, if_false] at h2
    obtain ⟨bn, hbn, hbn2⟩ := addTo_has_new (buckets key pre) (idKey id) c
    rw [bucketOf_of_not_bhas hnb] at hbn2
    have := h2 bn hbn
    rwa [hbn2] at this
  obtain ⟨tree2, hstep, hpost⟩ := collide_step id kid key sub pre c (hwf'.1 c (by simp)).1 hkc
    (fun y hy => hsa y (List.mem_append_left _ hy)) hcH hns0
  -- the loop: up to `c`, `c`, after `c`
  have h1 := loop_prefix (.dict id kid key sub) pre [] (c :: post) (by simpa using hpreH) (by simpa using hefp)
  simp only [List.nil_append, valTopC, emptyOr, List.isEmpty_nil, if_true, treeOf_nil] at h1
  simp only [groupEval, groupLoop]
  rw [h1]
  have hitems : ∀ x ∈ post, PostItem id key (treeOf sub [c]) x := fun x hx =>
    ⟨(hwf'.1 x (by simp [hx])).1, (hwf'.1 x (by simp [hx])).2, hsa x (List.mem_append_right _ hx), ha0 x hx⟩
  have hpostH : Hyp false (.dict id kid key sub) ([] ++ post) := by
    refine ⟨by simpa using hwfpost, ?_, ?_⟩
    · simp only [List.nil_append, slotApart, Bool.and_eq_true, List.all_eq_true, Bool.not_eq_true']
      exact ⟨fun y hy => hsa y (List.mem_append_right _ hy), slotApart_subset sub hpost_sub hsasub⟩
    · simpa only [List.nil_append, noSkipBelow] using noSkipBelow_subset true sub hpost_sub hns
  have h2 := post_loop id kid key sub (treeOf sub [c]) post []
    (.dict ((buckets key pre).map (fun b => (b.1, implOf sub b.2)) ++ [(idKey id, implOf sub [c])])) tree2
    (by simpa [buckets] using hpost) hitems hpostH rfl hefpost
  simp only [loopWith, hstep, isStop, Bool.false_eq_true, if_false]
  simpa using h2

end Glom.C16
