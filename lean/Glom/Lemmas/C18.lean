import Glom.Spec.C18
import Glom.Lemmas.C01
/-
  Helper lemmas for C18: Python slice semantics (`pySlice`), the sequence
  operations on the flat ops tuple, `walk_append` for C01's reference walk, and
  the `eval(repr)` round trip: split / join of token lists; the displays of
  every container kind, dict entries, slice objects; `Path(…)` texts and
  `Path.__init__` (`parsePath_fmt`, stated over the induction hypotheses for the
  steps); the mutual induction over arguments, items and steps
  (`parseArg_fmt`, …); the reconstructed object prints the same (`fmtArg_norm`, …);
  reprlib's limits: the truncation pass is the identity inside them
  (`truncArg_of_fits`, …), normalising stays inside them (`fitsArg_norm`, …), larger
  limits lose nothing either (`fitsArg_mono`, …); the facts (`wf_*`).
-/
namespace Glom.C18

/-! ### `pySlice` -/

theorem pySlice_map {α β} (f : α → β) (xs : List α) (a b c : Option Int) :
    pySlice (xs.map f) a b c = (pySlice xs a b c).map (List.map f) := by
  unfold pySlice
  simp only [List.length_map]
  split
  · rfl
  · simp only [Option.map_some, Option.some.injEq, List.map_filterMap]
    congr 1
    funext i
    simp [List.getElem?_map]

theorem clampBound_range (n step b : Int) (hn : 0 ≤ n) :
    (0 < step → 0 ≤ clampBound n step b ∧ clampBound n step b ≤ n) ∧
    (step < 0 → -1 ≤ clampBound n step b ∧ clampBound n step b ≤ n - 1) := by
  unfold clampBound
  constructor <;> intro hs <;> split <;> (try split) <;> (try split) <;> omega

theorem sliceStart_range (n step : Int) (s : Option Int) (hn : 0 ≤ n) :
    (0 < step → 0 ≤ sliceStart n step s ∧ sliceStart n step s ≤ n) ∧
    (step < 0 → -1 ≤ sliceStart n step s ∧ sliceStart n step s ≤ n - 1) := by
  cases s with
  | none => simp only [sliceStart]; constructor <;> intro hs <;> (try split) <;> omega
  | some b => exact clampBound_range n step b hn

theorem sliceStop_range (n step : Int) (s : Option Int) (hn : 0 ≤ n) :
    (0 < step → 0 ≤ sliceStop n step s ∧ sliceStop n step s ≤ n) ∧
    (step < 0 → -1 ≤ sliceStop n step s ∧ sliceStop n step s ≤ n - 1) := by
  cases s with
  | none => simp only [sliceStop]; constructor <;> intro hs <;> (try split) <;> omega
  | some b => exact clampBound_range n step b hn

/-- every position a slice selects exists: `0 ≤ start + j·step < n` for `j < len` -/
theorem sliceIdx_lt (n : Nat) (a b : Option Int) (step : Int) (hstep : step ≠ 0) :
    ∀ i ∈ sliceIdx n a b step, i < n := by
  intro i hi
  simp only [sliceIdx, List.mem_map, List.mem_range] at hi
  obtain ⟨j, hj, rfl⟩ := hi
  have hs := sliceStart_range n step a (by omega)
  have he := sliceStop_range n step b (by omega)
  generalize sliceStart (↑n) step a = s at *
  generalize sliceStop (↑n) step b = e at *
  unfold sliceLen at hj
  by_cases hpos : 0 < step
  · have hneg : ¬ step < 0 := by omega
    simp only [hneg, if_false] at hj
    split at hj
    · rename_i hlt
      have hq : (j : Int) ≤ (e - s - 1) / step := by omega
      have := (Int.le_ediv_iff_mul_le hpos).mp hq
      obtain ⟨h1, h2⟩ := hs.1 hpos
      obtain ⟨h3, h4⟩ := he.1 hpos
      have hj0 : (0 : Int) ≤ (j : Int) * step := Int.mul_nonneg (by omega) (by omega)
      omega
    · omega
  · have hneg : step < 0 := by omega
    simp only [hneg, if_true] at hj
    split at hj
    · rename_i hlt
      have hq : (j : Int) ≤ (s - e - 1) / (-step) := by omega
      have := (Int.le_ediv_iff_mul_le (by omega : 0 < -step)).mp hq
      obtain ⟨h1, h2⟩ := hs.2 hneg
      obtain ⟨h3, h4⟩ := he.2 hneg
      have hj0 : (0 : Int) ≤ (j : Int) * (-step) := Int.mul_nonneg (by omega) (by omega)
      have hmul : (j : Int) * (-step) = -((j : Int) * step) := by rw [Int.mul_neg]
      omega
    · omega

theorem filterMap_get_length {α} (xs : List α) (l : List Nat) (hl : ∀ i ∈ l, i < xs.length) :
    (l.filterMap (fun i => xs[i]?)).length = l.length := by
  induction l with
  | nil => rfl
  | cons i r ih =>
    have hi := hl i (by simp)
    simp only [List.filterMap_cons, List.getElem?_eq_getElem hi, List.length_cons]
    rw [ih (fun k hk => hl k (by simp [hk]))]

/-- the length of a slice is the number of selected positions (none is dropped) -/
theorem pySlice_length {α} (xs : List α) (a b c : Option Int) (ys : List α)
    (h : pySlice xs a b c = some ys) :
    ys.length = sliceLen (sliceStart xs.length (c.getD 1) a) (sliceStop xs.length (c.getD 1) b)
      (c.getD 1) := by
  simp only [pySlice] at h
  split at h
  · cases h
  · rename_i hst
    simp only [Option.some.injEq] at h
    subst h
    rw [filterMap_get_length xs _ (sliceIdx_lt xs.length a b (c.getD 1) hst)]
    simp [sliceIdx]

theorem filterMap_range_get {α} (xs : List α) :
    ∀ (n : Nat), n ≤ xs.length → List.filterMap (fun i => xs[i]?) (List.range n) = xs.take n := by
  intro n
  induction n with
  | zero => intro _; simp
  | succ k ih =>
    intro hk
    rw [List.range_succ, List.filterMap_append, ih (by omega)]
    simp only [List.filterMap_cons, List.filterMap_nil]
    rw [List.getElem?_eq_getElem (show k < xs.length by omega)]
    rw [List.take_add_one, List.getElem?_eq_getElem (show k < xs.length by omega)]
    rfl

/-- `xs[:]` is `xs` -/
theorem pySlice_full {α} (xs : List α) : pySlice xs none none none = some xs := by
  unfold pySlice
  simp only [Option.getD_none, show (1 : Int) ≠ 0 by decide, if_false, Option.some.injEq]
  have hidx : sliceIdx xs.length none none 1 = List.range xs.length := by
    simp only [sliceIdx, sliceStart, sliceStop, sliceLen]
    have h1 : ¬ ((1 : Int) < 0) := by decide
    simp only [h1, if_false]
    by_cases hn : (0 : Int) < xs.length
    · simp only [hn, if_true, Int.sub_zero, Int.ediv_one, Int.mul_one, Int.zero_add]
      rw [show ((xs.length : Int) - 1 + 1).toNat = xs.length by omega]
      apply List.ext_getElem
      · simp
      · intro i h1 h2; simp
    · have : xs.length = 0 := by omega
      simp [this]
  rw [hidx, filterMap_range_get xs xs.length (Nat.le_refl _), List.take_length]

/-! ### the sequence operations on the flat tuple -/

section seq
variable {α : Type}

def flatCells (steps : List (String × α)) : List (Cell α) :=
  steps.flatMap (fun s => [Cell.op s.1, Cell.arg s.2])

theorem flatOf_eq (root : String) (steps : List (String × α)) :
    flatOf root steps = .root root :: flatCells steps := rfl

theorem flatCells_cons (s : String × α) (r : List (String × α)) :
    flatCells (s :: r) = .op s.1 :: .arg s.2 :: flatCells r := by
  simp [flatCells, List.flatMap_cons]

theorem flatCells_length (steps : List (String × α)) : (flatCells steps).length = 2 * steps.length := by
  induction steps with
  | nil => rfl
  | cons s r ih => rw [flatCells_cons]; simp [ih]; omega

theorem everyOther_flatCells (steps : List (String × α)) :
    everyOther (flatCells steps) = steps.map (fun s => Cell.op s.1) := by
  induction steps with
  | nil => rfl
  | cons s r ih => rw [flatCells_cons]; simp [everyOther, ih]

theorem everyOther_drop1_flatCells (steps : List (String × α)) :
    everyOther ((flatCells steps).drop 1) = steps.map (fun s => Cell.arg s.2) := by
  induction steps with
  | nil => rfl
  | cons s r ih =>
    rw [flatCells_cons]
    simp only [List.drop_succ_cons, List.drop_zero, List.map_cons]
    cases r with
    | nil => rfl
    | cons s' r' =>
      rw [flatCells_cons] at ih ⊢
      simp only [List.drop_succ_cons, List.drop_zero] at ih
      simp only [everyOther, ih]

theorem pLen_flatOf (root : String) (steps : List (String × α)) :
    pLen (flatOf root steps) = steps.length := by
  simp [pLen, flatOf_eq, flatCells_length]

theorem pValues_flatOf (root : String) (steps : List (String × α)) :
    pValues (flatOf root steps) = steps.map (fun s => Cell.arg s.2) := by
  simp only [pValues, flatOf_eq]
  rw [show (Cell.root root :: flatCells steps).drop 2 = (flatCells steps).drop 1 by simp]
  exact everyOther_drop1_flatCells steps

theorem pItems_flatOf (root : String) (steps : List (String × α)) :
    pItems (flatOf root steps) = steps.map (fun s => (Cell.op s.1, Cell.arg s.2)) := by
  simp only [pItems, flatOf_eq]
  rw [show (Cell.root root :: flatCells steps).drop 2 = (flatCells steps).drop 1 by simp,
    show (Cell.root root :: flatCells steps).drop 1 = flatCells steps by simp,
    everyOther_flatCells, everyOther_drop1_flatCells]
  induction steps with
  | nil => rfl
  | cons s r ih => simp [ih]

theorem rebuild_flatOf (root : String) (steps st : List (String × α)) :
    rebuild (flatOf root steps) (st.map (fun s => (Cell.op s.1, Cell.arg s.2))) = flatOf root st := by
  simp [rebuild, flatOf_eq, flatCells, List.flatMap_map]

theorem pGetSlice_flatOf (root : String) (steps : List (String × α)) (a b c : Option Int) :
    pGetSlice (flatOf root steps) a b c = (pySlice steps a b c).map (flatOf root) := by
  simp only [pGetSlice, pItems_flatOf, pySlice_map, Option.map_map]
  cases pySlice steps a b c with
  | none => rfl
  | some st => simp [rebuild_flatOf]

theorem pGetIdx_flatOf (root : String) (steps : List (String × α)) (i : Int) :
    pGetIdx (flatOf root steps) i =
      match pyIndexNat steps.length i with
      | some j => steps[j]?.map (fun s => flatOf root [s])
      | none => none := by
  simp only [pGetIdx, pItems_flatOf, List.length_map]
  cases pyIndexNat steps.length i with
  | none => rfl
  | some j =>
    simp only [List.getElem?_map, Option.map_map]
    cases steps[j]? with
    | none => rfl
    | some s =>
      have := rebuild_flatOf root steps [s]
      simp only [List.map_cons, List.map_nil] at this
      simp [this]

theorem flatCells_inj : ∀ (a b : List (String × α)), flatCells a = flatCells b → a = b := by
  intro a
  induction a with
  | nil =>
    intro b h
    cases b with
    | nil => rfl
    | cons s r => rw [flatCells_cons] at h; simp [flatCells] at h
  | cons s r ih =>
    intro b h
    cases b with
    | nil => rw [flatCells_cons] at h; simp [flatCells] at h
    | cons s' r' =>
      rw [flatCells_cons, flatCells_cons] at h
      simp only [List.cons.injEq, Cell.op.injEq, Cell.arg.injEq] at h
      obtain ⟨h1, h2, h3⟩ := h
      rw [ih r' h3]
      cases s; cases s'; simp_all

theorem flatOf_inj (r r' : String) (a b : List (String × α)) :
    flatOf r a = flatOf r' b ↔ r = r' ∧ a = b := by
  constructor
  · intro h
    simp only [flatOf_eq, List.cons.injEq, Cell.root.injEq] at h
    exact ⟨h.1, flatCells_inj a b h.2⟩
  · rintro ⟨rfl, rfl⟩; rfl

theorem flatCells_take (steps : List (String × α)) (k : Nat) :
    (flatCells steps).take (2 * k) = flatCells (steps.take k) := by
  induction steps generalizing k with
  | nil => simp [flatCells]
  | cons s r ih =>
    cases k with
    | zero => simp [flatCells]
    | succ k =>
      rw [flatCells_cons, show 2 * (k + 1) = (2 * k + 1) + 1 by omega]
      simp only [List.take_succ_cons]
      rw [ih k, flatCells_cons]

theorem pStartswith_flatOf [DecidableEq α] (r r' : String) (a b : List (String × α)) :
    pStartswith (flatOf r a) (flatOf r' b) = (decide (r = r') && b.isPrefixOf a) := by
  simp only [pStartswith, flatOf_eq, List.length_cons, flatCells_length]
  rw [show 2 * b.length + 1 = (2 * b.length) + 1 by omega, List.take_succ_cons, flatCells_take]
  have hiff : (Cell.root r :: flatCells (a.take b.length) = Cell.root r' :: flatCells b) ↔
      (r = r' ∧ b <+: a) := by
    constructor
    · intro h
      simp only [List.cons.injEq, Cell.root.injEq] at h
      refine ⟨h.1, ?_⟩
      have := flatCells_inj _ _ h.2
      rw [List.prefix_iff_eq_take]; exact this.symm
    · rintro ⟨rfl, hp⟩
      rw [List.prefix_iff_eq_take] at hp
      rw [← hp]
  by_cases h : (r = r' ∧ b <+: a)
  · have h' := hiff.mpr h
    rw [decide_eq_true h']
    simp [h.1, List.isPrefixOf_iff_prefix.mpr h.2]
  · have h' : ¬ _ := fun hh => h (hiff.mp hh)
    simp only [h', decide_false]
    by_cases hr : r = r'
    · have : ¬ b <+: a := fun hp => h ⟨hr, hp⟩
      have : b.isPrefixOf a = false := by
        cases hb : b.isPrefixOf a with
        | false => rfl
        | true => exact absurd (List.isPrefixOf_iff_prefix.mp hb) this
      simp [this]
    · simp [hr]

theorem unflat_flatOf (root : String) (steps : List (String × α)) :
    unflat (flatOf root steps) = some (root, steps) := by
  simp only [unflat, flatOf_eq]
  have : ∀ (st : List (String × α)), unflat.go (flatCells st) = some st := by
    intro st
    induction st with
    | nil => rfl
    | cons s r ih => rw [flatCells_cons]; simp [unflat.go, ih]
  rw [this]; rfl

theorem argsOf_map (steps : List (String × α)) :
    argsOf (steps.map (fun s => Cell.arg s.2)) = some (steps.map (·.2)) := by
  induction steps with
  | nil => rfl
  | cons s r ih => simp only [argsOf, List.map_cons, List.foldr_cons] at ih ⊢; rw [ih]

theorem pairsOf_map (steps : List (String × α)) :
    pairsOf (steps.map (fun s => (Cell.op s.1, Cell.arg s.2))) = some steps := by
  induction steps with
  | nil => rfl
  | cons s r ih => simp only [pairsOf, List.map_cons, List.foldr_cons] at ih ⊢; rw [ih]

/-- every sequence operation of `Path`, run on the flat ops tuple, is the same
    operation on the list of steps -/
theorem seqModel_eq_ref [DecidableEq α] (root : String) (steps : List (String × α))
    (op : SeqOp α) : seqModel root steps op = seqRef root steps op := by
  cases op with
  | len => simp [seqModel, seqRef, pLen_flatOf]
  | idx i =>
    simp only [seqModel, seqRef, pGetIdx_flatOf]
    cases pyIndexNat steps.length i with
    | none => rfl
    | some j =>
      simp only
      cases hs : steps[j]? with
      | none => simp [resOfOps]
      | some s => simp only [resOfOps, Option.map_some, unflat_flatOf]
  | slice a b c =>
    simp only [seqModel, seqRef, pGetSlice_flatOf]
    cases pySlice steps a b c with
    | none => rfl
    | some st => simp [resOfOps, unflat_flatOf]
  | values => simp [seqModel, seqRef, pValues_flatOf, argsOf_map]
  | items => simp [seqModel, seqRef, pItems_flatOf, pairsOf_map]
  | eq oroot other =>
    simp only [seqModel, seqRef, pEq, flatOf_inj]
  | startswith oroot other =>
    simp only [seqModel, seqRef, pStartswith_flatOf]
  | concat other =>
    simp only [seqModel, seqRef, concatFlat, flatOf_eq, List.take_succ_cons, List.take_zero,
      if_true, List.drop_succ_cons, List.drop_zero, List.singleton_append]
    have : Cell.root root :: (flatCells steps ++ flatCells other) = flatOf root (steps ++ other) := by
      simp [flatOf_eq, flatCells]
    rw [this]
    simp [resOfOps, unflat_flatOf]
  | fromT =>
    simp only [seqModel, seqRef, flatOf_eq]
    by_cases hr : root = "S"
    · subst hr
      simp only [pFromT, beq_self_eq_true, if_true]
      rw [← flatOf_eq, resOfOps, unflat_flatOf]
    · have : pFromT (Cell.root root :: flatCells steps) = Cell.root root :: flatCells steps := by
        unfold pFromT
        split
        · rename_i h; simp only [List.cons.injEq, Cell.root.injEq] at h; exact absurd h.1 hr
        · rfl
      rw [this, ← flatOf_eq, resOfOps, unflat_flatOf]
      simp [hr]
  | ne oroot other =>
    simp only [seqModel, seqRef, pEq, flatOf_inj]
  | eqOther => rfl
  | startswithStr s =>
    simp only [seqModel, seqRef, pStartswith_flatOf]
  | startswithBad => rfl

end seq

/-! ### concatenation and C01's reference walk -/

open Glom Glom.C01 in
/-- walking `a ++ b` is walking `a`, then walking `b` from the value reached, with
    `b`'s segments numbered after `a`'s -/
theorem walk_append (env : TEnv) (h : Heap) :
    ∀ (a b : List (String × Val)) (k : Nat) (t : Val),
      walk env h (a ++ b) k t =
        match walk env h a k t with
        | .ok v => walk env h b (k + a.length) v
        | .fail j e => .fail j e
        | .unsupported => .unsupported := by
  intro a
  induction a with
  | nil => intro b k t; simp [walk]
  | cons s r ih =>
    obtain ⟨op, arg⟩ := s
    intro b k t
    simp only [List.cons_append, walk, List.length_cons]
    cases refAccess env h op t arg with
    | none => rfl
    | some res =>
      cases res with
      | error e => rfl
      | ok v =>
        simp only
        rw [ih b (k + 1) v, show k + 1 + r.length = k + (r.length + 1) by omega]

open Glom Glom.C01 in
theorem wfSteps_append (a b : List (String × Val)) :
    wfSteps (a ++ b) = (wfSteps a && wfSteps b) := by
  induction a with
  | nil => simp [wfSteps]
  | cons s r ih =>
    obtain ⟨op, arg⟩ := s
    simp only [List.cons_append, wfSteps, ih, Bool.and_assoc]

/-- renumber a failure of the second half of a concatenated path -/
def shiftWalk (n : Nat) : Glom.C01.WalkRes → Glom.C01.WalkRes
  | .fail j e => .fail (j + n) e
  | w => w

open Glom Glom.C01 in
theorem walk_shift (env : TEnv) (h : Heap) :
    ∀ (b : List (String × Val)) (k n : Nat) (t : Val),
      walk env h b (k + n) t = shiftWalk n (walk env h b k t) := by
  intro b
  induction b with
  | nil => intro k n t; rfl
  | cons s r ih =>
    obtain ⟨op, arg⟩ := s
    intro k n t
    simp only [walk]
    cases refAccess env h op t arg with
    | none => rfl
    | some res =>
      cases res with
      | error e => rfl
      | ok v =>
        simp only
        rw [show k + n + 1 = (k + 1) + n by omega, ih]

/-! ### splitting and joining token lists -/

section roundtrip
variable {L : Type}

theorem splitOn_noSep (p : Tok L → Bool) (toks : List (Tok L)) (h : ∀ t ∈ toks, p t = false) :
    splitOn p toks = [toks] := by
  induction toks with
  | nil => rfl
  | cons t r ih =>
    simp only [splitOn, h t (by simp), Bool.false_eq_true, if_false]
    rw [ih (fun x hx => h x (by simp [hx]))]

theorem splitOn_append_sep (p : Tok L → Bool) (x : List (Tok L)) (sep : Tok L) (rest : List (Tok L))
    (hx : ∀ t ∈ x, p t = false) (hsep : p sep = true) :
    splitOn p (x ++ sep :: rest) = x :: splitOn p rest := by
  induction x with
  | nil => simp [splitOn, hsep]
  | cons t r ih =>
    simp only [List.cons_append, splitOn, hx t (by simp), Bool.false_eq_true, if_false]
    rw [ih (fun y hy => hx y (by simp [hy]))]

theorem splitOn_joinSep (p : Tok L → Bool) (sep : Tok L) (hsep : p sep = true) :
    ∀ (pieces : List (List (Tok L))), pieces ≠ [] → (∀ x ∈ pieces, ∀ t ∈ x, p t = false) →
      splitOn p (joinSep sep pieces) = pieces := by
  intro pieces
  induction pieces with
  | nil => intro h; exact absurd rfl h
  | cons x r ih =>
    intro _ hp
    cases r with
    | nil => simpa [joinSep] using splitOn_noSep p x (hp x (by simp))
    | cons y r' =>
      simp only [joinSep]
      rw [splitOn_append_sep p x sep _ (hp x (by simp)) hsep,
        ih (by simp) (fun z hz => hp z (by simp [hz]))]

theorem dropTrailingEmpty_of_last_ne {α} (pieces : List (List α))
    (h : ∀ x, pieces.getLast? = some x → x ≠ []) : dropTrailingEmpty pieces = pieces := by
  unfold dropTrailingEmpty
  split
  · rename_i heq; exact absurd rfl (h [] heq)
  · rfl

theorem allSome_map_some {α β} (f : α → Option β) (g : α → β) :
    ∀ (xs : List α), (∀ x ∈ xs, f x = some (g x)) → allSome (xs.map f) = some (xs.map g) := by
  intro xs
  induction xs with
  | nil => intro _; rfl
  | cons x r ih =>
    intro h
    simp only [List.map_cons, h x (by simp), allSome]
    rw [ih (fun y hy => h y (by simp [hy]))]

/-! ### the top level of a formatted argument has no separators -/

/-- not a separator (`,` `:`) and not a `k=` marker -/
def Tok.isPlain : Tok L → Bool
  | .comma | .colon | .kw _ => false
  | _ => true

theorem plain_not_comma {t : Tok L} (h : t.isPlain = true) : t.isComma = false := by
  cases t <;> simp_all [Tok.isPlain, Tok.isComma]

theorem plain_not_colon {t : Tok L} (h : t.isPlain = true) : t.isColon = false := by
  cases t <;> simp_all [Tok.isPlain, Tok.isColon]


theorem wrapSeq_plain (k : Kind) (n : Nat) (body : List (Tok L)) :
    ∀ t ∈ wrapSeq k n body, t.isPlain = true := by
  cases k <;> simp only [wrapSeq] <;> (try split) <;> simp [Tok.isPlain]

theorem wrapSeq_ne_nil (k : Kind) (n : Nat) (body : List (Tok L)) : wrapSeq k n body ≠ [] := by
  cases k <;> simp only [wrapSeq] <;> (try split) <;> simp

theorem assemblePath_plain (aware : Bool) (root : String) (xs : List (Step L × List (Tok L)))
    (h : ∀ x ∈ xs, ∀ t ∈ x.2, t.isPlain = true) :
    ∀ t ∈ assemblePath aware root xs, t.isPlain = true := by
  unfold assemblePath
  split
  · rename_i g hg
    intro t ht
    simp only [List.mem_cons, List.mem_flatMap] at ht
    rcases ht with rfl | ⟨x, hx, htx⟩
    · rfl
    · -- members of a group are members of xs
      have hsub : ∀ (ys : List (Step L × List (Tok L))) (grp : List (Step L × List (Tok L))),
          .inl grp ∈ groupSteps (fun x => x.1.isSeg) ys → ∀ y ∈ grp, y ∈ ys := by
        intro ys
        induction ys with
        | nil => intro grp hm; simp [groupSteps] at hm
        | cons y r ih =>
          intro grp hm z hz
          simp only [groupSteps] at hm
          split at hm
          · simp only [List.mem_cons, reduceCtorEq, false_or] at hm
            exact List.mem_cons_of_mem _ (ih grp hm z hz)
          · split at hm
            · rename_i g' rest heq
              simp only [List.mem_cons, Sum.inl.injEq] at hm
              rcases hm with rfl | hm
              · simp only [List.mem_cons] at hz
                rcases hz with rfl | hz
                · simp
                · exact List.mem_cons_of_mem _ (ih g' (by rw [heq]; simp) z hz)
              · exact List.mem_cons_of_mem _ (ih grp (by rw [heq]; simp [hm]) z hz)
            · simp only [List.mem_cons, Sum.inl.injEq] at hm
              rcases hm with rfl | hm
              · simp only [List.mem_singleton] at hz; subst hz; simp
              · exact List.mem_cons_of_mem _ (ih grp hm z hz)
      exact h x (hsub xs g (by rw [hg]; simp) x hx) t htx
  · intro t ht
    simp only [List.mem_cons, List.mem_nil_iff, or_false] at ht
    rcases ht with rfl | rfl <;> rfl

theorem assembleT_plain (aware : Bool) (root : String) (xs : List (Step L × List (Tok L)))
    (h : ∀ x ∈ xs, ∀ t ∈ x.2, t.isPlain = true) :
    ∀ t ∈ assembleT aware root xs, t.isPlain = true := by
  unfold assembleT
  split
  · exact assemblePath_plain aware root xs h
  · intro t ht
    simp only [List.mem_cons, List.mem_flatMap] at ht
    rcases ht with rfl | ⟨x, hx, htx⟩
    · rfl
    · exact h x hx t htx


mutual
  theorem fmtArg_plain (F : FmtFacts) : ∀ (a : Arg L), ∀ t ∈ fmtArg F a, t.isPlain = true
    | .lit v => by rw [fmtArg]; simp [Tok.isPlain]
    | .t root steps => by
      have h : ∀ s ∈ steps, ∀ t ∈ fmtStep F s, t.isPlain = true := fun s _ => fmtStep_plain F s
      rw [fmtArg]
      apply assembleT_plain
      intro x hx t ht
      simp only [List.mem_map] at hx
      obtain ⟨s, hs, rfl⟩ := hx
      exact h s hs t ht
    | .seq k xs => by rw [fmtArg]; exact wrapSeq_plain _ _ _
    | .dict kvs => by rw [fmtArg]; simp [Tok.isPlain]
    | .sliceObj a b c => by rw [fmtArg]; simp [Tok.isPlain]
    | .path root steps => by
      have h : ∀ s ∈ steps, ∀ t ∈ fmtStep F s, t.isPlain = true := fun s _ => fmtStep_plain F s
      rw [fmtArg]
      apply assemblePath_plain
      intro x hx t ht
      simp only [List.mem_map] at hx
      obtain ⟨s, hs, rfl⟩ := hx
      exact h s hs t ht
    | .bad s => by rw [fmtArg]; simp [Tok.isPlain]
    | .fill => by rw [fmtArg]; simp [Tok.isPlain]
    | .deep k => by rw [fmtArg]; exact wrapSeq_plain _ _ _
    | .dictMore kvs => by rw [fmtArg]; simp [Tok.isPlain]
  termination_by a => sizeOf a
  decreasing_by all_goals c18_dec
  theorem fmtStep_plain (F : FmtFacts) : ∀ (s : Step L), ∀ t ∈ fmtStep F s, t.isPlain = true
    | .seg a => by rw [fmtStep]; exact fmtArg_plain F a
    | .attr n => by rw [fmtStep]; split <;> simp [Tok.isPlain]
    | .item i => by rw [fmtStep]; simp [Tok.isPlain]
    | .items is => by rw [fmtStep]; split <;> simp [Tok.isPlain]
    | .call args kwargs => by rw [fmtStep]; simp [Tok.isPlain]
    | .star => by rw [fmtStep]; simp [Tok.isPlain]
    | .starstar => by rw [fmtStep]; simp [Tok.isPlain]
  termination_by s => sizeOf s
  decreasing_by all_goals c18_dec
end

theorem assemblePath_ne_nil (aware : Bool) (root : String) (xs : List (Step L × List (Tok L))) :
    assemblePath aware root xs ≠ [] := by
  unfold assemblePath; split <;> simp

theorem fmtArg_ne_nil (F : FmtFacts) (a : Arg L) : fmtArg F a ≠ [] := by
  cases a with
  | t root steps =>
    rw [fmtArg]; unfold assembleT
    split
    · exact assemblePath_ne_nil _ _ _
    · simp
  | path root steps => rw [fmtArg]; exact assemblePath_ne_nil _ _ _
  | seq k xs => rw [fmtArg]; exact wrapSeq_ne_nil _ _ _
  | deep k => rw [fmtArg]; exact wrapSeq_ne_nil _ _ _
  | _ => rw [fmtArg]; simp

theorem fmtStep_ne_nil (F : FmtFacts) (s : Step L) : fmtStep F s ≠ [] := by
  cases s with
  | seg a => rw [fmtStep]; exact fmtArg_ne_nil F a
  | _ => rw [fmtStep] <;> (try split) <;> simp

/-! ### unfolding the parser -/

theorem isDunder_iff (n : Name) : isDunder n = true ↔ n = dunder ++ n.drop 2 := by
  unfold isDunder
  rw [List.isPrefixOf_iff_prefix]
  constructor
  · intro h
    obtain ⟨t, rfl⟩ := h
    simp [dunder]
  · intro h; rw [h]; exact List.prefix_append _ _

theorem parseSteps_nil : parseSteps ([] : List (Tok L)) = some [] := by rw [parseSteps]

theorem parseSteps_dunder (s : Name) (r : List (Tok L)) :
    parseSteps (.dot dunder :: .par [.str s] :: r) =
      (parseSteps r).map (Step.attr (dunder ++ s) :: ·) := by
  simp only [dunder]; rw [parseSteps]; rfl

theorem parseSteps_star (r : List (Tok L)) :
    parseSteps (.dot starName :: .par [] :: r) = (parseSteps r).map (Step.star :: ·) := by
  simp only [starName]; rw [parseSteps]

theorem parseSteps_starstar (r : List (Tok L)) :
    parseSteps (.dot starstarName :: .par [] :: r) = (parseSteps r).map (Step.starstar :: ·) := by
  simp only [starstarName]; rw [parseSteps]

theorem parseSteps_dot (n : Name) (r : List (Tok L)) (hn : isDunder n = false) :
    parseSteps (.dot n :: r) = (parseSteps r).map (Step.attr n :: ·) := by
  have h1 : n ≠ ['_', '_'] := by intro h; subst h; simp [isDunder, dunder] at hn
  have h2 : n ≠ ['_', '_', 's', 't', 'a', 'r', '_', '_'] := by
    intro h; subst h; simp [isDunder, dunder] at hn
  have h3 : n ≠ ['_', '_', 's', 't', 'a', 'r', 's', 't', 'a', 'r', '_', '_'] := by
    intro h; subst h; simp [isDunder, dunder] at hn
  rw [parseSteps]
  · simp [hn]
  all_goals (intros; simp_all)

theorem parseSteps_br (ch r : List (Tok L)) :
    parseSteps (.br ch :: r) = consOpt (parseIndex ch) (parseSteps r) := by
  rw [parseSteps]

theorem parseSteps_par (ch r : List (Tok L)) :
    parseSteps (.par ch :: r) = consOpt (parseCall ch) (parseSteps r) := by
  rw [parseSteps]

theorem parseArg_lit (v : L) : parseArg [Tok.lit v] = some (.lit v) := by rw [parseArg]

theorem parseArg_root (r : String) (rest : List (Tok L)) :
    parseArg (.root r :: rest) = (parseSteps rest).map (Arg.t r) := by
  rw [parseArg]


theorem parseArg_par (ch : List (Tok L)) : parseArg [Tok.par ch] =
    if ch.isEmpty then some (.seq .tuple [])
    else if (splitOn Tok.isComma ch).length == 1 then parseArg ch
    else (parseElems ch).map (Arg.seq .tuple) := by
  rw [parseArg]

theorem parseArg_br (ch : List (Tok L)) :
    parseArg [Tok.br ch] = (parseElems ch).map (Arg.seq .list) := by
  rw [parseArg]

theorem parseArg_brace (ch : List (Tok L)) : parseArg [Tok.brace ch] =
    if ch.isEmpty then some (.dict [])
    else if ch.any Tok.isColon then (parseEntries ch).map Arg.dict
    else (parseElems ch).map (Arg.seq .set) := by
  rw [parseArg]

theorem parseArg_path (ch : List (Tok L)) : parseArg [Tok.name "Path", Tok.par ch] =
    if ch.isEmpty then some (.path "T" []) else pathOfParts (parseElems ch) := by
  rw [parseArg]; simp

theorem parseArg_slice (ch : List (Tok L)) :
    parseArg [Tok.name "slice", Tok.par ch] = sliceOfArgs (parseElems ch) := by
  rw [parseArg]; simp

theorem parseArg_set : parseArg [Tok.name "set", Tok.par ([] : List (Tok L))] = some (.seq .set []) := by
  rw [parseArg]; simp

theorem parseArg_frozenset0 :
    parseArg [Tok.name "frozenset", Tok.par ([] : List (Tok L))] = some (.seq .frozenset []) := by
  rw [parseArg]; simp

theorem parseArg_frozenset (ch : List (Tok L)) (hne : ch.isEmpty = false) :
    parseArg [Tok.name "frozenset", Tok.par ch] = frozensetOf (parseArg ch) := by
  rw [parseArg]; simp [hne]

theorem parseElems_def (toks : List (Tok L)) : parseElems toks =
    allSome ((dropTrailingEmpty (splitOn Tok.isComma toks)).map parseArg) := by
  rw [parseElems]
  rw [List.attach_map_val (l := dropTrailingEmpty (splitOn Tok.isComma toks)) (f := parseArg)]

theorem parseEntry_def (toks : List (Tok L)) : parseEntry toks =
    match splitOn Tok.isColon toks with
    | [k, v] => pairOpt (parseArg k) (parseArg v)
    | _ => none := by
  rw [parseEntry]
  split <;> simp_all

theorem parseEntries_def (toks : List (Tok L)) : parseEntries toks =
    allSome ((dropTrailingEmpty (splitOn Tok.isComma toks)).map parseEntry) := by
  rw [parseEntries]
  rw [List.attach_map_val (l := dropTrailingEmpty (splitOn Tok.isComma toks)) (f := parseEntry)]

theorem parseItem_def (toks : List (Tok L)) : parseItem toks =
    match splitOn Tok.isColon toks with
    | [p] => (parseArg p).map Item.one
    | [a, b] =>
      slice3 (if a.isEmpty then some none else (parseArg a).map some)
             (if b.isEmpty then some none else (parseArg b).map some) (some none)
    | [a, b, c] =>
      slice3 (if a.isEmpty then some none else (parseArg a).map some)
             (if b.isEmpty then some none else (parseArg b).map some)
             (if c.isEmpty then some none else (parseArg c).map some)
    | _ => none := by
  rw [parseItem]
  split <;> simp_all

theorem parseIndex_def (toks : List (Tok L)) : parseIndex toks =
    if isUnitTok toks then some (.items [])
    else match splitOn Tok.isComma toks with
      | [p] => (parseItem p).map Step.item
      | _ => (allSome ((dropTrailingEmpty (splitOn Tok.isComma toks)).map parseItem)).map
          Step.items := by
  rw [parseIndex]
  split
  · rfl
  · split <;> simp_all

theorem parseCall_def (toks : List (Tok L)) : parseCall toks =
    if toks.isEmpty then some (.call [] [])
    else callOf (allSome ((dropTrailingEmpty (splitOn Tok.isComma toks)).map (fun p =>
          (parseArg (stripKw p).2).map (fun a => ((stripKw p).1, a))))) := by
  rw [parseCall]
  rw [List.attach_map_val (l := dropTrailingEmpty (splitOn Tok.isComma toks))
    (f := fun p => (parseArg (stripKw p).2).map (fun a => ((stripKw p).1, a)))]

/-! ### facts about formatted pieces -/

/-- the formatter of the repaired tree: all three switches on -/
def F1 : FmtFacts := ⟨true, true, true, true⟩

theorem stripKw_fmtArg (F : FmtFacts) (a : Arg L) : stripKw (fmtArg F a) = (none, fmtArg F a) := by
  have hne := fmtArg_ne_nil F a
  have hp := fmtArg_plain F a
  cases h : fmtArg F a with
  | nil => exact absurd h hne
  | cons t rest =>
    have := hp t (by rw [h]; simp)
    cases t <;> simp_all [stripKw, Tok.isPlain]

theorem isUnitTok_append (x rest : List (Tok L)) (hx : x ≠ []) (hr : rest ≠ []) :
    isUnitTok (x ++ rest) = false := by
  cases x with
  | nil => exact absurd rfl hx
  | cons a x' =>
    cases rest with
    | nil => exact absurd rfl hr
    | cons b r' => cases x' <;> simp [isUnitTok]

/-- an index that is not a tuple is not printed `()` -/
theorem fmtArg_atom_not_unit (F : FmtFacts) (a : Arg L) (h : a.isTuple = false) :
    isUnitTok (fmtArg F a) = false := by
  cases a with
  | t root steps =>
    rw [fmtArg]; unfold assembleT
    split
    · unfold assemblePath; split <;> simp [isUnitTok]
    · simp [isUnitTok]
  | path root steps => rw [fmtArg]; unfold assemblePath; split <;> simp [isUnitTok]
  | seq k xs =>
    cases k with
    | tuple => simp [Arg.isTuple] at h
    | _ => rw [fmtArg]; simp only [wrapSeq] <;> (try split) <;> simp [isUnitTok]
  | deep k => cases k <;> (rw [fmtArg]; simp [wrapSeq, isUnitTok])
  | _ => rw [fmtArg]; simp [isUnitTok]

theorem fmtArg_noComma (F : FmtFacts) (a : Arg L) : ∀ t ∈ fmtArg F a, t.isComma = false :=
  fun t ht => plain_not_comma (fmtArg_plain F a t ht)

theorem fmtArg_noColon (F : FmtFacts) (a : Arg L) : ∀ t ∈ fmtArg F a, t.isColon = false :=
  fun t ht => plain_not_colon (fmtArg_plain F a t ht)

def fmtOpt (F : FmtFacts) : Option (Arg L) → List (Tok L)
  | none => []
  | some x => fmtArg F x

theorem fmtItem_slice (F : FmtFacts) (a b c : Option (Arg L)) :
    fmtItem F (.slice a b c) = fmtOpt F a ++ [Tok.colon] ++ fmtOpt F b ++
      (match c with | none => [] | some x => Tok.colon :: fmtArg F x) := by
  cases a <;> cases b <;> cases c <;> simp [fmtItem, fmtOpt]

theorem fmtOpt_noColon (F : FmtFacts) (a : Option (Arg L)) : ∀ t ∈ fmtOpt F a, t.isColon = false := by
  cases a with
  | none => intro t ht; simp [fmtOpt] at ht
  | some x => exact fmtArg_noColon F x

theorem fmtOpt_noComma (F : FmtFacts) (a : Option (Arg L)) : ∀ t ∈ fmtOpt F a, t.isComma = false := by
  cases a with
  | none => intro t ht; simp [fmtOpt] at ht
  | some x => exact fmtArg_noComma F x

theorem fmtItem_noComma (F : FmtFacts) (i : Item L) : ∀ t ∈ fmtItem F i, t.isComma = false := by
  cases i with
  | one a => rw [fmtItem]; exact fmtArg_noComma F a
  | slice a b c =>
    rw [fmtItem_slice]
    intro t ht
    simp only [List.mem_append, List.mem_singleton] at ht
    rcases ht with ((ht | rfl) | ht) | ht
    · exact fmtOpt_noComma F a t ht
    · rfl
    · exact fmtOpt_noComma F b t ht
    · cases c with
      | none => simp at ht
      | some x =>
        simp only [List.mem_cons] at ht
        rcases ht with rfl | ht
        · rfl
        · exact fmtArg_noComma F x t ht

theorem fmtItem_ne_nil (F : FmtFacts) (i : Item L) : fmtItem F i ≠ [] := by
  cases i with
  | one a => rw [fmtItem]; exact fmtArg_ne_nil F a
  | slice a b c => rw [fmtItem_slice]; simp


theorem fmtItem_not_unit_rest (F : FmtFacts) (i : Item L) (rest : List (Tok L)) (hr : rest ≠ []) :
    isUnitTok (fmtItem F i ++ rest) = false :=
  isUnitTok_append _ _ (fmtItem_ne_nil F i) hr

theorem validItem_one (a : Arg L) :
    validItem (.one a) = true ↔ validArg a = true ∧ a.isSliceObj = false := by
  rw [validItem]; simp

theorem fmtItem_not_unit (F : FmtFacts) (i : Item L) (hv : i.isAtom = true) :
    isUnitTok (fmtItem F i) = false := by
  cases i with
  | one a =>
    rw [fmtItem]
    exact fmtArg_atom_not_unit F a (by simpa [Item.isAtom] using hv)
  | slice a b c =>
    rw [fmtItem_slice]
    cases a with
    | none => simp [fmtOpt, isUnitTok]
    | some x =>
      simp only [fmtOpt, List.append_assoc]
      exact isUnitTok_append _ _ (fmtArg_ne_nil F x) (by simp)

theorem assembleT_noseg (F : FmtFacts) (root : String) (steps : List (Step L))
    (h : ∀ s ∈ steps, s.isSeg = false) :
    assembleT F.pathRootAware root (steps.map (fun s => (s, fmtStep F s))) =
      .root root :: steps.flatMap (fmtStep F) := by
  unfold assembleT
  have : (steps.map (fun s => (s, fmtStep F s))).any (fun x => x.1.isSeg) = false := by
    simp only [List.any_map, List.any_eq_false]
    intro s hs; simp [h s hs]
  simp only [this, Bool.false_eq_true, if_false, List.flatMap_map]

theorem parseSteps_flatMap (F : FmtFacts) (steps : List (Step L))
    (h : ∀ s ∈ steps, ∀ rest, parseSteps (fmtStep F s ++ rest) =
      (parseSteps rest).map (normStep s :: ·)) :
    parseSteps (steps.flatMap (fmtStep F)) = some (steps.map normStep) := by
  induction steps with
  | nil => simp [parseSteps_nil]
  | cons s r ih =>
    simp only [List.flatMap_cons, List.map_cons]
    rw [h s (by simp), ih (fun x hx => h x (by simp [hx]))]
    rfl

theorem all_id_map {α} (f : α → Bool) (xs : List α) :
    (xs.map f).all id = true ↔ ∀ x ∈ xs, f x = true := by
  simp [List.all_eq_true]

/-! ### indexes with a tuple, and calls -/

theorem joinSep_cons_cons (sep : Tok L) (p q : List (Tok L)) (r : List (List (Tok L))) :
    joinSep sep (p :: q :: r) = p ++ sep :: joinSep sep (q :: r) := rfl

theorem getLast?_map_ne_nil {α} (f : α → List (Tok L)) (xs : List α) (hf : ∀ x ∈ xs, f x ≠ []) :
    ∀ y, (xs.map f).getLast? = some y → y ≠ [] := by
  intro y hy
  have := List.mem_of_getLast? hy
  simp only [List.mem_map] at this
  obtain ⟨x, hx, rfl⟩ := this
  exact hf x hx

/-- the token list of a tuple index -/
def itemsToks (is : List (Item L)) : List (Tok L) :=
  joinSep .comma (is.map (fun i => fmtItem F1 i)) ++ (if is.length == 1 then [Tok.comma] else [])

theorem parseIndex_items (is : List (Item L)) (hne : is ≠ [])
    (hi : ∀ i ∈ is, parseItem (fmtItem F1 i) = some (normItem i)) :
    parseIndex (itemsToks is) = some (.items (is.map normItem)) := by
  rw [parseIndex_def]
  match is, hne, hi with
  | [i], _, hi =>
    simp only [itemsToks, List.map_cons, List.map_nil, joinSep, List.length_singleton, beq_self_eq_true,
      if_true]
    rw [fmtItem_not_unit_rest F1 i [Tok.comma] (by simp)]
    simp only [Bool.false_eq_true, if_false]
    rw [splitOn_append_sep _ _ _ _ (fmtItem_noComma F1 i) rfl]
    simp only [splitOn, dropTrailingEmpty, List.getLast?, List.getLast, List.dropLast, List.map_cons,
      List.map_nil, hi i (by simp), allSome, Option.map_some]
  | i :: j :: r, _, hi =>
    have hlen : ((i :: j :: r).length == 1) = false := by simp
    simp only [itemsToks, hlen, Bool.false_eq_true, if_false, List.append_nil]
    have hu : isUnitTok (joinSep Tok.comma ((i :: j :: r).map (fun i => fmtItem F1 i))) = false := by
      simp only [List.map_cons, joinSep_cons_cons]
      exact fmtItem_not_unit_rest F1 i _ (by simp)
    rw [hu]
    simp only [Bool.false_eq_true, if_false]
    rw [splitOn_joinSep _ _ rfl _ (by simp) (by
      intro x hx; simp only [List.mem_map] at hx; obtain ⟨y, _, rfl⟩ := hx
      exact fmtItem_noComma F1 y)]
    rw [dropTrailingEmpty_of_last_ne _ (getLast?_map_ne_nil _ _ (fun x _ => fmtItem_ne_nil F1 x))]
    have h := allSome_map_some (fun x => parseItem (fmtItem F1 x)) normItem (i :: j :: r)
      (fun x hx => hi x hx)
    simp only [List.map_cons, List.map_map, Function.comp_def] at h ⊢
    rw [h]; rfl

theorem sortKw_map_snd {α β : Type} (f : α → β) (l : List (String × α)) :
    sortKw (l.map (fun p => (p.1, f p.2))) = (sortKw l).map (fun p => (p.1, f p.2)) := by
  unfold sortKw
  exact (List.map_mergeSort (r := fun a b => decide (a.1 ≤ b.1))
    (s := fun a b => decide (a.1 ≤ b.1)) (f := fun (p : String × α) => (p.1, f p.2)) (l := l)
    (fun a _ b _ => rfl)).symm

theorem sortKw_nodup {α} (l : List (String × α)) (h : (l.map (fun p => p.1)).Nodup) :
    ((sortKw l).map (fun p => p.1)).Nodup :=
  ((List.mergeSort_perm l _).map _).nodup_iff.mpr h

theorem takeWhile_none_append (pos : List (Arg L)) (kws : List (String × Arg L)) :
    ((pos.map (fun a => ((none : Option String), a))) ++ kws.map (fun p => (some p.1, p.2))).takeWhile
      (fun p => p.1.isNone) = pos.map (fun a => (none, a)) := by
  induction pos with
  | nil => cases kws <;> simp
  | cons a r ih => simp [ih]

theorem dropWhile_none_append (pos : List (Arg L)) (kws : List (String × Arg L)) :
    ((pos.map (fun a => ((none : Option String), a))) ++ kws.map (fun p => (some p.1, p.2))).dropWhile
      (fun p => p.1.isNone) = kws.map (fun p => (some p.1, p.2)) := by
  induction pos with
  | nil => cases kws <;> simp
  | cons a r ih => simp [ih]

theorem splitCallArgs_mk (pos : List (Arg L)) (kws : List (String × Arg L))
    (hnd : (kws.map (fun p => p.1)).Nodup) :
    splitCallArgs ((pos.map (fun a => ((none : Option String), a))) ++
      kws.map (fun p => (some p.1, p.2))) = some (pos, kws) := by
  unfold splitCallArgs
  simp only [takeWhile_none_append, dropWhile_none_append]
  have hall : (kws.map (fun p => ((some p.1 : Option String), p.2))).all (fun p => p.1.isSome) = true := by
    simp [List.all_eq_true]
  have hfm : ∀ (l : List (String × Arg L)),
      (l.map (fun p => ((some p.1 : Option String), p.2))).filterMap
        (fun p => p.1.map (fun k => (k, p.2))) = l := by
    intro l
    induction l with
    | nil => rfl
    | cons k r ih => simp only [List.map_cons, List.filterMap_cons, Option.map_some, ih]
  simp only [hall, if_true, hfm, hnd, List.map_map]
  simp [Function.comp_def]

/-- the token list inside the parentheses of a call -/
def callToks (args : List (Arg L)) (kwargs : List (String × Arg L)) : List (Tok L) :=
  joinSep .comma ((args.map (fun a => fmtArg F1 a)) ++
    (sortKw (kwargs.map (fun p => (p.1, fmtArg F1 p.2)))).map (fun p => Tok.kw p.1 :: p.2))

theorem joinSep_ne_nil (sep : Tok L) (pieces : List (List (Tok L))) (hne : pieces ≠ [])
    (hp : ∀ x ∈ pieces, x ≠ []) : joinSep sep pieces ≠ [] := by
  match pieces, hne, hp with
  | [p], _, hp => simpa [joinSep] using hp p (by simp)
  | p :: q :: r, _, hp =>
    rw [joinSep_cons_cons]
    have := hp p (by simp)
    cases p with
    | nil => exact absurd rfl this
    | cons t ts => simp

theorem parseCall_fmt (args : List (Arg L)) (kwargs : List (String × Arg L))
    (ha : ∀ a ∈ args, parseArg (fmtArg F1 a) = some (normArg a))
    (hk : ∀ p ∈ kwargs, parseArg (fmtArg F1 p.2) = some (normArg p.2))
    (hnd : (kwargs.map (fun p => p.1)).Nodup) :
    parseCall (callToks args kwargs) =
      some (.call (args.map normArg) (sortKw (kwargs.map (fun p => (p.1, normArg p.2))))) := by
  rw [parseCall_def]
  unfold callToks
  rw [sortKw_map_snd, sortKw_map_snd, List.map_map]
  generalize hpieces : (args.map (fun a => fmtArg F1 a)) ++
    (sortKw kwargs).map ((fun p => Tok.kw p.1 :: p.2) ∘ fun p => (p.1, fmtArg F1 p.2)) = pieces
  by_cases hemp : args = [] ∧ kwargs = []
  · obtain ⟨rfl, rfl⟩ := hemp
    simp only [List.map_nil, sortKw, List.mergeSort_nil, List.append_nil] at hpieces ⊢
    subst hpieces
    simp [joinSep]
  · have hpne : pieces ≠ [] := by
      subst hpieces
      intro h
      simp only [List.append_eq_nil_iff, List.map_eq_nil_iff] at h
      apply hemp
      refine ⟨h.1, ?_⟩
      have hperm := List.mergeSort_perm kwargs (fun a b => decide (a.1 ≤ b.1))
      have : sortKw kwargs = [] := h.2
      unfold sortKw at this
      rw [this] at hperm
      exact List.Perm.nil_eq hperm |>.symm
    have hpieces_ne : ∀ x ∈ pieces, x ≠ [] := by
      subst hpieces
      intro x hx
      simp only [List.mem_append, List.mem_map, Function.comp] at hx
      rcases hx with ⟨a, _, rfl⟩ | ⟨p, _, rfl⟩
      · exact fmtArg_ne_nil F1 a
      · simp
    have hpieces_nc : ∀ x ∈ pieces, ∀ t ∈ x, Tok.isComma t = false := by
      subst hpieces
      intro x hx
      simp only [List.mem_append, List.mem_map, Function.comp] at hx
      rcases hx with ⟨a, _, rfl⟩ | ⟨p, _, rfl⟩
      · exact fmtArg_noComma F1 a
      · intro t ht
        simp only [List.mem_cons] at ht
        rcases ht with rfl | ht
        · rfl
        · exact fmtArg_noComma F1 p.2 t ht
    have hjne : (joinSep Tok.comma pieces).isEmpty = false := by
      simp only [List.isEmpty_eq_false_iff]
      exact joinSep_ne_nil _ pieces hpne hpieces_ne
    simp only [hjne, Bool.false_eq_true, if_false]
    rw [splitOn_joinSep _ _ rfl pieces hpne hpieces_nc,
      dropTrailingEmpty_of_last_ne pieces (fun y hy => hpieces_ne y (List.mem_of_getLast? hy))]
    subst hpieces
    have hmem : ∀ p ∈ sortKw kwargs, p ∈ kwargs := fun p hp => by
      unfold sortKw at hp; exact List.mem_mergeSort.mp hp
    have hres : allSome (List.map (fun p => Option.map (fun a => ((stripKw p).fst, a))
        (parseArg (stripKw p).snd))
        (List.map (fun a => fmtArg F1 a) args ++
          List.map ((fun p => Tok.kw p.fst :: p.snd) ∘ fun p => (p.fst, fmtArg F1 p.snd))
            (sortKw kwargs))) =
        some ((args.map normArg).map (fun a => ((none : Option String), a)) ++
          ((sortKw kwargs).map (fun p => (p.1, normArg p.2))).map (fun p => (some p.1, p.2))) := by
      rw [List.map_append, List.map_map, List.map_map]
      have h1 : List.map ((fun p => Option.map (fun a => ((stripKw p).fst, a))
          (parseArg (stripKw p).snd)) ∘ fun a => fmtArg F1 a) args =
          args.map (fun a => some ((none : Option String), normArg a)) := by
        apply List.map_congr_left
        intro a haa
        simp only [Function.comp, stripKw_fmtArg, ha a haa, Option.map_some]
      have h2 : List.map ((fun p => Option.map (fun a => ((stripKw p).fst, a))
          (parseArg (stripKw p).snd)) ∘
            ((fun p => Tok.kw p.fst :: p.snd) ∘ fun p => (p.fst, fmtArg F1 p.snd))) (sortKw kwargs) =
          (sortKw kwargs).map (fun p => some ((some p.1 : Option String), normArg p.2)) := by
        apply List.map_congr_left
        intro p hp
        simp only [Function.comp, stripKw, hk p (hmem p hp), Option.map_some]
      rw [h1, h2]
      have : (args.map (fun a => some ((none : Option String), normArg a)) ++
          (sortKw kwargs).map (fun p => some ((some p.1 : Option String), normArg p.2))) =
          ((args.map normArg).map (fun a => ((none : Option String), a)) ++
            ((sortKw kwargs).map (fun p => (p.1, normArg p.2))).map
              (fun p => ((some p.1 : Option String), p.2))).map some := by
        simp [List.map_map, Function.comp_def]
      rw [this]
      exact (allSome_map_some some id _ (fun _ _ => rfl)).trans (by simp)
    rw [hres]
    simp only [callOf]
    rw [splitCallArgs_mk _ _ (by
      have := sortKw_nodup kwargs hnd
      simpa [List.map_map, Function.comp_def] using this)]
    rfl

theorem consOpt_some {α} (x : α) (r : Option (List α)) : consOpt (some x) r = r.map (x :: ·) := by
  cases r <;> rfl

theorem validArg_t (root : String) (steps : List (Step L)) :
    validArg (.t root steps) = true ↔ ∀ s ∈ steps, s.isSeg = false ∧ validStep s = true := by
  rw [validArg, all_id_map]
  simp

theorem getLast?_mem {α} {l : List α} {x : α} (h : l.getLast? = some x) : x ∈ l :=
  List.mem_of_getLast? h

theorem normItem_slice (a b c : Option (Arg L)) :
    normItem (.slice a b c) =
      .slice (a.map normArg) (b.map normArg) (c.map normArg) := by
  cases a <;> cases b <;> cases c <;> simp [normItem]

/-- the optional parts of a slice -/
theorem parseOpt_fmt (a : Option (Arg L))
    (ih : ∀ x, a = some x → parseArg (fmtArg F1 x) = some (normArg x)) :
    (if (fmtOpt F1 a).isEmpty then some none else (parseArg (fmtOpt F1 a)).map some) =
      some (a.map normArg) := by
  cases a with
  | none => simp [fmtOpt]
  | some x =>
    have hne : (fmtArg F1 x).isEmpty = false := by
      simp only [List.isEmpty_eq_false_iff]; exact fmtArg_ne_nil F1 x
    simp only [fmtOpt, hne, Bool.false_eq_true, if_false, ih x rfl, Option.map_some]

/-! ### displays: tuples, lists, sets, frozensets, dicts, slice objects -/

/-- the elements of a display are read back one by one -/
theorem parseElems_joinSep (xs : List (Arg L))
    (h : ∀ x ∈ xs, parseArg (fmtArg F1 x) = some (normArg x)) :
    parseElems (joinSep .comma (xs.map (fun x => fmtArg F1 x))) = some (xs.map normArg) := by
  rw [parseElems_def]
  cases xs with
  | nil => simp [joinSep, splitOn, dropTrailingEmpty, allSome]
  | cons x r =>
    rw [splitOn_joinSep _ _ rfl _ (by simp) (by
      intro p hp; simp only [List.mem_map] at hp; obtain ⟨y, _, rfl⟩ := hp
      exact fmtArg_noComma F1 y)]
    rw [dropTrailingEmpty_of_last_ne _ (getLast?_map_ne_nil _ _ (fun y _ => fmtArg_ne_nil F1 y))]
    have := allSome_map_some (fun y => parseArg (fmtArg F1 y)) normArg (x :: r) h
    simpa [List.map_map, Function.comp_def] using this

/-- `(x,)` -/
theorem parseElems_single (x : Arg L) (h : parseArg (fmtArg F1 x) = some (normArg x)) :
    parseElems (fmtArg F1 x ++ [Tok.comma]) = some [normArg x] := by
  rw [parseElems_def, splitOn_append_sep _ _ _ _ (fmtArg_noComma F1 x) rfl]
  simp [splitOn, dropTrailingEmpty, allSome, h]

theorem joinSep_comma_noColon (pieces : List (List (Tok L)))
    (h : ∀ p ∈ pieces, ∀ t ∈ p, t.isColon = false) :
    ∀ t ∈ joinSep Tok.comma pieces, t.isColon = false := by
  induction pieces with
  | nil => intro t ht; simp [joinSep] at ht
  | cons p r ih =>
    cases r with
    | nil => simpa [joinSep] using h p (by simp)
    | cons q r' =>
      intro t ht
      rw [joinSep_cons_cons] at ht
      simp only [List.mem_append, List.mem_cons] at ht
      rcases ht with ht | rfl | ht
      · exact h p (by simp) t ht
      · rfl
      · exact ih (fun p' hp' => h p' (by simp [hp'])) t ht

theorem any_false_of_forall {α} (p : α → Bool) (l : List α) (h : ∀ x ∈ l, p x = false) :
    l.any p = false := by
  simp only [List.any_eq_false]
  intro x hx; simp [h x hx]

/-- `{a, b}` -/
theorem parseArg_setDisplay (x : Arg L) (r : List (Arg L))
    (h : ∀ y ∈ x :: r, parseArg (fmtArg F1 y) = some (normArg y)) :
    parseArg [Tok.brace (joinSep .comma ((x :: r).map (fun y => fmtArg F1 y)))] =
      some (.seq .set ((x :: r).map normArg)) := by
  have hne : (joinSep Tok.comma ((x :: r).map (fun y => fmtArg F1 y))).isEmpty = false := by
    simp only [List.isEmpty_eq_false_iff]
    exact joinSep_ne_nil _ _ (by simp) (by
      intro p hp; simp only [List.mem_map] at hp; obtain ⟨y, _, rfl⟩ := hp; exact fmtArg_ne_nil F1 y)
  have hnc : (joinSep Tok.comma ((x :: r).map (fun y => fmtArg F1 y))).any Tok.isColon = false :=
    any_false_of_forall _ _ (joinSep_comma_noColon _ (by
      intro p hp; simp only [List.mem_map] at hp; obtain ⟨y, _, rfl⟩ := hp; exact fmtArg_noColon F1 y))
  rw [parseArg_brace]
  simp only [hne, hnc, Bool.false_eq_true, if_false]
  rw [parseElems_joinSep _ h]; rfl

/-- every container display `reprlib` prints is read back as the container of the
    (normalised) elements -/
theorem parseArg_seq (k : Kind) (hk : k ≠ .dict) (xs : List (Arg L))
    (h : ∀ x ∈ xs, parseArg (fmtArg F1 x) = some (normArg x)) :
    parseArg (wrapSeq k xs.length (joinSep .comma (xs.map (fun x => fmtArg F1 x)))) =
      some (.seq k (xs.map normArg)) := by
  cases k with
  | dict => exact absurd rfl hk
  | list => simp only [wrapSeq]; rw [parseArg_br, parseElems_joinSep xs h]; rfl
  | tuple =>
    match xs, h with
    | [], _ => simp [wrapSeq, joinSep, parseArg_par]
    | [x], h =>
      have hx := h x (by simp)
      have hne : (fmtArg F1 x ++ [Tok.comma]).isEmpty = false := by
        cases hf : fmtArg F1 x <;> simp
      simp only [wrapSeq, List.length_singleton, beq_self_eq_true, if_true, List.map_cons, List.map_nil,
        joinSep]
      rw [parseArg_par]
      simp only [hne, Bool.false_eq_true, if_false]
      rw [splitOn_append_sep _ _ _ _ (fmtArg_noComma F1 x) rfl]
      simp only [splitOn, List.length_cons, List.length_nil]
      rw [parseElems_single x hx]; rfl
    | x :: y :: r, h =>
      have hlen : ((x :: y :: r).length == 1) = false := by simp
      simp only [wrapSeq, hlen, Bool.false_eq_true, if_false, List.append_nil]
      have hpne : (x :: y :: r).map (fun x => fmtArg F1 x) ≠ [] := by simp
      have hnc : ∀ p ∈ (x :: y :: r).map (fun x => fmtArg F1 x), ∀ t ∈ p, Tok.isComma t = false := by
        intro p hp; simp only [List.mem_map] at hp; obtain ⟨z, _, rfl⟩ := hp; exact fmtArg_noComma F1 z
      have hne : (joinSep Tok.comma ((x :: y :: r).map (fun x => fmtArg F1 x))).isEmpty = false := by
        simp only [List.isEmpty_eq_false_iff]
        exact joinSep_ne_nil _ _ hpne (by
          intro p hp; simp only [List.mem_map] at hp; obtain ⟨z, _, rfl⟩ := hp; exact fmtArg_ne_nil F1 z)
      rw [parseArg_par]
      simp only [hne, Bool.false_eq_true, if_false]
      rw [splitOn_joinSep _ _ rfl _ hpne hnc]
      simp only [List.map_cons, List.length_cons]
      rw [show (List.length (List.map (fun x => fmtArg F1 x) r) + 1 + 1 == 1) = false by simp]
      simp only [Bool.false_eq_true, if_false]
      have := parseElems_joinSep (x :: y :: r) h
      simp only [List.map_cons] at this
      rw [this]; rfl
  | set =>
    match xs, h with
    | [], _ => simp [wrapSeq, parseArg_set]
    | x :: r, h =>
      have h0 : (r.length + 1 == 0) = false := by simp
      simp only [wrapSeq, List.length_cons, h0, Bool.false_eq_true, if_false]
      exact parseArg_setDisplay x r h
  | frozenset =>
    match xs, h with
    | [], _ => simp [wrapSeq, parseArg_frozenset0]
    | x :: r, h =>
      have h0 : (r.length + 1 == 0) = false := by simp
      simp only [wrapSeq, List.length_cons, h0, Bool.false_eq_true, if_false]
      rw [parseArg_frozenset _ (by simp), parseArg_setDisplay x r h]; rfl

theorem parseEntry_fmt (p : Arg L × Arg L)
    (hk : parseArg (fmtArg F1 p.1) = some (normArg p.1))
    (hv : parseArg (fmtArg F1 p.2) = some (normArg p.2)) :
    parseEntry (fmtArg F1 p.1 ++ Tok.colon :: fmtArg F1 p.2) = some (normArg p.1, normArg p.2) := by
  rw [parseEntry_def, splitOn_append_sep _ _ _ _ (fmtArg_noColon F1 p.1) rfl,
    splitOn_noSep _ _ (fmtArg_noColon F1 p.2)]
  simp only [hk, hv, pairOpt]

/-- `{k: v, …}` -/
theorem parseArg_dict (kvs : List (Arg L × Arg L))
    (h : ∀ p ∈ kvs, parseArg (fmtArg F1 p.1) = some (normArg p.1) ∧
      parseArg (fmtArg F1 p.2) = some (normArg p.2)) :
    parseArg [Tok.brace (joinSep .comma
        (kvs.map (fun p => fmtArg F1 p.1 ++ Tok.colon :: fmtArg F1 p.2)))] =
      some (.dict (kvs.map (fun p => (normArg p.1, normArg p.2)))) := by
  rw [parseArg_brace]
  cases kvs with
  | nil => simp [joinSep]
  | cons p r =>
    have hpne : (p :: r).map (fun p => fmtArg F1 p.1 ++ Tok.colon :: fmtArg F1 p.2) ≠ [] := by simp
    have hpieces_ne : ∀ x ∈ (p :: r).map (fun p => fmtArg F1 p.1 ++ Tok.colon :: fmtArg F1 p.2), x ≠ [] := by
      intro x hx; simp only [List.mem_map] at hx; obtain ⟨q, _, rfl⟩ := hx; simp
    have hnc : ∀ x ∈ (p :: r).map (fun p => fmtArg F1 p.1 ++ Tok.colon :: fmtArg F1 p.2),
        ∀ t ∈ x, Tok.isComma t = false := by
      intro x hx t ht; simp only [List.mem_map] at hx; obtain ⟨q, _, rfl⟩ := hx
      simp only [List.mem_append, List.mem_cons] at ht
      rcases ht with ht | rfl | ht
      · exact fmtArg_noComma F1 q.1 t ht
      · rfl
      · exact fmtArg_noComma F1 q.2 t ht
    have hne : (joinSep Tok.comma
        ((p :: r).map (fun p => fmtArg F1 p.1 ++ Tok.colon :: fmtArg F1 p.2))).isEmpty = false := by
      simp only [List.isEmpty_eq_false_iff]
      exact joinSep_ne_nil _ _ hpne hpieces_ne
    have hcol : (joinSep Tok.comma
        ((p :: r).map (fun p => fmtArg F1 p.1 ++ Tok.colon :: fmtArg F1 p.2))).any Tok.isColon = true := by
      simp only [List.any_eq_true]
      refine ⟨Tok.colon, ?_, rfl⟩
      cases r with
      | nil => simp [joinSep]
      | cons q r' => simp only [List.map_cons, joinSep_cons_cons]; simp
    simp only [hne, hcol, Bool.false_eq_true, if_false, if_true]
    rw [parseEntries_def, splitOn_joinSep _ _ rfl _ hpne hnc,
      dropTrailingEmpty_of_last_ne _ (fun y hy => hpieces_ne y (List.mem_of_getLast? hy))]
    have := allSome_map_some
      (fun (q : Arg L × Arg L) => parseEntry (fmtArg F1 q.1 ++ Tok.colon :: fmtArg F1 q.2))
      (fun q => (normArg q.1, normArg q.2)) (p :: r)
      (fun q hq => parseEntry_fmt q (h q hq).1 (h q hq).2)
    simp only [List.map_map, Function.comp_def] at this ⊢
    rw [this]; rfl

/-- `slice(a, b, c)` -/
theorem parseArg_sliceObj (a b c : Arg L)
    (ha : parseArg (fmtArg F1 a) = some (normArg a)) (hb : parseArg (fmtArg F1 b) = some (normArg b))
    (hc : parseArg (fmtArg F1 c) = some (normArg c)) :
    parseArg [Tok.name "slice", Tok.par (joinSep .comma [fmtArg F1 a, fmtArg F1 b, fmtArg F1 c])] =
      some (.sliceObj (normArg a) (normArg b) (normArg c)) := by
  rw [parseArg_slice]
  have := parseElems_joinSep [a, b, c] (by
    intro x hx; simp only [List.mem_cons, List.mem_nil_iff, or_false] at hx
    rcases hx with rfl | rfl | rfl <;> assumption)
  simp only [List.map_cons, List.map_nil] at this
  rw [this]; rfl

/-! ### Paths: grouping into parts and `Path.__init__` -/

/-- a group of steps, each step paired with `f` of it -/
def liftG {α β} (f : α → β) : List α ⊕ α → List β ⊕ β
  | .inl l => .inl (l.map f)
  | .inr x => .inr (f x)

theorem groupSteps_map {α β} (p : α → Bool) (f : α → β) (q : β → Bool) (hq : ∀ a, q (f a) = p a) :
    ∀ (xs : List α), groupSteps q (xs.map f) = (groupSteps p xs).map (liftG f) := by
  intro xs
  induction xs with
  | nil => rfl
  | cons x r ih =>
    simp only [List.map_cons, groupSteps, hq]
    split
    · simp [ih, liftG]
    · rw [ih]
      cases groupSteps p r with
      | nil => rfl
      | cons g rest => cases g <;> rfl

/-- the steps a group stands for -/
def unGroup {α} : List α ⊕ α → List α
  | .inl g => g
  | .inr x => [x]

theorem groupSteps_flatten {α} (p : α → Bool) :
    ∀ (xs : List α), (groupSteps p xs).flatMap unGroup = xs := by
  intro xs
  induction xs with
  | nil => rfl
  | cons x r ih =>
    simp only [groupSteps]
    split
    · simp [unGroup, ih]
    · revert ih
      cases groupSteps p r with
      | nil => intro ih; simp [unGroup] at ih ⊢; exact ih
      | cons g rest =>
        cases g with
        | inl l => intro ih; simp [unGroup] at ih ⊢; exact ih
        | inr y => intro ih; simp [unGroup] at ih ⊢; exact ih

theorem groupSteps_spec {α} (p : α → Bool) :
    ∀ (xs : List α), ∀ g ∈ groupSteps p xs,
      match g with
      | .inl l => l ≠ [] ∧ ∀ x ∈ l, p x = false
      | .inr x => p x = true := by
  intro xs
  induction xs with
  | nil => intro g hg; simp [groupSteps] at hg
  | cons x r ih =>
    intro g hg
    simp only [groupSteps] at hg
    split at hg
    · rename_i hp
      simp only [List.mem_cons] at hg
      rcases hg with rfl | hg
      · exact hp
      · exact ih g hg
    · rename_i hp
      have hp' : p x = false := by simpa using hp
      split at hg
      · rename_i l rest heq
        simp only [List.mem_cons] at hg
        rcases hg with rfl | hg
        · have := ih (.inl l) (by rw [heq]; simp)
          simp only at this
          refine ⟨by simp, ?_⟩
          intro y hy
          simp only [List.mem_cons] at hy
          rcases hy with rfl | hy
          · exact hp'
          · exact this.2 y hy
        · exact ih g (by rw [heq]; simp [hg])
      · simp only [List.mem_cons] at hg
        rcases hg with rfl | hg
        · exact ⟨by simp, by intro y hy; simp at hy; subst hy; exact hp'⟩
        · exact ih g hg

theorem tChild_ok (r : String) (steps : List (Step L)) (st : Step L)
    (h : r = "A" → st.okOnA = true) : tChild r steps st = some (steps ++ [st]) := by
  cases st <;> simp [tChild]
  all_goals (intro hr; have := h hr; simp [Step.okOnA] at this)

theorem foldlM_tChild (r : String) (s : List (Step L)) :
    (r = "A" → ∀ st ∈ s, st.okOnA = true) →
    ∀ (acc : List (Step L)), s.foldlM (fun steps st => tChild r steps st) acc = some (acc ++ s) := by
  induction s with
  | nil => intro _ acc; simp
  | cons st rest ih =>
    intro h acc
    rw [List.foldlM_cons, tChild_ok r acc st (fun hr => h hr st (by simp))]
    simp only [Option.bind_eq_bind, Option.bind_some]
    rw [ih (fun hr x hx => h hr x (by simp [hx]))]; simp

/-- the steps a parsed part contributes -/
def partSteps : Part L → List (Step L)
  | .plain a => [.seg a]
  | .texpr _ s => s
  | .path _ s => s

def partOk : Part L → Bool
  | .plain _ => true
  | .texpr r _ => r == "T"
  | .path r _ => r == "T"

theorem pathStep_ok (r : String) (acc : List (Step L)) (part : Part L) (hp : partOk part = true)
    (hA : r = "A" → ∀ st ∈ partSteps part, st.okOnA = true) :
    pathStep (r, acc) part = some (r, acc ++ partSteps part) := by
  cases part with
  | plain v =>
    simp only [pathStep, partSteps]
    rw [tChild_ok r acc (.seg v) (fun _ => rfl)]; rfl
  | texpr rt s =>
    simp only [partOk, beq_iff_eq] at hp; subst hp
    simp only [partSteps] at hA
    simp [pathStep, foldlM_tChild r s hA, partSteps]
  | path rt s =>
    simp only [partOk, beq_iff_eq] at hp; subst hp
    simp only [partSteps] at hA
    simp [pathStep, foldlM_tChild r s hA, partSteps]

theorem pathInit_fold (r : String) (parts : List (Part L)) :
    (∀ x ∈ parts, partOk x = true) →
    (r = "A" → ∀ st ∈ parts.flatMap partSteps, st.okOnA = true) →
    ∀ (acc : List (Step L)),
    parts.foldlM pathStep (r, acc) = some (r, acc ++ parts.flatMap partSteps) := by
  induction parts with
  | nil => intro _ _ acc; simp
  | cons x rest ih =>
    intro hp hA acc
    rw [List.foldlM_cons, pathStep_ok r acc x (hp x (by simp))
      (fun hr st hst => hA hr st (by simp [hst]))]
    simp only [Option.bind_eq_bind, Option.bind_some]
    rw [ih (fun y hy => hp y (by simp [hy])) (fun hr st hst => hA hr st (by
      simp only [List.flatMap_cons, List.mem_append]; exact Or.inr hst))]
    simp

/-- `Path(t, *others)` whose first part is a T expression with any root: its root, its steps,
    then the steps of the other parts (which must be rooted at T) -/
theorem pathInit_rooted (r : String) (s : List (Step L)) (others : List (Part L))
    (hp : ∀ x ∈ others, partOk x = true)
    (hA : r = "A" → ∀ st ∈ others.flatMap partSteps, st.okOnA = true) :
    pathInit (.texpr r s :: others) = some (r, s ++ others.flatMap partSteps) := by
  simp only [pathInit]
  exact pathInit_fold r others hp hA s

/-- `Path(p, *others)` whose first part is a Path with any root -/
theorem pathInit_rooted_path (r : String) (s : List (Step L)) (others : List (Part L))
    (hp : ∀ x ∈ others, partOk x = true)
    (hA : r = "A" → ∀ st ∈ others.flatMap partSteps, st.okOnA = true) :
    pathInit (.path r s :: others) = some (r, s ++ others.flatMap partSteps) := by
  simp only [pathInit]
  exact pathInit_fold r others hp hA s

/-- `Path(*parts)` for parts rooted at T: the steps of the parts, in order -/
theorem pathInit_ok (parts : List (Part L)) (hp : ∀ x ∈ parts, partOk x = true) :
    pathInit parts = some ("T", parts.flatMap partSteps) := by
  have hA : ("T" : String) = "A" → ∀ st ∈ parts.flatMap partSteps, Step.okOnA st = true := by
    intro h; exact absurd h (by decide)
  cases parts with
  | nil => rfl
  | cons first others =>
    cases first with
    | texpr r s =>
      have := hp (.texpr r s) (by simp)
      simp only [partOk, beq_iff_eq] at this
      subst this
      rw [pathInit_rooted "T" s others (fun y hy => hp y (by simp [hy]))
        (fun h => absurd h (by decide))]
      simp [partSteps]
    | plain v =>
      simp only [pathInit]
      have := pathInit_fold "T" (.plain v :: others) hp hA []
      simpa using this
    | path r s =>
      have := hp (.path r s) (by simp)
      simp only [partOk, beq_iff_eq] at this
      subst this
      simp only [pathInit]
      rw [pathInit_fold "T" others (fun y hy => hp y (by simp [hy]))
        (fun h => absurd h (by decide)) s]
      simp [partSteps]
/-- the text of one part of `Path(…)` -/
def pieceToks (F : FmtFacts) (root : String) : List (Step L) ⊕ Step L → List (Tok L)
  | .inl g => .root root :: g.flatMap (fmtStep F)
  | .inr s => fmtStep F s

/-- the texts of all parts: only the first can carry a root other than T -/
def pieceList (F : FmtFacts) (root : String) : List (List (Step L) ⊕ Step L) → List (List (Tok L))
  | [] => []
  | g :: rest => pieceToks F root g :: rest.map (pieceToks F "T")

theorem groupToks_liftG (F : FmtFacts) (root : String) (g : List (Step L) ⊕ Step L) :
    groupToks root (liftG (fun s => (s, fmtStep F s)) g) = pieceToks F root g := by
  cases g <;> simp [groupToks, liftG, pieceToks, List.flatMap_map]

theorem withRootPart_map {α β} (f : α → β) (r : String) (gs : List (List α ⊕ α)) :
    withRootPart r (gs.map (liftG f)) = (withRootPart r gs).map (liftG f) := by
  unfold withRootPart
  split
  · cases gs with
    | nil => rfl
    | cons g rest => cases g <;> rfl
  · rfl

theorem partToks_liftG (F : FmtFacts) (root : String) (gs : List (List (Step L) ⊕ Step L)) :
    partToks root (gs.map (liftG (fun s => (s, fmtStep F s)))) = pieceList F root gs := by
  cases gs with
  | nil => rfl
  | cons g rest =>
    simp only [List.map_cons, partToks, pieceList, groupToks_liftG, List.map_map]
    congr 1
    apply List.map_congr_left
    intro x _
    exact groupToks_liftG F "T" x

theorem assemblePath_eq (F : FmtFacts) (root : String) (steps : List (Step L)) :
    assemblePath F.pathRootAware root (fmtSteps F steps) =
      match groupSteps Step.isSeg steps with
      | [.inl g] => .root (effRoot F.pathRootAware root) :: g.flatMap (fmtStep F)
      | gs => [.name "Path", .par (joinSep .comma (pieceList F (effRoot F.pathRootAware root)
          (withRootPart (effRoot F.pathRootAware root) gs)))] := by
  unfold assemblePath fmtSteps
  rw [groupSteps_map Step.isSeg (fun s => (s, fmtStep F s)) (fun x => x.1.isSeg) (fun _ => rfl)]
  have hmm := fun gs => (withRootPart_map (fun (s : Step L) => (s, fmtStep F s))
    (effRoot F.pathRootAware root) gs).trans rfl
  match h : groupSteps Step.isSeg steps with
  | [] => simp only [List.map_nil]; rw [← List.map_nil (f := liftG _), hmm, partToks_liftG]
  | [.inl g] => simp [liftG, List.flatMap_map]
  | [.inr x] =>
    have := hmm [.inr x]
    simp only [List.map_cons, List.map_nil, liftG] at this ⊢
    rw [this, partToks_liftG]
  | a :: b :: r =>
    have := hmm (a :: b :: r)
    cases a <;> (simp only [List.map_cons, liftG] at this ⊢; rw [this, partToks_liftG])

theorem validP_iff (steps : List (Step L)) :
    validP steps = true ↔ ∀ s ∈ steps, validStep s = true := by
  simp [validP, List.all_eq_true]

theorem mem_group_mem {α} (p : α → Bool) (xs : List α) (g : List α ⊕ α)
    (hg : g ∈ groupSteps p xs) : ∀ x ∈ unGroup g, x ∈ xs := by
  intro x hx
  rw [← groupSteps_flatten p xs]
  simp only [List.mem_flatMap]
  exact ⟨g, hg, hx⟩

theorem pieceToks_plain (root : String) (g : List (Step L) ⊕ Step L) :
    ∀ t ∈ pieceToks F1 root g, t.isPlain = true := by
  cases g with
  | inl l =>
    intro t ht
    simp only [pieceToks, List.mem_cons, List.mem_flatMap] at ht
    rcases ht with rfl | ⟨s, _, hts⟩
    · rfl
    · exact fmtStep_plain F1 s t hts
  | inr s => exact fmtStep_plain F1 s

theorem pieceToks_ne_nil (root : String) (g : List (Step L) ⊕ Step L) :
    pieceToks F1 root g ≠ [] := by
  cases g with
  | inl l => simp [pieceToks]
  | inr s => exact fmtStep_ne_nil F1 s


/-- a run of non-segment steps is one group -/
theorem groupSteps_noseg {α} (p : α → Bool) (xs : List α) (hne : xs ≠ [])
    (h : ∀ x ∈ xs, p x = false) : groupSteps p xs = [.inl xs] := by
  have hgen : ∀ (r : List α) (s : α), (∀ x ∈ s :: r, p x = false) →
      groupSteps p (s :: r) = [.inl (s :: r)] := by
    intro r
    induction r with
    | nil => intro s h; simp [groupSteps, h s (by simp)]
    | cons s' r' ih =>
      intro s h
      have := ih s' (fun x hx => h x (by simp [hx]))
      simp only [groupSteps, h s (by simp), Bool.false_eq_true, if_false] at this ⊢
      rw [this]
  cases xs with
  | nil => exact absurd rfl hne
  | cons s r => exact hgen r s h

/-- a Path without plain segments prints like the T expression with the same steps -/
theorem fmtPath_noseg (F : FmtFacts) (root : String) (steps : List (Step L)) (hne : steps ≠ [])
    (hns : ∀ s ∈ steps, s.isSeg = false) :
    fmtPath F root steps = fmtT F (effRoot F.pathRootAware root) steps := by
  have hg : groupSteps Step.isSeg steps = [.inl steps] := groupSteps_noseg _ steps hne hns
  unfold fmtPath fmtT
  rw [assemblePath_eq, hg]
  simp only
  unfold fmtSteps
  rw [assembleT_noseg F _ steps hns]

/-- the condition under which a Path prints as (and is read back as) a T expression -/
def pathIsT (steps : List (Step L)) : Bool := !steps.isEmpty && steps.all (fun s => !s.isSeg)

theorem pathIsT_iff (steps : List (Step L)) :
    pathIsT steps = true ↔ steps ≠ [] ∧ ∀ s ∈ steps, s.isSeg = false := by
  simp [pathIsT, List.all_eq_true]

theorem normArg_path (root : String) (steps : List (Step L)) :
    normArg (.path root steps) =
      if pathIsT steps then .t root (normSteps steps) else .path root (normSteps steps) := by
  rw [normArg]; rfl

/-- the argument a group is read back as -/
def argOfGroup (root : String) : List (Step L) ⊕ Step L → Arg L
  | .inl g => .t root (normSteps g)
  | .inr (.seg a) => normArg a
  | .inr s => .t "T" [normStep s]      -- not produced by `groupSteps Step.isSeg`

/-- the part a group is read back as -/
def partOfGroup (root : String) : List (Step L) ⊕ Step L → Part L
  | .inl g => .texpr root (normSteps g)
  | .inr (.seg a) => .plain (normArg a)
  | .inr s => .texpr "T" [normStep s]      -- not produced by `groupSteps Step.isSeg`

theorem isSegArg_norm (a : Arg L) (h : a.isSegArg = true) : partOfArg (normArg a) = .plain (normArg a) := by
  cases a <;> first | (simp [Arg.isSegArg] at h; done) | (rw [normArg]; rfl)

theorem partOfGroup_ok (g : List (Step L) ⊕ Step L) : partOk (partOfGroup "T" g) = true := by
  cases g with
  | inl l => rfl
  | inr s => cases s <;> rfl

theorem partOfGroup_steps (root : String) (g : List (Step L) ⊕ Step L) :
    partSteps (partOfGroup root g) = normSteps (unGroup g) := by
  cases g with
  | inl l => rfl
  | inr s => cases s <;> simp [partOfGroup, partSteps, unGroup, normSteps, normStep]

/-- the text `Path(part, …)` for at least one part is read back part by part -/
theorem parseArg_pathText (r : String) (g0 : List (Step L) ⊕ Step L)
    (rest : List (List (Step L) ⊕ Step L))
    (hp0 : (parseArg (pieceToks F1 r g0)).map partOfArg = some (partOfGroup r g0))
    (hp : ∀ g ∈ rest, (parseArg (pieceToks F1 "T" g)).map partOfArg = some (partOfGroup "T" g))
    (r' : String) (st : List (Step L))
    (hinit : pathInit (partOfGroup r g0 :: rest.map (partOfGroup "T")) = some (r', st)) :
    parseArg [.name "Path", .par (joinSep .comma (pieceList F1 r (g0 :: rest)))] =
      some (.path r' st) := by
  have hpne : pieceList F1 r (g0 :: rest) ≠ [] := by simp [pieceList]
  have hmem : ∀ x ∈ pieceList F1 r (g0 :: rest), ∃ rt g, x = pieceToks F1 rt g := by
    intro x hx
    simp only [pieceList, List.mem_cons, List.mem_map] at hx
    rcases hx with rfl | ⟨g, _, rfl⟩
    · exact ⟨r, g0, rfl⟩
    · exact ⟨"T", g, rfl⟩
  have hpieces_ne : ∀ x ∈ pieceList F1 r (g0 :: rest), x ≠ [] := by
    intro x hx; obtain ⟨rt, g, rfl⟩ := hmem x hx; exact pieceToks_ne_nil rt g
  have hpieces_nc : ∀ x ∈ pieceList F1 r (g0 :: rest), ∀ t ∈ x, Tok.isComma t = false := by
    intro x hx t ht; obtain ⟨rt, g, rfl⟩ := hmem x hx
    exact plain_not_comma (pieceToks_plain rt g t ht)
  have hjne : (joinSep Tok.comma (pieceList F1 r (g0 :: rest))).isEmpty = false := by
    simp only [List.isEmpty_eq_false_iff]
    exact joinSep_ne_nil _ _ hpne hpieces_ne
  -- every piece is read back as some argument, which `Path.__init__` sees as the group's part
  have hall : ∀ (gs : List (List (Step L) ⊕ Step L)) (rt : String),
      (∀ g ∈ gs, (parseArg (pieceToks F1 rt g)).map partOfArg = some (partOfGroup rt g)) →
      ∃ args, allSome (gs.map (fun g => parseArg (pieceToks F1 rt g))) = some args ∧
        args.map partOfArg = gs.map (partOfGroup rt) := by
    intro gs rt
    induction gs with
    | nil => intro _; exact ⟨[], rfl, rfl⟩
    | cons g gs ih =>
      intro h
      obtain ⟨args, h1, h2⟩ := ih (fun g' hg' => h g' (by simp [hg']))
      have hg := h g (by simp)
      cases hpa : parseArg (pieceToks F1 rt g) with
      | none => rw [hpa] at hg; simp at hg
      | some a =>
        rw [hpa] at hg
        simp only [Option.map_some, Option.some.injEq] at hg
        exact ⟨a :: args, by simp only [List.map_cons, hpa, allSome, h1], by
          simp only [List.map_cons, hg, h2]⟩
  obtain ⟨args, ha1, ha2⟩ := hall rest "T" hp
  cases hpa0 : parseArg (pieceToks F1 r g0) with
  | none => rw [hpa0] at hp0; simp at hp0
  | some a0 =>
    rw [hpa0] at hp0
    simp only [Option.map_some, Option.some.injEq] at hp0
    rw [parseArg_path]
    simp only [hjne, Bool.false_eq_true, if_false]
    rw [parseElems_def, splitOn_joinSep _ _ rfl _ hpne hpieces_nc,
      dropTrailingEmpty_of_last_ne _ (fun y hy => hpieces_ne y (List.mem_of_getLast? hy))]
    simp only [pieceList, List.map_cons, hpa0, allSome, List.map_map]
    have ha1' : allSome (List.map (parseArg ∘ pieceToks F1 "T") rest) = some args := ha1
    rw [ha1']
    simp only [pathOfParts, List.map_cons, hp0, ha2, hinit, Option.map_some]

theorem normStep_okOnA (s : Step L) : (normStep s).okOnA = s.okOnA := by
  cases s <;> rw [normStep] <;> rfl

/-- `Path.__init__` on the parts that were printed: the root and the steps come back -/
theorem pathInit_groups (root : String) (g0 : List (Step L) ⊕ Step L)
    (rest : List (List (Step L) ⊕ Step L))
    (hfirst : root ≠ "T" → ∃ l, g0 = .inl l)
    (hA : root = "A" → ∀ g ∈ rest, ∀ s ∈ unGroup g, s.okOnA = true) :
    pathInit (partOfGroup root g0 :: rest.map (partOfGroup "T")) =
      some (root, (g0 :: rest).flatMap (fun g => normSteps (unGroup g))) := by
  have hrest_ok : ∀ x ∈ rest.map (partOfGroup "T"), partOk x = true := by
    intro x hx; simp only [List.mem_map] at hx; obtain ⟨g, _, rfl⟩ := hx; exact partOfGroup_ok g
  have hrest_steps : (rest.map (partOfGroup "T")).flatMap partSteps =
      rest.flatMap (fun g => normSteps (unGroup g)) := by
    simp only [List.flatMap_map, partOfGroup_steps]
  cases g0 with
  | inl l =>
    simp only [partOfGroup]
    rw [pathInit_rooted root (normSteps l) _ hrest_ok (by
      intro hr st hst
      rw [hrest_steps] at hst
      simp only [List.mem_flatMap, normSteps, List.mem_map] at hst
      obtain ⟨g, hg, s, hs, rfl⟩ := hst
      rw [normStep_okOnA]; exact hA hr g hg s hs), hrest_steps]
    simp [unGroup]
  | inr s =>
    have hroot : root = "T" := by
      apply Classical.byContradiction
      intro hne
      obtain ⟨l, hl⟩ := hfirst hne
      cases hl
    subst hroot
    rw [pathInit_ok _ (by
      intro x hx
      simp only [List.mem_cons] at hx
      rcases hx with rfl | hx
      · exact partOfGroup_ok _
      · exact hrest_ok x hx)]
    simp only [List.flatMap_cons, partOfGroup_steps, hrest_steps]


/-- `eval` of the text of a Path with any root gives back the root and the (normalised)
    steps: as a T expression when the path is one run of non-segment steps (reading 6
    of DESIGN.md), else as a Path.  The hypotheses are what the mutual induction provides
    for the steps of the path. -/
theorem parsePath_fmt (root : String) (steps : List (Step L))
    (hstep : ∀ s ∈ steps, s.isSeg = false → ∀ rest, parseSteps (fmtStep F1 s ++ rest) =
      (parseSteps rest).map (normStep s :: ·))
    (hseg : ∀ a, Step.seg a ∈ steps →
      parseArg (fmtArg F1 a) = some (normArg a) ∧ a.isSegArg = true)
    (hA : aOk root steps = true) :
    parseArg (fmtPath F1 root steps) = some (normArg (.path root steps)) := by
  rw [normArg_path]
  by_cases hc : pathIsT steps = true
  · obtain ⟨hne, hns⟩ := (pathIsT_iff steps).mp hc
    rw [fmtPath_noseg F1 root steps hne hns]
    have heff : effRoot F1.pathRootAware root = root := rfl
    rw [heff]
    unfold fmtT fmtSteps
    rw [assembleT_noseg F1 root steps hns, parseArg_root,
      parseSteps_flatMap F1 steps (fun s hs rest => hstep s hs (hns s hs) rest)]
    simp only [hc, if_true, Option.map_some, normSteps]
  · have hc' : pathIsT steps = false := by simpa using hc
    simp only [hc', Bool.false_eq_true, if_false]
    have hAll : root = "A" → ∀ s ∈ steps, s.okOnA = true := by
      intro hr
      simp only [aOk, hr, bne_self_eq_false, Bool.false_or, List.all_eq_true] at hA
      exact hA
    unfold fmtPath
    rw [assemblePath_eq]
    have heff : effRoot F1.pathRootAware root = root := rfl
    rw [heff]
    have hflat := groupSteps_flatten Step.isSeg steps
    have hspec := groupSteps_spec Step.isSeg steps
    have hmem := mem_group_mem Step.isSeg steps
    generalize groupSteps Step.isSeg steps = gs at hflat hspec hmem
    have hsteps : normSteps steps = gs.flatMap (fun g => normSteps (unGroup g)) := by
      rw [← hflat]; simp [normSteps, List.map_flatMap]
    -- what every group is read back as, whichever root it is printed with
    have hpiece : ∀ (r : String), ∀ g ∈ gs,
        (parseArg (pieceToks F1 r g)).map partOfArg = some (partOfGroup r g) := by
      intro r g hg
      cases g with
      | inl l =>
        have hsp := hspec _ hg
        simp only at hsp
        have hl : parseSteps (l.flatMap (fmtStep F1)) = some (l.map normStep) :=
          parseSteps_flatMap F1 l (fun s hs rest =>
            hstep s (hmem _ hg s (by simpa [unGroup] using hs)) (hsp.2 s hs) rest)
        simp only [pieceToks, parseArg_root, hl, Option.map_some, partOfArg, partOfGroup, normSteps]
      | inr s =>
        have hsp := hspec _ hg
        simp only at hsp
        cases s with
        | seg a =>
          have ha := hseg a (hmem _ hg (.seg a) (by simp [unGroup]))
          simp only [pieceToks, partOfGroup]
          rw [fmtStep, ha.1]
          simp only [Option.map_some, isSegArg_norm a ha.2]
        | _ => simp [Step.isSeg] at hsp
    have hempty : ∀ (r : String),
        (parseArg (pieceToks F1 r (.inl ([] : List (Step L))))).map partOfArg =
          some (partOfGroup r (.inl [])) := by
      intro r
      simp [pieceToks, parseArg_root, parseSteps_nil, partOfGroup, normSteps, partOfArg]
    -- the general `Path(…)` case, for a non-empty list of parts
    have hgen : ∀ (g0 : List (Step L) ⊕ Step L) (rest : List (List (Step L) ⊕ Step L)),
        (g0 ∈ gs ∨ g0 = .inl []) → (∀ g ∈ rest, g ∈ gs) →
        (root ≠ "T" → ∃ l, g0 = .inl l) →
        (g0 :: rest).flatMap (fun g => normSteps (unGroup g)) = normSteps steps →
        parseArg [.name "Path", .par (joinSep .comma (pieceList F1 root (g0 :: rest)))] =
          some (.path root (normSteps steps)) := by
      intro g0 rest h0 hr hfirst hst
      apply parseArg_pathText root g0 rest
      · rcases h0 with h0 | rfl
        · exact hpiece root g0 h0
        · exact hempty root
      · intro g hg; exact hpiece "T" g (hr g hg)
      · rw [pathInit_groups root g0 rest hfirst (fun hroot g hg s hs =>
          hAll hroot s (hmem g (hr g hg) s hs)), hst]
    match gs, hflat, hspec, hmem, hpiece, hsteps, hgen with
    | [.inl g], hflat, hspec, _, _, _, _ =>
      -- one run of non-segment steps: `pathIsT`, excluded here
      exfalso
      have hsp := hspec (.inl g) (by simp)
      simp only at hsp
      simp only [List.flatMap_cons, List.flatMap_nil, List.append_nil, unGroup] at hflat
      subst hflat
      have : pathIsT g = true := (pathIsT_iff g).mpr hsp
      rw [this] at hc'; exact absurd hc' (by simp)
    | [], _, _, _, _, hsteps, hgen =>
      by_cases hroot : root = "T"
      · subst hroot
        rw [hsteps]
        simp [withRootPart, pieceList, joinSep, parseArg_path]
      · have hw : withRootPart root ([] : List (List (Step L) ⊕ Step L)) = [.inl []] := by
          simp [withRootPart, hroot]
        simp only [hw]
        exact hgen (.inl []) [] (Or.inr rfl) (by simp) (fun _ => ⟨[], rfl⟩)
          (by rw [hsteps]; simp [unGroup, normSteps])
    | [.inr x], _, _, _, _, hsteps, hgen =>
      by_cases hroot : root = "T"
      · have hw : withRootPart root [(.inr x : List (Step L) ⊕ Step L)] = [.inr x] := by
          simp [withRootPart, hroot]
        simp only [hw]
        exact hgen (.inr x) [] (Or.inl (by simp)) (by simp) (fun h => absurd hroot h) hsteps.symm
      · have hw : withRootPart root [(.inr x : List (Step L) ⊕ Step L)] = [.inl [], .inr x] := by
          simp [withRootPart, hroot]
        simp only [hw]
        exact hgen (.inl []) [.inr x] (Or.inr rfl) (by simp) (fun _ => ⟨[], rfl⟩)
          (by rw [hsteps]; simp [unGroup, normSteps])
    | a :: b :: r, _, _, _, _, hsteps, hgen =>
      cases a with
      | inl l =>
        have hw : withRootPart root ((.inl l : List (Step L) ⊕ Step L) :: b :: r) = .inl l :: b :: r := by
          simp only [withRootPart]; split <;> rfl
        simp only [hw]
        exact hgen (.inl l) (b :: r) (Or.inl (by simp)) (fun g hg => by simp [hg])
          (fun _ => ⟨l, rfl⟩) hsteps.symm
      | inr x =>
        by_cases hroot : root = "T"
        · have hw : withRootPart root ((.inr x : List (Step L) ⊕ Step L) :: b :: r) = .inr x :: b :: r := by
            simp [withRootPart, hroot]
          simp only [hw]
          exact hgen (.inr x) (b :: r) (Or.inl (by simp)) (fun g hg => by simp [hg])
            (fun h => absurd hroot h) hsteps.symm
        · have hw : withRootPart root ((.inr x : List (Step L) ⊕ Step L) :: b :: r) =
              .inl [] :: .inr x :: b :: r := by
            simp [withRootPart, hroot]
          simp only [hw]
          exact hgen (.inl []) (.inr x :: b :: r) (Or.inr rfl) (fun g hg => by simpa using hg)
            (fun _ => ⟨[], rfl⟩) (by rw [hsteps]; simp [unGroup, normSteps])

/-! ### the round trip, by mutual induction over arguments, items and steps -/

theorem validArg_seq (k : Kind) (xs : List (Arg L)) :
    validArg (.seq k xs) = true ↔ k ≠ .dict ∧ ∀ x ∈ xs, validArg x = true := by
  rw [validArg, Bool.and_eq_true, all_id_map]; simp

theorem validArg_dict (kvs : List (Arg L × Arg L)) :
    validArg (.dict kvs) = true ↔ ∀ p ∈ kvs, validArg p.1 = true ∧ validArg p.2 = true := by
  rw [validArg, all_id_map]; simp

theorem validArg_path (root : String) (steps : List (Step L)) :
    validArg (.path root steps) = true ↔ (∀ s ∈ steps, validStep s = true) ∧ aOk root steps = true := by
  rw [validArg, Bool.and_eq_true, all_id_map]

theorem fmtArg_path (F : FmtFacts) (root : String) (steps : List (Step L)) :
    fmtArg F (.path root steps) = fmtPath F root steps := by
  rw [fmtArg]; rfl

theorem fmtArg_t (F : FmtFacts) (root : String) (steps : List (Step L)) :
    fmtArg F (.t root steps) = fmtT F root steps := by
  rw [fmtArg]; rfl

mutual
  theorem parseArg_fmt : ∀ (a : Arg L), validArg a = true →
      parseArg (fmtArg F1 a) = some (normArg a)
    | .lit v, _ => by rw [fmtArg, parseArg_lit, normArg]
    | .t root steps, hv => by
      rw [validArg_t] at hv
      rw [fmtArg, assembleT_noseg F1 root steps (fun s hs => (hv s hs).1), parseArg_root,
        parseSteps_flatMap F1 steps (fun s hs rest =>
          parseStep_fmt s (hv s hs).2 (hv s hs).1 rest), normArg]
      rfl
    | .seq k xs, hv => by
      rw [validArg_seq] at hv
      have h : ∀ x ∈ xs, parseArg (fmtArg F1 x) = some (normArg x) :=
        fun x hx => parseArg_fmt x (hv.2 x hx)
      rw [fmtArg, normArg, parseArg_seq k hv.1 xs h]
    | .dict kvs, hv => by
      rw [validArg_dict] at hv
      have h : ∀ p ∈ kvs, parseArg (fmtArg F1 p.1) = some (normArg p.1) ∧
          parseArg (fmtArg F1 p.2) = some (normArg p.2) :=
        fun p hp => ⟨parseArg_fmt p.1 (hv p hp).1, parseArg_fmt p.2 (hv p hp).2⟩
      rw [fmtArg, normArg, parseArg_dict kvs h]
    | .sliceObj a b c, hv => by
      rw [validArg] at hv
      simp only [Bool.and_eq_true] at hv
      rw [fmtArg, normArg, parseArg_sliceObj a b c (parseArg_fmt a hv.1.1) (parseArg_fmt b hv.1.2)
        (parseArg_fmt c hv.2)]
    | .path root steps, hv => by
      rw [validArg_path] at hv
      rw [fmtArg_path]
      exact parsePath_fmt root steps
        (fun s hs hns rest => parseStep_fmt s (hv.1 s hs) hns rest)
        (fun a ha => parseSegStep_fmt (.seg a) (hv.1 _ ha) a rfl) hv.2
    | .bad _, hv => by rw [validArg] at hv; exact absurd hv (by simp)
    | .fill, hv => by rw [validArg] at hv; exact absurd hv (by simp)
    | .deep _, hv => by rw [validArg] at hv; exact absurd hv (by simp)
    | .dictMore _, hv => by rw [validArg] at hv; exact absurd hv (by simp)
  termination_by a => sizeOf a
  decreasing_by
    all_goals first
      | c18_dec
      | (simp_wf; have := List.sizeOf_lt_of_mem ‹_ ∈ _›; simp at this; omega)

  theorem parseItem_fmt : ∀ (i : Item L), validItem i = true →
      parseItem (fmtItem F1 i) = some (normItem i)
    | .one a, hv => by
      have hva := ((validItem_one a).mp hv).1
      rw [fmtItem, parseItem_def, splitOn_noSep _ _ (fmtArg_noColon F1 a)]
      simp only [parseArg_fmt a hva, Option.map_some, normItem]
    | .slice a b none, hv => by
      unfold validItem at hv
      simp only [Bool.and_eq_true] at hv
      have ha := parseOpt_fmt a (fun x hx => parseArg_fmt x (by subst hx; exact hv.1.1))
      have hb := parseOpt_fmt b (fun x hx => parseArg_fmt x (by subst hx; exact hv.1.2))
      rw [fmtItem_slice, parseItem_def, normItem_slice]
      simp only [List.append_nil, List.append_assoc, List.singleton_append]
      rw [splitOn_append_sep _ _ _ _ (fmtOpt_noColon F1 a) rfl,
        splitOn_noSep _ _ (fmtOpt_noColon F1 b)]
      simp only [ha, hb, slice3, Option.map_none]
    | .slice a b (some x), hv => by
      unfold validItem at hv
      simp only [Bool.and_eq_true] at hv
      have ha := parseOpt_fmt a (fun y hy => parseArg_fmt y (by subst hy; exact hv.1.1))
      have hb := parseOpt_fmt b (fun y hy => parseArg_fmt y (by subst hy; exact hv.1.2))
      have hne : (fmtArg F1 x).isEmpty = false := by
        simp only [List.isEmpty_eq_false_iff]; exact fmtArg_ne_nil F1 x
      have hc := parseArg_fmt x hv.2
      rw [fmtItem_slice, parseItem_def, normItem_slice]
      simp only [List.append_assoc, List.cons_append, List.nil_append]
      rw [splitOn_append_sep _ _ _ _ (fmtOpt_noColon F1 a) rfl,
        splitOn_append_sep _ _ _ _ (fmtOpt_noColon F1 b) rfl,
        splitOn_noSep _ _ (fmtArg_noColon F1 x)]
      simp only [ha, hb, hc, hne, slice3, Bool.false_eq_true, if_false, Option.map_some]
  termination_by i => sizeOf i
  decreasing_by
    all_goals simp_wf
    all_goals (try subst_vars)
    all_goals (first | omega | (simp <;> omega))

  theorem parseStep_fmt : ∀ (s : Step L), validStep s = true → s.isSeg = false →
      ∀ (rest : List (Tok L)),
      parseSteps (fmtStep F1 s ++ rest) = (parseSteps rest).map (normStep s :: ·)
    | .seg v, _, hs, _ => by simp [Step.isSeg] at hs
    | .star, _, _, rest => by rw [fmtStep, normStep]; exact parseSteps_star rest
    | .starstar, _, _, rest => by rw [fmtStep, normStep]; exact parseSteps_starstar rest
    | .attr n, _, _, rest => by
      rw [fmtStep, normStep]
      by_cases hd : isDunder n = true
      · simp only [F1, hd, Bool.and_self, if_true, List.cons_append, List.nil_append]
        rw [parseSteps_dunder, ← (isDunder_iff n).mp hd]
      · have hd' : isDunder n = false := by simpa using hd
        simp only [hd', Bool.and_false, Bool.false_eq_true, if_false, List.cons_append,
          List.nil_append]
        exact parseSteps_dot n rest hd'
    | .item i, hv, _, rest => by
      unfold validStep at hv
      simp only [Bool.and_eq_true] at hv
      obtain ⟨hv, hatom⟩ := hv
      rw [fmtStep, normStep]
      simp only [List.cons_append, List.nil_append]
      rw [parseSteps_br, parseIndex_def]
      have hu := fmtItem_not_unit F1 i hatom
      simp only [hu, Bool.false_eq_true, if_false]
      rw [splitOn_noSep _ _ (fmtItem_noComma F1 i)]
      simp only [parseItem_fmt i hv, Option.map_some, consOpt_some]
    | .items is, hv, _, rest => by
      unfold validStep at hv
      rw [all_id_map] at hv
      have hi : ∀ i ∈ is, parseItem (fmtItem F1 i) = some (normItem i) :=
        fun i hi => parseItem_fmt i (hv i hi)
      rw [fmtStep, normStep]
      by_cases hemp : is = []
      · subst hemp
        simp only [F1, List.isEmpty_nil, Bool.and_self, if_true, List.cons_append, List.nil_append,
          List.map_nil]
        rw [parseSteps_br, parseIndex_def]
        simp only [isUnitTok, if_true, consOpt_some]
      · have hne : (is.isEmpty && F1.tupleEmptyParen) = false := by
          cases is with
          | nil => exact absurd rfl hemp
          | cons _ _ => rfl
        simp only [hne, Bool.false_eq_true, if_false, List.cons_append, List.nil_append]
        rw [parseSteps_br]
        have := parseIndex_items is hemp hi
        simp only [itemsToks] at this
        have hsc : F1.singletonComma = true := rfl
        simp only [hsc, Bool.and_true]
        rw [this, consOpt_some]
    | .call args kwargs, hv, _, rest => by
      unfold validStep at hv
      simp only [Bool.and_eq_true, all_id_map, decide_eq_true_eq] at hv
      have ha : ∀ a ∈ args, parseArg (fmtArg F1 a) = some (normArg a) :=
        fun a haa => parseArg_fmt a (hv.1.1 a haa)
      have hk : ∀ p ∈ kwargs, parseArg (fmtArg F1 p.2) = some (normArg p.2) :=
        fun p hp => parseArg_fmt p.2 (hv.1.2 p hp)
      rw [fmtStep, normStep]
      simp only [List.cons_append, List.nil_append]
      rw [parseSteps_par]
      have := parseCall_fmt args kwargs ha hk hv.2
      simp only [callToks] at this
      rw [this, consOpt_some]
  termination_by s => sizeOf s
  decreasing_by all_goals c18_dec

  /-- a plain segment of a Path is printed (by the builtin `repr`) as an expression for it -/
  theorem parseSegStep_fmt : ∀ (s : Step L), validStep s = true → ∀ a, s = .seg a →
      parseArg (fmtArg F1 a) = some (normArg a) ∧ a.isSegArg = true
    | .seg b, hv, a, h => by
      rw [validStep] at hv
      simp only [Bool.and_eq_true] at hv
      cases h
      exact ⟨parseArg_fmt b hv.1, hv.2⟩
    | .attr _, _, _, h => by cases h
    | .item _, _, _, h => by cases h
    | .items _, _, _, h => by cases h
    | .call _ _, _, _, h => by cases h
    | .star, _, _, h => by cases h
    | .starstar, _, _, h => by cases h
  termination_by s => sizeOf s
  decreasing_by all_goals c18_dec
end

/-! ### whole objects -/

theorem validT_iff (steps : List (Step L)) :
    validT steps = true ↔ ∀ s ∈ steps, s.isSeg = false ∧ validStep s = true := by
  simp [validT, List.all_eq_true]

theorem parseSteps_fmt (steps : List (Step L)) (hv : validT steps = true) :
    parseSteps (steps.flatMap (fmtStep F1)) = some (normSteps steps) := by
  rw [validT_iff] at hv
  exact parseSteps_flatMap F1 steps (fun s hs rest => parseStep_fmt s (hv s hs).2 (hv s hs).1 rest)

/-- `eval(repr(t))` of a T expression gives back its root and (normalised) steps -/
theorem parseObj_fmtT (root : String) (steps : List (Step L)) (hv : validT steps = true) :
    parseObj (fmtT F1 root steps) = some (.tobj root (normSteps steps)) := by
  have hns : ∀ s ∈ steps, s.isSeg = false := fun s hs => ((validT_iff steps).mp hv s hs).1
  unfold fmtT fmtSteps
  rw [assembleT_noseg F1 root steps hns]
  unfold parseObj
  rw [parseArg_root, parseSteps_fmt steps hv]
  rfl
/-! ### the reconstructed object has the same repr -/

theorem normStep_isSeg (s : Step L) : (normStep s).isSeg = s.isSeg := by
  cases s <;> rw [normStep] <;> rfl

theorem groupToks_liftG_congr (root : String) (h : Step L × List (Tok L) → Step L × List (Tok L))
    (htok : ∀ x, (h x).2 = x.2) (g : List (Step L × List (Tok L)) ⊕ (Step L × List (Tok L))) :
    groupToks root (liftG h g) = groupToks root g := by
  cases g with
  | inl l => simp [groupToks, liftG, List.flatMap_map, htok]
  | inr x => simp [groupToks, liftG, htok]

theorem partToks_liftG_congr (root : String) (h : Step L × List (Tok L) → Step L × List (Tok L))
    (htok : ∀ x, (h x).2 = x.2)
    (gs : List (List (Step L × List (Tok L)) ⊕ (Step L × List (Tok L)))) :
    partToks root (gs.map (liftG h)) = partToks root gs := by
  cases gs with
  | nil => rfl
  | cons g rest =>
    simp only [List.map_cons, partToks, groupToks_liftG_congr root h htok, List.map_map]
    congr 1
    apply List.map_congr_left
    intro x _
    exact groupToks_liftG_congr "T" h htok x

theorem assemblePath_congr (aware : Bool) (root : String)
    (h : Step L × List (Tok L) → Step L × List (Tok L))
    (hseg : ∀ x, (h x).1.isSeg = x.1.isSeg) (htok : ∀ x, (h x).2 = x.2)
    (xs : List (Step L × List (Tok L))) :
    assemblePath aware root (xs.map h) = assemblePath aware root xs := by
  unfold assemblePath
  rw [groupSteps_map (fun x => x.1.isSeg) h (fun x => x.1.isSeg) hseg]
  have hmm : ∀ (gs : List (List (Step L × List (Tok L)) ⊕ (Step L × List (Tok L)))),
      partToks (effRoot aware root) (withRootPart (effRoot aware root) (gs.map (liftG h))) =
        partToks (effRoot aware root) (withRootPart (effRoot aware root) gs) := by
    intro gs
    rw [withRootPart_map, partToks_liftG_congr _ h htok]
  generalize groupSteps (fun x => x.1.isSeg) xs = gs
  match gs with
  | [] => have := hmm []; simp only [List.map_nil] at this ⊢
  | [.inl g] => simp [liftG, List.flatMap_map, htok]
  | [.inr x] => have := hmm [.inr x]; simp only [List.map_cons, List.map_nil, liftG] at this ⊢; rw [this]
  | a :: b :: r =>
    have := hmm (a :: b :: r)
    cases a <;> (simp only [List.map_cons, liftG] at this ⊢; rw [this])

theorem assembleT_congr (aware : Bool) (root : String)
    (h : Step L × List (Tok L) → Step L × List (Tok L))
    (hseg : ∀ x, (h x).1.isSeg = x.1.isSeg) (htok : ∀ x, (h x).2 = x.2)
    (xs : List (Step L × List (Tok L))) :
    assembleT aware root (xs.map h) = assembleT aware root xs := by
  unfold assembleT
  rw [assemblePath_congr aware root h hseg htok]
  simp only [List.any_map, Function.comp_def, hseg, List.flatMap_map, htok]

theorem sortKw_idem {α : Type} (l : List (String × α)) : sortKw (sortKw l) = sortKw l := by
  unfold sortKw
  apply List.mergeSort_of_pairwise
  apply List.pairwise_mergeSort
  · intro a b c hab hbc
    simp only [decide_eq_true_eq] at *
    exact String.le_trans hab hbc
  · intro a b
    simp only [Bool.or_eq_true, decide_eq_true_eq]
    exact String.le_total a.1 b.1

theorem fmtOpt_norm (F : FmtFacts) (a : Option (Arg L))
    (h : ∀ x, a = some x → fmtArg F (normArg x) = fmtArg F x) :
    fmtOpt F (a.map normArg) = fmtOpt F a := by
  cases a with
  | none => rfl
  | some x => simp only [Option.map_some, fmtOpt, h x rfl]

theorem map_fmt_norm (F : FmtFacts) (steps : List (Step L))
    (hs : ∀ s ∈ steps, fmtStep F (normStep s) = fmtStep F s) :
    (steps.map (fun s => normStep s)).map (fun s => (s, fmtStep F s)) =
      (steps.map (fun s => (s, fmtStep F s))).map
        (fun (x : Step L × List (Tok L)) => (normStep x.1, x.2)) := by
  rw [List.map_map, List.map_map]
  apply List.map_congr_left
  intro s hs'
  simp only [Function.comp, hs s hs']

mutual
  theorem fmtArg_norm (F : FmtFacts) (hF : F.pathRootAware = true) :
      ∀ (a : Arg L), fmtArg F (normArg a) = fmtArg F a
    | .lit v => by rw [normArg]
    | .t root steps => by
      have hs : ∀ s ∈ steps, fmtStep F (normStep s) = fmtStep F s := fun s _ => fmtStep_norm F hF s
      rw [normArg, fmtArg, fmtArg, map_fmt_norm F steps hs]
      exact assembleT_congr _ root (fun (x : Step L × List (Tok L)) => (normStep x.1, x.2))
        (fun x => normStep_isSeg x.1) (fun _ => rfl) _
    | .seq k xs => by
      have hx : ∀ x ∈ xs, fmtArg F (normArg x) = fmtArg F x := fun x _ => fmtArg_norm F hF x
      rw [normArg, fmtArg, fmtArg, List.map_map, List.length_map]
      have : xs.map ((fun x => fmtArg F x) ∘ fun x => normArg x) = xs.map (fun x => fmtArg F x) :=
        List.map_congr_left (fun x hxx => hx x hxx)
      rw [this]
    | .dict kvs => by
      have hp : ∀ p ∈ kvs, fmtArg F (normArg p.1) = fmtArg F p.1 ∧ fmtArg F (normArg p.2) = fmtArg F p.2 :=
        fun p _ => ⟨fmtArg_norm F hF p.1, fmtArg_norm F hF p.2⟩
      rw [normArg, fmtArg, fmtArg, List.map_map]
      have : kvs.map ((fun p => fmtArg F p.1 ++ Tok.colon :: fmtArg F p.2) ∘
          fun p => (normArg p.1, normArg p.2)) =
          kvs.map (fun p => fmtArg F p.1 ++ Tok.colon :: fmtArg F p.2) :=
        List.map_congr_left (fun p hpp => by simp only [Function.comp, (hp p hpp).1, (hp p hpp).2])
      rw [this]
    | .sliceObj a b c => by
      rw [normArg, fmtArg, fmtArg, fmtArg_norm F hF a, fmtArg_norm F hF b, fmtArg_norm F hF c]
    | .path root steps => by
      have hs : ∀ s ∈ steps, fmtStep F (normStep s) = fmtStep F s := fun s _ => fmtStep_norm F hF s
      rw [normArg_path]
      by_cases hc : pathIsT steps = true
      · obtain ⟨hne, hns⟩ := (pathIsT_iff steps).mp hc
        simp only [hc, if_true]
        rw [fmtArg_path, fmtPath_noseg F root steps hne hns]
        have heff : effRoot F.pathRootAware root = root := by simp [effRoot, hF]
        rw [heff, fmtArg]
        unfold fmtT fmtSteps normSteps
        rw [map_fmt_norm F steps hs]
        exact assembleT_congr _ root (fun (x : Step L × List (Tok L)) => (normStep x.1, x.2))
          (fun x => normStep_isSeg x.1) (fun _ => rfl) _
      · have hc' : pathIsT steps = false := by simpa using hc
        simp only [hc', Bool.false_eq_true, if_false]
        rw [fmtArg, fmtArg]
        unfold normSteps
        rw [map_fmt_norm F steps hs]
        exact assemblePath_congr _ root (fun (x : Step L × List (Tok L)) => (normStep x.1, x.2))
          (fun x => normStep_isSeg x.1) (fun _ => rfl) _
    | .bad _ => by rw [normArg]
    | .fill => by rw [normArg]
    | .deep _ => by rw [normArg]
    | .dictMore _ => by rw [normArg]
  termination_by a => sizeOf a
  decreasing_by all_goals c18_dec

  theorem fmtItem_norm (F : FmtFacts) (hF : F.pathRootAware = true) :
      ∀ (i : Item L), fmtItem F (normItem i) = fmtItem F i
    | .one a => by rw [normItem, fmtItem, fmtItem, fmtArg_norm F hF a]
    | .slice a b c => by
      have ha := fmtOpt_norm F a (fun x _ => fmtArg_norm F hF x)
      have hb := fmtOpt_norm F b (fun x _ => fmtArg_norm F hF x)
      have hc : ∀ x, c = some x → fmtArg F (normArg x) = fmtArg F x := fun x _ => fmtArg_norm F hF x
      rw [normItem_slice, fmtItem_slice, fmtItem_slice, ha, hb]
      cases c with
      | none => rfl
      | some x => simp only [Option.map_some, hc x rfl]
  termination_by i => sizeOf i
  decreasing_by
    all_goals simp_wf
    all_goals (try subst_vars)
    all_goals (first | omega | (simp <;> omega))

  theorem fmtStep_norm (F : FmtFacts) (hF : F.pathRootAware = true) :
      ∀ (s : Step L), fmtStep F (normStep s) = fmtStep F s
    | .attr n => by rw [normStep]
    | .seg a => by rw [normStep, fmtStep, fmtStep, fmtArg_norm F hF a]
    | .star => by rw [normStep]
    | .starstar => by rw [normStep]
    | .item i => by rw [normStep, fmtStep, fmtStep, fmtItem_norm F hF i]
    | .items is => by
      have hi : ∀ i ∈ is, fmtItem F (normItem i) = fmtItem F i := fun i _ => fmtItem_norm F hF i
      rw [normStep, fmtStep, fmtStep, List.map_map]
      have : is.map ((fun i => fmtItem F i) ∘ fun i => normItem i) = is.map (fun i => fmtItem F i) :=
        List.map_congr_left (fun i hii => hi i hii)
      rw [this]
      simp only [List.isEmpty_map, List.length_map]
    | .call args kwargs => by
      have ha : ∀ a ∈ args, fmtArg F (normArg a) = fmtArg F a := fun a _ => fmtArg_norm F hF a
      have hk : ∀ p ∈ kwargs, fmtArg F (normArg p.2) = fmtArg F p.2 := fun p _ => fmtArg_norm F hF p.2
      rw [normStep, fmtStep, fmtStep, List.map_map]
      have h1 : args.map ((fun a => fmtArg F a) ∘ fun a => normArg a) = args.map (fun a => fmtArg F a) :=
        List.map_congr_left (fun a haa => ha a haa)
      have h2 : sortKw ((sortKw (kwargs.map (fun p => (p.1, normArg p.2)))).map
          (fun p => (p.1, fmtArg F p.2))) = sortKw (kwargs.map (fun p => (p.1, fmtArg F p.2))) := by
        rw [← sortKw_map_snd, sortKw_idem, List.map_map]
        congr 1
        apply List.map_congr_left
        intro p hp
        simp only [Function.comp, hk p hp]
      rw [h1, h2]
  termination_by s => sizeOf s
  decreasing_by all_goals c18_dec
end

/-- a T expression that holds a plain segment (the `path_t` of a Path) prints as that Path:
    the `'P'` branch of `_format_t` hands the whole path to `_format_path` -/
theorem fmtT_seg (F : FmtFacts) (root : String) (steps : List (Step L))
    (h : steps.any Step.isSeg = true) : fmtT F root steps = fmtPath F root steps := by
  unfold fmtT fmtPath assembleT
  have : (fmtSteps F steps).any (fun x => x.1.isSeg) = true := by
    simpa [fmtSteps, List.any_map, Function.comp_def] using h
  rw [if_pos this]

theorem fmtSteps_norm (F : FmtFacts) (hF : F.pathRootAware = true) (steps : List (Step L)) :
    fmtSteps F (normSteps steps) =
      (fmtSteps F steps).map (fun (x : Step L × List (Tok L)) => (normStep x.1, x.2)) := by
  simp only [fmtSteps, normSteps, List.map_map]
  apply List.map_congr_left
  intro s _
  simp only [Function.comp, fmtStep_norm F hF s]

theorem fmtT_norm (F : FmtFacts) (hF : F.pathRootAware = true) (root : String) (steps : List (Step L)) :
    fmtT F root (normSteps steps) = fmtT F root steps := by
  unfold fmtT
  rw [fmtSteps_norm F hF]
  exact assembleT_congr _ root (fun (x : Step L × List (Tok L)) => (normStep x.1, x.2))
    (fun x => normStep_isSeg x.1) (fun _ => rfl) _

theorem fmtPath_norm (F : FmtFacts) (hF : F.pathRootAware = true) (root : String) (steps : List (Step L)) :
    fmtPath F root (normSteps steps) = fmtPath F root steps := by
  unfold fmtPath
  rw [fmtSteps_norm F hF]
  exact assemblePath_congr _ root (fun (x : Step L × List (Tok L)) => (normStep x.1, x.2))
    (fun x => normStep_isSeg x.1) (fun _ => rfl) _

/-- `eval(repr(p))` of a Path: the object read back — a T expression when the path has no plain
    segment, else a Path — has the root and the (normalised) steps of `p` and prints as `p` did -/
theorem parseObj_fmtPath_repr (root : String) (steps : List (Step L)) (hv : validP steps = true)
    (hA : aOk root steps = true) :
    ∃ y, parseObj (fmtPath F1 root steps) = some y ∧ y.root = root ∧ y.steps = normSteps steps ∧
      reprObj F1 y = fmtPath F1 root steps := by
  have h := parseArg_fmt (.path root steps) ((validArg_path root steps).mpr ⟨(validP_iff steps).mp hv, hA⟩)
  rw [fmtArg_path, normArg_path] at h
  unfold parseObj
  rw [h]
  by_cases hc : pathIsT steps = true
  · obtain ⟨hne, hns⟩ := (pathIsT_iff steps).mp hc
    simp only [hc, if_true]
    refine ⟨_, rfl, rfl, rfl, ?_⟩
    simp only [reprObj, fmtT_norm F1 rfl]
    exact (fmtPath_noseg F1 root steps hne hns).symm
  · have hc' : pathIsT steps = false := by simpa using hc
    simp only [hc', Bool.false_eq_true, if_false]
    refine ⟨_, rfl, rfl, rfl, ?_⟩
    simp only [reprObj, fmtPath_norm F1 rfl]

/-! ### inside its limits `reprlib` loses nothing -/

theorem map_eq_self {α} (f : α → α) (xs : List α) (h : ∀ x ∈ xs, f x = x) : xs.map f = xs := by
  induction xs with
  | nil => rfl
  | cons x r ih => simp [h x (by simp), ih (fun y hy => h y (by simp [hy]))]

theorem cutInst_of_fits (S : ScalarOps L) (F : FmtFacts) (lim : Limits) (plain : Bool) (a : Arg L)
    (h : (plain || decide (argWidth S F a ≤ lim.maxother)) = true) :
    cutInst S F lim plain a = a := by
  unfold cutInst
  unfold argWidth at h
  rw [if_pos h]

theorem truncLit_of_fits (S : ScalarOps L) (lim : Limits) (plain : Bool) (v : L)
    (h : fitsLit S lim plain v = true) : truncLit S lim plain v = .lit v := by
  unfold fitsLit at h
  unfold truncLit
  cases plain <;> simp_all

def truncOpt (S : ScalarOps L) (F : FmtFacts) (lim : Limits) : Option (Arg L) → Option (Arg L)
  | none => none
  | some x => some (truncArg S F lim false lim.maxlevel x)

def fitsOpt (S : ScalarOps L) (F : FmtFacts) (lim : Limits) : Option (Arg L) → Bool
  | none => true
  | some x => fitsArg S F lim false lim.maxlevel x

theorem truncItem_slice (S : ScalarOps L) (F : FmtFacts) (lim : Limits) (a b c : Option (Arg L)) :
    truncItem S F lim (.slice a b c) = .slice (truncOpt S F lim a) (truncOpt S F lim b) (truncOpt S F lim c) := by
  cases a <;> cases b <;> cases c <;> simp [truncItem, truncOpt]

theorem fitsItem_slice (S : ScalarOps L) (F : FmtFacts) (lim : Limits) (a b c : Option (Arg L)) :
    fitsItem S F lim (.slice a b c) = (fitsOpt S F lim a && fitsOpt S F lim b && fitsOpt S F lim c) := by
  cases a <;> cases b <;> cases c <;> simp [fitsItem, fitsOpt]

theorem truncOpt_of_fits (S : ScalarOps L) (F : FmtFacts) (lim : Limits) (a : Option (Arg L))
    (ih : ∀ x, a = some x → fitsArg S F lim false lim.maxlevel x = true →
      truncArg S F lim false lim.maxlevel x = x)
    (h : fitsOpt S F lim a = true) : truncOpt S F lim a = a := by
  cases a with
  | none => rfl
  | some x => simp only [truncOpt, ih x rfl h]

mutual
  theorem truncArg_of_fits (S : ScalarOps L) (F : FmtFacts) (lim : Limits) :
      ∀ (plain : Bool) (level : Nat) (a : Arg L), fitsArg S F lim plain level a = true →
        truncArg S F lim plain level a = a
    | plain, level, .lit v, h => by
      rw [fitsArg] at h
      rw [truncArg, truncLit_of_fits S lim plain v h]
    | plain, level, .t root steps, h => by
      rw [fitsArg, Bool.and_eq_true, all_id_map] at h
      have hs : steps.map (fun s => truncStep S F lim s) = steps :=
        map_eq_self _ steps (fun s hs => truncStep_of_fits S F lim s (h.1 s hs))
      rw [truncArg, hs]
      exact cutInst_of_fits S F lim plain _ h.2
    | plain, level, .path root steps, h => by
      rw [fitsArg, Bool.and_eq_true, all_id_map] at h
      have hs : steps.map (fun s => truncStep S F lim s) = steps :=
        map_eq_self _ steps (fun s hs => truncStep_of_fits S F lim s (h.1 s hs))
      rw [truncArg, hs]
      exact cutInst_of_fits S F lim plain _ h.2
    | true, level, .seq k xs, h => by
      rw [fitsArg] at h
      simp only [if_true, Bool.and_eq_true, all_id_map] at h
      rw [truncArg]
      simp only [if_true]
      rw [map_eq_self _ xs (fun x hx => truncArg_of_fits S F lim true level x (h.2 x hx))]
    | false, level, .seq k xs, h => by
      rw [fitsArg] at h
      simp only [Bool.false_eq_true, if_false, Bool.and_eq_true, all_id_map, decide_eq_true_eq,
        Bool.not_eq_true'] at h
      obtain ⟨⟨h1, h2⟩, h3⟩ := h
      rw [truncArg]
      simp only [Bool.false_eq_true, if_false, h1]
      rw [map_eq_self _ xs (fun x hx => truncArg_of_fits S F lim false (level - 1) x (h3 x hx))]
      rw [List.take_of_length_le h2, if_neg (by omega)]
    | true, level, .dict kvs, h => by
      rw [fitsArg] at h
      simp only [if_true, all_id_map, Bool.and_eq_true] at h
      rw [truncArg]
      simp only [if_true]
      rw [map_eq_self _ kvs (fun p hp => by
        rw [truncArg_of_fits S F lim true level p.1 (h p hp).1,
          truncArg_of_fits S F lim true level p.2 (h p hp).2])]
    | false, level, .dict kvs, h => by
      rw [fitsArg] at h
      simp only [Bool.false_eq_true, if_false, Bool.or_eq_true, Bool.and_eq_true, all_id_map,
        decide_eq_true_eq, bne_iff_ne, ne_eq] at h
      rw [truncArg]
      simp only [Bool.false_eq_true, if_false]
      by_cases hemp : kvs.isEmpty = true
      · simp only [hemp, if_true]
        cases kvs with
        | nil => rfl
        | cons _ _ => simp at hemp
      · simp only [hemp, Bool.false_eq_true, if_false]
        rcases h with h | ⟨⟨h1, h2⟩, h3⟩
        · exact absurd h hemp
        · have hl : (level == 0) = false := by simpa using h1
          simp only [hl, Bool.false_eq_true, if_false]
          rw [map_eq_self _ kvs (fun p hp => by
            rw [truncArg_of_fits S F lim false (level - 1) p.1 (h3 p hp).1,
              truncArg_of_fits S F lim false (level - 1) p.2 (h3 p hp).2])]
          rw [List.take_of_length_le h2, if_neg (by omega)]
    | plain, level, .sliceObj a b c, h => by
      rw [fitsArg] at h
      simp only [Bool.and_eq_true] at h
      rw [truncArg, truncArg_of_fits S F lim true level a h.1.1.1,
        truncArg_of_fits S F lim true level b h.1.1.2, truncArg_of_fits S F lim true level c h.1.2]
      exact cutInst_of_fits S F lim plain _ h.2
    | _, _, .bad _, _ => by rw [truncArg]
    | _, _, .fill, _ => by rw [truncArg]
    | _, _, .deep _, _ => by rw [truncArg]
    | _, _, .dictMore _, _ => by rw [truncArg]
  termination_by _ _ a => sizeOf a
  decreasing_by all_goals c18_dec

  theorem truncItem_of_fits (S : ScalarOps L) (F : FmtFacts) (lim : Limits) :
      ∀ (i : Item L), fitsItem S F lim i = true → truncItem S F lim i = i
    | .one a, h => by
      rw [fitsItem] at h
      rw [truncItem, truncArg_of_fits S F lim false lim.maxlevel a h]
    | .slice a b c, h => by
      rw [fitsItem_slice] at h
      simp only [Bool.and_eq_true] at h
      rw [truncItem_slice]
      rw [truncOpt_of_fits S F lim a (fun x _ hx => truncArg_of_fits S F lim false lim.maxlevel x hx) h.1.1,
        truncOpt_of_fits S F lim b (fun x _ hx => truncArg_of_fits S F lim false lim.maxlevel x hx) h.1.2,
        truncOpt_of_fits S F lim c (fun x _ hx => truncArg_of_fits S F lim false lim.maxlevel x hx) h.2]
  termination_by i => sizeOf i
  decreasing_by
    all_goals simp_wf
    all_goals (try subst_vars)
    all_goals (first | omega | (simp <;> omega))

  theorem truncStep_of_fits (S : ScalarOps L) (F : FmtFacts) (lim : Limits) :
      ∀ (s : Step L), fitsStep S F lim s = true → truncStep S F lim s = s
    | .attr n, h => by
      rw [fitsStep] at h
      rw [truncStep, if_pos h]
    | .star, _ => by rw [truncStep]
    | .starstar, _ => by rw [truncStep]
    | .seg a, h => by
      rw [fitsStep] at h
      rw [truncStep, truncArg_of_fits S F lim lim.plainSeg lim.segLevel a h]
    | .item i, h => by
      rw [fitsStep] at h
      rw [truncStep, truncItem_of_fits S F lim i h]
    | .items is, h => by
      rw [fitsStep, all_id_map] at h
      rw [truncStep, map_eq_self _ is (fun i hi => truncItem_of_fits S F lim i (h i hi))]
    | .call args kwargs, h => by
      rw [fitsStep, Bool.and_eq_true, all_id_map, all_id_map] at h
      rw [truncStep, map_eq_self _ args (fun a ha => truncArg_of_fits S F lim false lim.maxlevel a (h.1 a ha)),
        map_eq_self _ kwargs (fun p hp => by
          rw [truncArg_of_fits S F lim false lim.maxlevel p.2 (h.2 p hp)])]
  termination_by s => sizeOf s
  decreasing_by all_goals c18_dec
end

theorem truncSteps_of_fits (S : ScalarOps L) (F : FmtFacts) (lim : Limits) (steps : List (Step L))
    (h : fitsSteps S F lim steps = true) : steps.map (truncStep S F lim) = steps := by
  unfold fitsSteps at h
  rw [List.all_eq_true] at h
  exact map_eq_self _ steps (fun s hs => truncStep_of_fits S F lim s (h s hs))

/-- inside the limits, the repr glom computes is the unlimited formatter's -/
theorem reprLim_of_fits (S : ScalarOps L) (F : FmtFacts) (lim : Limits) (x : Obj L)
    (h : fitsObj S F lim x = true) : reprLim S F lim x = reprObj F x := by
  cases x with
  | tobj r s => simp only [reprLim, reprObj, truncSteps_of_fits S F lim s h]
  | pobj r s => simp only [reprLim, reprObj, truncSteps_of_fits S F lim s h]

/-! ### the reconstructed object is inside the limits too -/

theorem argWidth_norm (S : ScalarOps L) (F : FmtFacts) (hF : F.pathRootAware = true)
    (a : Arg L) : argWidth S F (normArg a) = argWidth S F a := by
  unfold argWidth; rw [fmtArg_norm F hF a]

theorem fitsOpt_norm (S : ScalarOps L) (F : FmtFacts) (lim : Limits) (a : Option (Arg L))
    (ih : ∀ x, a = some x → fitsArg S F lim false lim.maxlevel x = true →
      fitsArg S F lim false lim.maxlevel (normArg x) = true)
    (h : fitsOpt S F lim a = true) : fitsOpt S F lim (a.map normArg) = true := by
  cases a with
  | none => rfl
  | some x => exact ih x rfl h

mutual
  theorem fitsArg_norm (S : ScalarOps L) (F : FmtFacts) (hF : F.pathRootAware = true) (lim : Limits) :
      ∀ (plain : Bool) (level : Nat) (a : Arg L), fitsArg S F lim plain level a = true →
        fitsArg S F lim plain level (normArg a) = true
    | plain, level, .lit v, h => by rw [normArg]; exact h
    | plain, level, .t root steps, h => by
      have hw := argWidth_norm S F hF (.t root steps)
      rw [normArg] at hw ⊢
      rw [fitsArg, Bool.and_eq_true, all_id_map] at h ⊢
      refine ⟨?_, by rw [hw]; exact h.2⟩
      intro s hs
      simp only [List.mem_map] at hs
      obtain ⟨s0, hs0, rfl⟩ := hs
      exact fitsStep_norm S F hF lim s0 (h.1 s0 hs0)
    | plain, level, .path root steps, h => by
      have hw := argWidth_norm S F hF (.path root steps)
      rw [normArg_path] at hw ⊢
      rw [fitsArg, Bool.and_eq_true, all_id_map] at h
      have hst : ∀ s ∈ normSteps steps, fitsStep S F lim s = true := by
        intro s hs
        simp only [normSteps, List.mem_map] at hs
        obtain ⟨s0, hs0, rfl⟩ := hs
        exact fitsStep_norm S F hF lim s0 (h.1 s0 hs0)
      by_cases hc : pathIsT steps = true
      · simp only [hc, if_true] at hw ⊢
        rw [fitsArg, Bool.and_eq_true, all_id_map]
        exact ⟨hst, by rw [hw]; exact h.2⟩
      · have hc' : pathIsT steps = false := by simpa using hc
        simp only [hc', Bool.false_eq_true, if_false] at hw ⊢
        rw [fitsArg, Bool.and_eq_true, all_id_map]
        exact ⟨hst, by rw [hw]; exact h.2⟩
    | true, level, .seq k xs, h => by
      rw [fitsArg] at h
      simp only [if_true, Bool.and_eq_true, all_id_map] at h
      rw [normArg, fitsArg]
      simp only [if_true, Bool.and_eq_true, all_id_map, List.length_map]
      refine ⟨h.1, ?_⟩
      intro x hx
      simp only [List.mem_map] at hx
      obtain ⟨x0, hx0, rfl⟩ := hx
      exact fitsArg_norm S F hF lim true level x0 (h.2 x0 hx0)
    | false, level, .seq k xs, h => by
      rw [fitsArg] at h
      simp only [Bool.false_eq_true, if_false, Bool.and_eq_true, all_id_map] at h
      rw [normArg, fitsArg]
      simp only [Bool.false_eq_true, if_false, Bool.and_eq_true, all_id_map, List.length_map,
        List.isEmpty_map]
      refine ⟨h.1, ?_⟩
      intro x hx
      simp only [List.mem_map] at hx
      obtain ⟨x0, hx0, rfl⟩ := hx
      exact fitsArg_norm S F hF lim false (level - 1) x0 (h.2 x0 hx0)
    | true, level, .dict kvs, h => by
      rw [fitsArg] at h
      simp only [if_true, all_id_map, Bool.and_eq_true] at h
      rw [normArg, fitsArg]
      simp only [if_true, all_id_map, Bool.and_eq_true]
      intro p hp
      simp only [List.mem_map] at hp
      obtain ⟨p0, hp0, rfl⟩ := hp
      exact ⟨fitsArg_norm S F hF lim true level p0.1 (h p0 hp0).1,
        fitsArg_norm S F hF lim true level p0.2 (h p0 hp0).2⟩
    | false, level, .dict kvs, h => by
      rw [fitsArg] at h
      simp only [Bool.false_eq_true, if_false, Bool.or_eq_true, Bool.and_eq_true, all_id_map] at h
      rw [normArg, fitsArg]
      simp only [Bool.false_eq_true, if_false, Bool.or_eq_true, Bool.and_eq_true, all_id_map,
        List.length_map, List.isEmpty_map]
      rcases h with h | ⟨h1, h3⟩
      · exact Or.inl h
      · refine Or.inr ⟨h1, ?_⟩
        intro p hp
        simp only [List.mem_map] at hp
        obtain ⟨p0, hp0, rfl⟩ := hp
        exact ⟨fitsArg_norm S F hF lim false (level - 1) p0.1 (h3 p0 hp0).1,
          fitsArg_norm S F hF lim false (level - 1) p0.2 (h3 p0 hp0).2⟩
    | plain, level, .sliceObj a b c, h => by
      have hw := argWidth_norm S F hF (.sliceObj a b c)
      rw [normArg] at hw ⊢
      rw [fitsArg] at h ⊢
      simp only [Bool.and_eq_true] at h ⊢
      exact ⟨⟨⟨fitsArg_norm S F hF lim true level a h.1.1.1, fitsArg_norm S F hF lim true level b h.1.1.2⟩,
        fitsArg_norm S F hF lim true level c h.1.2⟩, by rw [hw]; exact h.2⟩
    | _, _, .bad _, h => by rw [normArg]; exact h
    | _, _, .fill, h => by rw [normArg]; exact h
    | _, _, .deep _, h => by rw [normArg]; exact h
    | _, _, .dictMore _, h => by rw [normArg]; exact h
  termination_by _ _ a => sizeOf a
  decreasing_by all_goals c18_dec

  theorem fitsItem_norm (S : ScalarOps L) (F : FmtFacts) (hF : F.pathRootAware = true) (lim : Limits) :
      ∀ (i : Item L), fitsItem S F lim i = true → fitsItem S F lim (normItem i) = true
    | .one a, h => by
      rw [fitsItem] at h
      rw [normItem, fitsItem]
      exact fitsArg_norm S F hF lim false lim.maxlevel a h
    | .slice a b c, h => by
      rw [fitsItem_slice] at h
      simp only [Bool.and_eq_true] at h
      rw [normItem_slice, fitsItem_slice]
      simp only [Bool.and_eq_true]
      exact ⟨⟨fitsOpt_norm S F lim a (fun x _ hx => fitsArg_norm S F hF lim false lim.maxlevel x hx) h.1.1,
        fitsOpt_norm S F lim b (fun x _ hx => fitsArg_norm S F hF lim false lim.maxlevel x hx) h.1.2⟩,
        fitsOpt_norm S F lim c (fun x _ hx => fitsArg_norm S F hF lim false lim.maxlevel x hx) h.2⟩
  termination_by i => sizeOf i
  decreasing_by
    all_goals simp_wf
    all_goals (try subst_vars)
    all_goals (first | omega | (simp <;> omega))

  theorem fitsStep_norm (S : ScalarOps L) (F : FmtFacts) (hF : F.pathRootAware = true) (lim : Limits) :
      ∀ (s : Step L), fitsStep S F lim s = true → fitsStep S F lim (normStep s) = true
    | .attr _, h => by rw [normStep]; exact h
    | .star, h => by rw [normStep]; exact h
    | .starstar, h => by rw [normStep]; exact h
    | .seg a, h => by
      rw [fitsStep] at h
      rw [normStep, fitsStep]
      exact fitsArg_norm S F hF lim lim.plainSeg lim.segLevel a h
    | .item i, h => by
      rw [fitsStep] at h
      rw [normStep, fitsStep]
      exact fitsItem_norm S F hF lim i h
    | .items is, h => by
      rw [fitsStep, all_id_map] at h
      rw [normStep, fitsStep, all_id_map]
      intro i hi
      simp only [List.mem_map] at hi
      obtain ⟨i0, hi0, rfl⟩ := hi
      exact fitsItem_norm S F hF lim i0 (h i0 hi0)
    | .call args kwargs, h => by
      rw [fitsStep, Bool.and_eq_true, all_id_map, all_id_map] at h
      have hk : ∀ p0 ∈ kwargs, fitsArg S F lim false lim.maxlevel (normArg p0.2) = true :=
        fun p0 hp0 => fitsArg_norm S F hF lim false lim.maxlevel p0.2 (h.2 p0 hp0)
      have hargs : ∀ a0 ∈ args, fitsArg S F lim false lim.maxlevel (normArg a0) = true :=
        fun a0 ha0 => fitsArg_norm S F hF lim false lim.maxlevel a0 (h.1 a0 ha0)
      rw [normStep, fitsStep, Bool.and_eq_true, all_id_map, all_id_map]
      constructor
      · intro a ha
        simp only [List.mem_map] at ha
        obtain ⟨a0, ha0, rfl⟩ := ha
        exact hargs a0 ha0
      · intro p hp
        have hp' : p ∈ kwargs.map (fun p => (p.1, normArg p.2)) := by
          unfold sortKw at hp; exact List.mem_mergeSort.mp hp
        simp only [List.mem_map] at hp'
        obtain ⟨p0, hp0, rfl⟩ := hp'
        exact hk p0 hp0
  termination_by s => sizeOf s
  decreasing_by all_goals c18_dec
end

theorem fitsSteps_norm (S : ScalarOps L) (F : FmtFacts) (hF : F.pathRootAware = true) (lim : Limits)
    (steps : List (Step L)) (h : fitsSteps S F lim steps = true) :
    fitsSteps S F lim (normSteps steps) = true := by
  unfold fitsSteps at h ⊢
  rw [List.all_eq_true] at h ⊢
  intro s hs
  simp only [normSteps, List.mem_map] at hs
  obtain ⟨s0, hs0, rfl⟩ := hs
  exact fitsStep_norm S F hF lim s0 (h s0 hs0)

/-! ### larger limits lose nothing either -/

theorem le_fields {a b : Limits} (h : a.le b = true) :
    a.maxlevel ≤ b.maxlevel ∧ a.maxtuple ≤ b.maxtuple ∧ a.maxlist ≤ b.maxlist ∧ a.maxdict ≤ b.maxdict ∧
    a.maxset ≤ b.maxset ∧ a.maxfrozenset ≤ b.maxfrozenset ∧ a.maxstring ≤ b.maxstring ∧
    a.maxlong ≤ b.maxlong ∧ a.maxother ≤ b.maxother := by
  simp only [Limits.le, Bool.and_eq_true, decide_eq_true_eq] at h
  obtain ⟨⟨⟨⟨⟨⟨⟨⟨⟨h1, h2⟩, h3⟩, h4⟩, h5⟩, h6⟩, h7⟩, h8⟩, h9⟩, _⟩ := h
  exact ⟨h1, h2, h3, h4, h5, h6, h7, h8, h9⟩

theorem le_plainSeg {a b : Limits} (h : a.le b = true) : b.plainSeg = a.plainSeg := by
  simp only [Limits.le, Bool.and_eq_true, beq_iff_eq] at h
  exact h.2.symm

theorem le_segLevel {a b : Limits} (h : a.le b = true) : a.segLevel ≤ b.segLevel := by
  have := le_plainSeg h
  have hl := (le_fields h).1
  unfold Limits.segLevel
  rw [this]
  split
  · exact Nat.le_refl 0
  · exact hl

theorem maxOf_le {a b : Limits} (h : a.le b = true) (k : Kind) : a.maxOf k ≤ b.maxOf k := by
  obtain ⟨_, h2, h3, h4, h5, h6, _, _, _⟩ := le_fields h
  cases k <;> simp only [Limits.maxOf] <;> assumption

theorem fitsOpt_mono (S : ScalarOps L) (F : FmtFacts) (lim lim' : Limits) (a : Option (Arg L))
    (ih : ∀ x, a = some x → fitsArg S F lim false lim.maxlevel x = true →
      fitsArg S F lim' false lim'.maxlevel x = true)
    (h : fitsOpt S F lim a = true) : fitsOpt S F lim' a = true := by
  cases a with
  | none => rfl
  | some x => exact ih x rfl h

mutual
  theorem fitsArg_mono (S : ScalarOps L) (F : FmtFacts) (lim lim' : Limits) (hle : lim.le lim' = true)
      (hS : ∀ v, S.fits lim v = true → S.fits lim' v = true) :
      ∀ (plain : Bool) (level level' : Nat) (a : Arg L), level ≤ level' →
        fitsArg S F lim plain level a = true → fitsArg S F lim' plain level' a = true
    | plain, level, level', .lit v, _, h => by
      rw [fitsArg] at h ⊢
      unfold fitsLit at h ⊢
      cases plain
      · simp only [Bool.false_eq_true, if_false, Bool.and_eq_true] at h ⊢
        exact ⟨hS v h.1, h.2⟩
      · exact h
    | plain, level, level', .t root steps, _, h => by
      have hmo := (le_fields hle).2.2.2.2.2.2.2.2
      rw [fitsArg, Bool.and_eq_true, all_id_map] at h ⊢
      refine ⟨fun s hs => fitsStep_mono S F lim lim' hle hS s (h.1 s hs), ?_⟩
      cases plain
      · simp only [Bool.false_or, decide_eq_true_eq] at h ⊢; exact Nat.le_trans h.2 hmo
      · rfl
    | plain, level, level', .path root steps, _, h => by
      have hmo := (le_fields hle).2.2.2.2.2.2.2.2
      rw [fitsArg, Bool.and_eq_true, all_id_map] at h ⊢
      refine ⟨fun s hs => fitsStep_mono S F lim lim' hle hS s (h.1 s hs), ?_⟩
      cases plain
      · simp only [Bool.false_or, decide_eq_true_eq] at h ⊢; exact Nat.le_trans h.2 hmo
      · rfl
    | true, level, level', .seq k xs, hl, h => by
      rw [fitsArg] at h ⊢
      simp only [if_true, Bool.and_eq_true, all_id_map] at h ⊢
      exact ⟨h.1, fun x hx => fitsArg_mono S F lim lim' hle hS true level level' x hl (h.2 x hx)⟩
    | false, level, level', .seq k xs, hl, h => by
      have hk := maxOf_le hle k
      rw [fitsArg] at h ⊢
      simp only [Bool.false_eq_true, if_false, Bool.and_eq_true, all_id_map, decide_eq_true_eq,
        Bool.not_eq_true', Bool.and_eq_false_iff, beq_eq_false_iff_ne, ne_eq,
        Bool.not_eq_false'] at h ⊢
      obtain ⟨⟨h1, h2⟩, h3⟩ := h
      refine ⟨⟨?_, Nat.le_trans h2 hk⟩,
        fun x hx => fitsArg_mono S F lim lim' hle hS false (level - 1) (level' - 1) x (by omega) (h3 x hx)⟩
      rcases h1 with h1 | h1
      · exact Or.inl (by omega)
      · exact Or.inr h1
    | true, level, level', .dict kvs, hl, h => by
      rw [fitsArg] at h ⊢
      simp only [if_true, all_id_map, Bool.and_eq_true] at h ⊢
      exact fun p hp => ⟨fitsArg_mono S F lim lim' hle hS true level level' p.1 hl (h p hp).1,
        fitsArg_mono S F lim lim' hle hS true level level' p.2 hl (h p hp).2⟩
    | false, level, level', .dict kvs, hl, h => by
      have hd := (le_fields hle).2.2.2.1
      rw [fitsArg] at h ⊢
      simp only [Bool.false_eq_true, if_false, Bool.or_eq_true, Bool.and_eq_true, all_id_map,
        decide_eq_true_eq, bne_iff_ne, ne_eq] at h ⊢
      rcases h with h | ⟨⟨h1, h2⟩, h3⟩
      · exact Or.inl h
      · exact Or.inr ⟨⟨by omega, Nat.le_trans h2 hd⟩, fun p hp =>
          ⟨fitsArg_mono S F lim lim' hle hS false (level - 1) (level' - 1) p.1 (by omega) (h3 p hp).1,
           fitsArg_mono S F lim lim' hle hS false (level - 1) (level' - 1) p.2 (by omega) (h3 p hp).2⟩⟩
    | plain, level, level', .sliceObj a b c, hl, h => by
      have hmo := (le_fields hle).2.2.2.2.2.2.2.2
      rw [fitsArg] at h ⊢
      simp only [Bool.and_eq_true] at h ⊢
      refine ⟨⟨⟨fitsArg_mono S F lim lim' hle hS true level level' a hl h.1.1.1,
        fitsArg_mono S F lim lim' hle hS true level level' b hl h.1.1.2⟩,
        fitsArg_mono S F lim lim' hle hS true level level' c hl h.1.2⟩, ?_⟩
      cases plain
      · simp only [Bool.false_or, decide_eq_true_eq] at h ⊢; exact Nat.le_trans h.2 hmo
      · rfl
    | _, _, _, .bad _, _, _ => by rw [fitsArg]
    | _, _, _, .fill, _, _ => by rw [fitsArg]
    | _, _, _, .deep _, _, _ => by rw [fitsArg]
    | _, _, _, .dictMore _, _, _ => by rw [fitsArg]
  termination_by _ _ _ a => sizeOf a
  decreasing_by all_goals c18_dec

  theorem fitsItem_mono (S : ScalarOps L) (F : FmtFacts) (lim lim' : Limits) (hle : lim.le lim' = true)
      (hS : ∀ v, S.fits lim v = true → S.fits lim' v = true) :
      ∀ (i : Item L), fitsItem S F lim i = true → fitsItem S F lim' i = true
    | .one a, h => by
      rw [fitsItem] at h ⊢
      exact fitsArg_mono S F lim lim' hle hS false lim.maxlevel lim'.maxlevel a (le_fields hle).1 h
    | .slice a b c, h => by
      have hl := (le_fields hle).1
      rw [fitsItem_slice] at h ⊢
      simp only [Bool.and_eq_true] at h ⊢
      exact ⟨⟨fitsOpt_mono S F lim lim' a (fun x _ hx =>
          fitsArg_mono S F lim lim' hle hS false lim.maxlevel lim'.maxlevel x hl hx) h.1.1,
        fitsOpt_mono S F lim lim' b (fun x _ hx =>
          fitsArg_mono S F lim lim' hle hS false lim.maxlevel lim'.maxlevel x hl hx) h.1.2⟩,
        fitsOpt_mono S F lim lim' c (fun x _ hx =>
          fitsArg_mono S F lim lim' hle hS false lim.maxlevel lim'.maxlevel x hl hx) h.2⟩
  termination_by i => sizeOf i
  decreasing_by
    all_goals simp_wf
    all_goals (try subst_vars)
    all_goals (first | omega | (simp <;> omega))

  theorem fitsStep_mono (S : ScalarOps L) (F : FmtFacts) (lim lim' : Limits) (hle : lim.le lim' = true)
      (hS : ∀ v, S.fits lim v = true → S.fits lim' v = true) :
      ∀ (s : Step L), fitsStep S F lim s = true → fitsStep S F lim' s = true
    | .attr n, h => by
      have hs := (le_fields hle).2.2.2.2.2.2.1
      rw [fitsStep] at h ⊢
      unfold nameFits at h ⊢
      simp only [Bool.or_eq_true, decide_eq_true_eq] at h ⊢
      rcases h with h | h
      · exact Or.inl h
      · exact Or.inr (Nat.le_trans h hs)
    | .star, _ => by rw [fitsStep]
    | .starstar, _ => by rw [fitsStep]
    | .seg a, h => by
      rw [fitsStep] at h ⊢
      rw [le_plainSeg hle]
      exact fitsArg_mono S F lim lim' hle hS lim.plainSeg lim.segLevel lim'.segLevel a (le_segLevel hle) h
    | .item i, h => by
      rw [fitsStep] at h ⊢
      exact fitsItem_mono S F lim lim' hle hS i h
    | .items is, h => by
      rw [fitsStep, all_id_map] at h ⊢
      exact fun i hi => fitsItem_mono S F lim lim' hle hS i (h i hi)
    | .call args kwargs, h => by
      have hl := (le_fields hle).1
      rw [fitsStep, Bool.and_eq_true, all_id_map, all_id_map] at h ⊢
      exact ⟨fun a ha => fitsArg_mono S F lim lim' hle hS false lim.maxlevel lim'.maxlevel a hl (h.1 a ha),
        fun p hp => fitsArg_mono S F lim lim' hle hS false lim.maxlevel lim'.maxlevel p.2 hl (h.2 p hp)⟩
  termination_by s => sizeOf s
  decreasing_by all_goals c18_dec
end

theorem fitsSteps_mono (S : ScalarOps L) (F : FmtFacts) (lim lim' : Limits) (hle : lim.le lim' = true)
    (hS : ∀ v, S.fits lim v = true → S.fits lim' v = true) (steps : List (Step L))
    (h : fitsSteps S F lim steps = true) : fitsSteps S F lim' steps = true := by
  unfold fitsSteps at h ⊢
  rw [List.all_eq_true] at h ⊢
  exact fun s hs => fitsStep_mono S F lim lim' hle hS s (h s hs)

/-- what `reprlib` leaves in place of a cut scalar / a dropped element is not an expression
    for the value -/
theorem parseArg_bad (s : String) : parseArg [(Tok.bad s : Tok L)] = none := by
  rw [parseArg]
  all_goals simp

theorem parseArg_fill : parseArg [(Tok.fill : Tok L)] = none := by
  rw [parseArg]
  all_goals simp

end roundtrip

/-- the scalars of Python are printed in full under larger limits too -/
theorem pyScalar_fits_mono (lim lim' : Limits) (hle : lim.le lim' = true) (v : Scalar)
    (h : pyScalar.fits lim v = true) : pyScalar.fits lim' v = true := by
  obtain ⟨_, _, _, _, _, _, hs, hl, ho⟩ := le_fields hle
  cases v <;> simp only [pyScalar, Scalar.fits, decide_eq_true_eq, Bool.and_eq_true,
    Bool.or_eq_true] at h ⊢ <;> omega

/-! ### facts -/

theorem wf_parts {F : Facts} (h : WF F = true) :
    wfFmt F = true ∧ wfPickle F = true ∧ wfSeq F = true ∧ wfLimits F = true := by
  simp only [WF, Bool.and_eq_true] at h
  exact ⟨h.1.1.1, h.1.1.2, h.1.2, h.2⟩

theorem wf_fmt {F : Facts} (h : WF F = true) : F.fmt = F1 := by
  have h' := (wf_parts h).1
  simp only [wfFmt, Bool.and_eq_true] at h'
  obtain ⟨⟨⟨h1, h2⟩, h3⟩, h4⟩ := h'
  cases hf : F.fmt with
  | mk a b c d =>
    rw [hf] at h1 h2 h3 h4; simp only at h1 h2 h3 h4; subst h1; subst h2; subst h3; subst h4; rfl

/-- the limits the model reads are at least `sys.maxsize` -/
theorem wf_limits_ge {F : Facts} (h : WF F = true) :
    (Limits.uniform F.sysMaxsize F.lim.plainSeg).le F.lim = true := by
  have h' := (wf_parts h).2.2.2
  simp only [wfLimits, Bool.and_eq_true, List.all_eq_true] at h'
  have hn : ∀ n ∈ modelLimitNames, F.sysMaxsize ≤ (F.limitTable.lookup n).getD 0 := by
    intro n hn
    have := h'.1 n (by simp [hn])
    cases hl : F.limitTable.lookup n with
    | none => rw [hl] at this; simp at this
    | some v => rw [hl] at this; simpa using this
  simp only [Limits.le, Limits.uniform, Facts.lim, limitsOf, Bool.and_eq_true, beq_self_eq_true, and_true]
  refine ⟨⟨⟨⟨⟨⟨⟨⟨?_, ?_⟩, ?_⟩, ?_⟩, ?_⟩, ?_⟩, ?_⟩, ?_⟩, ?_⟩
  · exact decide_eq_true (hn "maxlevel" (by decide))
  · exact decide_eq_true (hn "maxtuple" (by decide))
  · exact decide_eq_true (hn "maxlist" (by decide))
  · exact decide_eq_true (hn "maxdict" (by decide))
  · exact decide_eq_true (hn "maxset" (by decide))
  · exact decide_eq_true (hn "maxfrozenset" (by decide))
  · exact decide_eq_true (hn "maxstring" (by decide))
  · exact decide_eq_true (hn "maxlong" (by decide))
  · exact decide_eq_true (hn "maxother" (by decide))

/-- plain segments go through `bbrepr` like every other literal -/
theorem wf_plainSeg {F : Facts} (h : WF F = true) : F.lim.plainSeg = false := by
  have h' := (wf_parts h).2.2.2
  simp only [wfLimits, Bool.and_eq_true, beq_iff_eq] at h'
  simp [Facts.lim, limitsOf, h'.2.1.2]

theorem wf_sysMaxsize {F : Facts} (h : WF F = true) : minLimit ≤ F.sysMaxsize := by
  have h' := (wf_parts h).2.2.2
  simp only [wfLimits, Bool.and_eq_true, decide_eq_true_eq] at h'
  exact h'.2.1.1.1.1

theorem uniform_le (a b : Nat) (p : Bool) (h : a ≤ b) : (Limits.uniform a p).le (Limits.uniform b p) = true := by
  simp [Limits.le, Limits.uniform, h]

theorem pickle_roundtrip {L : Type} (F : Facts) (hwf : WF F = true) (root : String)
    (hr : root ∈ ["T", "S", "A"]) (steps : List (Step L)) :
    (getstate F.getstateRoots root steps).bind (setstate F.setstateRoots) = some (root, steps) := by
  have h' := (wf_parts hwf).2.1
  simp only [wfPickle, List.all_eq_true, Bool.and_eq_true] at h'
  obtain ⟨h1, h2⟩ := h' root hr
  simp only [List.contains_eq_mem, decide_eq_true_eq] at h1 h2
  simp [getstate, setstate, h1, h2]

theorem pickleObj_valid {L : Type} (F : Facts) (hwf : WF F = true) (x : Obj L)
    (hv : validObj x = true) : pickleObj F x = some x := by
  cases x with
  | tobj r s =>
    simp only [validObj, Bool.and_eq_true, List.contains_eq_mem, decide_eq_true_eq] at hv
    simp only [pickleObj, pickle_roundtrip F hwf r hv.1 s, Option.map_some]
  | pobj r s =>
    simp only [validObj, Bool.and_eq_true, List.contains_eq_mem, decide_eq_true_eq] at hv
    simp only [pickleObj, pickle_roundtrip F hwf r hv.1.1 s, Option.map_some]


/-- as a dict, the keyword arguments of a call are unchanged by normalising: same keys, same values -/
theorem sortKw_perm {α : Type} (kwargs : List (String × α)) : (sortKw kwargs).Perm kwargs :=
  List.mergeSort_perm kwargs _

/-- Python's slice semantics as modelled: every selected position exists, the
    length is `len(range(*slice.indices(n)))`, `xs[:]` is `xs`, slicing commutes
    with mapping the elements. -/
theorem pySlice_props {α β : Type} (xs : List α) (a b c : Option Int) :
    (∀ ys, pySlice xs a b c = some ys →
      ys.length = sliceLen (sliceStart xs.length (c.getD 1) a) (sliceStop xs.length (c.getD 1) b)
        (c.getD 1)) ∧
    (c.getD 1 ≠ 0 → ∀ i ∈ sliceIdx xs.length a b (c.getD 1), i < xs.length) ∧
    (pySlice xs a b c = none ↔ c.getD 1 = 0) ∧
    pySlice xs none none none = some xs ∧
    (∀ f : α → β, pySlice (xs.map f) a b c = (pySlice xs a b c).map (List.map f)) := by
  refine ⟨fun ys h => pySlice_length xs a b c ys h, fun h => sliceIdx_lt _ a b _ h, ?_,
    pySlice_full xs, fun f => pySlice_map f xs a b c⟩
  simp only [pySlice]
  split <;> simp_all


/-- the Path a sequence operation returns is rooted where the path was (or at T: `from_t`) -/
theorem seqRef_root {α : Type} [DecidableEq α] (root : String) (hr : root ∈ ["T", "S", "A"])
    (steps : List (String × α)) (op : SeqOp α) (r : String) (st : List (String × α))
    (h : seqRef root steps op = .path r st) : r ∈ ["T", "S", "A"] := by
  cases op <;> simp only [seqRef] at h
  case idx i =>
    split at h
    · split at h <;> simp_all
    · simp at h
  case slice a b c =>
    split at h <;> simp_all
  case concat other => simp_all
  case fromT =>
    simp only [SeqRes.path.injEq] at h
    rw [← h.1]
    split <;> simp_all
  all_goals simp at h

theorem pickleRes_ref {α : Type} [DecidableEq α] (F : Facts) (hwf : WF F = true) (root : String)
    (hr : root ∈ ["T", "S", "A"]) (steps : List (String × α)) (op : SeqOp α) :
    pickleRes F.getstateRoots F.setstateRoots (seqRef root steps op) = seqRef root steps op := by
  cases h : seqRef root steps op with
  | path r st =>
    have hr' := seqRef_root root hr steps op r st h
    have h' := (wf_parts hwf).2.1
    simp only [wfPickle, List.all_eq_true, Bool.and_eq_true] at h'
    have := h' r hr'
    simp only [pickleRes, this.1, this.2, Bool.and_self, if_true]
  | _ => rfl

end Glom.C18
