import Glom.Spec.C18
import Glom.Lemmas.C01
/-
  Helper lemmas for C18: Python slice semantics (`pySlice`), the sequence
  operations on the flat ops tuple, `walk_append` for C01's reference walk, and
  the `eval(repr)` round trip (split / join of token lists, mutual induction
  over arguments, items and steps).
-/
namespace Glom.C18

/-! ### `pySlice` -/

theorem pySlice_map {α β} (f : α → β) (xs : List α) (a b c : Option Int) :
    pySlice (xs.map f) a b c = (pySlice xs a b c).map (List.map f) := by
  unfold pySlice
  simp only [List.length_map]
  split
  · rfl
  · simp only [Option.map_some, Option.some.injEq, List.map_filterMap]
    congr 1
    funext i
    simp [List.getElem?_map]

theorem clampBound_range (n step b : Int) (hn : 0 ≤ n) :
    (0 < step → 0 ≤ clampBound n step b ∧ clampBound n step b ≤ n) ∧
    (step < 0 → -1 ≤ clampBound n step b ∧ clampBound n step b ≤ n - 1) := by
  unfold clampBound
  constructor <;> intro hs <;> split <;> (try split) <;> (try split) <;> omega

theorem sliceStart_range (n step : Int) (s : Option Int) (hn : 0 ≤ n) :
    (0 < step → 0 ≤ sliceStart n step s ∧ sliceStart n step s ≤ n) ∧
    (step < 0 → -1 ≤ sliceStart n step s ∧ sliceStart n step s ≤ n - 1) := by
  cases s with
  | none => unfold sliceStart; constructor <;> intro hs <;> (try split) <;> omega
  | some b => exact clampBound_range n step b hn

theorem sliceStop_range (n step : Int) (s : Option Int) (hn : 0 ≤ n) :
    (0 < step → 0 ≤ sliceStop n step s ∧ sliceStop n step s ≤ n) ∧
    (step < 0 → -1 ≤ sliceStop n step s ∧ sliceStop n step s ≤ n - 1) := by
  cases s with
  | none => unfold sliceStop; constructor <;> intro hs <;> (try split) <;> omega
  | some b => exact clampBound_range n step b hn

/-- every position a slice selects exists: `0 ≤ start + j·step < n` for `j < len` -/
theorem sliceIdx_lt (n : Nat) (a b : Option Int) (step : Int) (hstep : step ≠ 0) :
    ∀ i ∈ sliceIdx n a b step, i < n := by
  intro i hi
  simp only [sliceIdx, List.mem_map, List.mem_range] at hi
  obtain ⟨j, hj, rfl⟩ := hi
  have hs := sliceStart_range n step a (by omega)
  have he := sliceStop_range n step b (by omega)
  generalize sliceStart (↑n) step a = s at *
  generalize sliceStop (↑n) step b = e at *
  unfold sliceLen at hj
  by_cases hpos : 0 < step
  · have hneg : ¬ step < 0 := by omega
    simp only [hneg, if_false] at hj
    split at hj
    · rename_i hlt
      have hq : (j : Int) ≤ (e - s - 1) / step := by omega
      have := (Int.le_ediv_iff_mul_le hpos).mp hq
      obtain ⟨h1, h2⟩ := hs.1 hpos
      obtain ⟨h3, h4⟩ := he.1 hpos
      have hj0 : (0 : Int) ≤ (j : Int) * step := Int.mul_nonneg (by omega) (by omega)
      omega
    · omega
  · have hneg : step < 0 := by omega
    simp only [hneg, if_true] at hj
    split at hj
    · rename_i hlt
      have hq : (j : Int) ≤ (s - e - 1) / (-step) := by omega
      have := (Int.le_ediv_iff_mul_le (by omega : 0 < -step)).mp hq
      obtain ⟨h1, h2⟩ := hs.2 hneg
      obtain ⟨h3, h4⟩ := he.2 hneg
      have hj0 : (0 : Int) ≤ (j : Int) * (-step) := Int.mul_nonneg (by omega) (by omega)
      have hmul : (j : Int) * (-step) = -((j : Int) * step) := by rw [Int.mul_neg]
      omega
    · omega

theorem filterMap_get_length {α} (xs : List α) (l : List Nat) (hl : ∀ i ∈ l, i < xs.length) :
    (l.filterMap (fun i => xs[i]?)).length = l.length := by
  induction l with
  | nil => rfl
  | cons i r ih =>
    have hi := hl i (by simp)
    simp only [List.filterMap_cons, List.getElem?_eq_getElem hi, List.length_cons]
    rw [ih (fun k hk => hl k (by simp [hk]))]

/-- the length of a slice is the number of selected positions (none is dropped) -/
theorem pySlice_length {α} (xs : List α) (a b c : Option Int) (ys : List α)
    (h : pySlice xs a b c = some ys) :
    ys.length = sliceLen (sliceStart xs.length (c.getD 1) a) (sliceStop xs.length (c.getD 1) b)
      (c.getD 1) := by
  unfold pySlice at h
  split at h
  · cases h
  · rename_i hst
    simp only [Option.some.injEq] at h
    subst h
    rw [filterMap_get_length xs _ (sliceIdx_lt xs.length a b (c.getD 1) hst)]
    simp [sliceIdx]

theorem filterMap_range_get {α} (xs : List α) :
    ∀ (n : Nat), n ≤ xs.length → List.filterMap (fun i => xs[i]?) (List.range n) = xs.take n := by
  intro n
  induction n with
  | zero => intro _; simp
  | succ k ih =>
    intro hk
    rw [List.range_succ, List.filterMap_append, ih (by omega)]
    simp only [List.filterMap_cons, List.filterMap_nil]
    rw [List.getElem?_eq_getElem (show k < xs.length by omega)]
    rw [List.take_succ, List.getElem?_eq_getElem (show k < xs.length by omega)]
    rfl

/-- `xs[:]` is `xs` -/
theorem pySlice_full {α} (xs : List α) : pySlice xs none none none = some xs := by
  unfold pySlice
  simp only [Option.getD_none, show (1 : Int) ≠ 0 by decide, if_false, Option.some.injEq]
  have hidx : sliceIdx xs.length none none 1 = List.range xs.length := by
    simp only [sliceIdx, sliceStart, sliceStop, sliceLen]
    have h1 : ¬ ((1 : Int) < 0) := by decide
    simp only [h1, if_false]
    by_cases hn : (0 : Int) < xs.length
    · simp only [hn, if_true, Int.sub_zero, Int.ediv_one, Int.mul_one, Int.zero_add]
      rw [show ((xs.length : Int) - 1 + 1).toNat = xs.length by omega]
      apply List.ext_getElem
      · simp
      · intro i h1 h2; simp
    · have : xs.length = 0 := by omega
      simp [hn, this]
  rw [hidx, filterMap_range_get xs xs.length (Nat.le_refl _), List.take_length]

end Glom.C18
